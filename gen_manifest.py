#!/usr/bin/env python3
"""Regenerates MANIFEST.json from the table below (kept here so the manifest stays valid and consistent)."""
import json, subprocess

CLAIMED = {
 "C17": dict(
   text="Exhaustive static decision, over the finite node model and the walker's SSA, of: every node kind the parser can put in any child position has a walker clause (R1); every child field is walked on every non-error path (R2); parent before children and callback errors returned at once (R3). For this purely structural property these rules are the whole content: a walker satisfying them reaches every node of every parseable program.",
   note="Trusted: go/types + go/ssa (x/tools v0.29.0), the LALR table decoder (validated by recovering all 185 rules unambiguously), the producer flow analysis over the grammar actions. Assumes callbacks are reached only through astutil's walk functions.",
   technique="custom go/ssa + go/types analysis: exhaustiveness of type switches against a parser-derived node model, must-visit dataflow per clause, error-propagation rule",
   design="4 C17"),
}
CLAIMED["C19"] = dict(
   text="Static decision of the table clauses exhaustively (every one of the ~595 entries of every package table resolves, by go/types, to the exported Go object or named type it is listed under, in the package whose import path the table is registered under), plus structural necessary conditions of the builtins (listed names defined with the contract's result type; range: argument-count/zero-step rejections, strict bounds in both directions, roles of the three arguments, appends its induction variable; keys: one element per MapKeys entry; toSlice: Zero on the unconvertible edge). The value-level arithmetic of range near int64 limits and toInt/toFloat/toString versus strconv/fmt is NOT decided.",
   note="Trusted: go/types resolution, go/ssa. Secondary build configurations (GOARCH=386, tag appengine) are covered in the thorough tier. Decides the structural part only, not the conversions' numeric behaviour.",
   technique="go/types resolution of every table entry (exhaustive) + SSA shape rules for range/keys/toSlice",
   design="4 C19")
CLAIMED["C12"] = dict(
   text="Static decision of the structural skeleton of the dictionary-chain behaviour in package env (closed world, unexported fields): who may write the tables and under which dominating test (dot rule on the written key, set-never-creates, lazy creation only when nil), no table write before an error return, the scope written is the receiver (API contract per exported mutator: self / root / nearest binding), lookup order own table -> external lookup -> parent -> built-ins last and only at the root, copies build fresh maps and DeepCopy recurses over the whole chain, parent links only set on fresh objects (acyclicity), and every may-panic instruction of the API discharged (nil scope pointers incl. comma-ok clobber, indices, assertions). Full functional equivalence with a dictionary model over all call histories is NOT decided.",
   note="Trusted: go/ssa, dominance-based guards. Receivers assumed non-nil and host-supplied reflect.Values valid. Decides necessary structural conditions, not refinement.",
   technique="SSA effect/ownership analysis + dominance rules over package env (who-may-write, order, nil-ness)",
   design="4 C12")
CLAIMED["C13"] = dict(
   text="Lockset/typestate analysis over every function of package env: every access to a scope's values/types tables (field load, nil test, len, lookup, range and each range step, update, delete, store, escape) is made under that scope's RWMutex in a sufficient mode; lock/unlock pair on all paths; no re-acquisition of a held scope lock through a callee; check-then-act and two-table snapshots stay inside one critical section. Because the guarded fields are unexported this is complete for data races and self-deadlock on the tables for ALL schedules. Linearizability of operations spanning several scopes is NOT decided.",
   note="Trusted: go/ssa, sync.RWMutex. externalLookup field is unguarded and outside the listed operations.",
   technique="lockset / typestate dataflow on SSA (closed-world package)",
   design="4 C13")
CLAIMED["C14"] = dict(
   text="Exhaustive effect/ownership analysis over every store-like instruction of vm, env, core, astutil: no write (store, map update, append-into, SetPosition, reflective handle) into a parsed tree except on nodes allocated in the same function; no write to or through a package-level variable of vm/env/parser/ast/core outside package initialisers (incl. nodes shared through a global); per-run records never escape their run; import only iterates the shared package tables and re-binds entries in a fresh environment; every reflect.Value kept in a package-level variable is built non-addressable (so & / *p = v cannot reach shared storage). Holds for all programs, run counts and interleavings because it is a may-write analysis. Determinism of host functions and data races in script-owned data are NOT decided.",
   note="Trusted: go/ssa, local store-to-load forwarding within a block; closed-world over the module's packages. Two addressable globals are allow-listed with reasons (vm.errorNilValue, env.NilValue) and their uses checked.",
   technique="SSA effect / ownership (who-may-write) analysis with positive control",
   design="4 C14")
CLAIMED["C04"] = dict(
   text="Typestate analysis of the scope cell of the interpreter's per-run record over every function of vm: (R1) every function that switches the scope restores the entry scope at every return, on every exit path — with the inductive hypothesis that callees do the same this is the 'after any statement, by any exit, execution continues in the scope current before it' clause for all programs; (R2) block statements run in a fresh child scope; (R3) who-may-call discipline for binding forms (assignment = set nearest else define here with the same name and value; var / for-in / catch / parameters define in the current scope; no global define); (R4) function values capture the defining scope at creation and every invocation gets a fresh record and a fresh child scope. Name lookup order is decided under C12.",
   note="Trusted: go/ssa; the abstraction Orig/Child/Other of the scope cell; callee-preserves-scope is the induction hypothesis discharged by the same rule on every callee. One reasoned exception (NewModule error edge, infeasible for parsed identifiers).",
   technique="SSA typestate (pairing) dataflow on the interpreter's scope cell + who-may-call rules",
   design="4 C04")
CLAIMED["C07"] = dict(
   text="Path analysis of every handler over 'evaluation events' (calls of the four dispatchers on the current record, tagged with the operand path held by the expr/stmt cell): at most once per path (with index-loop and script-loop retirement), source order of operand fields taken from the grammar actions ($n ranks), ascending list indices, error cell provably nil at every event (abstract error-cell analysis with boolean-sensitive callee summaries), the short-circuit structure of ?:, ||, &&, ??, the fast path reporting 'not handled' only before any evaluation, and no evaluation in code that runs later for go/defer. These are value-independent path properties, so they hold for all programs. The documented double evaluation of x op= e and the order inside host functions are outside.",
   note="Trusted: go/ssa, operand-path abstraction (node.Field[index]), callee summaries of the error cell. One known finding (receive statement ignores an error of the ok target; pinned by a test).",
   technique="SSA dataflow over evaluation events (may-set / ordering / typestate of the error cell)",
   design="4 C07")
CLAIMED["C02"] = dict(
   text="Static necessary conditions of cancellability, for all programs and all instants: the statement dispatcher polls the run's context before every dispatch; every interpreter cycle that evaluates script code and is not bounded by the program text passes a poll (cycle test on the CFG after deleting polling blocks); every operation a script can block on is a reflect.Select whose case 0 waits on ctx.Done() of the current record and whose chosen==0 branch raises ErrInterrupt and leaves; every context handed to script code originates from the current record / own parameter / incoming argument, never from a captured record or context.Background; ErrInterrupt is never wrapped and never overwritten outside the recover handler and the deferred-call runner (whose precedence rule is checked). The length of the bound and time inside one host call are NOT decided.",
   note="Trusted: go/ssa, abstract error-cell analysis. Known finding: the func-type adapter runs callbacks under context.Background (the statement's own 'known hole').",
   technique="CFG cycle/must-pass analysis + value-origin (taint-style) analysis of context values + abstract error-cell dataflow",
   design="4 C02")
CLAIMED["C08"] = dict(
   text="How break/continue/return travel is decided for all programs with an abstract interpretation of the interpreter's error cell (nil / the three control signals / interrupt / other, callee summaries refined by the node kinds an operand can be): the signals are raised only by the statement list under the matching clause and the list stops; they are consumed only by script loops (break/continue) and invocation roots (return) — every other overwrite of a pending signal is reported; all five loop handlers test the three signals, start each iteration with a nil error, leave on break, stay on continue, pass return upward; the C-style loop reaches its post expression on continue; at most one branch body of if/switch runs per path; no element of a statement/case/condition list is skipped. Which branch is taken (truthiness, equality) is value-level and NOT decided.",
   note="Trusted: go/ssa, the error-cell abstraction and its summaries. Known finding: try clears pending break/continue/return (pinned by TestTry).",
   technique="abstract interpretation of the error cell on SSA + CFG loop-structure rules (sibling agreement of loop handlers)",
   design="4 C08")
CLAIMED["C09"] = dict(
   text="Static decision of the sequencing skeleton for all programs: every invocation root passes the deferred-call runner on every exit after its body; the runner takes the list out first, registration appends, the walk is len-1..0 by -1 over the saved list (LIFO, once), the result value is restored and a deferred call's error replaces the saved one exactly when that is nil or the return signal; try: catch is control-dependent on an error, the catch variable is bound to it before it is cleared, finally lies on every exit that can be error-free; throw always raises with the statement's position; the host receives the error cell. Together with C07.R3 (nothing is evaluated while an error is pending) and C07.R6 (arguments captured at the defer statement). Message texts are NOT decided.",
   note="Trusted: go/ssa, error-cell abstraction. try catching control signals is recorded under C08.R2 (known finding).",
   technique="must-pass-through / dominance rules on SSA + abstract error-cell refinement for the precedence rule",
   design="4 C09")
CLAIMED["C01"] = dict(
   text="Containment of Go panics decided as a coverage property of the call graph, for all programs: from every exported entry point of vm no evaluator is reachable through calls that are not made under a deferred recover handler which only the Debug option can disable (the unprotected call chain is reported); host calls made outside every recover (deferred calls) are themselves protected; every go statement starts a body that runs under its own recover; no process-exit call exists in the interpreter packages; the recover handler is total; reflect operations executed outside every recover are guarded. With the boundary recover in place individual kind/bounds guards are not needed for this property (a missing one turns a clean message into a recovered-panic error) and are deliberately not armed. The parse path, which has no recover, is covered by the may-panic enumeration shared with C15.R3. Unrecoverable runtime faults (stack, memory, concurrent map writes, deadlock) are outside the statement.",
   note="Trusted: go/ssa static call graph of package vm (script functions are reached only through the closures built in funcExpr, which install their own boundary), reflect panics being ordinary panics.",
   technique="call-graph reachability under 'active deferred recover' + dominance rules on SSA (who-may-call, must-pass-through)",
   design="4 C01")
CLAIMED["C03"] = dict(
   text="Exhaustive static decision from the compiled parser: the grammar is recovered from the LALR tables alone and, for every completed binary / prefix / ternary item in every state it can occur in, the table's action on every operator lookahead is compared with the operator ladder of the statement (about 600 state x lookahead cells). Since an LR parser's decision depends only on (state, lookahead), this settles precedence and associativity for expression trees of any depth in every statement position. Actions: every expression symbol of a production is placed in the node built, operand fields take distinct symbols, productions agree on field order, the ?: production and its evaluator agree on the branches. Spelling: scanner character sequence -> token -> Operator string -> evaluator case agree for every operator production. Numbers: toNumber returns the unmodified strconv result, propagates every error, and the actions make it a parse error. Literal values themselves are delegated to strconv.",
   note="Trusted: the table decoder (replica of goyacc's runtime lookup; validated by unambiguous recovery of all 185 rules and by table range checks), go/types constant evaluation. Known finding: `in` is right-associative (pinned by TestItemInList).",
   technique="exhaustive query of the LALR automaton recovered from the tables + syntax-tree rules over the grammar actions and the scanner",
   design="4 C03")
CLAIMED["C15"] = dict(
   text="Totality and statelessness of parsing decided statically: every cycle of every scanner method has a net cursor advance (min-weight cycle search in the product of the CFG with 'cursor still on the head character', conditions on that character constant-folded), every token returned advances the cursor and never retreats behind its start, with the cursor at the end of input no loop can go round (EOF-world constant folding); the recovered grammar has no unit/empty derivation cycle; every may-panic instruction on the parse path (about 6800 obligations: slice indices and bounds in the hand-written scanner, type assertions / dereferences / method calls on semantic values in all 185 actions, $n windows, list element accesses) is discharged by a dominating guard, by the kinds and non-nil-ness every production assigns to the grammar symbol, or by the validated table ranges; each parse works on fresh objects; error positions come from the scanner's position of the current token, captured after blanks and before consumption; statement lists append in order; identifiers exclude '.'. Line/column arithmetic and the concatenation law are value-level and only follow informally.",
   note="Trusted: go/ssa, the constant-folding interpreter for the small rune predicates, the goyacc runtime skeleton (compared with goyacc's own output in the thorough tier).",
   technique="weighted-cycle (Bellman-Ford) analysis of the scanner CFG with constant folding + exhaustive may-panic obligation discharge over grammar actions",
   design="4 C15")
CLAIMED["C16"] = dict(
   text="Exactly-once FIFO delivery is Go's; decided statically is that each script channel operation is exactly one Go channel operation on the script's channel with a faithful outcome: one receiving reflect.Select per receive form with the operand channel as its case and the received value as result; one sending select with the value converted to the channel's element type (error checked first); on the closed edge nothing is sent on, no loop body runs, the value target is not assigned, the ok target gets false (true otherwise) and the receive expression yields nil; Call/CallSlice follow the flag computed with the argument list at every call site including goroutine and deferred paths. Scheduling, order and buffering are the runtime's and are NOT decided.",
   note="Trusted: go/ssa; reflect.Select semantics; the recover boundary of C01 for send-on-closed / double close.",
   technique="SSA structural rules over reflect.Select sites (case literals, result uses, reachability from the closed edge) + flag/edge consistency",
   design="4 C16")
CLAIMED["C18"] = dict(
   text="The mapping from the library's verdict to the process exit code is decided on the SSA of package main: 0 is returned only on the nil edge of vm.Execute's error, the non-nil edge prints exactly one line containing the error and returns 4, every other error (reading the file) is tested and returns 2, main passes the runner's result to os.Exit; vm.Execute is called once with nil options on the environment prepared with args and core.Import, with the bundled packages linked; script arguments are flag.Args()[1:] guarded by NArg. What the built binary prints and how the OS reports the exit are NOT decided.",
   note="Trusted: go/ssa; os.Exit semantics.",
   technique="dominance rules on SSA of the CLI (return-constant vs error-edge mapping, error-propagation rule)",
   design="4 C18")
CLAIMED["C20"] = dict(
   text="Provenance independence decided by a 'wrapped world' abstract interpretation of every function of vm: every source of operand values is assumed to be wrapped in an interface (as a value read from a container, struct field, channel, scope or interface{}-returning call is), tests on wrapped values are folded and infeasible edges pruned, and any kind-sensitive reflect operation, discriminating helper argument, or outcome decided by the wrapper on a never-unwrapped value is reported with the operation and the operand. The unwrap idiom is recognised semantically in all its spellings; helper parameters get summaries (tolerant / discriminating). Because the analysis is over operations x operand positions and not over values, it covers all provenance chains of any length (a chain only ever adds the one wrapper the simulation assumes). On today's tree it reproduces the five sites the statement lists as missing plus three more (all repaired).",
   note="Trusted: go/ssa, the list of kind-sensitive reflect operations, the assumption that wrappers are interface{} slots. CanAddr/CanSet differences between an element and a copy are treated as intended aliasing.",
   technique="abstract interpretation on SSA (taint-style typestate: wrapped / unwrapped) with path folding and helper summaries",
   design="4 C20")
CLAIMED["C05"] = dict(
   text="Decided: the structural necessary conditions of correct arithmetic, not the arithmetic results. R1 every arithmetic handler computes from the two operands it evaluated (left from LHS, right from RHS, never the same one twice) under the case of its own operator token, with the Go operator of that token. R2 for +,-,*,<,<=,>,>= an exact int64 path exists and is guarded by 'both operands are integer kinds' while the float path is its complement, so two integers are never routed through float64. R3 the small-integer cache is filled with exactly index-offset values and read with the same offset inside its bounds test. R4 / and % test the divisor against zero on every path before dividing integers. R5 string concatenation of a number uses the one formatting routine (fmt.Sprint-compatible) everywhere.",
   note="Not decided: the numeric results themselves, overflow/wrap-around behaviour, float formatting. Trusted: go/ssa and the Go operators.",
   technique="SSA dataflow (operand provenance from evaluation events to binary operators), dominance-based guard analysis, constant evaluation of the cache initialiser loop",
   design="4 C05")
CLAIMED["C06"] = dict(
   text="Decided: structural necessary conditions of a coherent equality; symmetry and coercion for all values are not decided. R1 '!=' is the negation of the very comparator call '==' makes (same callee, same operands, same order). R2 'in' and switch compare with that comparator only and its result decides. R3 in the comparator the two nil tests decide first (path-sensitive simulation over the four outcomes of the two tests). R4 the float64 comparison is unreachable when neither operand is a float and the int64 comparison reachable exactly then (simulation over the outcomes of the two is-float tests). R5 every strconv.ParseInt on operand strings is base 10 (bases 2/16 only on the unmodified prefix-tested string, where the prefix makes the parse fail); base 0 or a variable base is reported. R6 the formatted-string comparison of numbers is reachable only when both operands are floats (an int/float pair is compared through the same float64 projection <= and >= use). R7 the set of strconv parse routines (with bases) reachable from the conversions applied to a string operand is the same whichever side the string is on. R6 and R7 found two genuine defects (1000000 == 1000000.0 false; 1000000 == \"1000000\" false but the reverse true), repaired in /repo commit c361d96.",
   note="Not decided: symmetry in general, DeepEqual on containers, NaN, what strconv accepts. Trusted: go/ssa; reflect.Kind numbering (Float32=13, Float64=14, String=24) is read as constants of the loaded reflect package's values in the SSA.",
   technique="path-sensitive reachability on the SSA control-flow graph under fixed outcomes of named boolean tests; who-calls and sibling-agreement rules over resolved callees; transitive callee summaries (parse-routine sets)",
   design="4 C06")
CLAIMED["C10"] = dict(
   text="Decided: structural necessary conditions, not agreement with a Go model for all index values (with the boundary recover of C01 a missing bounds guard still yields an error, so per-site bounds guards are not armed). R1 typed stores convert first: at each of the ~34 places where package vm hands a value to reflect for storing (Value.Set, SetMapIndex key and value, reflect.Append/AppendSlice, select send) the stored value's symbolic type term is assignable to the term the sink requires (TypeOf(v), Elem/Key of the container's type), through a checked conversion whose error is tested first; conversion helpers get verified result-type summaries (fixpoint, recursion included). R2 every map read uses a key that is a string, one of the map's own keys, or passed the hashability predicate (whose definition is checked). R3 in the assignment/delete handlers no error is raised after a mutating store. R4 reads and writes address the element the node's own operands name: container = Item operand, index = int(Index), bounds = Begin/End/Cap with their defaults, map key = Index, stored value = the assigned value, string rebuild = Item[0:i] + value + Item[i+1:len]; every converted index operand determines the result on every successful path. R5 the map read helper returns the nil value on every not-found edge and the element only after the IsValid test; an unknown struct field is an error in both member handlers. R1 found one genuine defect (member assignment m.name = v on a map did not convert the name to the key type; repaired in /repo commit 07eba08).",
   note="Not decided: that each in-range operation returns exactly the addressed element for every index value, storage sharing of Slice3, automatic append (delegated to reflect). One dead sink (Set after Slice3, never settable) is a reasoned exception. Trusted: go/ssa, reflect's documented typing of MakeMap/MakeSlice/Zero/New/Convert/Index/Elem.",
   technique="symbolic type-term algebra over SSA values with reaching definitions for the interpreter's value cell, verified callee summaries, dominance-based guard facts (type and kind equalities); operand-provenance analysis (node operand -> reflect addressing call) with single-caller helper resolution; CFG reachability for failure-after-mutation",
   design="4 C10")
CLAIMED["C11"] = dict(
   text="Decided: that every crossing of the Go boundary goes through the conversion with the right target type and that nothing is dropped; not what reflect's conversion yields for which value. R1 in the argument builder every value appended for a Go function is result 0 of the error-checked conversion to In(rt, k), where k equals the position it lands at (the length of the argument list and the parameter index are proved to advance in lockstep by pairing the phis of the slice and of the index, induction over the loops), to Elem(In(rt, NumIn-1)) for variadic elements or the last parameter's type for a spread; VM functions get the double-boxed value. R2 every evaluated argument expression is appended before the next evaluation or a successful return; direct calls and wrapper literals pass arguments 0..n-1 in order; the spread list must match the remaining parameters exactly (today it does not: known finding, pinned by TestVariadicFunctions). R3 the result protocol: no result -> nil value, exactly one -> that very value, several -> a list built by a range with exactly one append on every path of the body; VM function: value unboxed from result 0 only after the error unboxed from result 1 tested nil. R4 package env stores the reflect.Value handed in (or table elements when copying a scope), lookups return the table element / external lookup result / parent's answer, Define and Set wrap with reflect.ValueOf and substitute a nil value only under value == nil. R5 the callback adapter boxes in[i] for every i < NumIn(), every return follows the nil-error edge of the result protocol whose error edge cannot reach a return (panics), results are converted to Out(rt, i) for the matching i with failure -> panic. R6 a call node built from another node copies every shared field its consumers read; member lookups use the node's Name and Value.MethodByName precedes the pointer indirection.",
   note="Not decided: the conversion table for all (source kind, target kind) pairs, numeric truncation, that the total number of arguments equals the parameter count for every call shape (the count checks are numeric), identity of values through containers (C20 covers unwrapping). Trusted: go/ssa, reflect's typing of In/Out/Elem.",
   technique="symbolic type terms and reaching definitions on SSA (as C10.R1), phi-pairing induction for slice length vs index, must-pass-through and divergence checks on the CFG, evaluation-event provenance, who-reads-which-field analysis for rebuilt nodes, SSA value identity in package env",
   design="4 C11")
NOT_YET = "checker for this property is not built yet in this revision (see DESIGN.md section 4 for the planned static rules)"
ALL = ["C%02d" % i for i in range(1, 21)]

def main():
    hooks_commits = []
    m = {
      "version": 1,
      "setup_cmd": "./build.sh",
      "hooks": {
        "guard": "verif",
        "enable": "none needed: static analysis reads the source; no hook or instrumentation commit exists in /repo (build tag 'verif' is reserved and unused)",
        "baseline_off_cmd": "cd /repo && GOFLAGS=-mod=mod GOPROXY=off GOSUMDB=off GOTOOLCHAIN=local go test -vet=off -count=1 ./...",
        "source_commits": hooks_commits,
        "add_only": True,
      },
      "engines": [
        {"name": "ankocheck", "path": "checker/", "serves_properties": sorted(CLAIMED), "kind_free_text": "repository-specific static analyser (go/packages + go/types + go/ssa, x/tools v0.29.0): node model, LALR table decoder, SSA dataflow rules; one subcommand per property"},
      ],
      "checks": [],
      "not_applicable": [],
      "notes": "All checks are static: each invocation re-loads /repo's working tree, type-checks it, builds SSA and decides the listed rules; nothing in /repo is executed. Violations name rule, instance and file:line; `bin/ankocheck explain <replay>` prints the replay record. known_findings.jsonl lists genuine defects (status known) and repaired ones (status fixed, suppress nothing).",
    }
    for pid in ALL:
        if pid in CLAIMED:
            c = CLAIMED[pid]
            m["checks"].append({
              "property_id": pid,
              "quick_cmd": "./check %s quick" % pid,
              "thorough_cmd": "./check %s thorough" % pid,
              "evidence_file": "/verif/evidence/%s.json" % pid,
              "replay_cmd_template": "bin/ankocheck explain {path}",
              "engine": "ankocheck",
              "level_claimed": {"category": "other", "text": c["text"], "design_ref": c["design"]},
              "level_note": c["note"],
              "technique": c["technique"],
            })
        else:
            m["not_applicable"].append({"property_id": pid, "reason": NOT_YET})
    json.dump(m, open("MANIFEST.json", "w"), indent=1)
    print("MANIFEST.json:", len(m["checks"]), "checks,", len(m["not_applicable"]), "not applicable")

main()
