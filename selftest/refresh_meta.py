#!/usr/bin/env python3
"""selftest/refresh_meta.py <seed-id>...   re-run all static checks on recorded seeded changes (the confirmation by tests is
not repeated) and rewrite caught_by / reports in their meta.json; the first-run result is kept under first_run_caught_by."""
import json, os, re, shutil, subprocess, sys, tempfile
VERIF = os.path.dirname(os.path.dirname(os.path.abspath(__file__)))
ENV = dict(os.environ, GOFLAGS="-mod=mod -trimpath", GOPROXY="off", GOSUMDB="off", GOTOOLCHAIN="local", GOWORK="off")
for sid in sys.argv[1:]:
    sd = os.path.join(VERIF, "seeded", sid)
    meta = json.load(open(os.path.join(sd, "meta.json")))
    d = tempfile.mkdtemp(prefix="ankometa.")
    try:
        repo = os.path.join(d, "repo"); os.makedirs(repo)
        subprocess.run("git -C /repo archive HEAD | tar -x -C %s" % repo, shell=True, check=True)
        subprocess.run(["patch", "-p1", "-s", "-i", os.path.join(sd, "patch.diff")], cwd=repo, check=True)
        vd = os.path.join(d, "verif"); os.makedirs(os.path.join(vd, "evidence"))
        for f in ("known_findings.jsonl", "exceptions.json", "properties.jsonl"):
            shutil.copy(os.path.join(VERIF, f), vd)
        out = subprocess.run([os.path.join(VERIF, "bin/ankocheck"), "all", "--root", repo], env=dict(ENV, VERIF_DIR=vd), capture_output=True, text=True)
        if out.returncode not in (0, 1):
            print(sid, "CHECKER DIED, status", out.returncode, (out.stdout + out.stderr)[:300]); continue
        out = out.stdout
        fired = [l.strip() for l in out.splitlines() if re.match(r"^  C\d\d \[", l)]
        meta.setdefault("first_run_caught_by", meta.get("caught_by", []))
        meta["caught_by"] = sorted(set(re.findall(r"\[(C\d\d\.R\d+)\]", "\n".join(fired))))
        meta["reports"] = [f[:300] for f in fired][:8]
        meta["checks_run"] = ["all"]
        json.dump(meta, open(os.path.join(sd, "meta.json"), "w"), indent=1)
        print(sid, meta["first_run_caught_by"], "->", meta["caught_by"])
    finally:
        shutil.rmtree(d, ignore_errors=True)
