// gomutate lists mechanical source mutations (one JSON object per line) for the given Go files:
// statement deletion, relational / logical operator replacement, condition negation, integer literal +-1.
// It only describes them (file, byte range, replacement); selftest/sweep.py applies and evaluates them.
package main

import (
	"encoding/json"
	"fmt"
	"go/ast"
	"go/parser"
	"go/token"
	"os"
	"strconv"
)

type mut struct {
	File  string `json:"file"`
	Start int    `json:"start"`
	End   int    `json:"end"`
	New   string `json:"new"`
	Kind  string `json:"kind"`
	Func  string `json:"func"`
	Line  int    `json:"line"`
}

func main() {
	enc := json.NewEncoder(os.Stdout)
	if len(os.Args) > 1 && os.Args[1] == "-benign" {
		benign(enc, os.Args[2:])
		return
	}
	if len(os.Args) > 1 && os.Args[1] == "-refactor" {
		refactor(enc, os.Args[2:])
		return
	}
	for _, path := range os.Args[1:] {
		src, err := os.ReadFile(path)
		if err != nil {
			fmt.Fprintln(os.Stderr, err)
			os.Exit(1)
		}
		fset := token.NewFileSet()
		f, err := parser.ParseFile(fset, path, src, parser.ParseComments)
		if err != nil {
			fmt.Fprintln(os.Stderr, err)
			os.Exit(1)
		}
		off := func(p token.Pos) int { return fset.Position(p).Offset }
		for _, d := range f.Decls {
			fd, ok := d.(*ast.FuncDecl)
			if !ok || fd.Body == nil {
				continue
			}
			name := fd.Name.Name
			emit := func(n ast.Node, repl, kind string) {
				enc.Encode(mut{path, off(n.Pos()), off(n.End()), repl, kind, name, fset.Position(n.Pos()).Line})
			}
			ast.Inspect(fd.Body, func(n ast.Node) bool {
				switch x := n.(type) {
				case *ast.BlockStmt:
					for _, st := range x.List {
						switch s := st.(type) {
						case *ast.ExprStmt:
							emit(s, "", "delete call statement")
						case *ast.AssignStmt:
							if s.Tok == token.ASSIGN {
								emit(s, "", "delete assignment")
							}
						case *ast.IncDecStmt:
							emit(s, "", "delete inc/dec")
						case *ast.ReturnStmt, *ast.BranchStmt:
							_ = s
						}
					}
				case *ast.CaseClause:
					for _, st := range x.Body {
						switch s := st.(type) {
						case *ast.ExprStmt:
							emit(s, "", "delete call statement")
						case *ast.AssignStmt:
							if s.Tok == token.ASSIGN {
								emit(s, "", "delete assignment")
							}
						}
					}
				case *ast.IfStmt:
					c := string(src[off(x.Cond.Pos()):off(x.Cond.End())])
					emit(x.Cond, "!("+c+")", "negate condition")
				case *ast.BinaryExpr:
					repl := map[token.Token]string{token.LSS: "<=", token.LEQ: "<", token.GTR: ">=", token.GEQ: ">", token.EQL: "!=", token.NEQ: "==", token.LAND: "||", token.LOR: "&&", token.ADD: "-", token.SUB: "+"}
					if r, ok := repl[x.Op]; ok {
						enc.Encode(mut{path, off(x.OpPos), off(x.OpPos) + len(x.Op.String()), r, "operator " + x.Op.String() + " -> " + r, name, fset.Position(x.OpPos).Line})
					}
				case *ast.UnaryExpr:
					if x.Op == token.NOT {
						enc.Encode(mut{path, off(x.OpPos), off(x.OpPos) + 1, "", "drop !", name, fset.Position(x.OpPos).Line})
					}
				case *ast.BasicLit:
					if x.Kind == token.INT {
						if v, err := strconv.ParseInt(x.Value, 0, 64); err == nil && v < 1000 {
							emit(x, strconv.FormatInt(v+1, 10), "literal +1")
							if v > 0 {
								emit(x, strconv.FormatInt(v-1, 10), "literal -1")
							}
						}
					}
				case *ast.BranchStmt:
					if x.Tok == token.BREAK && x.Label == nil {
						emit(x, "continue", "break -> continue")
					} else if x.Tok == token.CONTINUE && x.Label == nil {
						emit(x, "break", "continue -> break")
					}
				}
				return true
			})
		}
	}
}
