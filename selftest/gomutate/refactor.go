package main

// Behaviour-preserving *refactorings* (selftest/sweep.py benign --refactor): the things a maintainer does while tidying up.
// Unlike benign.go these need type information (go/types with the source importer; run with cwd = the module root):
//
//   extract helper        a condition / returned expression / assigned expression becomes a call of a new package-level
//                         function whose parameters are the local variables the expression reads
//   hoist leftmost call   if a.f() == K && ...   ->   { t := a.f(); if t == K && ... }     (the leftmost operand is evaluated first anyway)
//   hoist if-init         if x := f(); c {}      ->   { x := f(); if c {} }
//   tagless switch        switch x.Kind() { case A, B: }  ->  switch { case x.Kind() == A || x.Kind() == B: }   (pure tags only)
//   switch with init      switch x.Kind() {...}  ->  switch k := x.Kind(); k {...}
//   for as while          for i := 0; c; i++ { body }  ->  { i := 0; for c { body; i++ } }   (bodies without continue)
//   else after return     if c { ...; return } else { B }  ->  if c { ...; return }; B       (last statement of its block)
//   hoist call argument   f(g(x), y)             ->   t := g(x); f(t, y)                     (first argument, plain callee)
//
// Every rewrite keeps evaluation order, values and effects; anything a check reports on the rewritten tree is a false alarm.

import (
	"encoding/json"
	"fmt"
	"go/ast"
	"go/importer"
	"go/parser"
	"go/token"
	"go/types"
	"os"
	"path/filepath"
	"sort"
	"strings"
)

func refactor(enc *json.Encoder, paths []string) {
	byDir := map[string][]string{}
	for _, p := range paths {
		byDir[filepath.Dir(p)] = append(byDir[filepath.Dir(p)], p)
	}
	var dirs []string
	for d := range byDir {
		dirs = append(dirs, d)
	}
	sort.Strings(dirs)
	for _, dir := range dirs {
		fset := token.NewFileSet()
		pkgs, err := parser.ParseDir(fset, dir, func(fi os.FileInfo) bool { return !strings.HasSuffix(fi.Name(), "_test.go") }, parser.ParseComments)
		if err != nil {
			fmt.Fprintln(os.Stderr, err)
			os.Exit(1)
		}
		for _, pkg := range pkgs {
			var files []*ast.File
			var names []string
			for n := range pkg.Files {
				names = append(names, n)
			}
			sort.Strings(names)
			for _, n := range names {
				files = append(files, pkg.Files[n])
			}
			info := &types.Info{Types: map[ast.Expr]types.TypeAndValue{}, Uses: map[*ast.Ident]types.Object{}, Defs: map[*ast.Ident]types.Object{}, Selections: map[*ast.SelectorExpr]*types.Selection{}}
			conf := types.Config{Importer: importer.ForCompiler(fset, "source", nil), Error: func(error) {}}
			tp, _ := conf.Check(pkg.Name, fset, files, info)
			if tp == nil {
				continue
			}
			want := map[string]bool{}
			for _, p := range byDir[dir] {
				want[filepath.Clean(p)] = true
			}
			for i, f := range files {
				if want[filepath.Clean(names[i])] {
					refactorFile(enc, fset, names[i], f, tp, info)
				}
			}
		}
	}
}

func refactorFile(enc *json.Encoder, fset *token.FileSet, path string, f *ast.File, tp *types.Package, info *types.Info) {
	src, _ := os.ReadFile(path)
	off := func(p token.Pos) int { return fset.Position(p).Offset }
	text := func(n ast.Node) string { return string(src[off(n.Pos()):off(n.End())]) }
	imports := map[string]string{} // package path -> local name
	for _, im := range f.Imports {
		p := strings.Trim(im.Path.Value, `"`)
		name := ""
		if im.Name != nil {
			name = im.Name.Name
		}
		imports[p] = name
	}
	n := 0
	fresh := func(prefix string) string { n++; return fmt.Sprintf("%s%d", prefix, n) }

	// typeText: the type written as this file would write it, "" when it cannot (package not imported, unnamed struct, ...)
	typeText := func(t types.Type) string {
		ok := true
		s := types.TypeString(t, func(p *types.Package) string {
			if p == tp {
				return ""
			}
			local, imported := imports[p.Path()]
			if !imported || local == "." || local == "_" {
				ok = false
				return p.Name()
			}
			if local != "" {
				return local
			}
			return p.Name()
		})
		if !ok || strings.Contains(s, "struct{") || strings.Contains(s, "invalid type") || strings.HasPrefix(s, "untyped") || strings.Contains(s, "sync.") {
			return ""
		}
		if _, isArr := t.Underlying().(*types.Array); isArr {
			return ""
		}
		return s
	}

	// extractable: the free local variables of e in order of first use; ok=false when e must stay where it is
	extractable := func(e ast.Expr) (vars []*types.Var, ok bool) {
		ok = true
		seen := map[*types.Var]bool{}
		ast.Inspect(e, func(x ast.Node) bool {
			switch y := x.(type) {
			case *ast.FuncLit:
				ok = false
			case *ast.UnaryExpr:
				if y.Op == token.AND || y.Op == token.ARROW {
					ok = false
				}
			case *ast.Ident:
				if _, isBuiltin := info.Uses[y].(*types.Builtin); isBuiltin && y.Name == "recover" {
					ok = false
				}
				if v, isVar := info.Uses[y].(*types.Var); isVar && !v.IsField() && v.Parent() != tp.Scope() && v.Pkg() == tp {
					if !seen[v] {
						seen[v] = true
						vars = append(vars, v)
					}
				}
			}
			return ok
		})
		return
	}
	hasCallOrOp := func(e ast.Expr) bool {
		found := false
		ast.Inspect(e, func(x ast.Node) bool {
			switch x.(type) {
			case *ast.CallExpr, *ast.BinaryExpr:
				found = true
			}
			return !found
		})
		return found
	}
	eof := len(src)
	extract := func(e ast.Expr, fn string, line int, what string) {
		tv, has := info.Types[e]
		if !has || tv.Type == nil || !hasCallOrOp(e) {
			return
		}
		if _, tuple := tv.Type.(*types.Tuple); tuple {
			return
		}
		rt := typeText(tv.Type)
		if rt == "" {
			return
		}
		vars, ok := extractable(e)
		if !ok {
			return
		}
		var params, args []string
		for _, v := range vars {
			tt := typeText(v.Type())
			if tt == "" {
				return
			}
			params = append(params, v.Name()+" "+tt)
			args = append(args, v.Name())
		}
		name := fresh("zzExtracted")
		decl := "\n\nfunc " + name + "(" + strings.Join(params, ", ") + ") " + rt + " {\n\treturn " + text(e) + "\n}\n"
		enc.Encode(bmut{path, []edit{{off(e.Pos()), off(e.End()), name + "(" + strings.Join(args, ", ") + ")"}, {eof, eof, decl}}, "extract helper (" + what + ")", fn, line})
	}

	pureTag := func(e ast.Expr) bool { // an identifier, or x.Kind() / x.Type() on an identifier: evaluating it again changes nothing
		switch x := e.(type) {
		case *ast.Ident:
			return true
		case *ast.CallExpr:
			if sel, ok := x.Fun.(*ast.SelectorExpr); ok && len(x.Args) == 0 && (sel.Sel.Name == "Kind" || sel.Sel.Name == "Type") {
				_, ok := sel.X.(*ast.Ident)
				return ok
			}
		case *ast.SelectorExpr:
			_, ok := x.X.(*ast.Ident)
			return ok
		}
		return false
	}
	leftmost := func(e ast.Expr) ast.Expr {
		for {
			switch x := e.(type) {
			case *ast.BinaryExpr:
				e = x.X
			case *ast.ParenExpr:
				e = x.X
			case *ast.UnaryExpr:
				if x.Op == token.NOT {
					e = x.X
				} else {
					return e
				}
			default:
				return e
			}
		}
	}
	plainCallee := func(e ast.Expr) bool { // no evaluation happens in the callee expression itself
		for {
			switch x := e.(type) {
			case *ast.Ident:
				return true
			case *ast.SelectorExpr:
				e = x.X
			default:
				return false
			}
		}
	}
	containsContinue := func(b *ast.BlockStmt) bool {
		found := false
		ast.Inspect(b, func(x ast.Node) bool {
			if br, ok := x.(*ast.BranchStmt); ok && (br.Tok == token.CONTINUE || br.Tok == token.GOTO) {
				found = true
			}
			if _, ok := x.(*ast.FuncLit); ok {
				return false
			}
			return !found
		})
		return found
	}

	for _, d := range f.Decls {
		fd, ok := d.(*ast.FuncDecl)
		if !ok || fd.Body == nil {
			continue
		}
		fn := fd.Name.Name
		line := func(x ast.Node) int { return fset.Position(x.Pos()).Line }
		emit := func(x ast.Node, repl, kind string) {
			enc.Encode(bmut{path, []edit{{off(x.Pos()), off(x.End()), repl}}, kind, fn, line(x)})
		}
		nres := 0
		if fd.Type.Results != nil {
			for _, r := range fd.Type.Results.List {
				if len(r.Names) == 0 {
					nres++
				} else {
					nres += len(r.Names)
				}
			}
		}
		elseIfs := map[*ast.IfStmt]bool{}
		ast.Inspect(fd.Body, func(x ast.Node) bool {
			if is, ok := x.(*ast.IfStmt); ok {
				if e, ok := is.Else.(*ast.IfStmt); ok {
					elseIfs[e] = true
				}
			}
			return true
		})
		var visitBlock func(list []ast.Stmt)
		visitBlock = func(list []ast.Stmt) {
			for i, st := range list {
				last := i == len(list)-1
				switch s := st.(type) {
				case *ast.IfStmt:
					if s.Init == nil && !elseIfs[s] {
						if lm := leftmost(s.Cond); lm != s.Cond {
							if c, ok := lm.(*ast.CallExpr); ok {
								if tv, has := info.Types[c]; has && tv.Type != nil {
									if _, tuple := tv.Type.(*types.Tuple); !tuple && !tv.IsType() {
										t := fresh("condTmp")
										cond := string(src[off(s.Cond.Pos()):off(c.Pos())]) + t + string(src[off(c.End()):off(s.Cond.End())])
										enc.Encode(bmut{path, []edit{{off(s.Pos()), off(s.Cond.End()), "{\n" + t + " := " + text(c) + "\nif " + cond}, {off(s.End()), off(s.End()), "\n}"}}, "hoist leftmost call of condition", fn, line(s)})
									}
								}
							}
						}
					}
					if s.Init != nil && !elseIfs[s] {
						enc.Encode(bmut{path, []edit{{off(s.Pos()), off(s.Cond.Pos()), "{\n" + text(s.Init) + "\nif "}, {off(s.End()), off(s.End()), "\n}"}}, "hoist if-init", fn, line(s)})
					}
					if eb, ok := s.Else.(*ast.BlockStmt); ok && last && !elseIfs[s] && len(s.Body.List) > 0 {
						if _, ret := s.Body.List[len(s.Body.List)-1].(*ast.ReturnStmt); ret && len(eb.List) > 0 {
							enc.Encode(bmut{path, []edit{{off(s.Body.End()), off(eb.Lbrace) + 1, "\n"}, {off(eb.Rbrace), off(eb.Rbrace) + 1, ""}}, "drop else after return", fn, line(s)})
						}
					}
				case *ast.SwitchStmt:
					if s.Init == nil && s.Tag != nil {
						if tv, has := info.Types[s.Tag]; has && tv.Type != nil && tv.Value == nil {
							t := fresh("tagTmp")
							emit(s.Tag, t+" := "+text(s.Tag)+"; "+t, "switch with init")
						}
						if pureTag(s.Tag) {
							var es []edit
							es = append(es, edit{off(s.Tag.Pos()), off(s.Tag.End()), ""})
							okAll := true
							for _, c := range s.Body.List {
								cc := c.(*ast.CaseClause)
								if cc.List == nil {
									continue
								}
								var conds []string
								for _, e := range cc.List {
									et := text(e)
									if _, bin := e.(*ast.BinaryExpr); bin {
										et = "(" + et + ")"
									}
									conds = append(conds, text(s.Tag)+" == "+et)
								}
								es = append(es, edit{off(cc.List[0].Pos()), off(cc.List[len(cc.List)-1].End()), strings.Join(conds, " || ")})
							}
							for _, c := range s.Body.List {
								for _, b := range c.(*ast.CaseClause).Body {
									ast.Inspect(b, func(x ast.Node) bool {
										if br, ok := x.(*ast.BranchStmt); ok && br.Tok == token.FALLTHROUGH {
											okAll = false
										}
										return true
									})
								}
							}
							if okAll {
								enc.Encode(bmut{path, es, "tagged switch as tagless switch", fn, line(s)})
							}
						}
					}
				case *ast.ForStmt:
					if s.Init != nil && s.Post != nil && s.Cond != nil && !containsContinue(s.Body) {
						enc.Encode(bmut{path, []edit{
							{off(s.Pos()), off(s.Body.Lbrace), "{\n" + text(s.Init) + "\nfor " + text(s.Cond) + " "},
							{off(s.Body.Rbrace), off(s.Body.Rbrace) + 1, "\n" + text(s.Post) + "\n}\n}"},
						}, "for clause as while loop", fn, line(s)})
					}
				case *ast.ExprStmt, *ast.AssignStmt, *ast.ReturnStmt:
					// hoist the first argument of the statement's outermost call when it is itself a call
					var call *ast.CallExpr
					switch y := s.(type) {
					case *ast.ExprStmt:
						call, _ = y.X.(*ast.CallExpr)
					case *ast.AssignStmt:
						if len(y.Rhs) == 1 && len(y.Lhs) >= 1 {
							plain := true
							for _, l := range y.Lhs {
								if !plainCallee(l) {
									plain = false
								}
							}
							if plain {
								call, _ = y.Rhs[0].(*ast.CallExpr)
							}
						}
					case *ast.ReturnStmt:
						if len(y.Results) == 1 {
							call, _ = y.Results[0].(*ast.CallExpr)
						}
					}
					if call != nil && plainCallee(call.Fun) && len(call.Args) >= 1 && call.Ellipsis == token.NoPos {
						if tvf, has := info.Types[call.Fun]; has && !tvf.IsType() && !tvf.IsBuiltin() {
							if a, ok := call.Args[0].(*ast.CallExpr); ok {
								if tv, has := info.Types[a]; has && tv.Type != nil && !tv.IsType() {
									if _, tuple := tv.Type.(*types.Tuple); !tuple {
										if _, isIface := tv.Type.Underlying().(*types.Interface); !isIface || true {
											t := fresh("argTmp")
											enc.Encode(bmut{path, []edit{{off(s.Pos()), off(s.Pos()), t + " := " + text(a) + "\n"}, {off(a.Pos()), off(a.End()), t}}, "hoist first call argument", fn, line(s)})
										}
									}
								}
							}
						}
					}
				}
			}
		}
		ast.Inspect(fd.Body, func(x ast.Node) bool {
			switch y := x.(type) {
			case *ast.BlockStmt:
				visitBlock(y.List)
			case *ast.CaseClause:
				visitBlock(y.Body)
			case *ast.CommClause:
				visitBlock(y.Body)
			case *ast.IfStmt:
				extract(y.Cond, fn, line(y), "condition")
			case *ast.ReturnStmt:
				if nres == 1 && len(y.Results) == 1 {
					extract(y.Results[0], fn, line(y), "returned expression")
				}
			case *ast.AssignStmt:
				if len(y.Rhs) == 1 && len(y.Lhs) == 1 {
					if _, isCall := y.Rhs[0].(*ast.CallExpr); isCall {
						extract(y.Rhs[0], fn, line(y), "assigned expression")
					} else if _, isBin := y.Rhs[0].(*ast.BinaryExpr); isBin {
						extract(y.Rhs[0], fn, line(y), "assigned expression")
					}
				}
			case *ast.FuncLit:
				_ = y
			}
			return true
		})
	}
}
