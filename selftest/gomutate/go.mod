module gomutate

go 1.21
