package main

// Behaviour-preserving rewrites (selftest/sweep.py benign): every one of these keeps the meaning of the program by
// construction, so a check that reports anything on the rewritten tree has raised a false alarm.

import (
	"encoding/json"
	"fmt"
	"go/ast"
	"go/parser"
	"go/token"
	"os"
	"strings"
)

type edit struct {
	Start int    `json:"start"`
	End   int    `json:"end"`
	New   string `json:"new"`
}

type bmut struct {
	File  string `json:"file"`
	Edits []edit `json:"edits"`
	Kind  string `json:"kind"`
	Func  string `json:"func"`
	Line  int    `json:"line"`
}

// constLike: evaluation can neither panic nor have an effect.
func constLike(e ast.Expr) bool {
	switch x := e.(type) {
	case *ast.BasicLit:
		return true
	case *ast.Ident:
		return true
	case *ast.SelectorExpr:
		if id, ok := x.X.(*ast.Ident); ok && id.Obj == nil { // package-qualified name
			return true
		}
	}
	return false
}

// hasBareBreak: an unlabeled break that would leave stmts' own switch (not one nested deeper).
func hasBareBreak(list []ast.Stmt) bool {
	found := false
	var visit func(n ast.Node) bool
	visit = func(n ast.Node) bool {
		switch x := n.(type) {
		case *ast.ForStmt, *ast.RangeStmt, *ast.SwitchStmt, *ast.TypeSwitchStmt, *ast.SelectStmt, *ast.FuncLit:
			return false
		case *ast.BranchStmt:
			if (x.Tok == token.BREAK && x.Label == nil) || x.Tok == token.FALLTHROUGH {
				found = true
			}
		}
		return true
	}
	for _, s := range list {
		ast.Inspect(s, visit)
	}
	return found
}

func terminating(s ast.Stmt) bool {
	switch x := s.(type) {
	case *ast.ReturnStmt:
		return true
	case *ast.ExprStmt:
		if c, ok := x.X.(*ast.CallExpr); ok {
			if id, ok := c.Fun.(*ast.Ident); ok && id.Name == "panic" {
				return true
			}
		}
	}
	return false
}

func benign(enc *json.Encoder, paths []string) {
	for _, path := range paths {
		src, err := os.ReadFile(path)
		if err != nil {
			fmt.Fprintln(os.Stderr, err)
			os.Exit(1)
		}
		fset := token.NewFileSet()
		f, err := parser.ParseFile(fset, path, src, parser.ParseComments)
		if err != nil {
			fmt.Fprintln(os.Stderr, err)
			os.Exit(1)
		}
		off := func(p token.Pos) int { return fset.Position(p).Offset }
		text := func(n ast.Node) string { return string(src[off(n.Pos()):off(n.End())]) }
		body := func(b *ast.BlockStmt) string { return string(src[off(b.Lbrace)+1 : off(b.Rbrace)]) }
		stmts := func(l []ast.Stmt) string {
			if len(l) == 0 {
				return ""
			}
			return string(src[off(l[0].Pos()):off(l[len(l)-1].End())])
		}
		tmpN := 0
		for _, d := range f.Decls {
			fd, ok := d.(*ast.FuncDecl)
			if !ok || fd.Body == nil {
				continue
			}
			name := fd.Name.Name
			emit := func(n ast.Node, repl, kind string) {
				enc.Encode(bmut{path, []edit{{off(n.Pos()), off(n.End()), repl}}, kind, name, fset.Position(n.Pos()).Line})
			}
			nres := 0
			if fd.Type.Results != nil {
				for _, r := range fd.Type.Results.List {
					if len(r.Names) == 0 {
						nres++
					} else {
						nres += len(r.Names)
					}
				}
			}
			// rename locals: every identifier resolved to the same object
			uses := map[*ast.Object][]*ast.Ident{}
			ast.Inspect(fd, func(n ast.Node) bool {
				if id, ok := n.(*ast.Ident); ok && id.Obj != nil && id.Obj.Kind == ast.Var {
					uses[id.Obj] = append(uses[id.Obj], id)
				}
				return true
			})
			for obj, ids := range uses {
				as, ok := obj.Decl.(*ast.AssignStmt)
				if !ok || as.Tok != token.DEFINE || obj.Name == "_" {
					continue
				}
				if as.Pos() < fd.Body.Pos() {
					continue
				}
				var es []edit
				for _, id := range ids {
					es = append(es, edit{off(id.Pos()), off(id.End()), obj.Name + "Rn"})
				}
				enc.Encode(bmut{path, es, "rename local " + obj.Name, name, fset.Position(as.Pos()).Line})
			}
			// early-return inversion at the top level of the function body
			for i, st := range fd.Body.List {
				is, ok := st.(*ast.IfStmt)
				if !ok || is.Else != nil || is.Init != nil || len(is.Body.List) == 0 || i+1 >= len(fd.Body.List) {
					continue
				}
				if _, ok := is.Body.List[len(is.Body.List)-1].(*ast.ReturnStmt); !ok {
					continue
				}
				rest := fd.Body.List[i+1:]
				if nres > 0 && !terminating(rest[len(rest)-1]) {
					continue
				}
				repl := "if !(" + text(is.Cond) + ") {\n" + stmts(rest) + "\n} else {" + body(is.Body) + "}"
				enc.Encode(bmut{path, []edit{{off(is.Pos()), off(rest[len(rest)-1].End()), repl}}, "invert early return", name, fset.Position(is.Pos()).Line})
			}
			ast.Inspect(fd.Body, func(n ast.Node) bool {
				switch x := n.(type) {
				case *ast.IfStmt:
					c := text(x.Cond)
					if eb, ok := x.Else.(*ast.BlockStmt); ok {
						init := ""
						if x.Init != nil {
							init = text(x.Init) + "; "
						}
						emit(x, "if "+init+"!("+c+") {"+body(eb)+"} else {"+body(x.Body)+"}", "swap if/else arms")
					}
					if be, ok := x.Cond.(*ast.BinaryExpr); ok && x.Init == nil {
						a, b := text(be.X), text(be.Y)
						if be.Op == token.LAND {
							emit(x.Cond, "!(!("+a+") || !("+b+"))", "de morgan &&")
							if x.Else == nil {
								emit(x, "if "+a+" {\nif "+b+" {"+body(x.Body)+"}\n}", "nest && as two ifs")
							}
						}
						if be.Op == token.LOR {
							emit(x.Cond, "!(!("+a+") && !("+b+"))", "de morgan ||")
							if x.Else == nil {
								emit(x, "if "+a+" {"+body(x.Body)+"} else if "+b+" {"+body(x.Body)+"}", "split || into else-if")
							}
						}
					}
				case *ast.BinaryExpr:
					flip := map[token.Token]string{token.EQL: "==", token.NEQ: "!=", token.LSS: ">", token.GTR: "<", token.LEQ: ">=", token.GEQ: "<="}
					if r, ok := flip[x.Op]; ok && (constLike(x.X) || constLike(x.Y)) {
						emit(x, text(x.Y)+" "+r+" "+text(x.X), "swap comparison operands")
					}
				case *ast.IncDecStmt:
					if x.Tok == token.INC {
						emit(x, text(x.X)+" += 1", "++ as += 1")
					} else {
						emit(x, text(x.X)+" -= 1", "-- as -= 1")
					}
				case *ast.BlockStmt:
					for _, st := range x.List {
						switch s := st.(type) {
						case *ast.ReturnStmt:
							if nres == 1 && len(s.Results) == 1 {
								if _, ok := s.Results[0].(*ast.CallExpr); ok {
									tmpN++
									v := fmt.Sprintf("retTmp%d", tmpN)
									emit(s, v+" := "+text(s.Results[0])+"\nreturn "+v, "return via temporary")
								}
							}
						case *ast.ExprStmt, *ast.IfStmt, *ast.ForStmt, *ast.RangeStmt, *ast.SwitchStmt:
							emit(s, "{\n"+text(s)+"\n}", "wrap statement in block")
						case *ast.AssignStmt:
							if s.Tok == token.ASSIGN {
								emit(s, "{\n"+text(s)+"\n}", "wrap statement in block")
							}
						}
					}
				case *ast.ForStmt:
					// for cond { body }  ->  for { if !(cond) { break }; body }   (no init/post: continue still re-tests cond)
					if x.Init == nil && x.Post == nil && x.Cond != nil {
						emit(x, "for {\nif !("+text(x.Cond)+") {\nbreak\n}\n"+body(x.Body)+"}", "loop condition as leading break")
					}
				case *ast.ReturnStmt:
					if nres == 1 && len(x.Results) == 1 {
						if be, ok := x.Results[0].(*ast.BinaryExpr); ok {
							if be.Op == token.LAND {
								emit(x, "if "+text(be.X)+" {\nreturn "+text(be.Y)+"\n}\nreturn false", "return a && b as if")
							}
							if be.Op == token.LOR {
								emit(x, "if "+text(be.X)+" {\nreturn true\n}\nreturn "+text(be.Y), "return a || b as if")
							}
						}
					}
				case *ast.CaseClause:
					// case A, B: body  ->  case A: body; case B: body
					if len(x.List) >= 2 && len(x.Body) > 0 && !hasBareBreak(x.Body) {
						hasDecl := false
						for _, st := range x.Body {
							if _, ok := st.(*ast.LabeledStmt); ok {
								hasDecl = true
							}
						}
						if !hasDecl {
							var sb strings.Builder
							for i, e := range x.List {
								if i > 0 {
									sb.WriteString("\n")
								}
								sb.WriteString("case " + text(e) + ":\n" + stmts(x.Body))
							}
							emit(x, sb.String(), "split multi-value case")
						}
					}
				case *ast.SwitchStmt:
					if x.Init != nil || x.Body == nil || len(x.Body.List) == 0 {
						return true
					}
					var sb strings.Builder
					tag := ""
					if x.Tag != nil {
						tmpN++
						tag = fmt.Sprintf("swTag%d", tmpN)
					}
					var def *ast.CaseClause
					first := true
					okAll := true
					for _, c := range x.Body.List {
						cc := c.(*ast.CaseClause)
						if hasBareBreak(cc.Body) {
							okAll = false
						}
						if cc.List == nil {
							def = cc
							continue
						}
						var conds []string
						for _, e := range cc.List {
							if tag != "" {
								conds = append(conds, tag+" == "+text(e))
							} else {
								conds = append(conds, "("+text(e)+")")
							}
						}
						if first {
							if tag != "" {
								sb.WriteString("if " + tag + " := " + text(x.Tag) + "; ")
							} else {
								sb.WriteString("if ")
							}
							first = false
						} else {
							sb.WriteString(" else if ")
						}
						sb.WriteString(strings.Join(conds, " || ") + " {\n" + stmts(cc.Body) + "\n}")
					}
					if !okAll || first {
						return true
					}
					// a default clause that is not last still runs only when no case matches
					if def != nil {
						sb.WriteString(" else {\n" + stmts(def.Body) + "\n}")
					}
					emit(x, sb.String(), "switch as if-chain")
				}
				return true
			})
		}
	}
}
