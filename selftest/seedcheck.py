#!/usr/bin/env python3
"""Confirms a seeded breakage and runs the static checks against it.

  selftest/seedcheck.py <src-dir with patch.diff demo_test.go README.md> <seed-id> <property> [extra properties...]

In a scratch git worktree of /repo's HEAD (under a mktemp dir, removed afterwards):
  1. the patch applies, the module builds, the existing test suite passes with it;
  2. the demonstration fails with the patch and passes without it;
  3. the named checks are run against the patched tree and the rules that fire are recorded.
Writes /verif/seeded/<seed-id>/{patch.diff,demo_test.go,README.md,meta.json}."""
import json, os, re, shutil, subprocess, sys, tempfile

VERIF = os.path.dirname(os.path.dirname(os.path.abspath(__file__)))
ENV = dict(os.environ, GOFLAGS="-mod=mod -trimpath", GOPROXY="off", GOSUMDB="off", GOTOOLCHAIN="local", GOWORK="off")
TENV = dict(ENV, GOFLAGS="-mod=mod")   # the test suite finds its test data through runtime.Caller: no -trimpath when tests are run

def sh(cmd, cwd, env=None, timeout=1200):
    if env is None:
        env = TENV if (isinstance(cmd, str) and "go test" in cmd) else ENV
    p = subprocess.run(cmd, cwd=cwd, env=env, shell=isinstance(cmd, str), capture_output=True, text=True, timeout=timeout)
    return p.returncode, (p.stdout + p.stderr)

def main():
    src, sid, props = sys.argv[1], sys.argv[2], sys.argv[3:]
    d = tempfile.mkdtemp(prefix="ankoseed.")
    wt = os.path.join(d, "wt")
    meta = {"seed": sid, "breaks_property": props[0], "source": "independent sub-agent given only the property text", "ran": []}
    try:
        rc, out = sh(["git", "-C", "/repo", "worktree", "add", "-q", "--detach", wt, "HEAD"], "/")
        assert rc == 0, out
        head = sh(["git", "rev-parse", "--short", "HEAD"], wt)[1].strip()
        meta["repo_head"] = head
        patch = os.path.abspath(os.path.join(src, "patch.diff"))
        rc, out = sh(["git", "apply", patch], wt)
        meta["ran"].append("git apply patch.diff -> %s" % ("ok" if rc == 0 else "FAILED"))
        if rc != 0:
            print("PATCH DOES NOT APPLY to", head, out); meta["status"] = "patch does not apply"; return finish(meta, src, sid, False)
        rc, out = sh("go build ./...", wt)
        meta["ran"].append("go build ./... -> %s" % ("ok" if rc == 0 else "FAILED"))
        if rc != 0:
            print("BUILD FAILS", out[-800:]); meta["status"] = "does not build"; return finish(meta, src, sid, False)
        rc, out = sh("unshare -rn sh -c 'ip link set lo up; go test -vet=off -count=1 ./...'", wt)   # one example test binds a fixed port
        meta["ran"].append("go test -vet=off -count=1 ./... (patched) -> %s" % ("all ok" if rc == 0 else "FAILED"))
        if rc != 0:
            print("EXISTING TESTS FAIL WITH PATCH", out[-1500:]); meta["status"] = "existing tests fail"; return finish(meta, src, sid, False)
        demo = open(os.path.join(src, "demo_test.go")).read()
        m = re.search(r"copy to:\s*([\w./-]+)", demo)
        target = (m.group(1) if m else "vm/").strip("/")
        tdir = os.path.join(wt, target)
        os.makedirs(tdir, exist_ok=True)
        dpath = os.path.join(tdir, "zz_seed_demo_test.go")
        open(dpath, "w").write(demo)
        names = re.findall(r"^func (Test\w+)\(", demo, re.M)
        runpat = "'^(" + "|".join(names) + ")$'"   # only the demonstration's own tests: other tests of the package toggle process-wide parser settings
        rc1, out1 = sh("go test -vet=off -count=1 -run %s ./%s 2>&1 | tail -30" % (runpat, target), wt, timeout=1800)
        failed_with = ("FAIL" in out1)
        meta["ran"].append("demo in %s with patch -> %s" % (target, "FAILS (expected)" if failed_with else "passes (UNEXPECTED)"))
        sh(["git", "apply", "-R", patch], wt)
        rc2, out2 = sh("go test -vet=off -count=1 -run %s ./%s 2>&1 | tail -30" % (runpat, target), wt, timeout=1800)
        passes_without = ("FAIL" not in out2) and ("ok" in out2)
        meta["ran"].append("demo in %s without patch -> %s" % (target, "passes (expected)" if passes_without else "FAILS (UNEXPECTED)"))
        os.remove(dpath)
        if not (failed_with and passes_without):
            print("DEMO NOT CONFIRMED\n--with--\n", out1[-1200:], "\n--without--\n", out2[-1200:]); meta["status"] = "demo not confirmed"; return finish(meta, src, sid, False)
        # static checks against the patched tree
        sh(["git", "apply", patch], wt)
        vd = os.path.join(d, "verif"); os.makedirs(os.path.join(vd, "evidence"))
        for f in ("known_findings.jsonl", "exceptions.json", "properties.jsonl"):
            shutil.copy(os.path.join(VERIF, f), vd)
        rc, out = sh([os.path.join(VERIF, "bin/ankocheck"), *(["all"] if "all" in props else props), "--root", wt], VERIF, env=dict(ENV, VERIF_DIR=vd))
        if rc not in (0, 1):
            print("THE CHECKER DIED with status", rc, out[:400]); meta["checker_died"] = out[:400]
        fired = [l.strip() for l in out.splitlines() if re.match(r"^  C\d\d \[", l)]
        meta["checks_run"] = props
        meta["caught_by"] = sorted(set(re.findall(r"\[(C\d\d\.R\d+)\]", "\n".join(fired))))
        meta["reports"] = [f[:300] for f in fired][:8]
        meta["status"] = "confirmed"
        print("CONFIRMED", sid, "caught by", meta["caught_by"] or "NOTHING")
        for f in fired[:6]:
            print("   ", f[:220])
        return finish(meta, src, sid, True)
    finally:
        sh(["git", "-C", "/repo", "worktree", "remove", "--force", wt], "/")
        shutil.rmtree(d, ignore_errors=True)

def finish(meta, src, sid, keep):
    if keep:
        dst = os.path.join(VERIF, "seeded", sid)
        os.makedirs(dst, exist_ok=True)
        for f in ("patch.diff", "demo_test.go", "README.md"):
            if os.path.exists(os.path.join(src, f)):
                shutil.copy(os.path.join(src, f), dst)
        readme = os.path.join(src, "README.md")
        if os.path.exists(readme):
            txt = open(readme).read()
            meta["needs_to_manifest"] = " ".join(txt.split())[:600]
        json.dump(meta, open(os.path.join(dst, "meta.json"), "w"), indent=1)
    return 0 if keep else 1

sys.exit(main())
