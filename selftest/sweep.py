#!/usr/bin/env python3
"""Mechanical mutation sweep: how many source changes that still compile and still pass the existing test suite
do the static checks notice?

  selftest/sweep.py run [--limit N] [--workers K]     phase 1 (tests) + phase 2 (checks) -> selftest/sweep_results.jsonl
  selftest/sweep.py report                            summary of sweep_results.jsonl
  selftest/sweep.py benign [--limit N] [--workers K] [--seed S]   behaviour-preserving rewrites (gomutate -benign): every report is a false alarm

Mutants come from bin/gomutate (statement deletion, operator replacement, condition negation, literal +-1, break<->continue)
over the non-test sources the properties anchor in. Each worker owns one scratch copy of /repo under mktemp (removed at the end);
the test suite runs in a private network namespace (one example test binds a fixed port)."""
import json, os, shutil, subprocess, sys, tempfile, concurrent.futures, threading, random

VERIF = os.path.dirname(os.path.dirname(os.path.abspath(__file__)))
REPO = "/repo"
ENV = dict(os.environ, GOFLAGS="-mod=mod -trimpath", GOPROXY="off", GOSUMDB="off", GOTOOLCHAIN="local", GOWORK="off")
TENV = dict(ENV, GOFLAGS="-mod=mod")   # the test suite finds its test data through runtime.Caller: no -trimpath when tests are run
FILES = ["vm/vm.go", "vm/vmStmt.go", "vm/vmExpr.go", "vm/vmExprFunction.go", "vm/vmLetExpr.go", "vm/vmOperator.go", "vm/vmToX.go",
         "vm/vmConvertToX.go", "vm/vmConvertToXGo112.go", "env/env.go", "env/envValues.go", "env/envTypes.go", "core/core.go",
         "core/toX.go", "parser/lexer.go", "ast/astutil/walk.go", "anko.go"]
OUT = os.path.join(VERIF, "selftest", "sweep_results.jsonl")

def ensure_gomutate():
    """bin/ is not committed: build the mutant lister on first use"""
    g = os.path.join(VERIF, "bin/gomutate")
    if not os.path.exists(g) or os.path.getmtime(g) < max(os.path.getmtime(os.path.join(VERIF, "selftest/gomutate", f)) for f in ("main.go", "benign.go", "refactor.go")):
        subprocess.run(["go", "build", "-o", g, "."], cwd=os.path.join(VERIF, "selftest/gomutate"), env=ENV, check=True)
    return g

CHECKER = ""
local = threading.local()
base_lock = threading.Lock()
dirs = []

BASE = os.environ.get("SWEEP_BASE", "")   # a commit of /repo: the sweep records hold byte offsets into the files as they were then

def scratch():
    if not hasattr(local, "dir"):
        d = tempfile.mkdtemp(prefix="ankosweep.")
        if BASE:
            os.makedirs(os.path.join(d, "repo"))
            a = subprocess.run("git -C %s archive %s | tar -x -C %s" % (REPO, BASE, os.path.join(d, "repo")), shell=True, capture_output=True, text=True)
            assert a.returncode == 0, a.stderr
        else:
            shutil.copytree(REPO, os.path.join(d, "repo"), ignore=shutil.ignore_patterns(".git"))
        os.makedirs(os.path.join(d, "verif", "evidence"))
        for f in ("known_findings.jsonl", "exceptions.json", "properties.jsonl"):
            shutil.copy(os.path.join(VERIF, f), os.path.join(d, "verif"))
        local.dir = d
        dirs.append(d)
    return local.dir

def evaluate(m):
    d = scratch()
    repo = os.path.join(d, "repo")
    path = os.path.join(repo, m["file"])
    src = open(path, "rb").read()
    try:
        open(path, "wb").write(src[:m["start"]] + m["new"].encode() + src[m["end"]:])
        b = subprocess.run(["go", "build", "./..."], cwd=repo, env=ENV, capture_output=True, text=True)
        if b.returncode != 0:
            m["status"] = "nocompile"; return m
        v = subprocess.run(["go", "vet", "./" + os.path.dirname(m["file"]) + "/"], cwd=repo, env=ENV, capture_output=True, text=True)
        try:
            t = subprocess.run(["unshare", "-rn", "sh", "-c", "ip link set lo up; go test -vet=off -count=1 ./..."], cwd=repo, env=TENV,
                               capture_output=True, text=True, timeout=180)
            passed = t.returncode == 0
        except subprocess.TimeoutExpired:
            passed = False
        if not passed:
            m["status"] = "killed"; return m
        m["status"] = "survived"
        m["vet"] = v.returncode != 0
        c = subprocess.run([CHECKER, "all", "--root", repo], env=dict(ENV, VERIF_DIR=os.path.join(d, "verif")),
                           capture_output=True, text=True)
        fired = sorted({l.split("]")[0].split("[")[1] for l in c.stdout.splitlines() if l.startswith("  C") and "[" in l})
        m["caught_by"] = fired
        m["first_report"] = next((l.strip()[:240] for l in c.stdout.splitlines() if l.startswith("  C")), "")
        return m
    finally:
        open(path, "wb").write(src)

def run(limit, workers, skip=0):
    global CHECKER, OUT
    if skip:
        OUT = OUT.replace(".jsonl", "_%d.jsonl" % skip)
    CHECKER = os.path.join(tempfile.mkdtemp(prefix="ankosweepbin."), "ankocheck")  # a private copy: the checker may be rebuilt meanwhile
    shutil.copy(os.path.join(VERIF, "bin/ankocheck"), CHECKER)
    dirs.append(os.path.dirname(CHECKER))
    muts = []
    p = subprocess.run([ensure_gomutate()] + FILES, cwd=REPO, capture_output=True, text=True)
    for l in p.stdout.splitlines():
        muts.append(json.loads(l))
    random.Random(1).shuffle(muts)
    muts = muts[skip:]
    if limit:
        muts = muts[:limit]
    done = 0
    with open(OUT, "w") as out, concurrent.futures.ThreadPoolExecutor(max_workers=workers) as ex:
        for m in ex.map(evaluate, muts):
            out.write(json.dumps(m) + "\n"); out.flush()
            done += 1
            if done % 50 == 0:
                print(done, "/", len(muts), flush=True)
    for d in dirs:
        shutil.rmtree(d, ignore_errors=True)
    report()

def apply_edits(src, m):
    es = m.get("edits") or [{"start": m["start"], "end": m["end"], "new": m["new"]}]
    for e in sorted(es, key=lambda e: -e["start"]):
        src = src[:e["start"]] + e["new"].encode() + src[e["end"]:]
    return src

def evaluate_benign(m):
    """a behaviour-preserving rewrite: build, run every check; anything reported is a false alarm (the test suite is
    run only then, to confirm the rewrite really is harmless)"""
    d = scratch()
    repo = os.path.join(d, "repo")
    path = os.path.join(repo, m["file"])
    src = open(path, "rb").read()
    try:
        open(path, "wb").write(apply_edits(src, m))
        b = subprocess.run(["go", "build", "./..."], cwd=repo, env=ENV, capture_output=True, text=True)
        if b.returncode != 0:
            m["status"] = "nocompile"; m["err"] = b.stderr[:200]; return m
        c = subprocess.run([CHECKER, "all", "--root", repo], env=dict(ENV, VERIF_DIR=os.path.join(d, "verif")),
                           capture_output=True, text=True)
        fired = sorted({l.split("]")[0].split("[")[1] for l in c.stdout.splitlines() if l.startswith("  C") and "[" in l})
        m["status"] = "silent"
        if fired or c.returncode not in (0,):
            m["status"] = "alarm"
            m["fired"] = fired
            m["reports"] = [l.strip()[:300] for l in c.stdout.splitlines() if l.startswith("  C")][:6]
            if not fired:
                m["reports"] = (c.stdout + c.stderr)[-600:].splitlines()
            try:
                t = subprocess.run(["unshare", "-rn", "sh", "-c", "ip link set lo up; go test -vet=off -count=1 ./..."], cwd=repo, env=TENV,
                                   capture_output=True, text=True, timeout=180)
                m["tests_pass"] = t.returncode == 0
            except subprocess.TimeoutExpired:
                m["tests_pass"] = False
        return m
    finally:
        open(path, "wb").write(src)

def run_benign(limit, workers, seed, files=None, tag="", structural=False, refactor=False):
    global CHECKER
    out_path = os.path.join(VERIF, "selftest", "benign_results%s.jsonl" % tag)
    CHECKER = os.path.join(tempfile.mkdtemp(prefix="ankosweepbin."), "ankocheck")
    shutil.copy(os.path.join(VERIF, "bin/ankocheck"), CHECKER)
    dirs.append(os.path.dirname(CHECKER))
    p = subprocess.run([ensure_gomutate(), "-refactor" if refactor else "-benign"] + (files or FILES), cwd=REPO, env=TENV, capture_output=True, text=True)
    muts = [json.loads(l) for l in p.stdout.splitlines()]
    if structural:   # only the rewrites that change the control-flow graph (the others leave the SSA form almost untouched)
        plain = ("wrap statement", "swap comparison", "rename local", "++ as", "-- as")
        muts = [m for m in muts if not m["kind"].startswith(plain)]
    random.Random(seed).shuffle(muts)
    if limit:
        muts = muts[:limit]
    done = 0
    with open(out_path, "w") as out, concurrent.futures.ThreadPoolExecutor(max_workers=workers) as ex:
        for m in ex.map(evaluate_benign, muts):
            m.pop("edits", None) if m["status"] == "silent" else None
            out.write(json.dumps(m) + "\n"); out.flush()
            done += 1
            if done % 50 == 0:
                print(done, "/", len(muts), flush=True)
    for d in dirs:
        shutil.rmtree(d, ignore_errors=True)
    report_benign(tag)

def report_benign(tag=""):
    rs = [json.loads(l) for l in open(os.path.join(VERIF, "selftest", "benign_results%s.jsonl" % tag))]
    by = {}
    for r in rs:
        by[r["status"]] = by.get(r["status"], 0) + 1
    print(len(rs), "behaviour-preserving rewrites:", by)
    for r in rs:
        if r["status"] == "alarm":
            print(" ALARM", r["file"], r["func"], r["line"], r["kind"], r.get("fired"), "tests_pass=%s" % r.get("tests_pass"))
            for l in r.get("reports", [])[:3]:
                print("      ", l)

BASELINE = None   # reports of the checker on the unmutated base tree (non-empty only when the base is an older commit whose defects were repaired since)

def report_keys(out):
    """rule + instance of every violation line (without the position, which a mutant shifts)"""
    ks = {}
    for l in out.splitlines():
        if l.startswith("  C") and "[" in l:
            rule = l.split("]")[0].split("[")[1]
            inst = l.split("]", 1)[1].split(" at ", 1)[0].strip()
            ks[(rule, inst)] = l.strip()[:240]
    return ks

def recheck_one(m):
    global BASELINE
    d = scratch()
    repo = os.path.join(d, "repo")
    env = dict(ENV, VERIF_DIR=os.path.join(d, "verif"))
    with base_lock:
        if BASELINE is None:
            c0 = subprocess.run([CHECKER, "all", "--root", repo], env=env, capture_output=True, text=True)
            BASELINE = report_keys(c0.stdout)
            print("baseline reports on the base tree:", len(BASELINE), flush=True)
    path = os.path.join(repo, m["file"])
    src = open(path, "rb").read()
    try:
        open(path, "wb").write(apply_edits(src, m))
        c = subprocess.run([CHECKER, "all", "--root", repo], env=env, capture_output=True, text=True)
        ks = {k: v for k, v in report_keys(c.stdout).items() if k not in BASELINE}
        m["caught_by"] = sorted({k[0] for k in ks})
        m["first_report"] = next(iter(ks.values()), "")
        return m
    finally:
        open(path, "wb").write(src)

def recheck(workers):
    """re-run the current checker on the survivors only (the test phase is not repeated)"""
    global CHECKER
    CHECKER = os.path.join(tempfile.mkdtemp(prefix="ankosweepbin."), "ankocheck")
    shutil.copy(os.path.join(VERIF, "bin/ankocheck"), CHECKER)
    dirs.append(os.path.dirname(CHECKER))
    rs = [json.loads(l) for l in open(OUT)]
    surv = [r for r in rs if r["status"] == "survived"]
    rest = [r for r in rs if r["status"] != "survived"]
    with concurrent.futures.ThreadPoolExecutor(max_workers=workers) as ex:
        surv = list(ex.map(recheck_one, surv))
    with open(OUT, "w") as out:
        for r in rest + surv:
            out.write(json.dumps(r) + "\n")
    for d in dirs:
        shutil.rmtree(d, ignore_errors=True)
    report()

def report():
    rs = [json.loads(l) for l in open(OUT)]
    n = len(rs)
    by = {}
    for r in rs:
        by[r["status"]] = by.get(r["status"], 0) + 1
    surv = [r for r in rs if r["status"] == "survived"]
    caught = [r for r in surv if r.get("caught_by")]
    print(f"{n} mutants: {by}")
    print(f"survivors (compile + existing tests pass): {len(surv)}; noticed by a static check: {len(caught)} ({100*len(caught)//max(1,len(surv))}%)")
    miss = [r for r in surv if not r.get("caught_by")]
    perfile = {}
    for r in miss:
        perfile[r["file"]] = perfile.get(r["file"], 0) + 1
    print("unnoticed survivors per file:", perfile)

if __name__ == "__main__":
    if len(sys.argv) > 1 and sys.argv[1] == "run":
        limit, workers, skip = 0, 10, 0
        a = sys.argv[2:]
        while a:
            if a[0] == "--limit": limit = int(a[1]); a = a[2:]
            elif a[0] == "--workers": workers = int(a[1]); a = a[2:]
            elif a[0] == "--skip": skip = int(a[1]); a = a[2:]
            else: a = a[1:]
        run(limit, workers, skip)
    elif len(sys.argv) > 1 and sys.argv[1] == "benign":
        limit, workers, seed, files, tag, structural, refac = 0, 10, 1, None, "", False, False
        a = sys.argv[2:]
        while a:
            if a[0] == "--limit": limit = int(a[1]); a = a[2:]
            elif a[0] == "--workers": workers = int(a[1]); a = a[2:]
            elif a[0] == "--seed": seed = int(a[1]); a = a[2:]
            elif a[0] == "--files": files = a[1].split(","); a = a[2:]
            elif a[0] == "--tag": tag = "_" + a[1]; a = a[2:]
            elif a[0] == "--structural": structural = True; a = a[1:]
            elif a[0] == "--refactor": refac = True; a = a[1:]   # type-aware refactorings (gomutate -refactor): helper extraction, hoisted calls, ...
            else: a = a[1:]
        run_benign(limit, workers, seed, files, tag, structural, refac)
    elif len(sys.argv) > 1 and sys.argv[1] == "benign-replay":
        # re-run the current checker on the recorded alarms of a benign run: selftest/sweep.py benign-replay <results.jsonl>
        CHECKER = os.path.join(tempfile.mkdtemp(prefix="ankosweepbin."), "ankocheck")
        shutil.copy(os.path.join(VERIF, "bin/ankocheck"), CHECKER)
        dirs.append(os.path.dirname(CHECKER))
        rs = [json.loads(l) for l in open(sys.argv[2])]
        al = [dict(r, status="") for r in rs if r["status"] == "alarm" and r.get("edits")]
        with concurrent.futures.ThreadPoolExecutor(max_workers=8) as ex:
            out = list(ex.map(evaluate_benign, al))
        for d in dirs:
            shutil.rmtree(d, ignore_errors=True)
        still = [m for m in out if m["status"] == "alarm"]
        print(len(al), "recorded alarms,", len(still), "still alarm")
        for m in still:
            print(" ALARM", m["file"], m["func"], m["line"], m["kind"], m.get("fired"))
            for l in m.get("reports", [])[:3]:
                print("      ", l[:260])
    elif len(sys.argv) > 1 and sys.argv[1] == "benign-report":
        report_benign("_" + sys.argv[2] if len(sys.argv) > 2 else "")
    elif len(sys.argv) > 1 and sys.argv[1] == "recheck":
        if len(sys.argv) > 2:
            OUT = os.path.join(VERIF, "selftest", sys.argv[2])   # e.g. sweep_results_1400.jsonl
        recheck(8)
    else:
        if len(sys.argv) > 2:
            OUT = os.path.join(VERIF, "selftest", sys.argv[2])
        report()
