#!/bin/sh
# usage: selftest/trypatch.sh <patch.diff> [checks...]   (default: all)
# Applies a patch to a scratch copy of /repo (removed afterwards) and runs the static checks on it; prints the report lines.
set -e
V=$(cd "$(dirname "$0")/.." && pwd)
P=$(readlink -f "$1"); shift
d=$(mktemp -d /tmp/ankotry.XXXXXX)
trap 'rm -rf "$d"' EXIT
mkdir -p "$d/verif/evidence"
git -C /repo archive HEAD | (mkdir "$d/repo" && tar -x -C "$d/repo")
(cd "$d/repo" && patch -p1 -s < "$P")
cp "$V/known_findings.jsonl" "$V/exceptions.json" "$V/properties.jsonl" "$d/verif/"
export GOFLAGS="-mod=mod -trimpath" GOPROXY=off GOSUMDB=off GOTOOLCHAIN=local GOWORK=off
(cd "$d/repo" && go build ./...) || { echo "DOES NOT BUILD"; exit 2; }
VERIF_DIR="$d/verif" "$V/bin/ankocheck" ${@:-all} --root "$d/repo" | grep -E '^  C[0-9][0-9] \[|^VIOLATION' | cut -c1-260 || echo "(silent)"
