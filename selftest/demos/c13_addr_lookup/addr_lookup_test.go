// copy to: env/   (demonstration for the defect found by C13.R8: run in package env of the tree BEFORE the fix)
package env

import (
	"fmt"
	"reflect"
	"testing"
	"time"
)

// a host-side ExternalLookup that resolves "alias_x" to whatever "x" is in the scope it is attached to
type c13AddrAliases struct {
	scope            *Env
	entered, proceed chan struct{}
}

func (l *c13AddrAliases) Get(symbol string) (reflect.Value, error) {
	const prefix = "alias_"
	if len(symbol) <= len(prefix) || symbol[:len(prefix)] != prefix {
		return NilValue, fmt.Errorf("undefined symbol '%s'", symbol)
	}
	l.entered <- struct{}{}
	<-l.proceed
	return l.scope.GetValue(symbol[len(prefix):]) // takes the scope's read lock again
}

func (l *c13AddrAliases) Type(symbol string) (reflect.Type, error) {
	return NilType, fmt.Errorf("undefined type '%s'", symbol)
}

// Addr of a name the external lookup answers, and a Define of an unrelated name that arrives while the lookup is being
// consulted: both must finish. With the lookup called under Addr's read lock, the Define queues as a writer, the lookup's own
// read of the scope queues behind the writer, and all three block for ever.
func TestC13AddrThroughLookupWhileDefine(t *testing.T) {
	e := NewEnv()
	e.Define("x", int64(7))
	l := &c13AddrAliases{scope: e, entered: make(chan struct{}), proceed: make(chan struct{})}
	e.SetExternalLookup(l)
	done := make(chan struct{})
	go func() {
		e.Addr("alias_x")
		close(done)
	}()
	select {
	case <-l.entered:
	case <-time.After(3 * time.Second):
		t.Fatal("external lookup was not consulted")
	}
	defined := make(chan error, 1)
	go func() { defined <- e.Define("y", int64(8)) }()
	time.Sleep(300 * time.Millisecond) // let the Define queue on the lock (or finish, when the lock is free)
	close(l.proceed)
	select {
	case <-done:
	case <-time.After(3 * time.Second):
		t.Fatal("Addr did not return: deadlock between Addr's read lock, the queued Define and the lookup's own read")
	}
	select {
	case err := <-defined:
		if err != nil {
			t.Fatal(err)
		}
	case <-time.After(3 * time.Second):
		t.Fatal("Define did not return")
	}
}
