package main

import (
	"fmt"

	"github.com/mattn/anko/env"
	"github.com/mattn/anko/vm"
)

type S struct{ M map[string]int64 }

func main() {
	run := func(name, src string, setup func(e *env.Env)) {
		e := env.NewEnv()
		if setup != nil {
			setup(e)
		}
		v, err := vm.Execute(e, nil, src)
		fmt.Printf("%-28s n=%v err=%v\n", name, v, err)
	}
	pre := "n = 0; i = func(){ n++; return 0 }; "
	run("slice auto-append", pre+"a = [[1,2]]; a[i()][2] = 3; n", nil)
	run("slice in range (control)", pre+"a = [[1,2]]; a[i()][1] = 3; n", nil)
	run("nil map item", pre+"a = [nil]; var m = make(map[string]int64); a[0] = mm; a[i()][\"k\"] = 1; n", func(e *env.Env) { var mm map[string]int64; e.Define("mm", mm) })
	run("nil map member", pre+"a = [mm]; a[i()].k = 1; n", func(e *env.Env) { var mm map[string]int64; e.Define("mm", mm) })
	run("string append", pre+"a = [\"ab\"]; a[i()][2] = \"c\"; n", nil)
	run("string replace", pre+"a = [\"ab\"]; a[i()][0] = \"c\"; n", nil)
}
