module c07demo
go 1.21
require github.com/mattn/anko v0.0.0
replace github.com/mattn/anko => /repo
