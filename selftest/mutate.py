#!/usr/bin/env python3
"""Self-validation of the static rules: apply one seeded breakage to a scratch copy of /repo,
run the named property checks against the copy, report which rules fire.

  selftest/mutate.py run [ids...]          run catalogue entries (selftest/mutants.json)
  entries with "benign": true are behaviour-preserving rewrites on which the checks must stay silent
  selftest/mutate.py seeds [ids|Cnn...]    re-run the confirmed seeded changes of /verif/seeded: a recorded rule must still fire
  selftest/mutate.py patch <file.diff> C01 C07 ...   apply a patch to a scratch copy and run the given checks (or 'all')

The scratch copy lives under a mktemp dir outside /repo and /verif and is removed at once.
Nothing is written to /verif/evidence (VERIF_DIR is redirected)."""
import json, os, shutil, subprocess, sys, tempfile, concurrent.futures

VERIF = os.path.dirname(os.path.dirname(os.path.abspath(__file__)))
REPO = os.environ.get("ANKO_ROOT", "/repo")
ENV = dict(os.environ, GOFLAGS="-mod=mod -trimpath", GOPROXY="off", GOSUMDB="off", GOTOOLCHAIN="local", GOWORK="off")

def scratch():
    d = tempfile.mkdtemp(prefix="ankomut.")
    repo = os.path.join(d, "repo")
    shutil.copytree(REPO, repo, ignore=shutil.ignore_patterns(".git"))
    vd = os.path.join(d, "verif")
    os.makedirs(os.path.join(vd, "evidence"))
    for f in ("known_findings.jsonl", "exceptions.json", "properties.jsonl"):
        if os.path.exists(os.path.join(VERIF, f)):
            shutil.copy(os.path.join(VERIF, f), vd)
    return d, repo, vd

def run_checks(repo, vd, props):
    env = dict(ENV, VERIF_DIR=vd)
    b = subprocess.run(["go", "build", "./..."], cwd=repo, env=ENV, capture_output=True, text=True)
    if b.returncode != 0:
        return None, "DOES NOT COMPILE: " + b.stderr[-500:]
    p = subprocess.run([os.path.join(VERIF, "bin/ankocheck"), *props, "--root", repo], env=env, capture_output=True, text=True)
    return p.returncode, p.stdout + p.stderr

def one(m):
    d, repo, vd = scratch()
    try:
        for e in m.get("edits") or [m]:
            path = os.path.join(repo, e["file"])
            src = open(path).read()
            if src.count(e["old"]) < 1:
                return m["id"], "SKIP", "anchor not found"
            src = src.replace(e["old"], e["new"], e.get("count", 1))
            open(path, "w").write(src)
        rc, out = run_checks(repo, vd, [m["prop"]])
        if rc is None:
            return m["id"], "NOCOMPILE", out
        fired = [l for l in out.splitlines() if l.startswith("  " + m["prop"]) ]
        if m.get("benign"):
            # a behaviour-preserving rewrite: every rule must stay silent
            if fired or rc != 0:
                return m["id"], "FALSEALARM", ("; ".join(x.strip()[:200] for x in fired) or out[-300:])
            return m["id"], "SILENT", "behaviour-preserving rewrite accepted"
        hit = [l for l in fired if m["expect"] in l]
        if hit:
            return m["id"], "CAUGHT", hit[0].strip()[:200]
        if rc not in (0, 1):
            return m["id"], "CRASH", "the checker died (status %s): %s" % (rc, out[:300].replace("\n", " | "))
        return m["id"], "MISSED", ("; ".join(x.strip()[:160] for x in fired) or "silent")
    finally:
        shutil.rmtree(d, ignore_errors=True)

def one_seed(sid):
    """re-run a confirmed seeded change (seeded/<id>/patch.diff): one of the rules recorded in meta.json must still fire"""
    sd = os.path.join(VERIF, "seeded", sid)
    meta = json.load(open(os.path.join(sd, "meta.json")))
    if meta.get("not_claimed"):
        return sid, "CAUGHT", "(recorded, not claimed) " + meta["not_claimed"][:120]
    if meta.get("known_miss"):
        return sid, "CAUGHT", "(recorded as a known miss) " + meta["known_miss"][:120]
    d, repo, vd = scratch()
    try:
        a = subprocess.run(["patch", "-p1", "-s", "-i", os.path.join(sd, "patch.diff")], cwd=repo, capture_output=True, text=True)
        if a.returncode != 0:
            return sid, "SKIP", "patch does not apply to the current tree: " + (a.stdout + a.stderr)[-200:]
        rc, out = run_checks(repo, vd, meta.get("checks_run") or [meta["breaks_property"]])
        if rc is None:
            return sid, "NOCOMPILE", out
        fired = [l.strip() for l in out.splitlines() if l.startswith("  C")]
        hit = [l for l in fired if any("[" + rule + "]" in l for rule in meta.get("caught_by", []))]
        if hit:
            return sid, "CAUGHT", hit[0][:200]
        if rc not in (0, 1):
            return sid, "CRASH", "the checker died (status %s): %s" % (rc, out[:300].replace("\n", " | "))
        return sid, "MISSED", ("; ".join(x[:160] for x in fired) or "silent")
    finally:
        shutil.rmtree(d, ignore_errors=True)

def run_seeds(only):
    ids = sorted(x for x in os.listdir(os.path.join(VERIF, "seeded")) if os.path.exists(os.path.join(VERIF, "seeded", x, "meta.json")))
    ids = [x for x in ids if not only or x in only or x.split("-")[0] in only]
    bad = 0
    with concurrent.futures.ThreadPoolExecutor(max_workers=6) as ex:
        for sid, verdict, detail in ex.map(one_seed, ids):
            print(f"{verdict:9} seed {sid}: {detail}")
            if verdict != "CAUGHT":
                bad += 1
    print(f"{len(ids)} seeded changes, {bad} not caught")
    return 1 if bad else 0

def main():
    if len(sys.argv) >= 3 and sys.argv[1] == "patch":
        d, repo, vd = scratch()
        try:
            a = subprocess.run(["git", "apply", "--unsafe-paths", "--directory=" + repo, os.path.abspath(sys.argv[2])], cwd="/", capture_output=True, text=True)
            if a.returncode != 0:
                a = subprocess.run(["patch", "-p1", "-i", os.path.abspath(sys.argv[2])], cwd=repo, capture_output=True, text=True)
                if a.returncode != 0:
                    print("patch does not apply:", a.stderr, a.stdout); sys.exit(2)
            rc, out = run_checks(repo, vd, sys.argv[3:] or ["all"])
            print(out); sys.exit(0 if rc == 0 else 1)
        finally:
            shutil.rmtree(d, ignore_errors=True)
    if len(sys.argv) >= 2 and sys.argv[1] == "seeds":
        sys.exit(run_seeds(set(sys.argv[2:])))
    cat = json.load(open(os.path.join(VERIF, "selftest/mutants.json")))
    ids = set(sys.argv[2:])
    todo = [m for m in cat if not ids or m["id"] in ids or m["prop"] in ids]
    bad = 0
    with concurrent.futures.ThreadPoolExecutor(max_workers=6) as ex:
        for mid, verdict, detail in ex.map(one, todo):
            print(f"{verdict:9} {mid}: {detail}")
            if verdict in ("MISSED", "NOCOMPILE", "FALSEALARM", "SKIP"):
                bad += 1
    print(f"{len(todo)} mutants, {bad} not caught")
    sys.exit(1 if bad else 0)

main()
