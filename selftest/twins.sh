#!/bin/sh
# selftest/twins.sh [ids...]: the "benign twins" - behaviour-preserving repairs of recorded seeded refactorings (the refactoring kept,
# the slip repaired; each confirmed by its seed's demonstration and the existing suite). Every report on a twin is a false alarm.
cd "$(dirname "$0")/.."
ids=${@:-$(ls selftest/twins | sed 's/\.diff$//')}
n=0
for s in $ids; do
  ( selftest/trypatch.sh selftest/twins/$s.diff > /tmp/twin_$s.txt 2>&1 ) &
  n=$((n+1)); [ $((n % 6)) -eq 0 ] && wait
done
wait
silent=0; total=0
for s in $ids; do
  total=$((total+1))
  rules=$(grep -o '\[C[0-9][0-9]\.R[0-9]*\]' /tmp/twin_$s.txt | sort | uniq -c | awk '{printf "%s x%s ", $2, $1}')
  [ -z "$rules" ] && silent=$((silent+1))
  echo "$s: ${rules:-silent}"
  rm -f /tmp/twin_$s.txt
done
echo "$silent of $total twins silent"
