#!/bin/sh
# Builds the checker (offline) from /verif/checker into /verif/bin.
set -e
cd "$(dirname "$0")"
export GOFLAGS=-mod=mod GOPROXY=off GOSUMDB=off GOTOOLCHAIN=local GOWORK=off
mkdir -p bin evidence
(cd checker && go build -o ../bin/ankocheck .)
echo "built bin/ankocheck"
