package main

import (
	"fmt"
	"go/token"
	"go/types"
	"strings"

	"golang.org/x/tools/go/ssa"
)

func init() {
	register("C18", "the command-line tool reports exactly what the library computes", checkC18)
}

func checkC18(p *Program, r *Report) {
	r.Explain("C18: output bytes and process exit are runtime facts; the mapping from the library's verdict to the exit code is structural and decided on the SSA of package main. " +
		"R1 in the non-interactive runner every return of 0 is reachable only when the error returned by vm.Execute is nil; the non-nil edge returns 4 after exactly one print call that includes the error; every other error-returning call in the runner (reading the file) has its error tested and its failure edge returns 2; main hands the runner's result to os.Exit unchanged. " +
		"R2 vm.Execute is called once, with nil options, on the environment that the setup function created, in which it defined args and to which it applied core.Import; package main links the bundled packages (blank import). " +
		"R5 one stream: no buffered handle on os.Stdout exists in the command, the builtins or the interpreter, or else every direct write and every os.Exit of package main comes after a Flush with no script execution in between (a diagnostic cannot overtake the script's output, no output is lost at exit). " +
		"R6 every index expression of package main is dominated by tests of both of its bounds (the command has no recover: a Go panic ends it with status 2 whatever the library returned). R7 package main never stores to os.Args (the script's arguments are a sub-slice of it). " +
		"R3 script arguments are the arguments after the file name, taken only when a file name is present.")
	r.Assume("behaviour of the built binary as a process and the bytes a script prints are not decided")
	sp := p.SSAPkg("")
	pk := p.Pkg("")
	if sp == nil || pk == nil {
		r.Undecided("C18.R1", "main", "anko.go", "package main not loaded")
		return
	}
	c18OneStream(p, r, sp)
	c18NoPanicNoArgsRewrite(p, r, sp)
	vmSp := p.SSAPkg("vm")
	var execFn *ssa.Function
	if vmSp != nil {
		execFn, _ = vmSp.Members["Execute"].(*ssa.Function)
	}
	if execFn == nil {
		r.Undecided("C18.R1", "vm.Execute", "vm", "vm.Execute not found")
		return
	}
	// the runner: function of main that calls vm.Execute
	var runner *ssa.Function
	var execCalls []*ssa.Call
	for _, fn := range SrcFuncs(sp) {
		for _, b := range fn.Blocks {
			for _, in := range b.Instrs {
				if c, ok := in.(*ssa.Call); ok && staticCallee(c) == execFn {
					runner = fn
					execCalls = append(execCalls, c)
				}
			}
		}
	}
	if runner == nil {
		r.Fail("C18.R2", "main|calls vm.Execute", "anko.go", "the command does not run scripts through vm.Execute")
		return
	}
	rname := funcName(runner)
	r.Check(len(execCalls) == 1, "C18.R2", rname+"|one Execute", p.Pos(runner.Pos()), "vm.Execute is called exactly once", fmt.Sprintf("vm.Execute is called %d times", len(execCalls)))
	ex := execCalls[0]
	var errV *ssa.Extract
	for _, ref := range *ex.Referrers() {
		if e, ok := ref.(*ssa.Extract); ok && e.Index == 1 {
			errV = e
		}
	}
	if errV == nil {
		r.Fail("C18.R1", rname+"|Execute error used", p.Pos(ex.Pos()), "the error of vm.Execute is discarded")
		return
	}
	// the nil test of the Execute error
	var test *ssa.If
	var nilSucc, errSucc *ssa.BasicBlock
	for _, ref := range *errV.Referrers() {
		bo, ok := ref.(*ssa.BinOp)
		if !ok || !isNilConst(bo.Y) {
			continue
		}
		for _, r2 := range *bo.Referrers() {
			if iff, ok := r2.(*ssa.If); ok {
				test = iff
				if bo.Op == token.NEQ {
					errSucc, nilSucc = iff.Block().Succs[0], iff.Block().Succs[1]
				} else {
					errSucc, nilSucc = iff.Block().Succs[1], iff.Block().Succs[0]
				}
			}
		}
	}
	if test == nil {
		r.Fail("C18.R1", rname+"|Execute error tested", p.Pos(ex.Pos()), "the error of vm.Execute is not compared with nil: the exit code cannot follow the library's verdict for every error")
	}
	// returns
	constOf := func(ret *ssa.Return) (int64, bool) {
		if len(ret.Results) != 1 {
			return 0, false
		}
		v := ret.Results[0]
		// results spilled to memory because of a defer: the store earlier in the block
		if u, ok := v.(*ssa.UnOp); ok {
			if al, ok := u.X.(*ssa.Alloc); ok {
				b := ret.Block()
				for i := len(b.Instrs) - 1; i >= 0; i-- {
					if st, ok := b.Instrs[i].(*ssa.Store); ok && st.Addr == ssa.Value(al) {
						v = st.Val
						break
					}
				}
			}
		}
		c, ok := v.(*ssa.Const)
		if !ok {
			return 0, false
		}
		return c.Int64(), true
	}
	n0, n4 := 0, 0
	for _, b := range runner.Blocks {
		ret, ok := b.Instrs[len(b.Instrs)-1].(*ssa.Return)
		if !ok || b == runner.Recover {
			continue
		}
		v, isConst := constOf(ret)
		site := p.Pos(instrPos(ret))
		if !isConst {
			r.Fail("C18.R1", rname+"|return non-constant", site, "exit code is not one of the documented constants")
			continue
		}
		switch v {
		case 0:
			n0++
			okDom := test != nil && (nilSucc == b || nilSucc.Dominates(b)) && len(nilSucc.Preds) == 1
			r.Check(okDom, "C18.R1", rname+"|return 0", site, "exit code 0 only when vm.Execute returned a nil error", "exit code 0 can be returned although vm.Execute reported an error (or without running the script)")
		case 4:
			n4++
			okDom := test != nil && (errSucc == b || errSucc.Dominates(b)) && len(errSucc.Preds) == 1
			r.Check(okDom, "C18.R1", rname+"|return 4", site, "exit code 4 on the error edge of vm.Execute", "exit code 4 is not tied to an error of vm.Execute")
			// exactly one print with the error
			prints, withErr := 0, 0
			for d := b; d != nil && test != nil && d != test.Block(); d = d.Idom() {
				for _, in := range d.Instrs {
					if c, ok := in.(*ssa.Call); ok {
						if o := calleeObj(c); o != nil && o.Pkg() != nil && o.Pkg().Path() == "fmt" && strings.HasPrefix(o.Name(), "Print") || (calleeObj(c) != nil && calleeObj(c).Pkg() != nil && calleeObj(c).Pkg().Path() == "fmt" && strings.HasPrefix(calleeObj(c).Name(), "Fprint")) {
							prints++
							if mentions(c, errV) {
								withErr++
							}
						}
					}
				}
			}
			r.Check(prints == 1 && withErr == 1, "C18.R1", rname+"|one diagnostic line", site, "one print call that includes the error", fmt.Sprintf("the failure branch prints %d line(s), %d of them with the error", prints, withErr))
		case 2:
		default:
			r.Fail("C18.R1", fmt.Sprintf("%s|return %d", rname, v), site, "undocumented exit code")
		}
	}
	r.Check(n0 >= 1 && n4 >= 1, "C18.R1", rname+"|codes present", p.Pos(runner.Pos()), "returns 0 and 4 exist", "the runner lacks a 0 or a 4 exit")
	// every other error-returning call is tested and fails with 2
	nOther := 0
	for _, b := range runner.Blocks {
		for _, in := range b.Instrs {
			c, ok := in.(*ssa.Call)
			if !ok || c == ex {
				continue
			}
			sig, ok := c.Call.Value.Type().Underlying().(*types.Signature)
			if !ok || c.Call.IsInvoke() {
				if c.Call.IsInvoke() {
					sig = c.Call.Method.Type().(*types.Signature)
				} else {
					continue
				}
			}
			res := sig.Results()
			if res.Len() == 0 || !isErrorType(res.At(res.Len()-1).Type()) {
				continue
			}
			if res.Len() == 1 {
				continue // an error-only call (Flush, Close) yields nothing the script text could be made from
			}
			if o := calleeObj(c); o != nil && o.Pkg() != nil && o.Pkg().Path() == "fmt" {
				continue
			}
			nOther++
			inst := rname + "|error of " + calleeName(c)
			var e ssa.Value
			if res.Len() == 1 {
				e = c
			} else {
				for _, ref := range *c.Referrers() {
					if x, ok := ref.(*ssa.Extract); ok && x.Index == res.Len()-1 {
						e = x
					}
				}
			}
			if e == nil {
				r.Fail("C18.R1", inst, p.Pos(c.Pos()), "the error of "+calleeName(c)+" is discarded: an unreadable script is run as an empty program and reported as success")
				continue
			}
			ok2 := false
			for _, ref := range *e.Referrers() {
				if bo, ok := ref.(*ssa.BinOp); ok && isNilConst(bo.Y) {
					for _, r2 := range *bo.Referrers() {
						if iff, ok := r2.(*ssa.If); ok {
							fail := iff.Block().Succs[0]
							if bo.Op == token.EQL {
								fail = iff.Block().Succs[1]
							}
							if ret, ok := fail.Instrs[len(fail.Instrs)-1].(*ssa.Return); ok {
								if v, isC := constOf(ret); isC && v == 2 {
									ok2 = true
								}
							}
						}
					}
				}
			}
			r.Check(ok2, "C18.R1", inst, p.Pos(c.Pos()), "failure to read the script exits with 2", "the error of "+calleeName(c)+" does not lead to exit code 2")
		}
	}
	r.Floor("C18.R1b", nOther, 1)

	// main: os.Exit(result of the runner)
	if mainFn, _ := sp.Members["main"].(*ssa.Function); mainFn != nil {
		okExit := false
		for _, b := range mainFn.Blocks {
			for _, in := range b.Instrs {
				c, ok := in.(*ssa.Call)
				if !ok {
					continue
				}
				if o := calleeObj(c); o != nil && isFuncNamed(o, "os", "", "Exit") {
					if flowsFromCall(c.Call.Args[0], runner, 0) {
						okExit = true
					}
				}
			}
		}
		r.Check(okExit, "C18.R1", "main|os.Exit(runner result)", p.Pos(mainFn.Pos()), "the process exit code is the runner's result", "main does not pass the runner's result to os.Exit")
		c18Dispatch(p, r, mainFn, runner)
		c18Worlds(p, r, sp, mainFn, runner)
	}

	// R2: arguments of Execute
	args := ex.Call.Args
	if len(args) == 3 {
		c18Source(p, r, rname, ex, args[2])
	}
	okOpt := len(args) == 3 && isNilConst(args[1])
	r.Check(okOpt, "C18.R2", rname+"|nil options", p.Pos(ex.Pos()), "default (non-debug) options", "the command runs scripts with options other than the library default")
	var envG *ssa.Global
	if u, ok := args[0].(*ssa.UnOp); ok {
		envG, _ = u.X.(*ssa.Global)
	}
	if envG == nil {
		r.Fail("C18.R2", rname+"|environment", p.Pos(ex.Pos()), "the environment given to vm.Execute is not the one prepared at start-up")
	} else {
		// the function that stores the global: NewEnv, Define("args", args), core.Import
		okSetup, why := false, "no function prepares the environment"
		for _, fn := range SrcFuncs(sp) {
			stores := false
			for _, b := range fn.Blocks {
				for _, in := range b.Instrs {
					if st, ok := in.(*ssa.Store); ok && st.Addr == ssa.Value(envG) {
						stores = true
					}
				}
			}
			if !stores {
				continue
			}
			hasArgs, hasCore := false, false
			argsSometimes := false
			// the environment value stored into the global, and everything that denotes the same object
			same := func(v ssa.Value) bool { return sameEnvObject(v, envG, fn, 0) }
			for _, b := range fn.Blocks {
				for _, in := range b.Instrs {
					c, ok := in.(*ssa.Call)
					if !ok {
						continue
					}
					o := calleeObj(c)
					if o == nil || o.Pkg() == nil {
						continue
					}
					if isFuncNamed(o, modPath+"/env", "Env", "Define") && len(c.Call.Args) == 3 && same(c.Call.Args[0]) {
						if k, ok := c.Call.Args[1].(*ssa.Const); ok && k.Value != nil && k.Value.ExactString() == "\"args\"" {
							hasArgs = true
							// ... on every path: the script variable exists also when there are no arguments
							for _, rb := range fn.Blocks {
								if ret, ok := rb.Instrs[len(rb.Instrs)-1].(*ssa.Return); ok && !instrDominates(c, ret) {
									argsSometimes = true
								}
							}
						}
					}
					if o.Pkg().Path() == modPath+"/core" && o.Name() == "Import" && len(c.Call.Args) == 1 && same(c.Call.Args[0]) {
						hasCore = true
					}
				}
			}
			switch {
			case !hasArgs:
				why = "args is not defined in the very environment the script runs in"
			case argsSometimes:
				why = "args is defined on some paths only (not when there are no script arguments): a script that reads args then fails with an undefined symbol, while the library with an equally prepared environment runs it"
			case !hasCore:
				why = "core.Import is not applied to the very environment the script runs in (builtins that close over their environment, such as defined and load, would act on another scope)"
			default:
				okSetup = true
			}
			// setup runs before the runner in main
		}
		r.Check(okSetup, "C18.R2", "setup|args+core", "anko.go", "the environment defines args and has the core builtins", why)
		c18ArgsOrder(p, r, sp, modPath)
	}
	blank := false
	for path := range pk.Imports {
		if path == modPath+"/packages" {
			blank = true
		}
	}
	r.Check(blank, "C18.R2", "main|links packages", "anko.go", "package main imports the bundled package tables", "the command is built without the bundled packages: import(...) fails for every script")

	// R3: flag.Args()[1:] only when a file argument exists
	n3 := 0
	for _, fn := range SrcFuncs(sp) {
		for _, b := range fn.Blocks {
			for _, in := range b.Instrs {
				sl, ok := in.(*ssa.Slice)
				if !ok {
					continue
				}
				c, ok := sl.X.(*ssa.Call)
				if !ok {
					continue
				}
				if o := calleeObj(c); o == nil || !isFuncNamed(o, "flag", "", "Args") {
					continue
				}
				n3++
				low, _ := sl.Low.(*ssa.Const)
				okLow := low != nil && low.Int64() == 1 && sl.High == nil
				r.Check(okLow, "C18.R3", funcName(fn)+"|script args", p.Pos(instrPos(sl)), "script arguments are the arguments after the file name", "script arguments are not exactly the arguments after the file name")
				// guarded by NArg() >= 1
				guard := false
				for d := b; d != nil; d = d.Idom() {
					id := d.Idom()
					if id == nil {
						break
					}
					if iff, ok := id.Instrs[len(id.Instrs)-1].(*ssa.If); ok {
						if bo, ok := iff.Cond.(*ssa.BinOp); ok {
							if nc, ok := bo.X.(*ssa.Call); ok {
								if o := calleeObj(nc); o != nil && isFuncNamed(o, "flag", "", "NArg") {
									k, _ := bo.Y.(*ssa.Const)
									onFalse := edgeOnly(id, 1, d)
									onTrue := edgeOnly(id, 0, d)
									if k != nil && ((bo.Op == token.LSS && k.Int64() >= 1 && onFalse) || (bo.Op == token.GEQ && k.Int64() >= 1 && onTrue) || (bo.Op == token.GTR && k.Int64() >= 0 && onTrue)) {
										guard = true
									}
								}
							}
						}
					}
				}
				r.Check(guard, "C18.R3", funcName(fn)+"|script args guarded", p.Pos(instrPos(sl)), "taken only when at least one argument is present", "flag.Args()[1:] can be evaluated with no arguments (slice bounds panic)")
				// with -e there is no file name: every positional argument belongs to the script
				// the positional arguments are looked at only after the command line was parsed; the script file is the first of them
				parsed := false
				for _, fb := range fn.Blocks {
					for _, fin := range fb.Instrs {
						if pc, ok := fin.(*ssa.Call); ok {
							if po := calleeObj(pc); po != nil && isFuncNamed(po, "flag", "", "Parse") && instrDominates(pc, sl) {
								parsed = true
							}
						}
					}
				}
				n3++
				r.Check(parsed, "C18.R3", funcName(fn)+"|flags parsed first", p.Pos(instrPos(sl)), "flag.Parse() comes before the positional arguments are read", "the positional arguments are read without (or before) flag.Parse(): the command line is never interpreted")
				for _, fb := range fn.Blocks {
					for _, fin := range fb.Instrs {
						if ac, ok := fin.(*ssa.Call); ok {
							if ao := calleeObj(ac); ao != nil && isFuncNamed(ao, "flag", "", "Arg") {
								k0, _ := ac.Call.Args[0].(*ssa.Const)
								n3++
								r.Check(k0 != nil && k0.Int64() == 0, "C18.R3", funcName(fn)+"|script file is the first argument", p.Pos(ac.Pos()), "flag.Arg(0)", "the script file is not taken from the first positional argument")
							}
						}
					}
				}
				eg := executeFlagGlobal(sp)
				r.Check(eg != nil, "C18.R3", "main|-e flag", "anko.go", "the command registers the -e flag", "the command does not register a -e flag: source text cannot be given on the command line")
				if eg != nil {
					noE := false
					for d := b; d != nil && d.Idom() != nil; d = d.Idom() {
						id := d.Idom()
						iff, ok := id.Instrs[len(id.Instrs)-1].(*ssa.If)
						if !ok {
							continue
						}
						bo, ok := iff.Cond.(*ssa.BinOp)
						if !ok {
							continue
						}
						u, ok := bo.X.(*ssa.UnOp)
						if !ok || u.X != ssa.Value(eg) {
							continue
						}
						k, ok := bo.Y.(*ssa.Const)
						if !ok || k.Value == nil || k.Value.ExactString() != `""` {
							continue
						}
						if (bo.Op == token.NEQ && edgeOnly(id, 1, d)) || (bo.Op == token.EQL && edgeOnly(id, 0, d)) {
							noE = true
						}
					}
					n3++
					r.Check(noE, "C18.R3", funcName(fn)+"|script args without -e", p.Pos(instrPos(sl)), "the first positional argument is a file name only when no -e source was given", "with -e the first positional argument is still split off as a file name: the script sees one argument less than the same source run through vm.Execute")
				}
			}
		}
	}
	r.Floor("C18.R3", n3, 1)
}

func calleeName(c *ssa.Call) string {
	if o := calleeObj(c); o != nil {
		if o.Pkg() != nil {
			return o.Pkg().Name() + "." + o.Name()
		}
		return o.Name()
	}
	return c.Call.Value.Name()
}

// mentions: v occurs among the (variadic) arguments of call c.
func mentions(c *ssa.Call, v ssa.Value) bool {
	for _, a := range c.Call.Args {
		if a == v {
			return true
		}
		if sl, ok := a.(*ssa.Slice); ok {
			if al, ok := sl.X.(*ssa.Alloc); ok {
				for _, ref := range *al.Referrers() {
					if ia, ok := ref.(*ssa.IndexAddr); ok {
						for _, r2 := range *ia.Referrers() {
							if st, ok := r2.(*ssa.Store); ok {
								if stripConv(st.Val) == v {
									return true
								}
							}
						}
					}
				}
			}
		}
	}
	return false
}

// flowsFromCall: v is (a phi of) results of calls, at least one of which calls fn, stored/loaded through a local.
func flowsFromCall(v ssa.Value, fn *ssa.Function, depth int) bool {
	if depth > 6 {
		return false
	}
	switch x := v.(type) {
	case *ssa.Call:
		return staticCallee(x) == fn
	case *ssa.Phi:
		for _, e := range x.Edges {
			if flowsFromCall(e, fn, depth+1) {
				return true
			}
		}
	case *ssa.UnOp:
		if al, ok := x.X.(*ssa.Alloc); ok {
			for _, ref := range *al.Referrers() {
				if st, ok := ref.(*ssa.Store); ok && flowsFromCall(st.Val, fn, depth+1) {
					return true
				}
			}
		}
	}
	return false
}

// sameEnvObject: v denotes the environment object stored into global g by fn: the stored value itself or a load of g.
func sameEnvObject(v ssa.Value, g *ssa.Global, fn *ssa.Function, depth int) bool {
	if u, ok := v.(*ssa.UnOp); ok && u.X == ssa.Value(g) {
		return true
	}
	for _, b := range fn.Blocks {
		for _, in := range b.Instrs {
			if st, ok := in.(*ssa.Store); ok && st.Addr == ssa.Value(g) && st.Val == v {
				return true
			}
		}
	}
	return false
}

// executeFlagGlobal: the string variable bound to the command's -e flag.
func executeFlagGlobal(sp *ssa.Package) *ssa.Global {
	for _, fn := range SrcFuncs(sp) {
		for _, b := range fn.Blocks {
			for _, in := range b.Instrs {
				c, ok := in.(*ssa.Call)
				if !ok {
					continue
				}
				if o := calleeObj(c); o == nil || !isFuncNamed(o, "flag", "", "StringVar") || len(c.Call.Args) < 2 {
					continue
				}
				if k, ok := c.Call.Args[1].(*ssa.Const); ok && k.Value != nil && k.Value.ExactString() == `"e"` {
					if g, ok := c.Call.Args[0].(*ssa.Global); ok {
						return g
					}
				}
			}
		}
	}
	return nil
}

// c18ArgsOrder: the value bound as "args" is read from a package variable; in main, every function that assigns that variable
// is called before the function that binds it.
func c18ArgsOrder(p *Program, r *Report, sp *ssa.Package, modPath string) {
	var argsG *ssa.Global
	var binder *ssa.Function
	for _, fn := range SrcFuncs(sp) {
		for _, b := range fn.Blocks {
			for _, in := range b.Instrs {
				c, ok := in.(*ssa.Call)
				if !ok {
					continue
				}
				o := calleeObj(c)
				if o == nil || !isFuncNamed(o, modPath+"/env", "Env", "Define") || len(c.Call.Args) != 3 {
					continue
				}
				if k, ok := c.Call.Args[1].(*ssa.Const); !ok || k.Value == nil || k.Value.ExactString() != "\"args\"" {
					continue
				}
				v := c.Call.Args[2]
				if mi, ok := v.(*ssa.MakeInterface); ok {
					v = mi.X
				}
				if u, ok := v.(*ssa.UnOp); ok {
					if g, ok := u.X.(*ssa.Global); ok {
						argsG, binder = g, fn
					}
				}
			}
		}
	}
	if argsG == nil {
		return // args is not taken from a package variable: nothing to order
	}
	assigners := map[*ssa.Function]bool{}
	for _, fn := range SrcFuncs(sp) {
		for _, b := range fn.Blocks {
			for _, in := range b.Instrs {
				if st, ok := in.(*ssa.Store); ok && st.Addr == ssa.Value(argsG) && fn.Name() != "init" {
					assigners[fn] = true
				}
			}
		}
	}
	mainFn := sp.Func("main")
	if mainFn == nil || binder == nil {
		return
	}
	var bindCall ssa.Instruction
	var assignCalls []ssa.Instruction
	for _, b := range mainFn.Blocks {
		for _, in := range b.Instrs {
			if c, ok := in.(*ssa.Call); ok {
				if callee := staticCallee(c); callee != nil {
					if callee == binder {
						bindCall = in
					}
					if assigners[callee] {
						assignCalls = append(assignCalls, in)
					}
				}
			}
		}
	}
	if bindCall == nil {
		return
	}
	bad := ""
	for _, a := range assignCalls {
		if !instrDominates(a, bindCall) {
			bad = p.Pos(instrPos(a))
		}
	}
	r.Check(bad == "" && (len(assignCalls) > 0 || len(assigners) == 0), "C18.R2", "main|arguments parsed before they are bound", p.Pos(instrPos(bindCall)), "the variable holding the script arguments is assigned before the environment binds it",
		"the environment binds the script arguments before the command line is parsed (the assignment at "+bad+" comes later): every script sees an empty args")
}

// c18Source (R2): the source text handed to vm.Execute is a command-line string as it stands or string(b) for b the whole content
// of a file, obtained by one of the library's read-everything calls (os.ReadFile, ioutil.ReadFile, io.ReadAll / ioutil.ReadAll of
// the opened file), directly or through a helper of package main that returns just that.
func c18Source(p *Program, r *Report, rname string, ex *ssa.Call, src ssa.Value) {
	r.Explain("R2 also: the source handed to vm.Execute is a command-line string or string(b) with b from a read-everything call (os.ReadFile, ioutil.ReadFile, io.ReadAll, ioutil.ReadAll), possibly through a helper of package main.")
	var leaves []ssa.Value
	seen := map[ssa.Value]bool{}
	var walk func(v ssa.Value)
	walk = func(v ssa.Value) {
		if seen[v] {
			return
		}
		seen[v] = true
		if sv := spilledValue(v); sv != nil {
			walk(sv)
			return
		}
		if ph, ok := v.(*ssa.Phi); ok {
			for _, e := range ph.Edges {
				walk(e)
			}
			return
		}
		leaves = append(leaves, v)
	}
	walk(src)
	nFile := 0
	for _, l := range leaves {
		if u, ok := l.(*ssa.UnOp); ok {
			if _, isG := u.X.(*ssa.Global); isG {
				continue // the -e text
			}
		}
		cv, ok := l.(*ssa.Convert)
		if !ok {
			r.Undecided("C18.R2", rname+"|source text", p.Pos(ex.Pos()), "the source given to vm.Execute is neither a command-line string nor string(bytes read from the file)")
			return
		}
		nFile++
		why := wholeFileRead(cv.X, 0)
		r.Check(why == "", "C18.R2", fmt.Sprintf("%s|source is the whole file #%d", rname, nFile), p.Pos(cv.Pos()), "the bytes come from a read-everything call on the script file",
			"the script text is not the result of a read-everything call ("+why+"): a file whose length is not known beforehand (pipe, /dev/stdin, process substitution) is cut short, so the command runs a different program than vm.Execute on the same source")
	}
	if nFile == 0 {
		r.Undecided("C18.R2", rname+"|source text", p.Pos(ex.Pos()), "no file-reading branch feeds vm.Execute")
	}
}

// wholeFileRead: "" when byte slice v is the complete content of a file by construction.
func wholeFileRead(v ssa.Value, depth int) string {
	if depth > 4 {
		return "helper chain too deep"
	}
	if sv := spilledValue(v); sv != nil {
		v = sv
	}
	// a result variable (functions with defers return through one): every value stored into it
	if u, ok := v.(*ssa.UnOp); ok {
		if al, ok := u.X.(*ssa.Alloc); ok {
			n := 0
			for _, ref := range *al.Referrers() {
				switch x := ref.(type) {
				case *ssa.Store:
					if x.Addr == ssa.Value(al) {
						n++
						if w := wholeFileRead(x.Val, depth+1); w != "" {
							return w
						}
					}
				case *ssa.UnOp:
				default:
					return "the buffer variable escapes"
				}
			}
			if n > 0 {
				return ""
			}
		}
	}
	if ph, ok := v.(*ssa.Phi); ok {
		for _, e := range ph.Edges {
			if w := wholeFileRead(e, depth+1); w != "" {
				return w
			}
		}
		return ""
	}
	if c, ok := v.(*ssa.Const); ok && c.IsNil() {
		return ""
	}
	ext, ok := v.(*ssa.Extract)
	if !ok || ext.Index != 0 {
		return "the buffer is built by hand"
	}
	call, ok := ext.Tuple.(*ssa.Call)
	if !ok {
		return "the buffer is built by hand"
	}
	o := calleeObj(call)
	switch {
	case isFuncNamed(o, "os", "", "ReadFile"), isFuncNamed(o, "io/ioutil", "", "ReadFile"):
		return ""
	case isFuncNamed(o, "io", "", "ReadAll"), isFuncNamed(o, "io/ioutil", "", "ReadAll"):
		return ""
	}
	callee := staticCallee(call)
	if callee == nil || len(callee.Blocks) == 0 {
		if o != nil {
			return "bytes come from " + o.FullName()
		}
		return "bytes come from a dynamic call"
	}
	n := 0
	for _, b := range callee.Blocks {
		ret, ok := b.Instrs[len(b.Instrs)-1].(*ssa.Return)
		if !ok || len(ret.Results) == 0 {
			continue
		}
		n++
		if w := wholeFileRead(ret.Results[0], depth+1); w != "" {
			return "in " + callee.Name() + " " + w
		}
	}
	if n == 0 {
		return callee.Name() + " never returns"
	}
	return ""
}

// c18Dispatch (R3): any other mode main can end in (the interactive prompt) is entered only when there is no positional argument:
// whenever a script file was named on the command line - whatever its name, the empty string included - the script runner runs
// and an unreadable file is reported with exit code 2.
func c18Dispatch(p *Program, r *Report, mainFn, runner *ssa.Function) {
	// values that reach os.Exit
	var exitArgs []ssa.Value
	for _, b := range mainFn.Blocks {
		for _, in := range b.Instrs {
			if c, ok := in.(*ssa.Call); ok && isFuncNamed(calleeObj(c), "os", "", "Exit") {
				exitArgs = append(exitArgs, c.Call.Args[0])
			}
		}
	}
	var others []*ssa.Call
	seen := map[ssa.Value]bool{}
	var walk func(v ssa.Value)
	walk = func(v ssa.Value) {
		if seen[v] {
			return
		}
		seen[v] = true
		switch x := v.(type) {
		case *ssa.Call:
			if callee := staticCallee(x); callee != nil && callee != runner && callee.Pkg == mainFn.Pkg {
				others = append(others, x)
			}
		case *ssa.Phi:
			for _, e := range x.Edges {
				walk(e)
			}
		case *ssa.UnOp:
			if al, ok := x.X.(*ssa.Alloc); ok {
				for _, ref := range *al.Referrers() {
					if st, ok := ref.(*ssa.Store); ok {
						walk(st.Val)
					}
				}
			}
		}
	}
	for _, a := range exitArgs {
		walk(a)
	}
	// noArgs: the successor index of an If on which "no positional argument" is known, -1 when the test is not about them
	noArgs := func(iff *ssa.If) int {
		bo, ok := iff.Cond.(*ssa.BinOp)
		if !ok {
			return -1
		}
		k, ok := bo.Y.(*ssa.Const)
		if !ok || k.Value == nil {
			return -1
		}
		count := false
		if c, ok := bo.X.(*ssa.Call); ok {
			if isFuncNamed(calleeObj(c), "flag", "", "NArg") {
				count = true
			}
			if b, ok := c.Call.Value.(*ssa.Builtin); ok && b.Name() == "len" {
				if c2, ok := c.Call.Args[0].(*ssa.Call); ok && isFuncNamed(calleeObj(c2), "flag", "", "Args") {
					count = true
				}
			}
		}
		if !count {
			return -1
		}
		n := k.Int64()
		switch {
		case bo.Op == token.GTR && n == 0, bo.Op == token.GEQ && n == 1, bo.Op == token.NEQ && n == 0:
			return 1
		case bo.Op == token.EQL && n == 0, bo.Op == token.LSS && n == 1, bo.Op == token.LEQ && n == 0:
			return 0
		}
		return -1
	}
	for i, c := range others {
		ok := false
		for d := c.Block(); d != nil && d.Idom() != nil; d = d.Idom() {
			id := d.Idom()
			if iff, isIf := id.Instrs[len(id.Instrs)-1].(*ssa.If); isIf {
				if s := noArgs(iff); s >= 0 && edgeOnly(id, s, d) {
					ok = true
				}
			}
		}
		name := "?"
		if callee := staticCallee(c); callee != nil {
			name = callee.Name()
		}
		r.Check(ok, "C18.R3", fmt.Sprintf("main|%s #%d only without positional arguments", name, i+1), p.Pos(c.Pos()), "entered only on the side of a test of the positional-argument count where it is zero",
			"the command can enter "+name+" although a positional argument (a script file name) was given: the decision is not taken on the number of arguments, so some file name (the empty string, for one) is not run as a script and not reported as unreadable with exit code 2")
	}
	if len(others) == 0 {
		r.OK("C18.R3", "main|single mode", p.Pos(mainFn.Pos()), "main ends in the script runner only")
	}
}

// c18Worlds (R4): the decision logic of the command is small enough to be evaluated outright. The conditions of main and of the
// flag-parsing function that test the -e text against "" or the number of positional arguments against a constant are
// evaluated for each of the six situations (-e given or not) x (0, 1, 2 positional arguments); every other condition takes both
// branches. In each situation exactly the right things must be reachable: the prompt only without -e and without arguments, the
// script runner otherwise; the file name taken from the first argument (and the script's arguments from the rest) only without
// -e and with an argument, all arguments handed to the script otherwise; and the variable bound as `args` assigned on every
// path. main calls the function that prepares the environment before the runner on every path.
func c18Worlds(p *Program, r *Report, sp *ssa.Package, mainFn, runner *ssa.Function) {
	eg := executeFlagGlobal(sp)
	if eg == nil {
		return
	}
	// the args variable: bound by Define("args", argsG)
	var argsG *ssa.Global
	var setup *ssa.Function
	for _, fn := range SrcFuncs(sp) {
		for _, b := range fn.Blocks {
			for _, in := range b.Instrs {
				c, ok := in.(*ssa.Call)
				if !ok || len(c.Call.Args) != 3 || !isFuncNamed(calleeObj(c), modPath+"/env", "Env", "Define") {
					continue
				}
				if k, ok := c.Call.Args[1].(*ssa.Const); !ok || k.Value == nil || k.Value.ExactString() != "\"args\"" {
					continue
				}
				v := c.Call.Args[2]
				if mi, ok := v.(*ssa.MakeInterface); ok {
					v = mi.X
				}
				if u, ok := v.(*ssa.UnOp); ok {
					if g, ok := u.X.(*ssa.Global); ok {
						argsG, setup = g, fn
					}
				}
			}
		}
	}
	if argsG == nil {
		r.Fail("C18.R4", "setup|args is the argument list itself", p.Pos(mainFn.Pos()), "the value bound as args is not the variable the positional arguments were stored in (a copy or another value is bound): what the script sees as args can differ from what the library sees when the same list is defined in its environment (a nil list instead of an empty one when there are no arguments)")
		return
	}
	// atom: value of a condition in the situation (e given, n positional arguments)
	atomVal := func(v ssa.Value, e bool, n int64) (bool, bool) {
		bo, ok := v.(*ssa.BinOp)
		if !ok {
			return false, false
		}
		k, ok := bo.Y.(*ssa.Const)
		if !ok || k.Value == nil {
			return false, false
		}
		if u, ok := bo.X.(*ssa.UnOp); ok && u.X == ssa.Value(eg) && k.Value.ExactString() == `""` {
			switch bo.Op {
			case token.NEQ:
				return e, true
			case token.EQL:
				return !e, true
			}
			return false, false
		}
		count := false
		if c, ok := bo.X.(*ssa.Call); ok {
			if isFuncNamed(calleeObj(c), "flag", "", "NArg") {
				count = true
			}
			if b, ok := c.Call.Value.(*ssa.Builtin); ok && b.Name() == "len" {
				if c2, ok := c.Call.Args[0].(*ssa.Call); ok && isFuncNamed(calleeObj(c2), "flag", "", "Args") {
					count = true
				}
			}
		}
		if !count {
			return false, false
		}
		kk := k.Int64()
		switch bo.Op {
		case token.LSS:
			return n < kk, true
		case token.LEQ:
			return n <= kk, true
		case token.GTR:
			return n > kk, true
		case token.GEQ:
			return n >= kk, true
		case token.EQL:
			return n == kk, true
		case token.NEQ:
			return n != kk, true
		}
		return false, false
	}
	worldOf := func(fn *ssa.Function, e bool, n int64) map[ssa.Value]bool {
		w := map[ssa.Value]bool{}
		for _, b := range fn.Blocks {
			for _, in := range b.Instrs {
				if v, ok := in.(ssa.Value); ok {
					if val, ok := atomVal(v, e, n); ok {
						w[v] = val
					}
				}
			}
		}
		return w
	}
	// classify the interesting instructions
	var parseFn *ssa.Function
	for _, fn := range SrcFuncs(sp) {
		if fn == mainFn || fn.Name() == "init" || argsG == nil {
			continue
		}
		for _, b := range fn.Blocks {
			for _, in := range b.Instrs {
				if st, ok := in.(*ssa.Store); ok && st.Addr == ssa.Value(argsG) {
					parseFn = fn
				}
			}
		}
	}
	type want func(e bool, n int64) bool
	// checkGroup: the instructions of one group (all assignments of one kind, all calls of one function) taken together
	checkGroup := func(fn *ssa.Function, ins []ssa.Instruction, inst, what string, should want, mustReach bool) {
		if len(ins) == 0 {
			return
		}
		bad := ""
		for _, e := range []bool{false, true} {
			for _, n := range []int64{0, 1, 2} {
				reachW := worldReach(fn, worldOf(fn, e, n))
				reach := false
				for _, in := range ins {
					if reachW[in.Block()] {
						reach = true
					}
				}
				if reach && !should(e, n) {
					bad = fmt.Sprintf("%s is reachable with -e %s and %d positional argument(s)", what, map[bool]string{true: "given", false: "not given"}[e], n)
				}
				if mustReach && !reach && should(e, n) {
					bad = fmt.Sprintf("%s is not reachable with -e %s and %d positional argument(s)", what, map[bool]string{true: "given", false: "not given"}[e], n)
				}
			}
		}
		r.Check(bad == "", "C18.R4", inst, p.Pos(instrPos(ins[0])), "reachable in exactly the situations it is meant for (six situations evaluated)", bad+": the command then does something else than running that source with those arguments")
	}
	n := 0
	// main: runner vs. anything else that feeds os.Exit
	var runCalls []ssa.Instruction
	otherCalls := map[string][]ssa.Instruction{}
	var otherNames []string
	for _, b := range mainFn.Blocks {
		for _, in := range b.Instrs {
			c, ok := in.(*ssa.Call)
			if !ok {
				continue
			}
			callee := staticCallee(c)
			if callee == nil || callee.Pkg != sp || callee.Signature.Results().Len() != 1 {
				continue
			}
			if callee == runner {
				runCalls = append(runCalls, c)
			} else {
				if otherCalls[callee.Name()] == nil {
					otherNames = append(otherNames, callee.Name())
				}
				otherCalls[callee.Name()] = append(otherCalls[callee.Name()], c)
			}
		}
	}
	if len(runCalls) > 0 {
		n++
		checkGroup(mainFn, runCalls, "main|script runner", "the script runner", func(e bool, n int64) bool { return e || n > 0 }, true)
	}
	for _, name := range otherNames {
		n++
		checkGroup(mainFn, otherCalls[name], "main|"+name, name, func(e bool, n int64) bool { return !e && n == 0 }, false)
	}
	// main: environment prepared before the runner
	if setup != nil {
		var runCall, setupCall ssa.Instruction
		for _, b := range mainFn.Blocks {
			for _, in := range b.Instrs {
				if c, ok := in.(*ssa.Call); ok {
					switch staticCallee(c) {
					case runner:
						runCall = c
					case setup:
						setupCall = c
					}
				}
			}
		}
		if runCall != nil {
			n++
			r.Check(setupCall != nil && instrDominates(setupCall, runCall), "C18.R4", "main|environment prepared before the runner", p.Pos(instrPos(runCall)), "the function that creates the environment and binds args is called on every path to the runner",
				"main reaches the script runner without having called "+setup.Name()+": the script runs without args and without the builtins (or in no environment at all)")
		}
	}
	if parseFn != nil {
		var allStores, tailStores []ssa.Instruction
		for _, b := range parseFn.Blocks {
			for _, in := range b.Instrs {
				st, ok := in.(*ssa.Store)
				if !ok || st.Addr != ssa.Value(argsG) {
					continue
				}
				if _, sliced := st.Val.(*ssa.Slice); sliced {
					tailStores = append(tailStores, st)
				} else {
					allStores = append(allStores, st)
				}
			}
		}
		n += 2
		checkGroup(parseFn, tailStores, parseFn.Name()+"|args = the arguments after the file name", "taking the first argument for the file name", func(e bool, n int64) bool { return !e && n > 0 }, true)
		checkGroup(parseFn, allStores, parseFn.Name()+"|args = all arguments", "handing every positional argument to the script", func(e bool, n int64) bool { return e || n == 0 }, true)
		// args assigned on every path
		blocked := func(x *ssa.BasicBlock) bool {
			for _, in := range x.Instrs {
				if st, ok := in.(*ssa.Store); ok && st.Addr == ssa.Value(argsG) {
					return true
				}
			}
			return false
		}
		reach := reachable(parseFn.Blocks[0], blocked)
		bad := ""
		for _, b := range parseFn.Blocks {
			if ret, ok := b.Instrs[len(b.Instrs)-1].(*ssa.Return); ok && reach[b] {
				bad = "the return at " + p.Pos(instrPos(ret)) + " is reached without the variable bound as args having been assigned"
			}
		}
		n++
		r.Check(bad == "", "C18.R4", parseFn.Name()+"|args assigned on every path", p.Pos(parseFn.Pos()), "every return lies behind an assignment", bad+": the script sees no arguments")
		// the file variable: what the runner reads is a variable assigned flag.Arg(0) here
		fileAssigned := false
		for _, b := range parseFn.Blocks {
			for _, in := range b.Instrs {
				st, ok := in.(*ssa.Store)
				if !ok {
					continue
				}
				g, ok := st.Addr.(*ssa.Global)
				if !ok || g == argsG {
					continue
				}
				if c, ok := st.Val.(*ssa.Call); ok && isFuncNamed(calleeObj(c), "flag", "", "Arg") {
					// the runner reads this variable
					for _, rb := range runner.Blocks {
						for _, rin := range rb.Instrs {
							if u, ok := rin.(*ssa.UnOp); ok && u.X == ssa.Value(g) {
								fileAssigned = true
							}
						}
					}
					n++
					checkGroup(parseFn, []ssa.Instruction{st}, parseFn.Name()+"|file name = first argument", "taking the first argument for the file name", func(e bool, n int64) bool { return !e && n > 0 }, true)
				}
			}
		}
		n++
		r.Check(fileAssigned, "C18.R4", parseFn.Name()+"|file name reaches the runner", p.Pos(parseFn.Pos()), "the variable the runner reads is assigned flag.Arg(...) here", "no variable read by the script runner is assigned from flag.Arg: the file named on the command line is never the one that is read")
	}
	r.Floor("C18.R4", n, 7)
}
