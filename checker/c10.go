package main

import (
	"fmt"
	"go/token"
	"go/types"
	"sort"
	"strings"

	"golang.org/x/tools/go/ssa"
)

func init() {
	register("C10", "slices, maps, strings and struct fields behave like their Go models", checkC10)
}

// storeSink: one place where package vm hands a value to reflect for storing into a typed container.
type storeSink struct {
	fn    *ssa.Function
	in    ssa.Instruction
	kind  string // Set, SetMapIndex key, SetMapIndex value, Append, AppendSlice, Send
	have  ssa.Value
	want  string // required type term
	label string
}

func checkC10(p *Program, r *Report) {
	r.Explain("C10: agreement with a Go model for all index values is value-level and not decided. Decided are structural necessary conditions: " +
		"R1 typed stores convert first: at every place where package vm stores into a typed container through reflect (Value.Set, SetMapIndex key and value, reflect.Append/AppendSlice, the Send of a select case) the stored value's type term equals (or is assignable to) the type term the sink requires. " +
		"R14 a function that concatenates two of its slice parameters with reflect.AppendSlice never returns the right operand itself (the result of + never shares storage with the right operand). " +
		"R2 keys are hashable before use. R3 failure leaves the container unchanged. R4 reads and writes address the same element. R5 missing key reads nil, unknown field is an error. " +
		"R6 a container that had to be replaced (append at len, nil map, rebuilt string) is assigned back to the node's own container operand: at every call of the assignment dispatcher in the element/member write handlers the expression cell holds exactly that operand.")
	r.Assume("that every in-range operation returns exactly the addressed element for every index value, storage sharing of 3-index slices and automatic growth are reflect's and are not decided; a missing bounds guard still yields an error through the boundary recover of C01")
	treeLiteralsNotAddressable(p, r, "C10.R11")
	m, err := buildVMModel(p)
	if err != nil {
		r.Undecided("C10.R1", "model", "vm", err.Error())
		return
	}
	sums := buildTypeSummaries(m)
	var sl []string
	for fn, i := range sums.typeParam {
		sl = append(sl, fmt.Sprintf("%s: result assignable to type parameter %d", funcName(fn), i))
	}
	for fn, i := range sums.likeParam {
		sl = append(sl, fmt.Sprintf("%s: result typed like parameter %d", funcName(fn), i))
	}
	sort.Strings(sl)
	r.Note("C10.R1 result-type summaries", sl)
	r.Note("C10.R1 resolved type globals", sums.globals)
	c10Sinks(p, r, m, sums)
	c10Addressing(p, r, m, sums)
	c10Hashable(p, r, m, sums)
	c10Unchanged(p, r, m, sums)
	c10Missing(p, r, m)
	c10FoundEntryReturned(p, r, m, "C10.R5")
	c10WriteBack(p, r, m, sums)
	c10Make(p, r, m, sums)
	c10Applied(p, r, m, sums)
	c10GuardSiblings(p, r, m, sums)
	c10FailureRaises(p, r, m)
	c10ContainerConverters(p, r, m, "C10.R12")
	accessorKindAgreement(p, r, m, "C10.R13")
	c10DeleteValidates(p, r, m)
	c10ConcatFresh(p, r, m, "C10.R14")
}

// c10ConcatFresh (R14): a function of vm that concatenates two slices with reflect.AppendSlice(left, right), both
// operands being its own parameters, never hands back the right operand itself. Go's append(a, b...) yields storage
// that belongs to a (or fresh storage): a result that IS b makes a later store through the result change b.
func c10ConcatFresh(p *Program, r *Report, m *vmModel, rule string) {
	n := 0
	for _, fn := range SrcFuncs(m.sp) {
		var left, right *ssa.Parameter
		for _, b := range fn.Blocks {
			for _, in := range b.Instrs {
				c, ok := in.(*ssa.Call)
				if !ok {
					continue
				}
				if o := calleeObj(c); o == nil || !isFuncNamed(o, "reflect", "", "AppendSlice") {
					continue
				}
				l, ok1 := paramBehind(c.Call.Args[0])
				rr, ok2 := paramBehind(c.Call.Args[1])
				if ok1 && ok2 && l != rr {
					left, right = l, rr
				}
			}
		}
		if left == nil {
			continue
		}
		n++
		k := 0
		for _, b := range fn.Blocks {
			ret, ok := b.Instrs[len(b.Instrs)-1].(*ssa.Return)
			if !ok || len(ret.Results) == 0 {
				continue
			}
			k++
			bad := false
			seen := map[ssa.Value]bool{}
			var walk func(v ssa.Value, d int)
			walk = func(v ssa.Value, d int) {
				if d > 8 || seen[v] {
					return
				}
				seen[v] = true
				if sv := spilledValue(v); sv != nil {
					v = sv
				}
				switch x := v.(type) {
				case *ssa.Parameter:
					if x == right {
						bad = true
					}
				case *ssa.Phi:
					for _, e := range x.Edges {
						walk(e, d+1)
					}
				}
			}
			walk(ret.Results[0], 0)
			r.Check(!bad, rule, fmt.Sprintf("%s|return #%d is not the right operand", funcName(fn), k), p.Pos(ret.Pos()),
				"the result is the left operand, a reflect.Append/AppendSlice of it, or an error value",
				"a slice concatenation hands back its right operand itself ("+right.Name()+"): the result shares storage with that operand, so a store through the result changes it — Go's append never does that")
		}
	}
	r.Floor(rule, n, 1)
}

// paramBehind: v is a parameter of its function (directly, or the load of the parameter's spill slot).
func paramBehind(v ssa.Value) (*ssa.Parameter, bool) {
	if sv := spilledValue(v); sv != nil {
		v = sv
	}
	if p, ok := v.(*ssa.Parameter); ok {
		return p, true
	}
	if ph, ok := v.(*ssa.Phi); ok {
		// a parameter that is re-assigned in a loop (lhsV = reflect.Append(lhsV, ...)) is still the left operand
		for _, e := range ph.Edges {
			if p, ok := e.(*ssa.Parameter); ok {
				return p, true
			}
		}
	}
	return nil, false
}

func c10Sinks(p *Program, r *Report, m *vmModel, sums *typeSummaries) {
	n := 0
	for _, fn := range m.fns {
		if len(fn.Blocks) == 0 || strings.HasPrefix(fn.Name(), "init") {
			continue
		}
		var tt *typeTerms
		get := func() *typeTerms {
			if tt == nil {
				tt = newTypeTerms(m, fn, sums)
			}
			return tt
		}
		perKind := map[string]int{}
		emit := func(in ssa.Instruction, kind string, have ssa.Value, want string) {
			t := get()
			n++
			perKind[kind]++
			inst := fmt.Sprintf("%s|%s #%d", funcName(fn), kind, perKind[kind])
			h := t.vtype(have)
			if u := t.unchecked(have, in.Block()); u != "" {
				r.Fail("C10.R1", inst, p.Pos(instrPos(in)), "the value comes from "+u+" whose error is not tested before it is stored: on failure the unconverted value reaches the container")
			} else if t.assignableAt(h, want, in.Block()) {
				r.OK("C10.R1", inst, p.Pos(instrPos(in)), "stored value has type "+h+", the sink requires "+want)
			} else {
				r.Fail("C10.R1", inst, p.Pos(instrPos(in)), "a value of type "+h+" is stored where "+want+" is required, without a conversion to that type on this path")
			}
		}
		for _, b := range fn.Blocks {
			for _, in := range b.Instrs {
				switch x := in.(type) {
				case *ssa.Call:
					a := x.Call.Args
					switch reflectMethod(x) {
					case "Set":
						// a store through the direct result of Value.Slice / Slice3 is dead: such a value is never settable, so the
						// CanSet test in front of the store always fails (`a[i:j] = v` always reports "slice cannot be assigned")
						recv := a[0]
						if sv := spilledValue(recv); sv != nil {
							recv = sv
						}
						if sc, ok := recv.(*ssa.Call); ok && (reflectMethod(sc) == "Slice" || reflectMethod(sc) == "Slice3") && underCanSet(b, recv) {
							n++
							perKind["Set"]++
							r.OK("C10.R1", fmt.Sprintf("%s|Set #%d", funcName(fn), perKind["Set"]), p.Pos(instrPos(in)), "dead sink: the target is the direct result of reflect.Value.Slice3, which is never settable; the CanSet test in front of it always fails")
							continue
						}
						emit(in, "Set", a[1], get().vtype(a[0]))
					case "SetMapIndex":
						emit(in, "SetMapIndex key", a[1], tKey(get().vtype(a[0])))
						if !isValueNil(a[2]) {
							emit(in, "SetMapIndex value", a[2], tElem(get().vtype(a[0])))
						}
					case "Send", "TrySend":
						emit(in, "Send", a[1], tElem(get().vtype(a[0])))
					}
					if o := calleeObj(x); o != nil && o.Pkg() != nil && o.Pkg().Path() == "reflect" {
						switch o.Name() {
						case "Append":
							els := variadicElems(a[1])
							if els == nil {
								n++
								r.Undecided("C10.R1", fmt.Sprintf("%s|Append elements", funcName(fn)), p.Pos(x.Pos()), "appended elements not identified")
							}
							for _, e := range els {
								emit(in, "Append", e, tElem(get().vtype(a[0])))
							}
						case "AppendSlice":
							t := get()
							n++
							perKind["AppendSlice"]++
							inst := fmt.Sprintf("%s|AppendSlice #%d", funcName(fn), perKind["AppendSlice"])
							h, w := tElem(t.vtype(a[1])), tElem(t.vtype(a[0]))
							r.Check(t.sameType(h, w, b), "C10.R1", inst, p.Pos(x.Pos()), "element types agree: "+h, "slices with element types "+h+" and "+w+" are joined without a test that the types agree")
						}
					}
				case *ssa.Store:
					// reflect.SelectCase{Chan: c, Send: v}
					fa, ok := x.Addr.(*ssa.FieldAddr)
					if !ok || !isNamed(derefType(fa.X.Type()), "reflect", "SelectCase") || fieldOfAddr(fa).Name() != "Send" {
						continue
					}
					var ch ssa.Value
					for _, ref := range *fa.X.Referrers() {
						if fa2, ok := ref.(*ssa.FieldAddr); ok && fieldOfAddr(fa2).Name() == "Chan" {
							for _, r2 := range *fa2.Referrers() {
								if st, ok := r2.(*ssa.Store); ok && st.Addr == ssa.Value(fa2) {
									ch = st.Val
								}
							}
						}
					}
					if ch == nil {
						n++
						r.Undecided("C10.R1", funcName(fn)+"|select send", p.Pos(x.Pos()), "channel of the send case not identified")
						continue
					}
					emit(in, "select send", x.Val, tElem(get().vtype(ch)))
				}
			}
		}
	}
	r.Floor("C10.R1", n, 30)
}

// variadicElems: the values stored into the implicit slice of a variadic call.
func variadicElems(v ssa.Value) []ssa.Value {
	sl, ok := v.(*ssa.Slice)
	if !ok {
		return nil
	}
	al, ok := sl.X.(*ssa.Alloc)
	if !ok {
		return nil
	}
	var out []ssa.Value
	for _, ref := range *al.Referrers() {
		if ia, ok := ref.(*ssa.IndexAddr); ok {
			for _, r2 := range *ia.Referrers() {
				if st, ok := r2.(*ssa.Store); ok && st.Addr == ssa.Value(ia) {
					out = append(out, st.Val)
				}
			}
		}
	}
	return out
}

var _ = types.Identical

// handlerSet: the handlers of the given node kinds plus the helpers only they call (evaluators excluded).
func c10HandlerSet(m *vmModel, a *addrAnalysis, kinds ...string) map[*ssa.Function]string {
	set := map[*ssa.Function]string{}
	var work []*ssa.Function
	for _, role := range []string{"expr", "let", "stmt"} {
		for _, k := range kinds {
			if h := m.handlers[role][k]; h != nil {
				set[h] = role + " " + k
				work = append(work, h)
			}
		}
	}
	for len(work) > 0 {
		fn := work[0]
		work = work[1:]
		for _, b := range fn.Blocks {
			for _, in := range b.Instrs {
				c, ok := in.(*ssa.Call)
				if !ok {
					continue
				}
				callee := staticCallee(c)
				if callee == nil || callee.Pkg != m.sp || callee == m.evalExpr || callee == m.evalLet || callee == m.evalStmt || callee == m.evalOp {
					continue
				}
				if _, seen := set[callee]; seen || a.uniqueCaller(callee) == nil || m.baseOf(callee) == nil {
					continue
				}
				set[callee] = set[fn]
				work = append(work, callee)
			}
		}
	}
	return set
}

// errorExit: block b belongs to a failure path: it stores a non-nil error into the record, or is entered on the non-nil side of a test of the error cell.
func c10ErrorBlock(m *vmModel, tt *typeTerms, b *ssa.BasicBlock) bool {
	for _, in := range b.Instrs {
		if st, ok := in.(*ssa.Store); ok && tt.base != nil && m.cellAddr(st.Addr, tt.base) == "err" && !isNilConst(st.Val) {
			if _, isEx := st.Val.(*ssa.Extract); !isEx {
				return true
			}
		}
	}
	if len(b.Preds) == 1 {
		pr := b.Preds[0]
		if iff, ok := pr.Instrs[len(pr.Instrs)-1].(*ssa.If); ok {
			if bo, ok := iff.Cond.(*ssa.BinOp); ok && isNilConst(bo.Y) && isErrorType(bo.X.Type()) {
				if (bo.Op == token.NEQ && pr.Succs[0] == b) || (bo.Op == token.EQL && pr.Succs[1] == b) {
					return true
				}
			}
		}
	}
	return false
}

func c10Addressing(p *Program, r *Report, m *vmModel, sums *typeSummaries) {
	va := buildEvalAnalysis(m)
	a := newAddrAnalysis(m, va, sums)
	set := c10HandlerSet(m, a, "ItemExpr", "SliceExpr")
	var fns []*ssa.Function
	for fn := range set {
		fns = append(fns, fn)
	}
	sort.Slice(fns, func(i, j int) bool { return funcName(fns[i]) < funcName(fns[j]) })
	nAddr := 0
	for _, fn := range fns {
		what := set[fn]
		isSliceNode := strings.HasSuffix(what, "SliceExpr")
		isLet := strings.HasPrefix(what, "let")
		tt := a.tt(fn)
		uses := map[string]map[*ssa.BasicBlock]bool{} // operand field -> blocks that apply its integer value
		use := func(sym string, b *ssa.BasicBlock) {
			for _, alt := range strings.Split(sym, "|") {
				alt = strings.TrimSuffix(strings.TrimSuffix(alt, "+1"), "-1")
				if strings.HasPrefix(alt, "int(") {
					f := alt[4 : len(alt)-1]
					if uses[f] == nil {
						uses[f] = map[*ssa.BasicBlock]bool{}
					}
					uses[f][b] = true
				}
			}
		}
		per := map[string]int{}
		check := func(in ssa.Instruction, kind string, ok bool, good, bad string) {
			nAddr++
			per[kind]++
			r.Check(ok, "C10.R4", fmt.Sprintf("%s|%s #%d", funcName(fn), kind, per[kind]), p.Pos(instrPos(in)), good, bad)
		}
		var conversions []*ssa.Extract
		for _, b := range fn.Blocks {
			for _, in := range b.Instrs {
				switch x := in.(type) {
				case *ssa.Extract:
					if c, ok := x.Tuple.(*ssa.Call); ok && x.Index == 0 && a.isIntConverter(staticCallee(c)) {
						conversions = append(conversions, x)
					}
				case *ssa.If:
					// `index == len(item)` selects the append path: the index decides there
					if bo, ok := x.Cond.(*ssa.BinOp); ok && bo.Op == token.EQL {
						l, rr := a.symInt(fn, bo.X, 0), a.symInt(fn, bo.Y, 0)
						if strings.HasPrefix(l, "int(") && rr == "len(Item)" {
							use(l, b.Succs[0])
						}
					}
				case *ssa.Call:
					args := x.Call.Args
					switch reflectMethod(x) {
					case "Index":
						cont := a.opnd(fn, args[0], 0)
						i := a.symInt(fn, args[1], 0)
						use(i, b)
						check(in, "Index", cont == "Item" && i == "int(Index)", "element Item[int(Index)]", fmt.Sprintf("the element addressed is %s[%s], not Item[int(Index)]", orQ(cont), i))
					case "Slice", "Slice3":
						cont := a.opnd(fn, args[0], 0)
						lo, hi := a.symInt(fn, args[1], 0), a.symInt(fn, args[2], 0)
						use(lo, b)
						use(hi, b)
						if !isSliceNode {
							continue // string rebuild: judged as a whole below
						}
						bad := ""
						if cont != "Item" {
							bad = "the sliced container is " + orQ(cont) + ", not the Item operand"
						} else if lo != "0|int(Begin)" {
							bad = "the low bound is " + lo + ", not the Begin operand (default 0)"
						} else if hi != "int(End)|len(Item)" {
							bad = "the high bound is " + hi + ", not the End operand (default len)"
						}
						if reflectMethod(x) == "Slice3" {
							k := a.symInt(fn, args[3], 0)
							use(k, b)
							if bad == "" && k != "cap(Item)|int(Cap)" {
								bad = "the capacity bound is " + k + ", not the Cap operand (default cap)"
							}
						}
						check(in, reflectMethod(x), bad == "", "Item["+lo+":"+hi+"...] from the node's own operands", bad)
					case "SetMapIndex", "MapIndex":
						cont, key := a.opnd(fn, args[0], 0), a.opnd(fn, args[1], 0)
						bad := ""
						if cont != "Item" {
							bad = "the map is " + orQ(cont) + ", not the Item operand"
						} else if key != "Index" {
							bad = "the key is " + orQ(key) + ", not the Index operand"
						} else if reflectMethod(x) == "SetMapIndex" && isLet {
							if v := a.opnd(fn, args[2], 0); v != "=value" {
								bad = "the stored value is " + orQ(v) + ", not the assigned value"
							}
						}
						check(in, reflectMethod(x), bad == "", "Item[Index]", bad)
					case "Set":
						tgt := ""
						if c, ok := args[0].(*ssa.Call); ok && reflectMethod(c) == "Index" {
							tgt = a.opnd(fn, c.Call.Args[0], 0) + "[" + a.symInt(fn, c.Call.Args[1], 0) + "]"
						} else if c, ok := args[0].(*ssa.Call); ok && reflectMethod(c) == "Slice3" {
							tgt = "slice of " + a.opnd(fn, c.Call.Args[0], 0)
						}
						v := a.opnd(fn, args[1], 0)
						check(in, "Set", (tgt == "Item[int(Index)]" || tgt == "slice of Item") && v == "=value", tgt+" = the assigned value", fmt.Sprintf("the store is %s = %s, not Item[int(Index)] = the assigned value", orQ(tgt), orQ(v)))
					case "SetString":
						c10Frame(p, r, a, fn, in, args[1], &nAddr, per, use)
					}
					if callee := staticCallee(x); callee != nil && callee.Pkg == m.sp && callee.Signature.Params().Len() == 2 && callee.Signature.Recv() == nil &&
						isReflectValue(callee.Signature.Params().At(0).Type()) && isReflectValue(callee.Signature.Params().At(1).Type()) && callee.Signature.Results().Len() == 1 && isReflectValue(callee.Signature.Results().At(0).Type()) {
						// the map read helper (key, map)
						key, cont := a.opnd(fn, args[0], 0), a.opnd(fn, args[1], 0)
						check(in, callee.Name(), key == "Index" && cont == "Item", "Item[Index]", fmt.Sprintf("the map read is %s[%s], not Item[Index]", orQ(cont), orQ(key)))
					}
					if o := calleeObj(x); o != nil && o.Pkg() != nil && o.Pkg().Path() == "reflect" {
						switch o.Name() {
						case "Append":
							cont := a.opnd(fn, args[0], 0)
							els := variadicElems(args[1])
							v := ""
							if len(els) == 1 {
								v = a.opnd(fn, els[0], 0)
							}
							check(in, "Append", cont == "Item" && v == "=value", "Item grows by the assigned value", fmt.Sprintf("the append is %s + %s, not Item + the assigned value", orQ(cont), orQ(v)))
						case "ValueOf":
							if mi, ok := args[0].(*ssa.MakeInterface); ok && isLet {
								if bt, ok := mi.X.Type().Underlying().(*types.Basic); ok && bt.Kind() == types.String {
									c10Frame(p, r, a, fn, in, mi.X, &nAddr, per, use)
								}
							}
						}
					}
				}
			}
		}
		// operand influence: a converted index reaches an addressing operation on every successful path
		for _, cv := range conversions {
			sym := a.symInt(fn, cv, 0)
			if !strings.HasPrefix(sym, "int(") {
				nAddr++
				r.Undecided("C10.R4", fmt.Sprintf("%s|index conversion at block %d", funcName(fn), cv.Block().Index), p.Pos(cv.Tuple.(*ssa.Call).Pos()), "the operand converted to an index was not identified")
				continue
			}
			f := sym[4 : len(sym)-1]
			stop := func(b *ssa.BasicBlock) bool { return uses[f][b] || c10ErrorBlock(m, tt, b) }
			esc := ""
			if !stop(cv.Block()) {
				for b := range reachable(cv.Block(), stop) {
					if _, ok := b.Instrs[len(b.Instrs)-1].(*ssa.Return); ok && !stop(b) {
						esc = p.Pos(instrPos(b.Instrs[len(b.Instrs)-1]))
					}
				}
			}
			nAddr++
			r.Check(esc == "", "C10.R4", fmt.Sprintf("%s|operand %s determines the result", funcName(fn), f), p.Pos(cv.Tuple.(*ssa.Call).Pos()),
				"every successful path applies int("+f+") to the container", "operand "+f+" is evaluated and validated but a successful path returns without applying it (return at "+esc+")")
		}
	}
	r.Floor("C10.R4", nAddr, 20)
}

func orQ(s string) string {
	if s == "" {
		return "?"
	}
	return s
}

// c10Frame: a rebuilt string is either Item + value (append at len) or Item[0:i] + value + Item[i+1:len].
func c10Frame(p *Program, r *Report, a *addrAnalysis, fn *ssa.Function, in ssa.Instruction, str ssa.Value, n *int, per map[string]int, use func(string, *ssa.BasicBlock)) {
	segs := a.strSegs(fn, str, 0)
	got := strings.Join(segs, " + ")
	if !strings.Contains(got, "Item") {
		return
	}
	*n++
	per["rebuilt string"]++
	inst := fmt.Sprintf("%s|rebuilt string #%d", funcName(fn), per["rebuilt string"])
	switch got {
	case "Item + =value":
		// only on the append path
		ok := false
		for d := in.Block(); d != nil && d.Idom() != nil; d = d.Idom() {
			id := d.Idom()
			if iff, isIf := id.Instrs[len(id.Instrs)-1].(*ssa.If); isIf {
				if bo, isBo := iff.Cond.(*ssa.BinOp); isBo && bo.Op == token.EQL && a.symInt(fn, bo.X, 0) == "int(Index)" && a.symInt(fn, bo.Y, 0) == "len(Item)" && edgeOnly(id, 0, d) {
					ok = true
				}
			}
		}
		r.Check(ok, "C10.R4", inst, a.m.p.Pos(instrPos(in)), "Item + value when the index equals len", "the whole string is extended by the value although the index is not known to equal its length")
	case "Item[0:int(Index)] + =value + Item[int(Index)+1:len(Item)]":
		use("int(Index)", in.Block())
		r.OK("C10.R4", inst, a.m.p.Pos(instrPos(in)), got)
	default:
		use("int(Index)", in.Block())
		r.Fail("C10.R4", inst, a.m.p.Pos(instrPos(in)), "the string is rebuilt as "+got+", not Item[0:i] + value + Item[i+1:len]: a character is duplicated or dropped")
	}
}

// sameValue: a and b denote the same reflect.Value (same SSA value, or loads of the value cell with the same single definition).
func (tt *typeTerms) sameValue(a, b ssa.Value) bool {
	if a == b {
		return true
	}
	sa, wa := tt.resolveLoad(a)
	sb, wb := tt.resolveLoad(b)
	if sa != nil && sb != nil {
		return sa == sb
	}
	if sa != nil {
		return sa == b
	}
	if sb != nil {
		return sb == a
	}
	return wa != "" && wa == wb && !strings.Contains(wa, "{")
}

// c10Hashable (R2): every map read has a key that is statically a string or was tested by the hashability predicate.
func c10Hashable(p *Program, r *Report, m *vmModel, sums *typeSummaries) {
	// the predicate: func(reflect.Value) bool whose results are `true` (nil interface) or Comparable() of its parameter
	var pred *ssa.Function
	for _, fn := range m.fns {
		if fn.Signature.Params().Len() != 1 || fn.Signature.Results().Len() != 1 || len(fn.Blocks) == 0 || !isReflectValue(fn.Signature.Params().At(0).Type()) {
			continue
		}
		for _, b := range fn.Blocks {
			for _, in := range b.Instrs {
				if c, ok := in.(*ssa.Call); ok && reflectMethod(c) == "Comparable" && c.Call.Args[0] == ssa.Value(fn.Params[0]) {
					pred = fn
				}
			}
		}
	}
	if pred == nil {
		r.Undecided("C10.R2", "hashability predicate", "vm", "no func(reflect.Value) bool built on Value.Comparable found")
		return
	}
	bad := ""
	for _, b := range pred.Blocks {
		if ret, ok := b.Instrs[len(b.Instrs)-1].(*ssa.Return); ok {
			switch x := ret.Results[0].(type) {
			case *ssa.Const:
				if x.Value == nil || x.Value.String() != "true" {
					bad = "returns a constant other than true"
				} else if !dominatedByCall(b, "IsNil", pred.Params[0]) {
					bad = "returns true without the nil-interface test"
				}
			case *ssa.Call:
				if reflectMethod(x) != "Comparable" || x.Call.Args[0] != ssa.Value(pred.Params[0]) {
					bad = "returns something other than Comparable() of its argument"
				}
			default:
				bad = "result is not Comparable() of its argument"
			}
		}
	}
	r.Check(bad == "", "C10.R2", pred.Name()+"|definition", p.Pos(pred.Pos()), "nil interface or Value.Comparable()", bad)
	n := 0
	for _, fn := range m.fns {
		if len(fn.Blocks) == 0 {
			continue
		}
		var tt *typeTerms
		k := 0
		for _, b := range fn.Blocks {
			for _, in := range b.Instrs {
				c, ok := in.(*ssa.Call)
				if !ok || reflectMethod(c) != "MapIndex" {
					continue
				}
				if tt == nil {
					tt = newTypeTerms(m, fn, sums)
				}
				n++
				k++
				key := c.Call.Args[1]
				inst := fmt.Sprintf("%s|MapIndex #%d", funcName(fn), k)
				how := ""
				switch {
				case tt.vtype(key) == "go:string":
					how = "the key is a Go string"
				case keyFromMapKeys(key):
					how = "the key is one of the map's own keys"
				case convertedGoString(tt, key):
					how = "the key is a Go string converted to the key type (key types other than interfaces are comparable, an interface keeps the string)"
				case storedJustBefore(tt, c, key):
					how = "the same key was stored into this map just before"
				default:
					for d := b; d != nil && d.Idom() != nil && how == ""; d = d.Idom() {
						id := d.Idom()
						iff, ok := id.Instrs[len(id.Instrs)-1].(*ssa.If)
						if !ok {
							continue
						}
						cond, edge := iff.Cond, 0
						if u, ok := cond.(*ssa.UnOp); ok && u.Op == token.NOT {
							cond, edge = u.X, 1
						}
						pc, ok := cond.(*ssa.Call)
						if !ok || staticCallee(pc) != pred || !tt.sameValue(pc.Call.Args[0], key) {
							continue
						}
						if edgeOnly(id, edge, d) {
							how = "the key passed " + pred.Name()
						}
					}
				}
				r.Check(how != "", "C10.R2", inst, p.Pos(c.Pos()), how, "a map is read with a key that was not tested for hashability: an unhashable key raises an error instead of reading as nil")
			}
		}
	}
	r.Floor("C10.R2", n, 4)
}

func dominatedByCall(b *ssa.BasicBlock, method string, arg ssa.Value) bool {
	for d := b; d != nil && d.Idom() != nil; d = d.Idom() {
		id := d.Idom()
		if iff, ok := id.Instrs[len(id.Instrs)-1].(*ssa.If); ok {
			if c, ok := iff.Cond.(*ssa.Call); ok && reflectMethod(c) == method && c.Call.Args[0] == arg && edgeOnly(id, 0, d) {
				return true
			}
		}
	}
	return false
}

// keyFromMapKeys: v is an element of the slice returned by Value.MapKeys, or MapIter.Key().
func keyFromMapKeys(v ssa.Value) bool {
	if u, ok := v.(*ssa.UnOp); ok && u.Op == token.MUL {
		if ia, ok := u.X.(*ssa.IndexAddr); ok {
			if c, ok := ia.X.(*ssa.Call); ok && reflectMethod(c) == "MapKeys" {
				return true
			}
		}
	}
	if c, ok := v.(*ssa.Call); ok {
		if o := calleeObj(c); o != nil && o.Pkg() != nil && o.Pkg().Path() == "reflect" && o.Name() == "Key" {
			return true
		}
	}
	return false
}

// c10Unchanged (R3): in the assignment and delete handlers no failure is reported after the container was modified.
func c10Unchanged(p *Program, r *Report, m *vmModel, sums *typeSummaries) {
	va := buildEvalAnalysis(m)
	a := newAddrAnalysis(m, va, sums)
	set := c10HandlerSet(m, a, "ItemExpr", "SliceExpr", "MemberExpr", "DerefExpr", "DeleteStmt", "LetMapItemStmt")
	var fns []*ssa.Function
	for fn, what := range set {
		if strings.HasPrefix(what, "let") || strings.HasPrefix(what, "stmt") {
			fns = append(fns, fn)
		}
	}
	sort.Slice(fns, func(i, j int) bool { return funcName(fns[i]) < funcName(fns[j]) })
	n := 0
	for _, fn := range fns {
		tt := a.tt(fn)
		k := 0
		for _, b := range fn.Blocks {
			for idx, in := range b.Instrs {
				c, ok := in.(*ssa.Call)
				if !ok {
					continue
				}
				meth := reflectMethod(c)
				if meth != "Set" && meth != "SetMapIndex" && meth != "SetString" {
					continue
				}
				if freshTarget(c.Call.Args[0], 0) {
					continue
				}
				n++
				k++
				// a failure after this instruction?
				late := ""
				for _, in2 := range b.Instrs[idx+1:] {
					if st, ok := in2.(*ssa.Store); ok && tt.base != nil && m.cellAddr(st.Addr, tt.base) == "err" && !isNilConst(st.Val) {
						late = p.Pos(st.Pos())
					}
				}
				if late == "" {
					for _, s := range b.Succs {
						for rb := range reachable(s, func(*ssa.BasicBlock) bool { return false }) {
							for _, in2 := range rb.Instrs {
								if st, ok := in2.(*ssa.Store); ok && tt.base != nil && m.cellAddr(st.Addr, tt.base) == "err" && !isNilConst(st.Val) {
									if _, isEx := st.Val.(*ssa.Extract); !isEx {
										late = p.Pos(st.Pos())
									}
								}
							}
						}
					}
				}
				r.Check(late == "", "C10.R3", fmt.Sprintf("%s|%s #%d", funcName(fn), meth, k), p.Pos(c.Pos()), "nothing fails after the container is modified", "an error is raised at "+late+" after the container was already modified: the failed operation does not leave it unchanged")
			}
		}
	}
	r.Floor("C10.R3", n, 8)
}

// freshTarget: the stored-into value was created in this function (MakeMap, MakeSlice, New, Zero, Append).
func freshTarget(v ssa.Value, depth int) bool {
	if depth > 6 {
		return false
	}
	switch x := v.(type) {
	case *ssa.Call:
		if o := calleeObj(x); o != nil && o.Pkg() != nil && o.Pkg().Path() == "reflect" {
			switch o.Name() {
			case "MakeMap", "MakeMapWithSize", "MakeSlice", "New", "Zero", "Append", "MakeChan":
				return true
			}
		}
		switch reflectMethod(x) {
		case "Elem", "Index", "Field":
			return freshTarget(x.Call.Args[0], depth+1)
		}
	case *ssa.Phi:
		for _, e := range x.Edges {
			if !freshTarget(e, depth+1) {
				return false
			}
		}
		return true
	}
	return false
}

// c10Missing (R5): a missing key reads as nil; an unknown struct field is an error.
func c10Missing(p *Program, r *Report, m *vmModel) {
	// the map read helper: func(key, map reflect.Value) reflect.Value containing a MapIndex call
	n := 0
	for _, fn := range m.fns {
		sg := fn.Signature
		if sg.Recv() != nil || sg.Params().Len() != 2 || sg.Results().Len() != 1 || !isReflectValue(sg.Results().At(0).Type()) || len(fn.Blocks) == 0 {
			continue
		}
		var mi *ssa.Call
		for _, b := range fn.Blocks {
			for _, in := range b.Instrs {
				if c, ok := in.(*ssa.Call); ok && reflectMethod(c) == "MapIndex" {
					mi = c
				}
			}
		}
		if mi == nil {
			continue
		}
		for _, b := range fn.Blocks {
			ret, ok := b.Instrs[len(b.Instrs)-1].(*ssa.Return)
			if !ok {
				continue
			}
			n++
			inst := fmt.Sprintf("%s|return at block %d", fn.Name(), b.Index)
			v := ret.Results[0]
			if u, ok := v.(*ssa.UnOp); ok {
				if g, ok := u.X.(*ssa.Global); ok {
					r.Check(g == m.nilValueGlobal(), "C10.R5", inst, p.Pos(instrPos(ret)), "reads as the nil value", "a map read returns the global "+g.Name()+" instead of the nil value")
					continue
				}
			}
			if derivesFromCall(v, mi, 0) {
				r.Check(dominatedByCall(b, "IsValid", mi), "C10.R5", inst, p.Pos(instrPos(ret)), "the element, after the not-found test", "the result of MapIndex is returned without the test for a missing key: a missing key reads as an invalid value instead of nil")
				continue
			}
			r.Fail("C10.R5", inst, p.Pos(instrPos(ret)), "a map read returns something that is neither the nil value nor the element found")
		}
	}
	// unknown field
	for _, role := range []string{"expr", "let"} {
		h := m.handlers[role]["MemberExpr"]
		if h == nil {
			r.Undecided("C10.R5", role+" MemberExpr", "vm", "handler not found")
			continue
		}
		tt := newTypeTerms(m, h, nil)
		for _, b := range h.Blocks {
			for _, in := range b.Instrs {
				c, ok := in.(*ssa.Call)
				if !ok || !c.Call.IsInvoke() || c.Call.Method.Name() != "FieldByName" {
					continue
				}
				var found ssa.Value
				for _, ref := range *c.Referrers() {
					if ex, ok := ref.(*ssa.Extract); ok && ex.Index == 1 {
						found = ex
					}
				}
				n++
				inst := h.Name() + "|field not found"
				if found == nil {
					r.Fail("C10.R5", inst, p.Pos(c.Pos()), "the found result of FieldByName is ignored: an unknown field is not an error")
					continue
				}
				// every return reachable on the not-found side is a failure, or follows another successful lookup
				bad := ""
				for _, ref := range *found.Referrers() {
					iff, ok := ref.(*ssa.If)
					if !ok {
						continue
					}
					start := iff.Block().Succs[1]
					for rb := range reachable(start, func(b *ssa.BasicBlock) bool { return c10ErrorBlock(m, tt, b) }) {
						if _, ok := rb.Instrs[len(rb.Instrs)-1].(*ssa.Return); !ok || c10ErrorBlock(m, tt, rb) {
							continue
						}
						if iff.Block().Succs[0] == rb || iff.Block().Succs[0].Dominates(rb) {
							continue
						}
						if !afterOtherLookup(rb, found) {
							bad = p.Pos(instrPos(rb.Instrs[len(rb.Instrs)-1]))
						}
					}
				}
				r.Check(bad == "", "C10.R5", inst, p.Pos(c.Pos()), "an unknown member is an error unless a method of that name is found", "with no field of that name the handler returns normally at "+bad+" without an error")
			}
		}
	}
	r.Floor("C10.R5", n, 6)
}

func derivesFromCall(v ssa.Value, c *ssa.Call, depth int) bool {
	if depth > 6 {
		return false
	}
	if v == ssa.Value(c) {
		return true
	}
	switch x := v.(type) {
	case *ssa.Phi:
		for _, e := range x.Edges {
			if !derivesFromCall(e, c, depth+1) {
				return false
			}
		}
		return true
	case *ssa.Call:
		for _, a := range x.Call.Args {
			if derivesFromCall(a, c, depth+1) {
				return true
			}
		}
	case *ssa.MakeInterface:
		return derivesFromCall(x.X, c, depth+1)
	}
	return false
}

// afterOtherLookup: block b is on the true side of another by-name lookup's found result.
func afterOtherLookup(b *ssa.BasicBlock, not ssa.Value) bool {
	for d := b; d != nil && d.Idom() != nil; d = d.Idom() {
		id := d.Idom()
		iff, ok := id.Instrs[len(id.Instrs)-1].(*ssa.If)
		if !ok || iff.Cond == not {
			continue
		}
		if ex, ok := iff.Cond.(*ssa.Extract); ok && ex.Index == 1 {
			if c, ok := ex.Tuple.(*ssa.Call); ok && strings.HasSuffix(c.Call.Method.Name(), "ByName") {
				if edgeOnly(id, 0, d) {
					return true
				}
			}
		}
	}
	return false
}

// nilValueGlobal: the package-level reflect.Value that is the zero value of interface{} (the script-level nil).
func (m *vmModel) nilValueGlobal() *ssa.Global {
	ini := m.sp.Func("init")
	if ini == nil {
		return nil
	}
	tt := newTypeTerms(m, ini, nil)
	for _, b := range ini.Blocks {
		for _, in := range b.Instrs {
			st, ok := in.(*ssa.Store)
			if !ok {
				continue
			}
			g, ok := st.Addr.(*ssa.Global)
			if !ok || !isReflectValue(st.Val.Type()) {
				continue
			}
			if c, ok := st.Val.(*ssa.Call); ok {
				if o := calleeObj(c); o != nil && o.Pkg() != nil && o.Pkg().Path() == "reflect" && o.Name() == "Zero" && tt.tyterm(c.Call.Args[0]) == "Elem(go:*interface{})" {
					return g
				}
			}
		}
	}
	return nil
}

func convertedGoString(tt *typeTerms, key ssa.Value) bool {
	if sv, _ := tt.resolveLoad(key); sv != nil {
		key = sv
	}
	ex, ok := key.(*ssa.Extract)
	if !ok || ex.Index != 0 {
		return false
	}
	c, ok := ex.Tuple.(*ssa.Call)
	if !ok {
		return false
	}
	if _, ok := tt.resTypeParam[staticCallee(c)]; !ok {
		return false
	}
	return tt.vtype(c.Call.Args[0]) == "go:string"
}

// storedJustBefore: earlier in the same block the same key was stored into the same map with SetMapIndex.
func storedJustBefore(tt *typeTerms, read *ssa.Call, key ssa.Value) bool {
	for _, in := range read.Block().Instrs {
		if in == ssa.Instruction(read) {
			return false
		}
		if c, ok := in.(*ssa.Call); ok && reflectMethod(c) == "SetMapIndex" && tt.sameValue(c.Call.Args[1], key) && tt.sameValue(c.Call.Args[0], read.Call.Args[0]) {
			return true
		}
	}
	return false
}

// c10WriteBack (R6): when an element write replaces the container (append, fresh map, rebuilt string), the new container is
// assigned to the container operand of the node.
func c10WriteBack(p *Program, r *Report, m *vmModel, sums *typeSummaries) {
	va := buildEvalAnalysis(m)
	a := newAddrAnalysis(m, va, sums)
	set := c10HandlerSet(m, a, "ItemExpr", "SliceExpr", "MemberExpr")
	container := map[string]string{"ItemExpr": "Item", "SliceExpr": "Item", "MemberExpr": "Expr"}
	var fns []*ssa.Function
	for fn, what := range set {
		if strings.HasPrefix(what, "let") {
			fns = append(fns, fn)
		}
	}
	sort.Slice(fns, func(i, j int) bool { return funcName(fns[i]) < funcName(fns[j]) })
	n := 0
	for _, fn := range fns {
		kind := strings.TrimPrefix(set[fn], "let ")
		k := 0
		for _, e := range va.events[fn] {
			if e.role != "let" {
				continue
			}
			n++
			k++
			want := "node." + container[kind]
			good := len(e.operands) == 1 && e.operands[0] == want
			r.Check(good, "C10.R6", fmt.Sprintf("%s|write-back #%d", funcName(fn), k), p.Pos(e.call.Pos()), "assigned to "+want,
				fmt.Sprintf("the replaced container is assigned to %v, not to the node's container operand %s (after evaluating a nested operand the expression cell no longer holds it): the new container is lost or lands in another variable", e.operands, want))
		}
	}
	r.Floor("C10.R6", n, 4)
}

// c10Make (R7): make(slice/chan) builds the container from the node's own length and capacity operands.
func c10Make(p *Program, r *Report, m *vmModel, sums *typeSummaries) {
	c10MakeRule(p, r, m, sums, "C10.R7", false)
}

// c10MakeRule: chanOnly restricts the obligations to channels (C16).
func c10MakeRule(p *Program, r *Report, m *vmModel, sums *typeSummaries, rule string, chanOnly bool) {
	h := m.handlers["expr"]["MakeExpr"]
	if h == nil {
		r.Undecided(rule, "MakeExpr", "vm", "handler not found")
		return
	}
	va := buildEvalAnalysis(m)
	a := newAddrAnalysis(m, va, sums)
	n, nChanLen, nChanNoLen := 0, 0, 0
	for _, b := range h.Blocks {
		for _, in := range b.Instrs {
			c, ok := in.(*ssa.Call)
			if !ok {
				continue
			}
			o := calleeObj(c)
			if o == nil || o.Pkg() == nil || o.Pkg().Path() != "reflect" {
				continue
			}
			switch o.Name() {
			case "MakeSlice":
				if chanOnly {
					continue
				}
				n++
				l, cp := a.symInt(h, c.Call.Args[1], 0), a.symInt(h, c.Call.Args[2], 0)
				bad := ""
				if !strings.Contains(l, "int(LenExpr)") {
					bad = "the length is " + l + ", not the node's length operand"
				} else if !strings.Contains(cp, "int(CapExpr)") {
					bad = "the capacity is " + cp + ": the capacity operand is evaluated and validated but not applied (appends that should fit reallocate, and slices that should share storage do not)"
				} else if !strings.Contains(cp, "int(LenExpr)") {
					bad = "without a capacity operand the capacity is " + cp + ", not the length"
				}
				r.Check(bad == "", rule, h.Name()+"|MakeSlice", p.Pos(c.Pos()), "MakeSlice(type, "+l+", "+cp+")", bad)
			case "MakeChan":
				n++
				l := a.symInt(h, c.Call.Args[1], 0)
				if k, ok := c.Call.Args[1].(*ssa.Const); ok && k.Value != nil && k.Int64() == 0 && onNilSideOfField(b, "LenExpr") {
					nChanNoLen++
					r.OK(rule, h.Name()+"|MakeChan without a size operand", p.Pos(c.Pos()), "MakeChan(type, 0) where the node has no length operand")
					continue
				}
				nChanLen++
				r.Check(strings.Contains(l, "int(LenExpr)"), rule, h.Name()+"|MakeChan", p.Pos(c.Pos()), "MakeChan(type, "+l+")", "the buffer size is "+l+", not the node's length operand")
			}
		}
	}
	if nChanNoLen > 0 && nChanLen == 0 {
		r.Fail(rule, h.Name()+"|MakeChan", p.Pos(h.Pos()), "no channel is ever made with the node's length operand as its buffer size")
	}
	if chanOnly {
		r.Floor(rule, n, 1)
	} else {
		r.Floor(rule, n, 2)
	}
	// a size is refused only when it is negative (Go's make accepts 0: an empty slice, an unbuffered channel)
	k := 0
	for _, b := range h.Blocks {
		iff, ok := b.Instrs[len(b.Instrs)-1].(*ssa.If)
		if !ok {
			continue
		}
		bo, ok := iff.Cond.(*ssa.BinOp)
		if !ok {
			continue
		}
		z, ok := bo.Y.(*ssa.Const)
		if !ok || z.Value == nil || z.Value.Kind().String() != "Int" || z.Int64() < -1 || z.Int64() > 1 {
			continue
		}
		sym := a.symInt(h, bo.X, 0)
		if !strings.Contains(sym, "int(LenExpr)") && !strings.Contains(sym, "int(CapExpr)") {
			continue
		}
		// which edge raises the error
		raises := func(blk *ssa.BasicBlock) bool {
			for _, in := range blk.Instrs {
				if st, ok := in.(*ssa.Store); ok && m.cellAddr(st.Addr, m.baseOf(h)) == "err" && !isNilConst(st.Val) {
					return true
				}
			}
			return false
		}
		// the side of the test from which alone an error of this handler is raised
		r0, r1 := reachable(b.Succs[0], nil), reachable(b.Succs[1], nil)
		t, f := false, false
		for _, x := range h.Blocks {
			if raises(x) && (x == b.Succs[0] || x == b.Succs[1] || (len(x.Preds) == 1 && isSizeTestChain(x.Preds[0], b))) {
				if r0[x] && !r1[x] {
					t = true
				}
				if r1[x] && !r0[x] {
					f = true
				}
			}
		}
		if t == f {
			continue
		}
		if chanOnly && !reachesCallNamed(b, "MakeChan") {
			continue
		}
		k++
		c := z.Int64()
		good := (t && bo.Op == token.LSS && c == 0) || (t && bo.Op == token.LEQ && c == -1) || (f && bo.Op == token.GEQ && c == 0) || (f && bo.Op == token.GTR && c == -1)
		r.Check(good, rule, fmt.Sprintf("%s|size #%d refused only when negative", h.Name(), k), p.Pos(instrPos(iff)), "error exactly for "+sym+" < 0",
			fmt.Sprintf("the size %s is refused under `%s %d` (on the %s side): a size of 0 (an empty slice, an unbuffered channel — what Go's make accepts) is an error, or a negative one is not", sym, bo.Op, c, map[bool]string{true: "true", false: "false"}[t]))
	}
	want := 3
	if chanOnly {
		want = 1
	}
	if k < want {
		r.Undecided(rule, h.Name()+"|size tests", p.Pos(h.Pos()), fmt.Sprintf("only %d tests of a size operand against zero that lead to an error found, %d confirmed by hand", k, want))
	}
}

// onNilSideOfField: block b is reached only when the node's field `name` was found to be nil.
func onNilSideOfField(b *ssa.BasicBlock, name string) bool {
	for d := b; d != nil && d.Idom() != nil; d = d.Idom() {
		id := d.Idom()
		iff, ok := id.Instrs[len(id.Instrs)-1].(*ssa.If)
		if !ok {
			continue
		}
		bo, ok := iff.Cond.(*ssa.BinOp)
		if !ok || !isNilConst(bo.Y) {
			continue
		}
		u, ok := bo.X.(*ssa.UnOp)
		if !ok {
			continue
		}
		fa, ok := u.X.(*ssa.FieldAddr)
		if !ok || fieldOfAddr(fa).Name() != name {
			continue
		}
		if (bo.Op == token.EQL && edgeOnly(id, 0, d)) || (bo.Op == token.NEQ && edgeOnly(id, 1, d)) {
			return true
		}
	}
	return false
}

// c10Applied (R8): an operand that is evaluated and converted to an integer is applied: the integer reaches something other than
// comparisons (an argument of a call, an index, a slice bound, an arithmetic result that does). "Validated but not applied" is
// how a capacity, a bound or a count gets silently ignored.
func c10Applied(p *Program, r *Report, m *vmModel, sums *typeSummaries) {
	a := newAddrAnalysis(m, nil, sums)
	n := 0
	for _, fn := range m.fns {
		if m.baseOf(fn) == nil || len(fn.Blocks) == 0 {
			continue
		}
		k := 0
		for _, b := range fn.Blocks {
			for _, in := range b.Instrs {
				var intVal ssa.Value
				var site ssa.Instruction
				switch x := in.(type) {
				case *ssa.Extract:
					if c, ok := x.Tuple.(*ssa.Call); ok && x.Index == 0 && a.isIntConverter(staticCallee(c)) {
						intVal, site = x, c
					}
				case *ssa.Call:
					if callee := staticCallee(x); callee != nil && callee.Pkg == m.sp && len(x.Call.Args) == 1 && isReflectValue(x.Call.Args[0].Type()) && callee.Signature.Results().Len() == 1 {
						if bt, ok := callee.Signature.Results().At(0).Type().(*types.Basic); ok && bt.Kind() == types.Int {
							intVal, site = x, x
						}
					}
				}
				if intVal == nil {
					continue
				}
				n++
				k++
				applied := false
				seen := map[ssa.Value]bool{}
				var walk func(v ssa.Value, depth int)
				walk = func(v ssa.Value, depth int) {
					if seen[v] || depth > 8 || applied {
						return
					}
					seen[v] = true
					for _, ref := range *v.Referrers() {
						switch y := ref.(type) {
						case *ssa.BinOp:
							switch y.Op {
							case token.EQL, token.NEQ, token.LSS, token.LEQ, token.GTR, token.GEQ:
								// a comparison: validation only
							default:
								walk(y, depth+1)
							}
						case *ssa.Phi:
							walk(y, depth+1)
						case *ssa.Convert:
							walk(y, depth+1)
						case *ssa.Store:
							if al, ok := y.Addr.(*ssa.Alloc); ok && y.Val == v {
								for _, r2 := range *al.Referrers() {
									if u, ok := r2.(*ssa.UnOp); ok {
										walk(u, depth+1)
									}
								}
							} else if y.Val == v {
								applied = true
							}
						case *ssa.DebugRef, *ssa.If:
						default:
							applied = true // call argument, index, slice bound, return value, ...
						}
					}
				}
				walk(intVal, 0)
				r.Check(applied, "C10.R8", fmt.Sprintf("%s|integer operand #%d is applied", funcName(fn), k), p.Pos(instrPos(site)), "the converted operand reaches an operation on the container",
					"an operand is evaluated, converted to an integer and compared with limits, but the integer is never handed to any operation: the operand has no effect on the result")
			}
		}
	}
	r.Floor("C10.R8", n, 10)
}

// c10GuardSiblings (R9): the element/slice read handler and its assignment twin test the same operand against the same limit
// with the same relation: an off-by-one in one of the two makes `a[i:j]` legal to read and illegal to assign (or the reverse).
func c10GuardSiblings(p *Program, r *Report, m *vmModel, sums *typeSummaries) {
	va := buildEvalAnalysis(m)
	a := newAddrAnalysis(m, va, sums)
	guards := func(role string, kind string) map[string]string {
		set := c10HandlerSet(m, a, kind)
		out := map[string]string{}
		for fn, what := range set {
			if !strings.HasPrefix(what, role) {
				continue
			}
			for _, b := range fn.Blocks {
				iff, ok := b.Instrs[len(b.Instrs)-1].(*ssa.If)
				if !ok {
					continue
				}
				bo, ok := iff.Cond.(*ssa.BinOp)
				if !ok {
					continue
				}
				switch bo.Op {
				case token.LSS, token.LEQ, token.GTR, token.GEQ, token.EQL:
				default:
					continue
				}
				l, rr := a.symInt(fn, bo.X, 0), a.symInt(fn, bo.Y, 0)
				if !strings.Contains(l, "int(") && !strings.Contains(rr, "int(") {
					continue
				}
				if strings.Contains(l, "?") || strings.Contains(rr, "?") {
					continue
				}
				key := l + " vs " + rr
				if !strings.Contains(","+out[key]+",", ","+bo.Op.String()+",") {
					if out[key] == "" {
						out[key] = bo.Op.String()
					} else {
						ops := append(strings.Split(out[key], ","), bo.Op.String())
						sort.Strings(ops)
						out[key] = strings.Join(ops, ",")
					}
				}
			}
		}
		return out
	}
	n := 0
	for _, kind := range []string{"ItemExpr", "SliceExpr"} {
		rd, wr := guards("expr", kind), guards("let", kind)
		var keys []string
		for k := range rd {
			if _, ok := wr[k]; ok {
				keys = append(keys, k)
			}
		}
		sort.Strings(keys)
		for _, k := range keys {
			n++
			// the assignment twin may test `==` in addition (assignment at index len appends)
			wrOps := strings.Join(strings.FieldsFunc(strings.ReplaceAll(","+wr[k]+",", ",==,", ","), func(c rune) bool { return c == ',' }), ",")
			if strings.Contains(","+rd[k]+",", ",==,") {
				wrOps = wr[k]
			}
			r.Check(rd[k] == wrOps, "C10.R9", kind+"|"+k, "vm", "read and assignment both test `"+rd[k]+"`", fmt.Sprintf("the read handler tests `%s %s` where the assignment handler tests `%s`: the same index is in range for one and out of range for the other", k, rd[k], wr[k]))
		}
	}
	r.Floor("C10.R9", n, 6)
}

// c10FailureRaises (R10): in the expression, assignment and operator handlers a return that hands back the nil value has raised
// an error - the only construct whose successful result is the nil value set by the handler itself is the receive from a closed
// channel. (A refused operation that returns nil silently looks like success to the script.)
func c10FailureRaises(p *Program, r *Report, m *vmModel) {
	nilG := m.nilValueGlobal()
	if nilG == nil {
		r.Undecided("C10.R10", "nil value", "vm", "the package-level nil value was not identified")
		return
	}
	n := 0
	for _, role := range []string{"expr", "let", "op"} {
		var kinds []string
		for k := range m.handlers[role] {
			kinds = append(kinds, k)
		}
		sort.Strings(kinds)
		for _, kind := range kinds {
			h := m.handlers[role][kind]
			if h == nil || len(h.Blocks) == 0 {
				continue
			}
			tt := newTypeTerms(m, h, nil)
			k := 0
			for _, b := range h.Blocks {
				ret, ok := b.Instrs[len(b.Instrs)-1].(*ssa.Return)
				if !ok {
					continue
				}
				storesNil := false
				for _, in := range b.Instrs {
					if st, ok := in.(*ssa.Store); ok && tt.base != nil && m.cellAddr(st.Addr, tt.base) == "rv" && isGlobalLoad(st.Val, nilG) {
						storesNil = true
					}
				}
				if !storesNil {
					continue
				}
				n++
				k++
				good := c10ErrorBlock(m, tt, b) || closedReceiveEdge(b)
				r.Check(good, "C10.R10", fmt.Sprintf("%s|nil result #%d comes with an error", h.Name(), k), p.Pos(instrPos(ret)), "an error is raised (or the channel was closed)",
					"the handler gives up (the result is set to nil and it returns) without raising an error: the refused operation looks like a success that yields nil")
			}
		}
	}
	r.Floor("C10.R10", n, 45)
}

// closedReceiveEdge: b is entered on the !ok side of a receive (result #2 of reflect.Select).
func closedReceiveEdge(b *ssa.BasicBlock) bool {
	for d := b; d != nil && d.Idom() != nil; d = d.Idom() {
		id := d.Idom()
		iff, ok := id.Instrs[len(id.Instrs)-1].(*ssa.If)
		if !ok {
			continue
		}
		cond := iff.Cond
		edge := 1
		if u, ok := cond.(*ssa.UnOp); ok && u.Op == token.NOT {
			cond, edge = u.X, 0
		}
		isOk := false
		var walk func(v ssa.Value, depth int)
		walk = func(v ssa.Value, depth int) {
			if depth > 4 {
				return
			}
			switch x := v.(type) {
			case *ssa.Extract:
				if c, ok := x.Tuple.(*ssa.Call); ok && x.Index == 2 {
					if o := calleeObj(c); o != nil && isFuncNamed(o, "reflect", "", "Select") {
						isOk = true
					}
				}
			case *ssa.Phi:
				for _, e := range x.Edges {
					walk(e, depth+1)
				}
			case *ssa.UnOp:
				if al, ok := x.X.(*ssa.Alloc); ok {
					for _, ref := range *al.Referrers() {
						if st, ok := ref.(*ssa.Store); ok && st.Addr == ssa.Value(al) {
							walk(st.Val, depth+1)
						}
					}
				}
			}
		}
		walk(cond, 0)
		if isOk && edgeOnly(id, edge, d) {
			return true
		}
	}
	return false
}

// c10ContainerConverters (R12): a helper that converts a container by building a new one (it calls reflect.MakeMap /
// MakeSlice) hands every element of the source to the element conversion as the iteration yields it, and gives back the
// zero (nil) container only for a nil source. A nil map in place of an empty one is no reference value: what is stored
// through an alias taken before the first write is lost; and an element unwrapped on the way loses its nil.
func c10ContainerConverters(p *Program, r *Report, m *vmModel, rule string) {
	n := 0
	for _, fn := range m.fns {
		sig := fn.Signature
		if sig.Recv() != nil || sig.Params().Len() < 2 || sig.Results().Len() != 2 || !isReflectValue(sig.Params().At(0).Type()) || !isReflectValue(sig.Results().At(0).Type()) || len(fn.Blocks) == 0 {
			continue
		}
		builds := false
		for _, b := range fn.Blocks {
			for _, in := range b.Instrs {
				if c, ok := in.(*ssa.Call); ok {
					if o := calleeObj(c); o != nil && o.Pkg() != nil && o.Pkg().Path() == "reflect" && (o.Name() == "MakeMap" || o.Name() == "MakeMapWithSize" || o.Name() == "MakeSlice") {
						builds = true
					}
				}
			}
		}
		if !builds {
			continue
		}
		n++
		src := fn.Params[0]
		// (a) zero container only for a nil source
		k := 0
		for _, b := range fn.Blocks {
			ret, ok := b.Instrs[len(b.Instrs)-1].(*ssa.Return)
			if !ok || len(ret.Results) != 2 {
				continue
			}
			zc, ok := ret.Results[0].(*ssa.Call)
			if !ok || !isFuncNamed(calleeObj(zc), "reflect", "", "Zero") {
				continue
			}
			k++
			guarded := false
			for d := b; d != nil && d.Idom() != nil; d = d.Idom() {
				id := d.Idom()
				iff, ok := id.Instrs[len(id.Instrs)-1].(*ssa.If)
				if !ok {
					continue
				}
				cond, neg := iff.Cond, false
				if u, ok := cond.(*ssa.UnOp); ok && u.Op == token.NOT {
					cond, neg = u.X, true
				}
				c, ok := cond.(*ssa.Call)
				if !ok || len(c.Call.Args) == 0 || c.Call.Args[0] != ssa.Value(src) {
					continue
				}
				switch reflectMethod(c) {
				case "IsNil":
					if (!neg && edgeOnly(id, 0, d)) || (neg && edgeOnly(id, 1, d)) {
						guarded = true
					}
				case "IsValid":
					if (!neg && edgeOnly(id, 1, d)) || (neg && edgeOnly(id, 0, d)) {
						guarded = true
					}
				}
			}
			r.Check(guarded, rule, fmt.Sprintf("%s|zero container #%d only for a nil source", funcName(fn), k), p.Pos(instrPos(ret)), "returned on the side where the source is nil",
				"the converter returns the zero (nil) container for a source that is not nil: an empty map stored into a typed slot becomes a nil map, which is not a reference value (writes through an alias taken before the first store are lost)")
		}
		// (b) what goes into the element conversion is what the iteration yields, untouched
		k = 0
		for _, b := range fn.Blocks {
			for _, in := range b.Instrs {
				c, ok := in.(*ssa.Call)
				if !ok || len(c.Call.Args) < 2 || !isReflectValue(c.Call.Args[0].Type()) {
					continue
				}
				callee := staticCallee(c)
				if callee == nil || callee.Pkg != m.sp || callee == fn {
					continue
				}
				if callee.Signature.Results().Len() != 2 || !isReflectValue(callee.Signature.Results().At(0).Type()) {
					continue
				}
				k++
				a := c.Call.Args[0]
				if sv := spilledValue(a); sv != nil {
					a = sv
				}
				okSrc := false
				if ac, ok := a.(*ssa.Call); ok {
					if o := calleeObj(ac); o != nil && o.Pkg() != nil && o.Pkg().Path() == "reflect" {
						switch o.Name() {
						case "Key", "Value", "MapIndex", "Index":
							okSrc = true
						}
					}
				}
				if ia, ok := a.(*ssa.UnOp); ok {
					if _, isIdx := ia.X.(*ssa.IndexAddr); isIdx {
						okSrc = true // mapKeys[i]
					}
				}
				// (c) its error ends the conversion at once: tested inside the loop, the failing side leaves the loop
				if lp := loopContaining(fn, c.Block()); lp != nil {
					tested := false
					for _, ref := range *c.Referrers() {
						ex, ok := ref.(*ssa.Extract)
						if !ok || ex.Index != 1 {
							continue
						}
						for _, r2 := range *ex.Referrers() {
							bo, ok := r2.(*ssa.BinOp)
							if !ok || !isNilConst(bo.Y) || (bo.Op != token.NEQ && bo.Op != token.EQL) {
								continue
							}
							for _, r3 := range *bo.Referrers() {
								iff, ok := r3.(*ssa.If)
								if !ok || !lp.Body[iff.Block()] {
									continue
								}
								failSucc := iff.Block().Succs[0]
								if bo.Op == token.EQL {
									failSucc = iff.Block().Succs[1]
								}
								// the failing side does not come back into the loop
								if !reachable(failSucc, nil)[lp.Header] {
									tested = true
								}
							}
						}
					}
					r.Check(tested, rule, fmt.Sprintf("%s|element conversion #%d stops at the first failure", funcName(fn), k), p.Pos(c.Pos()), "the error is tested inside the loop and the failing side leaves it",
						"the error of an element's conversion is not acted on before the next element is converted: a later element that converts overwrites it, the bad element stays at the zero value and no error is reported (a list with an unconvertible element is accepted)")
				}
				r.Check(okSrc, rule, fmt.Sprintf("%s|element conversion #%d takes the element as iterated", funcName(fn), k), p.Pos(c.Pos()), "the argument is the key / value / element the iteration yields",
					"the element is altered before it is handed to the element conversion (unwrapped without the nil test, a nil entry becomes the invalid reflect.Value: the entry is dropped or the call fails instead of yielding the zero value)")
			}
		}
	}
	r.Floor(rule, n, 2)
}

// accessorKindAgreement (C10.R13, C05.R8): reflect's typed accessors panic on the wrong kind (Int on an unsigned value, Uint on a
// signed one, Float on an integer). Where a function tests the kind of a value and then reads it, the accessor fits every kind
// the tests let through: evaluated outright for each of reflect's kinds (the tests `v.Kind() == K` of that value decided, all
// other conditions both ways).
func accessorKindAgreement(p *Program, r *Report, m *vmModel, rule string) {
	allowed := map[string]map[int64]bool{
		"Int":   {2: true, 3: true, 4: true, 5: true, 6: true},
		"Uint":  {7: true, 8: true, 9: true, 10: true, 11: true, 12: true},
		"Float": {13: true, 14: true},
		"Bool":  {1: true},
	}
	n := 0
	fns := m.fns
	if csp := p.SSAPkg("core"); csp != nil {
		fns = append(append([]*ssa.Function{}, fns...), SrcFuncs(csp)...)
	}
	for _, fn := range fns {
		if len(fn.Blocks) == 0 {
			continue
		}
		// kind atoms per subject value
		atoms := map[ssa.Value][]*ssa.BinOp{}
		for _, b := range fn.Blocks {
			for _, in := range b.Instrs {
				bo, ok := in.(*ssa.BinOp)
				if !ok || (bo.Op != token.EQL && bo.Op != token.NEQ) {
					continue
				}
				kc, ok := bo.X.(*ssa.Call)
				if !ok || reflectMethod(kc) != "Kind" {
					continue
				}
				if _, ok := bo.Y.(*ssa.Const); !ok {
					continue
				}
				atoms[kc.Call.Args[0]] = append(atoms[kc.Call.Args[0]], bo)
			}
		}
		if len(atoms) == 0 {
			continue
		}
		k := 0
		for _, b := range fn.Blocks {
			for _, in := range b.Instrs {
				c, ok := in.(*ssa.Call)
				if !ok {
					continue
				}
				acc := reflectMethod(c)
				al, ok := allowed[acc]
				if !ok {
					continue
				}
				subj := c.Call.Args[0]
				as := atoms[subj]
				if len(as) == 0 {
					continue
				}
				k++
				n++
				var bad []string
				for K := int64(0); K <= 26; K++ {
					if al[K] {
						continue
					}
					world := map[ssa.Value]bool{}
					for _, a := range as {
						eq := a.Y.(*ssa.Const).Int64() == K
						if a.Op == token.NEQ {
							eq = !eq
						}
						world[a] = eq
					}
					if worldReach(fn, world)[b] {
						bad = append(bad, kindName(K))
					}
				}
				r.Check(len(bad) == 0, rule, fmt.Sprintf("%s|%s() #%d only on kinds it accepts", funcName(fn), acc, k), p.Pos(c.Pos()), "unreachable for every other kind the function's kind tests let through",
					fmt.Sprintf("reflect.Value.%s() can be reached with a value of kind %v, on which it panics: an operand of that kind (an element of a []byte or []uint32, a host uint) fails with a reflect error instead of being read", acc, bad))
			}
		}
	}
	r.Floor(rule, n, 12)
}

// underCanSet: block b lies on the true side of CanSet() of v.
func underCanSet(b *ssa.BasicBlock, v ssa.Value) bool {
	for d := b; d != nil && d.Idom() != nil; d = d.Idom() {
		id := d.Idom()
		iff, ok := id.Instrs[len(id.Instrs)-1].(*ssa.If)
		if !ok {
			continue
		}
		cond, neg := iff.Cond, false
		if u, ok := cond.(*ssa.UnOp); ok && u.Op == token.NOT {
			cond, neg = u.X, true
		}
		c, ok := cond.(*ssa.Call)
		if !ok || reflectMethod(c) != "CanSet" {
			continue
		}
		recv := c.Call.Args[0]
		if sv := spilledValue(recv); sv != nil {
			recv = sv
		}
		if recv != v {
			continue
		}
		if (!neg && edgeOnly(id, 0, d)) || (neg && edgeOnly(id, 1, d)) {
			return true
		}
	}
	return false
}

// loopContaining: the innermost loop of fn whose body holds b (nil when b is in no loop).
func loopContaining(fn *ssa.Function, b *ssa.BasicBlock) *Loop {
	var best *Loop
	for _, l := range loopsOf(fn) {
		if l.Body[b] && (best == nil || len(l.Body) < len(best.Body)) {
			best = l
		}
	}
	return best
}

// c10DeleteValidates (R2): in the map arm of the delete statement, a return that reports success before the key was checked for
// hashability is taken for a nil map only. Go refuses an unhashable key on delete whatever the map holds; a shortcut for "nothing
// to delete" (an empty map) in front of the check accepts the ill-typed key silently.
func c10DeleteValidates(p *Program, r *Report, m *vmModel) {
	h := m.handlers["stmt"]["DeleteStmt"]
	if h == nil {
		r.Undecided("C10.R2", "DeleteStmt|handler", "vm", "no handler for the delete statement found")
		return
	}
	base := m.baseOf(h)
	// blocks that validate the key: a call of a vm helper that asks reflect.Value.Comparable
	isValidator := func(fn *ssa.Function) bool {
		if fn == nil || fn.Pkg != m.sp {
			return false
		}
		for _, b := range fn.Blocks {
			for _, in := range b.Instrs {
				if c, ok := in.(*ssa.Call); ok && reflectMethod(c) == "Comparable" {
					return true
				}
			}
		}
		return false
	}
	stop := func(b *ssa.BasicBlock) bool {
		for _, in := range b.Instrs {
			if c, ok := in.(*ssa.Call); ok && isValidator(staticCallee(c)) {
				return true
			}
			if st, ok := in.(*ssa.Store); ok && m.cellAddr(st.Addr, base) == "err" && !isNilConst(st.Val) {
				return true
			}
		}
		return false
	}
	n := 0
	for _, b := range h.Blocks {
		iff, ok := b.Instrs[len(b.Instrs)-1].(*ssa.If)
		if !ok {
			continue
		}
		k, K := kindCmp(iff.Cond)
		if k == nil || K != 21 {
			continue
		}
		arm := b.Succs[0]
		n++
		bad := ""
		for x := range reachable(arm, stop) {
			ret, ok := x.Instrs[len(x.Instrs)-1].(*ssa.Return)
			if !ok {
				continue
			}
			// allowed only on the nil side of an IsNil test, or after an evaluation failed (the error cell is tested non-nil)
			okRet := false
			for d := x; d != nil && d.Idom() != nil; d = d.Idom() {
				id := d.Idom()
				if i2, ok := id.Instrs[len(id.Instrs)-1].(*ssa.If); ok {
					cond, neg := i2.Cond, false
					if u, ok := cond.(*ssa.UnOp); ok && u.Op == token.NOT {
						cond, neg = u.X, true
					}
					if c, ok := cond.(*ssa.Call); ok && reflectMethod(c) == "IsNil" {
						if (!neg && edgeOnly(id, 0, d)) || (neg && edgeOnly(id, 1, d)) {
							okRet = true
						}
					}
					if bo, ok := cond.(*ssa.BinOp); ok && isNilConst(bo.Y) && m.cellLoad(bo.X, base) == "err" {
						if (bo.Op == token.NEQ && edgeOnly(id, 0, d)) || (bo.Op == token.EQL && edgeOnly(id, 1, d)) {
							okRet = true
						}
					}
				}
			}
			if !okRet {
				bad = "the return at " + p.Pos(instrPos(ret)) + " reports success before the key was checked, and not only for a nil map"
			}
		}
		r.Check(bad == "", "C10.R2", fmt.Sprintf("DeleteStmt|map arm #%d: success before the key check only for a nil map", n), p.Pos(iff.Cond.Pos()), "every early successful return lies on the nil side of an IsNil test",
			bad+": an unhashable or ill-typed key is accepted silently when the map holds nothing (Go refuses it whatever the map holds)")
	}
	if n == 0 {
		r.Undecided("C10.R2", "DeleteStmt|map arm", p.Pos(h.Pos()), "no Kind() == Map test found in the delete handler")
	}
}

// reachesCallNamed: a call of reflect.<name> is reachable from b.
func reachesCallNamed(b *ssa.BasicBlock, name string) bool {
	for x := range reachable(b, nil) {
		for _, in := range x.Instrs {
			if c, ok := in.(*ssa.Call); ok {
				if o := calleeObj(c); o != nil && o.Pkg() != nil && o.Pkg().Path() == "reflect" && o.Name() == name {
					return true
				}
			}
		}
	}
	return false
}

// isSizeTestChain: block x is reached from the size test in b through a short-circuit continuation (`size < 1 && other`).
func isSizeTestChain(x, b *ssa.BasicBlock) bool {
	for i := 0; i < 3 && x != nil; i++ {
		if x == b {
			return true
		}
		// an intermediate block of a short-circuit condition only computes the next test
		for _, in := range x.Instrs {
			switch in.(type) {
			case *ssa.Store, *ssa.Return, *ssa.MapUpdate:
				return false
			case *ssa.Call:
				if c := in.(*ssa.Call); reflectMethod(c) == "" && calleeObj(c) != nil {
					return false
				}
			}
		}
		if len(x.Preds) != 1 {
			return false
		}
		// ... and the two tests of a short-circuit condition share their other way out
		shares := false
		for _, s1 := range x.Succs {
			for _, s2 := range b.Succs {
				if s1 == s2 {
					shares = true
				}
			}
		}
		if !shares {
			return false
		}
		x = x.Preds[0]
	}
	return false
}

// c10FoundEntryReturned: in the map read helper, once MapIndex has been made, the nil value is returned only for a missing key
// (the invalid result): evaluated with the not-found test decided as "found", no return of the shared nil value after the
// MapIndex call is reachable. An entry that exists and holds a typed nil (a nil *T, a nil slice) must come back as that typed
// nil: read through an interface{} parameter, or returned to the host, it is otherwise the untyped nil.
func c10FoundEntryReturned(p *Program, r *Report, m *vmModel, rule string) {
	n := 0
	for _, fn := range m.fns {
		sg := fn.Signature
		if sg.Recv() != nil || sg.Params().Len() != 2 || sg.Results().Len() != 1 || !isReflectValue(sg.Results().At(0).Type()) || len(fn.Blocks) == 0 {
			continue
		}
		var mi *ssa.Call
		for _, b := range fn.Blocks {
			for _, in := range b.Instrs {
				if c, ok := in.(*ssa.Call); ok && reflectMethod(c) == "MapIndex" {
					mi = c
				}
			}
		}
		if mi == nil {
			continue
		}
		world := map[ssa.Value]bool{}
		for _, b := range fn.Blocks {
			for _, in := range b.Instrs {
				if c, ok := in.(*ssa.Call); ok && reflectMethod(c) == "IsValid" && derivesFromCall(c.Call.Args[0], mi, 0) {
					world[c] = true
				}
			}
		}
		if len(world) == 0 {
			continue // no not-found test at all: reported by the not-found rule
		}
		reach := worldReachFrom(fn, mi.Block(), world)
		k := 0
		for _, b := range fn.Blocks {
			ret, ok := b.Instrs[len(b.Instrs)-1].(*ssa.Return)
			if !ok || !(mi.Block() == b || mi.Block().Dominates(b)) {
				continue
			}
			u, ok := ret.Results[0].(*ssa.UnOp)
			if !ok {
				continue
			}
			if g, ok := u.X.(*ssa.Global); !ok || g != m.nilValueGlobal() {
				continue
			}
			k++
			n++
			r.Check(!reach[b], rule, fmt.Sprintf("%s|nil value #%d only for a missing key", fn.Name(), k), p.Pos(instrPos(ret)), "unreachable once the entry was found",
				"the shared nil value is returned although MapIndex found an entry: an entry holding a typed nil (a nil pointer, slice, map, func of a Go type) reads back as the untyped nil and loses its dynamic type")
		}
	}
	r.Floor(rule, n, 1)
}
