package main

import (
	"fmt"
	"go/ast"
	"go/constant"
	"go/token"
	"go/types"
	"sort"
	"strings"
)

// LALR is E5: the parser tables of parser/parser.go, decoded.
type LALR struct {
	Exca, Act, Pact, Pgo, R1, R2, Chk, Def []int
	Tok1, Tok2, Tok3                       []int
	Toknames                               []string
	Last, Private, Flag                    int
	NStates, NTok, NNonterm                int
	TokConst                               map[string]int // IDENT -> 57346
	// recovered
	Reach     map[int]bool
	Edges     map[int]map[int]int // state -> symbol (tok>0, nonterminal<0) -> state
	Preds     map[int][]int       // state -> predecessor states (valid edges)
	RHS       map[int][]int       // rule -> right-hand side symbols
	ReducedIn map[int][]int       // rule -> states where it is reduced
	Ambig     []string
	Clauses   map[int]*ast.CaseClause // rule -> action clause in the reduction switch
	Switch    *ast.SwitchStmt
	NTName    map[int]string
	Info      *types.Info
	Fset      *token.FileSet
}

const (
	actError = iota
	actShift
	actReduce
	actAccept
)

func intTable(info *types.Info, e ast.Expr) ([]int, bool) {
	cl, ok := e.(*ast.CompositeLit)
	if !ok {
		return nil, false
	}
	var out []int
	for _, el := range cl.Elts {
		if kv, ok := el.(*ast.KeyValueExpr); ok {
			el = kv.Value
		}
		tv, ok := info.Types[el]
		if !ok || tv.Value == nil {
			return nil, false
		}
		v, ok := constant.Int64Val(constant.ToInt(tv.Value))
		if !ok {
			return nil, false
		}
		out = append(out, int(v))
	}
	return out, true
}

// BuildLALR extracts and decodes the tables.
func BuildLALR(p *Program) (*LALR, error) {
	ppk := p.Pkg("parser")
	if ppk == nil {
		return nil, fmt.Errorf("package parser not loaded")
	}
	g := &LALR{TokConst: map[string]int{}, Info: ppk.TypesInfo, Fset: p.Fset, Clauses: map[int]*ast.CaseClause{}}
	tabs := map[string]*[]int{"yyExca": &g.Exca, "yyAct": &g.Act, "yyPact": &g.Pact, "yyPgo": &g.Pgo, "yyR1": &g.R1,
		"yyR2": &g.R2, "yyChk": &g.Chk, "yyDef": &g.Def, "yyTok1": &g.Tok1, "yyTok2": &g.Tok2, "yyTok3": &g.Tok3}
	found := map[string]bool{}
	for _, f := range ppk.Syntax {
		for _, d := range f.Decls {
			gd, ok := d.(*ast.GenDecl)
			if !ok {
				continue
			}
			for _, sp := range gd.Specs {
				vs, ok := sp.(*ast.ValueSpec)
				if !ok {
					continue
				}
				for i, name := range vs.Names {
					if i >= len(vs.Values) {
						continue
					}
					if dst, ok := tabs[name.Name]; ok {
						t, ok := intTable(ppk.TypesInfo, vs.Values[i])
						if !ok {
							return nil, fmt.Errorf("table %s is not a constant integer literal", name.Name)
						}
						*dst = t
						found[name.Name] = true
					}
					if name.Name == "yyToknames" {
						cl, ok := vs.Values[i].(*ast.CompositeLit)
						if !ok {
							return nil, fmt.Errorf("yyToknames not a literal")
						}
						for _, el := range cl.Elts {
							tv := ppk.TypesInfo.Types[el]
							if tv.Value == nil {
								return nil, fmt.Errorf("yyToknames element not constant")
							}
							g.Toknames = append(g.Toknames, constant.StringVal(tv.Value))
						}
						found[name.Name] = true
					}
				}
			}
		}
	}
	for n := range tabs {
		if !found[n] {
			return nil, fmt.Errorf("table %s not found in package parser", n)
		}
	}
	if !found["yyToknames"] {
		return nil, fmt.Errorf("yyToknames not found")
	}
	cint := func(name string) (int, error) {
		o := ppk.Types.Scope().Lookup(name)
		c, ok := o.(*types.Const)
		if !ok {
			return 0, fmt.Errorf("constant %s not found", name)
		}
		v, ok := constant.Int64Val(constant.ToInt(c.Val()))
		if !ok {
			return 0, fmt.Errorf("constant %s not an integer", name)
		}
		return int(v), nil
	}
	var err error
	if g.Last, err = cint("yyLast"); err != nil {
		return nil, err
	}
	if g.Private, err = cint("yyPrivate"); err != nil {
		return nil, err
	}
	if g.Flag, err = cint("yyFlag"); err != nil {
		return nil, err
	}
	g.NStates = len(g.Pact)
	g.NTok = len(g.Toknames)
	g.NNonterm = len(g.Pgo)
	if len(g.Def) != g.NStates || len(g.Chk) != g.NStates || len(g.R1) != len(g.R2) || g.Last != len(g.Act) {
		return nil, fmt.Errorf("table sizes inconsistent: pact=%d def=%d chk=%d r1=%d r2=%d last=%d act=%d",
			len(g.Pact), len(g.Def), len(g.Chk), len(g.R1), len(g.R2), g.Last, len(g.Act))
	}
	// token constants
	for _, name := range ppk.Types.Scope().Names() {
		if c, ok := ppk.Types.Scope().Lookup(name).(*types.Const); ok && !strings.HasPrefix(name, "yy") {
			if v, ok := constant.Int64Val(constant.ToInt(c.Val())); ok && int(v) >= g.Private {
				g.TokConst[name] = int(v)
			}
		}
	}
	if err := g.findSwitch(ppk.Syntax); err != nil {
		return nil, err
	}
	if err := g.validateRanges(); err != nil {
		return nil, err
	}
	g.explore()
	g.nameNonterminals()
	return g, nil
}

// Translate maps a lexer token value (char or constant) to the internal token number, as yylex1 does.
func (g *LALR) Translate(char int) int {
	tok := 0
	switch {
	case char <= 0:
		tok = g.Tok1[0]
	case char < len(g.Tok1):
		tok = g.Tok1[char]
	case char >= g.Private && char < g.Private+len(g.Tok2):
		tok = g.Tok2[char-g.Private]
	default:
		for i := 0; i+1 < len(g.Tok3); i += 2 {
			if g.Tok3[i] == char {
				tok = g.Tok3[i+1]
				break
			}
		}
	}
	if tok == 0 {
		tok = g.Tok2[1]
	}
	return tok
}

// TokName gives the name of an internal token number.
func (g *LALR) TokName(t int) string {
	if t >= 1 && t-1 < len(g.Toknames) {
		return g.Toknames[t-1]
	}
	return fmt.Sprintf("tok-%d", t)
}

// TokByName finds the internal token number of a token name such as IDENT or '+'.
func (g *LALR) TokByName(name string) int {
	for i, n := range g.Toknames {
		if n == name {
			return i + 1
		}
	}
	return 0
}

func (g *LALR) SymName(sym int) string {
	if sym > 0 {
		return g.TokName(sym)
	}
	if n, ok := g.NTName[-sym]; ok {
		return n
	}
	return fmt.Sprintf("nt%d", -sym)
}

// Action decodes the parser's decision in state s on internal token t, exactly as the runtime does.
func (g *LALR) Action(s, t int) (kind, arg int) {
	yyn := g.Pact[s]
	if yyn > g.Flag {
		yyn += t
		if yyn >= 0 && yyn < g.Last {
			yyn = g.Act[yyn]
			if g.Chk[yyn] == t {
				return actShift, yyn
			}
		}
	}
	yyn = g.Def[s]
	if yyn == -2 {
		xi := 0
		for {
			if g.Exca[xi] == -1 && g.Exca[xi+1] == s {
				break
			}
			xi += 2
		}
		for xi += 2; ; xi += 2 {
			yyn = g.Exca[xi]
			if yyn < 0 || yyn == t {
				break
			}
		}
		yyn = g.Exca[xi+1]
		if yyn < 0 {
			return actAccept, 0
		}
	}
	if yyn == 0 {
		return actError, 0
	}
	return actReduce, yyn
}

// Goto decodes the goto table.
func (g *LALR) Goto(s, nt int) int {
	yyg := g.Pgo[nt]
	yyj := yyg + s + 1
	if yyj >= g.Last {
		return g.Act[yyg]
	}
	st := g.Act[yyj]
	if g.Chk[st] != -nt {
		st = g.Act[yyg]
	}
	return st
}

// validateRanges checks that every index computation of the runtime stays inside the tables
// for every state x every token (part of C01.R6c / C15.R3).
func (g *LALR) validateRanges() error {
	inRange := func(v, n int) bool { return v >= 0 && v < n }
	for s := 0; s < g.NStates; s++ {
		if g.Def[s] == -2 {
			// exception list for s must exist and be terminated
			xi, ok := 0, false
			for ; xi+1 < len(g.Exca); xi += 2 {
				if g.Exca[xi] == -1 && g.Exca[xi+1] == s {
					ok = true
					break
				}
			}
			if !ok {
				return fmt.Errorf("state %d: yyDef=-2 but no yyExca section (runtime search would run off the table)", s)
			}
			term := false
			for xi += 2; xi+1 < len(g.Exca); xi += 2 {
				if g.Exca[xi] < 0 {
					term = true
					break
				}
			}
			if !term {
				return fmt.Errorf("state %d: yyExca section not terminated", s)
			}
		}
		for t := 1; t <= g.NTok; t++ {
			yyn := g.Pact[s]
			if yyn > g.Flag {
				yyn += t
				if yyn >= 0 && yyn < g.Last {
					if !inRange(g.Act[yyn], g.NStates) {
						return fmt.Errorf("state %d tok %d: yyAct entry %d is not a state", s, t, g.Act[yyn])
					}
				}
			}
			k, r := g.Action(s, t)
			if k == actReduce {
				if !inRange(r, len(g.R1)) {
					return fmt.Errorf("state %d tok %d: reduce by rule %d out of range", s, t, r)
				}
				nt := g.R1[r]
				if !inRange(nt, len(g.Pgo)) {
					return fmt.Errorf("rule %d: nonterminal %d out of yyPgo range", r, nt)
				}
				if !inRange(g.Pgo[nt], g.Last) {
					return fmt.Errorf("nonterminal %d: yyPgo out of yyAct range", nt)
				}
			}
		}
	}
	for nt := range g.Pgo {
		for s := 0; s < g.NStates; s++ {
			if st := g.Goto(s, nt); !inRange(st, g.NStates) {
				return fmt.Errorf("goto(%d,%d)=%d is not a state", s, nt, st)
			}
		}
	}
	if len(g.Tok2) < 2 {
		return fmt.Errorf("yyTok2 too short")
	}
	return nil
}

// findSwitch locates the reduction switch (switch over the variable holding the rule number) in Parse.
func (g *LALR) findSwitch(files []*ast.File) error {
	for _, f := range files {
		ast.Inspect(f, func(n ast.Node) bool {
			sw, ok := n.(*ast.SwitchStmt)
			if !ok || sw.Tag == nil || g.Switch != nil {
				return true
			}
			id, ok := sw.Tag.(*ast.Ident)
			if !ok || id.Name != "yynt" {
				return true
			}
			g.Switch = sw
			for _, st := range sw.Body.List {
				cc := st.(*ast.CaseClause)
				for _, e := range cc.List {
					tv := g.Info.Types[e]
					if tv.Value != nil {
						if v, ok := constant.Int64Val(tv.Value); ok {
							g.Clauses[int(v)] = cc
						}
					}
				}
			}
			return false
		})
	}
	if g.Switch == nil {
		return fmt.Errorf("reduction switch (switch yynt) not found in package parser")
	}
	return nil
}

// explore computes the valid transition graph and recovers every rule's right-hand side.
func (g *LALR) explore() {
	g.Reach = map[int]bool{0: true}
	g.Edges = map[int]map[int]int{}
	g.Preds = map[int][]int{}
	g.ReducedIn = map[int][]int{}
	addEdge := func(s, sym, t int) bool {
		if g.Edges[s] == nil {
			g.Edges[s] = map[int]int{}
		}
		if old, ok := g.Edges[s][sym]; ok && old == t {
			return false
		}
		g.Edges[s][sym] = t
		g.Preds[t] = append(g.Preds[t], s)
		g.Reach[t] = true
		return true
	}
	reduces := func(s int) map[int]bool {
		out := map[int]bool{}
		for t := 1; t <= g.NTok; t++ {
			if k, r := g.Action(s, t); k == actReduce {
				out[r] = true
			}
		}
		return out
	}
	shiftsDone := map[int]bool{}
	for changed := true; changed; {
		changed = false
		var states []int
		for s := range g.Reach {
			states = append(states, s)
		}
		sort.Ints(states)
		for _, s := range states {
			if !shiftsDone[s] {
				shiftsDone[s] = true
				for t := 1; t <= g.NTok; t++ {
					if k, a := g.Action(s, t); k == actShift {
						if addEdge(s, t, a) {
							changed = true
						}
					}
				}
			}
			for r := range reduces(s) {
				// walk back |r| valid edges
				frontier := map[int]bool{s: true}
				for i := 0; i < g.R2[r]; i++ {
					next := map[int]bool{}
					for st := range frontier {
						for _, pr := range g.Preds[st] {
							next[pr] = true
						}
					}
					frontier = next
				}
				for pstate := range frontier {
					nt := g.R1[r]
					if addEdge(pstate, -nt, g.Goto(pstate, nt)) {
						changed = true
					}
				}
			}
		}
	}
	// recover RHS
	g.RHS = map[int][]int{}
	var states []int
	for s := range g.Reach {
		states = append(states, s)
	}
	sort.Ints(states)
	for _, s := range states {
		for r := range reduces(s) {
			g.ReducedIn[r] = append(g.ReducedIn[r], s)
			// all back-walks must spell the same RHS
			var walk func(st, k int, acc []int)
			walk = func(st, k int, acc []int) {
				if k == 0 {
					rhs := make([]int, len(acc))
					for i := range acc {
						rhs[i] = acc[len(acc)-1-i]
					}
					if old, ok := g.RHS[r]; ok {
						if fmt.Sprint(old) != fmt.Sprint(rhs) {
							g.Ambig = append(g.Ambig, fmt.Sprintf("rule %d: %v vs %v", r, old, rhs))
						}
					} else {
						g.RHS[r] = rhs
					}
					return
				}
				seen := map[int]bool{}
				for _, pr := range g.Preds[st] {
					if seen[pr] {
						continue
					}
					seen[pr] = true
					walk(pr, k-1, append(acc, g.Chk[st]))
				}
			}
			walk(s, g.R2[r], nil)
		}
	}
	for r := range g.ReducedIn {
		sort.Ints(g.ReducedIn[r])
	}
}

// nameNonterminals names nonterminals after the union field their actions assign (reader convenience only).
func (g *LALR) nameNonterminals() {
	g.NTName = map[int]string{}
	votes := map[int]map[string]int{}
	for r, cc := range g.Clauses {
		if r >= len(g.R1) {
			continue
		}
		nt := g.R1[r]
		ast.Inspect(cc, func(n ast.Node) bool {
			as, ok := n.(*ast.AssignStmt)
			if !ok {
				return true
			}
			for _, l := range as.Lhs {
				if se, ok := l.(*ast.SelectorExpr); ok {
					if id, ok := se.X.(*ast.Ident); ok && id.Name == "yyVAL" {
						if votes[nt] == nil {
							votes[nt] = map[string]int{}
						}
						votes[nt][se.Sel.Name]++
					}
				}
			}
			return true
		})
	}
	used := map[string]int{}
	var nts []int
	for nt := range votes {
		nts = append(nts, nt)
	}
	sort.Ints(nts)
	for _, nt := range nts {
		best, bn := "", 0
		for n, c := range votes[nt] {
			if c > bn || (c == bn && n < best) {
				best, bn = n, c
			}
		}
		g.NTName[nt] = best
		used[best]++
	}
	for nt, n := range g.NTName {
		if used[n] > 1 {
			g.NTName[nt] = fmt.Sprintf("%s#%d", n, nt)
		}
	}
}

// RuleString renders a rule.
func (g *LALR) RuleString(r int) string {
	var parts []string
	for _, s := range g.RHS[r] {
		parts = append(parts, g.SymName(s))
	}
	return fmt.Sprintf("%d: %s -> %s", r, g.SymName(-g.R1[r]), strings.Join(parts, " "))
}

// After returns the set of states reached from any reachable state p by spelling syms.
func (g *LALR) After(syms []int) map[int][]int { // end state -> start states
	out := map[int][]int{}
	var starts []int
	for s := range g.Reach {
		starts = append(starts, s)
	}
	sort.Ints(starts)
	for _, p0 := range starts {
		st, ok := p0, true
		for _, sym := range syms {
			nx, has := g.Edges[st][sym]
			if !has {
				ok = false
				break
			}
			st = nx
		}
		if ok {
			out[st] = append(out[st], p0)
		}
	}
	return out
}

// AfterRule: the states reached after the right-hand side of rule, started from every state in which the rule's
// left-hand side is expected (valid goto edge) — end state -> start states.
func (g *LALR) AfterRule(rule int) map[int][]int {
	out := map[int][]int{}
	var starts []int
	for s := range g.Reach {
		if _, ok := g.Edges[s][-g.R1[rule]]; ok {
			starts = append(starts, s)
		}
	}
	sort.Ints(starts)
	for _, p0 := range starts {
		st, ok := p0, true
		for _, sym := range g.RHS[rule] {
			nx, has := g.Edges[st][sym]
			if !has {
				ok = false
				break
			}
			st = nx
		}
		if ok {
			out[st] = append(out[st], p0)
		}
	}
	return out
}
