package main

import (
	"fmt"
	"go/token"
	"go/types"
	"sort"
	"strings"

	"golang.org/x/tools/go/ssa"
)

func init() {
	register("C20", "a value behaves the same wherever it came from", func(p *Program, r *Report) {
		checkC20(p, r)
		if m, err := buildVMModel(p); err == nil {
			r.Explain("R2 the unwrap idiom tests the value it unwraps: an Elem() taken on the true side of `w.Kind() == Interface` is applied to w itself.")
			c20UnwrapIdiom(p, r, m)
			r.Explain("R3 Elem() is applied on the side where the value tested interface/pointer and, where IsNil() of it was tested, not nil.")
			c20ElemGuards(p, r, m)
		}
	})
}

func checkC20(p *Program, r *Report) {
	r.Explain("C20: a value that travelled through an interface{} slot (slice/map element, struct field, result of a function declared to return interface{}, channel element, binding read from a scope) reaches an operation as a reflect.Value of kind Interface ('wrapped'). The property holds iff no operation lets that wrapper influence its outcome. " +
		"R1 wrapped-world simulation of every function of vm on SSA: every source of operand values (the rv cell after each evaluation event, Index/MapIndex/Field/Recv results, scope reads, one reflect.Value parameter at a time for helpers) is assumed wrapped; tests on a wrapped value are folded (Kind()==K false for K != Interface, IsNil() false, Type()==interfaceType true) and infeasible edges pruned; reported are (a) a kind-sensitive reflect operation on a still-wrapped value, (b) a still-wrapped value handed to a helper parameter found to discriminate, (c) an outcome (store to the result/error cell, a helper's return) reached after a test was decided by the wrapper with the value never unwrapped. The unwrap idiom is recognised semantically in every spelling (Elem applied to a wrapped value). " +
		"R2 what the package stores into reflect.Value fields of its own structures (captured deferred calls) is summarised and used at the reads. R3 the per-handler table of unwrapped operands is attached.")
	r.Assume("the wrapper is an interface{} slot (the containers a script can build); pointers to interface variables are treated as possibly wrapped after dereference; CanAddr/CanSet differences between an element and a copy are intended aliasing semantics, not provenance dependence")
	m, err := buildVMModel(p)
	if err != nil {
		r.Undecided("C20.R1", "model", "vm", err.Error())
		return
	}
	c20SiblingProductions(p, r)
	ka := buildKindAnalysis(m)
	va := buildEvalAnalysis(m)
	r.Explain("R5 (= C07.R8) in the operator handlers the first operand is taken out of its interface before the second operand is evaluated: a value read from a list slot would otherwise stay an alias of that slot while the second operand runs, and behave differently from the same value held in a variable.")
	leftValueFixedBeforeRight(p, r, m, va, "C20.R5")
	r.Note("discriminating_helper_parameters", ka.describe())
	var fields []string
	for k, w := range ka.fieldW {
		fields = append(fields, fmt.Sprintf("%s: %s", k, map[wrapState]string{wNo: "never wrapped", wYes: "may be wrapped", wMay: "may be wrapped"}[w]))
	}
	sort.Strings(fields)
	r.Note("value_fields", fields)
	nOps := 0
	var table []string
	for _, fn := range m.funcsOnRecord() {
		fname := funcName(fn)
		fs := ka.finds[fn]
		byKey := map[string]int{}
		for _, f := range fs {
			what := f.what
			if i := strings.Index(what, " ("); i > 0 && strings.HasPrefix(what, "passed still wrapped") {
				what = what[:i]
			}
			key := fname + "|" + shortWhat(what)
			byKey[key]++
			inst := key
			if byKey[key] > 1 {
				inst = fmt.Sprintf("%s #%d", key, byKey[key])
			}
			r.Fail("C20.R1", inst, p.Pos(instrPos(f.in)), "an operand that was read from a container (or any interface{} slot) behaves differently from the same value held in a variable: "+f.what)
		}
		// one discharged obligation per evaluation event whose operand is then used
		for _, e := range va.events[fn] {
			if e.role == "let" {
				continue
			}
			nOps++
		}
		if len(fs) == 0 && len(va.events[fn]) > 0 {
			r.OK("C20.R1", fname+"|operands", p.Pos(fn.Pos()), fmt.Sprintf("%d operand evaluations: no kind-dependent outcome reachable with a wrapped operand", len(va.events[fn])))
		}
		// R3 table: which operands are unwrapped (Elem under the idiom) in this function
		un := 0
		for _, b := range fn.Blocks {
			for _, in := range b.Instrs {
				if c, ok := in.(*ssa.Call); ok && reflectMethod(c) == "Elem" {
					un++
				}
			}
		}
		if len(va.events[fn]) > 0 {
			table = append(table, fmt.Sprintf("%s: %d evaluations, %d Elem applications", fname, len(va.events[fn]), un))
		}
	}
	// helpers (no record): findings inside them concern values they read themselves (Index, MapIndex …)
	for _, fn := range m.fns {
		if m.baseOf(fn) != nil || strings.HasPrefix(fn.Name(), "init") {
			continue
		}
		fl := &kindFlow{a: ka, fn: fn, base: nil, wrapP: -1, finds: map[string]kindFinding{}}
		st0 := fl.Entry()
		st0.rv = wNo
		runForwardWith(fn, fl, st0)
		var keys []string
		for k := range fl.finds {
			keys = append(keys, k)
		}
		sort.Strings(keys)
		for i, k := range keys {
			f := fl.finds[k]
			r.Fail("C20.R1", fmt.Sprintf("%s|element use #%d", funcName(fn), i+1), p.Pos(instrPos(f.in)), "a container element is used without unwrapping: "+f.what)
		}
		if len(keys) == 0 && fn.Blocks != nil {
			hasV := false
			for _, prm := range fn.Params {
				if isReflectValue(prm.Type()) {
					hasV = true
				}
			}
			if hasV {
				nOps++
				r.OK("C20.R1", funcName(fn)+"|elements", p.Pos(fn.Pos()), "values read inside the helper are unwrapped before kind-dependent use")
			}
		}
	}
	r.Floor("C20.R1", nOps, 100)
	r.Note("handlers", table)
}

func shortWhat(s string) string {
	if len(s) > 70 {
		s = s[:70]
	}
	return s
}

// c20UnwrapIdiom (R2): the unwrap idiom tests the value it unwraps: an Elem() taken on the true side of `w.Kind() == Interface`
// is applied to w itself, not to another operand.
func c20UnwrapIdiom(p *Program, r *Report, m *vmModel) {
	n := 0
	for _, fn := range m.fns {
		if len(fn.Blocks) == 0 || strings.HasPrefix(fn.Name(), "init") {
			continue
		}
		var tt *typeTerms
		k := 0
		for _, b := range fn.Blocks {
			for _, in := range b.Instrs {
				c, ok := in.(*ssa.Call)
				if !ok || reflectMethod(c) != "Elem" {
					continue
				}
				// the nearest interface-kind test on whose true side this block lies
				var tested ssa.Value
				for d := b; d != nil && d.Idom() != nil && tested == nil; d = d.Idom() {
					id := d.Idom()
					iff, ok := id.Instrs[len(id.Instrs)-1].(*ssa.If)
					if !ok {
						continue
					}
					// `Kind()==Interface && !IsNil()` arrives as two tests: look at both shapes
					cond := iff.Cond
					if u, ok := cond.(*ssa.UnOp); ok && u.Op == token.NOT {
						cond = u.X
					}
					if k, K := kindCmp(cond); k != nil && K == 20 && edgeOnly(id, 0, d) {
						tested = k.(*ssa.Call).Call.Args[0]
					}
				}
				if tested == nil {
					continue
				}
				// only the Elem that directly follows the test (same operand family): later Elem calls on other values inside
				// the guarded region (pointer targets, elements) are not part of the idiom
				if !firstElemUnder(c, b) {
					continue
				}
				if tt == nil {
					tt = newTypeTerms(m, fn, nil)
				}
				n++
				k++
				recv := c.Call.Args[0]
				r.Check(tt.sameValue(recv, tested) || sameCellContent(tt, recv, tested) || sameAllocLoad(recv, tested), "C20.R2", fmt.Sprintf("%s|unwrap #%d", funcName(fn), k), p.Pos(c.Pos()), "the value tested for being an interface is the value unwrapped",
					"an interface test on one operand guards the unwrapping of another: the operand that is actually wrapped is left wrapped (or a plain one is unwrapped)")
			}
		}
	}
	r.Floor("C20.R2", n, 30)
}

// firstElemUnder: c is the first Elem() call in its block and the block is entered directly from the interface tests.
func firstElemUnder(c *ssa.Call, b *ssa.BasicBlock) bool {
	for _, in := range b.Instrs {
		if x, ok := in.(*ssa.Call); ok && reflectMethod(x) == "Elem" {
			return x == c
		}
	}
	return false
}

// sameAllocLoad: a and b are loads of the same local kept in memory (a variable captured by a function literal), with no store to
// it between the later one and the start of its block.
func sameAllocLoad(a, b ssa.Value) bool {
	ua, ok1 := a.(*ssa.UnOp)
	ub, ok2 := b.(*ssa.UnOp)
	if !ok1 || !ok2 || ua.Op != token.MUL || ub.Op != token.MUL {
		return false
	}
	al, ok := ua.X.(*ssa.Alloc)
	if !ok || ub.X != ssa.Value(al) {
		return false
	}
	for _, in := range ua.Block().Instrs {
		if in == ssa.Instruction(ua) {
			break
		}
		if st, ok := in.(*ssa.Store); ok && st.Addr == ssa.Value(al) {
			return false
		}
	}
	return true
}

// sameCellContent: a and b are loads of the same cell of the record reached by exactly the same definitions.
func sameCellContent(tt *typeTerms, a, b ssa.Value) bool {
	ua, ok1 := a.(*ssa.UnOp)
	ub, ok2 := b.(*ssa.UnOp)
	if !ok1 || !ok2 || tt.base == nil {
		return false
	}
	ca, cb := tt.m.cellAddr(ua.X, tt.base), tt.m.cellAddr(ub.X, tt.base)
	if ca == "" || ca != cb {
		return false
	}
	da, db := tt.before[ua][ca], tt.before[ub][cb]
	if len(da) != len(db) || len(da) == 0 {
		return false
	}
	for d := range da {
		if !db[d] {
			return false
		}
	}
	return true
}

// c20ElemGuards (R3): reflect.Value.Elem() is applied where the value's kind is known to be interface or pointer, and - when the
// same value was tested with IsNil() on the way - on the not-nil side. A flipped test makes the plain case fail and lets the
// wrong kind through to Elem().
func c20ElemGuards(p *Program, r *Report, m *vmModel) {
	n := 0
	for _, fn := range m.fns {
		if len(fn.Blocks) == 0 || strings.HasPrefix(fn.Name(), "init") {
			continue
		}
		var tt *typeTerms
		k := 0
		for _, b := range fn.Blocks {
			for _, in := range b.Instrs {
				c, ok := in.(*ssa.Call)
				if !ok || reflectMethod(c) != "Elem" {
					continue
				}
				recv := c.Call.Args[0]
				if freshPointer(recv, 0) {
					continue // reflect.New(t).Elem(), v.Addr().Elem(): a pointer by construction
				}
				if tt == nil {
					tt = newTypeTerms(m, fn, nil)
				}
				same := func(v ssa.Value) bool {
					return v == recv || tt.sameValue(v, recv) || sameCellContent(tt, v, recv) || sameAllocLoad(recv, v) || sameAllocLoad(v, recv)
				}
				kindOK, nilBad, sawNil := false, false, false
				for d := b; d != nil && d.Idom() != nil; d = d.Idom() {
					id := d.Idom()
					iff, ok := id.Instrs[len(id.Instrs)-1].(*ssa.If)
					if !ok {
						continue
					}
					cond, neg := iff.Cond, false
					if u, ok := cond.(*ssa.UnOp); ok && u.Op == token.NOT {
						cond, neg = u.X, true
					}
					trueSide := edgeOnly(id, 0, d)
					falseSide := edgeOnly(id, 1, d)
					if neg {
						trueSide, falseSide = falseSide, trueSide
					}
					switch x := cond.(type) {
					case *ssa.BinOp:
						kc, ok := x.X.(*ssa.Call)
						if ok && reflectMethod(kc) == "Type" && same(kc.Call.Args[0]) && x.Op == token.EQL && trueSide {
							if u, ok := x.Y.(*ssa.UnOp); ok {
								if _, isG := u.X.(*ssa.Global); isG {
									kindOK = true // v.Type() == interfaceType
								}
							}
							continue
						}
						if !ok || reflectMethod(kc) != "Kind" || !same(kc.Call.Args[0]) {
							continue
						}
						K, ok := x.Y.(*ssa.Const)
						if !ok || K.Value == nil || (K.Int64() != 20 && K.Int64() != 22) {
							continue
						}
						if (x.Op == token.EQL && trueSide) || (x.Op == token.NEQ && falseSide) {
							kindOK = true
						}
					case *ssa.Call:
						if reflectMethod(x) == "IsNil" && same(x.Call.Args[0]) {
							sawNil = true
							if trueSide {
								nilBad = true
							}
						}
					}
				}
				// `a == Interface || a == Ptr` enters the block from two tests: accept when every entering edge is such a test
				if !kindOK {
					kindOK = elemEnteredFromKindTests(b, same)
				}
				if why := elemEnteredFromBadEdge(b, same); why != "" && !nilBad {
					n++
					k++
					r.Fail("C20.R3", fmt.Sprintf("%s|Elem #%d on the tested side", funcName(fn), k), p.Pos(c.Pos()), "Elem() can be reached on "+why+": the test that guards the unwrapping or dereference is flipped")
					continue
				}
				if !kindOK && !sawNil && elemEnteredFromSomeTest(b, same) {
					n++
					k++
					r.Fail("C20.R3", fmt.Sprintf("%s|Elem #%d on the tested side", funcName(fn), k), p.Pos(c.Pos()), "Elem() is reached from a kind test of the value AND from another condition (a disjunction): the value can arrive here without being an interface or pointer")
					continue
				}
				if !kindOK && !sawNil {
					continue // no test at all on this path: typed knowledge (a pointer by type, a helper's contract) - not this rule's business
				}
				n++
				k++
				bad := ""
				if nilBad {
					bad = "Elem() is applied on the side where IsNil() of the same value is true"
				} else if !kindOK {
					bad = "Elem() is applied on the side where the value's kind was tested NOT to be interface/pointer"
				}
				r.Check(bad == "", "C20.R3", fmt.Sprintf("%s|Elem #%d on the tested side", funcName(fn), k), p.Pos(c.Pos()), "kind is interface or pointer, and not nil where that was tested", bad+": the test that guards the unwrapping or dereference is flipped")
			}
		}
	}
	r.Floor("C20.R3", n, 40)
}

func freshPointer(v ssa.Value, depth int) bool {
	if depth > 4 {
		return false
	}
	switch x := v.(type) {
	case *ssa.Call:
		if o := calleeObj(x); o != nil && o.Pkg() != nil && o.Pkg().Path() == "reflect" && (o.Name() == "New" || o.Name() == "PtrTo") {
			return true
		}
		if reflectMethod(x) == "Addr" {
			return true
		}
	case *ssa.Extract:
		return true // results of helper calls (makeValue ...): typed by contract
	case *ssa.Phi:
		for _, e := range x.Edges {
			if !freshPointer(e, depth+1) {
				return false
			}
		}
		return true
	}
	return false
}

// elemEnteredFromKindTests: every edge entering b (through empty forwarding blocks) is the true edge of a Kind()==Interface/Ptr test of the value.
func elemEnteredFromKindTests(b *ssa.BasicBlock, same func(ssa.Value) bool) bool {
	if len(b.Preds) < 2 {
		return false
	}
	for _, pr := range b.Preds {
		iff, ok := pr.Instrs[len(pr.Instrs)-1].(*ssa.If)
		if !ok || pr.Succs[0] != b {
			return false
		}
		bo, ok := iff.Cond.(*ssa.BinOp)
		if !ok || bo.Op != token.EQL {
			return false
		}
		kc, ok := bo.X.(*ssa.Call)
		if !ok || reflectMethod(kc) != "Kind" || !same(kc.Call.Args[0]) {
			return false
		}
		K, ok := bo.Y.(*ssa.Const)
		if !ok || (K.Int64() != 20 && K.Int64() != 22) {
			return false
		}
	}
	return true
}

// elemEnteredFromBadEdge: some edge entering b is the true edge of `Kind() != Ptr/Interface` or of IsNil() of the value.
func elemEnteredFromBadEdge(b *ssa.BasicBlock, same func(ssa.Value) bool) string {
	for _, pr := range b.Preds {
		iff, ok := pr.Instrs[len(pr.Instrs)-1].(*ssa.If)
		if !ok {
			continue
		}
		cond, neg := iff.Cond, false
		if u, ok := cond.(*ssa.UnOp); ok && u.Op == token.NOT {
			cond, neg = u.X, true
		}
		onTrue := pr.Succs[0] == b && pr.Succs[1] != b
		onFalse := pr.Succs[1] == b && pr.Succs[0] != b
		if neg {
			onTrue, onFalse = onFalse, onTrue
		}
		switch x := cond.(type) {
		case *ssa.BinOp:
			kc, ok := x.X.(*ssa.Call)
			if !ok || reflectMethod(kc) != "Kind" || !same(kc.Call.Args[0]) {
				continue
			}
			K, ok := x.Y.(*ssa.Const)
			if !ok || K.Value == nil || K.Int64() != 22 {
				continue
			}
			if x.Op == token.NEQ && onTrue {
				return "the side where the kind tested not to be a pointer"
			}
		case *ssa.Call:
			if reflectMethod(x) == "IsNil" && same(x.Call.Args[0]) && onTrue {
				return "the side where IsNil() of the value is true"
			}
		}
	}
	return ""
}

// elemEnteredFromSomeTest: at least one edge entering b is a kind or nil test of the value (so b is guarded, but not by kind tests alone).
func elemEnteredFromSomeTest(b *ssa.BasicBlock, same func(ssa.Value) bool) bool {
	for _, pr := range b.Preds {
		iff, ok := pr.Instrs[len(pr.Instrs)-1].(*ssa.If)
		if !ok {
			continue
		}
		cond := iff.Cond
		if u, ok := cond.(*ssa.UnOp); ok && u.Op == token.NOT {
			cond = u.X
		}
		switch x := cond.(type) {
		case *ssa.BinOp:
			if kc, ok := x.X.(*ssa.Call); ok && reflectMethod(kc) == "Kind" && same(kc.Call.Args[0]) {
				return true
			}
		case *ssa.Call:
			if reflectMethod(x) == "IsNil" && same(x.Call.Args[0]) {
				return true
			}
		}
	}
	return false
}

// c20SiblingProductions (R4): the grammar spells each call form four to eight times (plain / go / defer, named / any callee
// expression, with / without `...`). The productions agree: a node is marked VarArg exactly when its production contains the
// `...` token, and Go exactly when it contains `go`. A sibling that forgets the mark makes the same call behave differently
// depending on how the callee is written.
func c20SiblingProductions(p *Program, r *Report) {
	r.Explain("R4 sibling call productions agree: VarArg is set exactly when the production contains the `...` token, Go exactly when it contains `go`.")
	g, err := BuildLALR(p)
	if err != nil {
		r.Undecided("C20.R4", "grammar", "parser", err.Error())
		return
	}
	nm, err := BuildNodeModel(p, g)
	if err != nil {
		r.Undecided("C20.R4", "node model", "parser", err.Error())
		return
	}
	pairs := []struct{ tok, field string }{{"VARARG", "VarArg"}, {"GO", "Go"}}
	n := 0
	cnt := map[string]int{}
	for _, pr := range nm.Producers {
		nt, ok := nm.Nodes[pr.Kind]
		if !ok {
			continue
		}
		st, ok := nt.Underlying().(*types.Struct)
		if !ok {
			continue
		}
		for _, pair := range pairs {
			has := false
			for i := 0; i < st.NumFields(); i++ {
				if b, ok := st.Field(i).Type().(*types.Basic); ok && st.Field(i).Name() == pair.field && b.Kind() == types.Bool {
					has = true
				}
			}
			t := g.TokByName(pair.tok)
			if !has || t == 0 {
				continue
			}
			inRule := false
			for _, sym := range g.RHS[pr.Rule] {
				if sym == t {
					inRule = true
				}
			}
			n++
			inst := fmt.Sprintf("%s.%s in rule %s", pr.Kind, pair.field, g.RuleString(pr.Rule))
			cnt[inst]++
			if cnt[inst] > 1 {
				inst = fmt.Sprintf("%s #%d", inst, cnt[inst])
			}
			pos := "parser/parser.go.y"
			if cc := g.Clauses[pr.Rule]; cc != nil {
				pos = p.Pos(cc.Pos())
			}
			r.Check(inRule == pr.True[pair.field], "C20.R4", inst, pos, fmt.Sprintf("%s is set exactly when the production contains %s", pair.field, pair.tok),
				fmt.Sprintf("the production contains %s: %v, but the node it builds has %s: %v — its sibling productions mark the node, so the same call means something else depending on how the callee (or the statement around it) is written", pair.tok, inRule, pair.field, pr.True[pair.field]))
		}
	}
	r.Floor("C20.R4", n, 20)
}
