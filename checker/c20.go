package main

import (
	"fmt"
	"go/token"
	"sort"
	"strings"

	"golang.org/x/tools/go/ssa"
)

func init() {
	register("C20", "a value behaves the same wherever it came from", func(p *Program, r *Report) {
		checkC20(p, r)
		if m, err := buildVMModel(p); err == nil {
			r.Explain("R2 the unwrap idiom tests the value it unwraps: an Elem() taken on the true side of `w.Kind() == Interface` is applied to w itself.")
			c20UnwrapIdiom(p, r, m)
		}
	})
}

func checkC20(p *Program, r *Report) {
	r.Explain("C20: a value that travelled through an interface{} slot (slice/map element, struct field, result of a function declared to return interface{}, channel element, binding read from a scope) reaches an operation as a reflect.Value of kind Interface ('wrapped'). The property holds iff no operation lets that wrapper influence its outcome. " +
		"R1 wrapped-world simulation of every function of vm on SSA: every source of operand values (the rv cell after each evaluation event, Index/MapIndex/Field/Recv results, scope reads, one reflect.Value parameter at a time for helpers) is assumed wrapped; tests on a wrapped value are folded (Kind()==K false for K != Interface, IsNil() false, Type()==interfaceType true) and infeasible edges pruned; reported are (a) a kind-sensitive reflect operation on a still-wrapped value, (b) a still-wrapped value handed to a helper parameter found to discriminate, (c) an outcome (store to the result/error cell, a helper's return) reached after a test was decided by the wrapper with the value never unwrapped. The unwrap idiom is recognised semantically in every spelling (Elem applied to a wrapped value). " +
		"R2 what the package stores into reflect.Value fields of its own structures (captured deferred calls) is summarised and used at the reads. R3 the per-handler table of unwrapped operands is attached.")
	r.Assume("the wrapper is an interface{} slot (the containers a script can build); pointers to interface variables are treated as possibly wrapped after dereference; CanAddr/CanSet differences between an element and a copy are intended aliasing semantics, not provenance dependence")
	m, err := buildVMModel(p)
	if err != nil {
		r.Undecided("C20.R1", "model", "vm", err.Error())
		return
	}
	ka := buildKindAnalysis(m)
	va := buildEvalAnalysis(m)
	r.Note("discriminating_helper_parameters", ka.describe())
	var fields []string
	for k, w := range ka.fieldW {
		fields = append(fields, fmt.Sprintf("%s: %s", k, map[wrapState]string{wNo: "never wrapped", wYes: "may be wrapped", wMay: "may be wrapped"}[w]))
	}
	sort.Strings(fields)
	r.Note("value_fields", fields)
	nOps := 0
	var table []string
	for _, fn := range m.funcsOnRecord() {
		fname := funcName(fn)
		fs := ka.finds[fn]
		byKey := map[string]int{}
		for _, f := range fs {
			what := f.what
			if i := strings.Index(what, " ("); i > 0 && strings.HasPrefix(what, "passed still wrapped") {
				what = what[:i]
			}
			key := fname + "|" + shortWhat(what)
			byKey[key]++
			inst := key
			if byKey[key] > 1 {
				inst = fmt.Sprintf("%s #%d", key, byKey[key])
			}
			r.Fail("C20.R1", inst, p.Pos(instrPos(f.in)), "an operand that was read from a container (or any interface{} slot) behaves differently from the same value held in a variable: "+f.what)
		}
		// one discharged obligation per evaluation event whose operand is then used
		for _, e := range va.events[fn] {
			if e.role == "let" {
				continue
			}
			nOps++
		}
		if len(fs) == 0 && len(va.events[fn]) > 0 {
			r.OK("C20.R1", fname+"|operands", p.Pos(fn.Pos()), fmt.Sprintf("%d operand evaluations: no kind-dependent outcome reachable with a wrapped operand", len(va.events[fn])))
		}
		// R3 table: which operands are unwrapped (Elem under the idiom) in this function
		un := 0
		for _, b := range fn.Blocks {
			for _, in := range b.Instrs {
				if c, ok := in.(*ssa.Call); ok && reflectMethod(c) == "Elem" {
					un++
				}
			}
		}
		if len(va.events[fn]) > 0 {
			table = append(table, fmt.Sprintf("%s: %d evaluations, %d Elem applications", fname, len(va.events[fn]), un))
		}
	}
	// helpers (no record): findings inside them concern values they read themselves (Index, MapIndex …)
	for _, fn := range m.fns {
		if m.baseOf(fn) != nil || strings.HasPrefix(fn.Name(), "init") {
			continue
		}
		fl := &kindFlow{a: ka, fn: fn, base: nil, wrapP: -1, finds: map[string]kindFinding{}}
		st0 := fl.Entry()
		st0.rv = wNo
		runForwardWith(fn, fl, st0)
		var keys []string
		for k := range fl.finds {
			keys = append(keys, k)
		}
		sort.Strings(keys)
		for i, k := range keys {
			f := fl.finds[k]
			r.Fail("C20.R1", fmt.Sprintf("%s|element use #%d", funcName(fn), i+1), p.Pos(instrPos(f.in)), "a container element is used without unwrapping: "+f.what)
		}
		if len(keys) == 0 && fn.Blocks != nil {
			hasV := false
			for _, prm := range fn.Params {
				if isReflectValue(prm.Type()) {
					hasV = true
				}
			}
			if hasV {
				nOps++
				r.OK("C20.R1", funcName(fn)+"|elements", p.Pos(fn.Pos()), "values read inside the helper are unwrapped before kind-dependent use")
			}
		}
	}
	r.Floor("C20.R1", nOps, 100)
	r.Note("handlers", table)
}

func shortWhat(s string) string {
	if len(s) > 70 {
		s = s[:70]
	}
	return s
}

// c20UnwrapIdiom (R2): the unwrap idiom tests the value it unwraps: an Elem() taken on the true side of `w.Kind() == Interface`
// is applied to w itself, not to another operand.
func c20UnwrapIdiom(p *Program, r *Report, m *vmModel) {
	n := 0
	for _, fn := range m.fns {
		if len(fn.Blocks) == 0 || strings.HasPrefix(fn.Name(), "init") {
			continue
		}
		var tt *typeTerms
		k := 0
		for _, b := range fn.Blocks {
			for _, in := range b.Instrs {
				c, ok := in.(*ssa.Call)
				if !ok || reflectMethod(c) != "Elem" {
					continue
				}
				// the nearest interface-kind test on whose true side this block lies
				var tested ssa.Value
				for d := b; d != nil && d.Idom() != nil && tested == nil; d = d.Idom() {
					id := d.Idom()
					iff, ok := id.Instrs[len(id.Instrs)-1].(*ssa.If)
					if !ok {
						continue
					}
					// `Kind()==Interface && !IsNil()` arrives as two tests: look at both shapes
					cond := iff.Cond
					if u, ok := cond.(*ssa.UnOp); ok && u.Op == token.NOT {
						cond = u.X
					}
					if k, K := kindCmp(cond); k != nil && K == 20 && edgeOnly(id, 0, d) {
						tested = k.(*ssa.Call).Call.Args[0]
					}
				}
				if tested == nil {
					continue
				}
				// only the Elem that directly follows the test (same operand family): later Elem calls on other values inside
				// the guarded region (pointer targets, elements) are not part of the idiom
				if !firstElemUnder(c, b) {
					continue
				}
				if tt == nil {
					tt = newTypeTerms(m, fn, nil)
				}
				n++
				k++
				recv := c.Call.Args[0]
				r.Check(tt.sameValue(recv, tested) || sameCellContent(tt, recv, tested) || sameAllocLoad(recv, tested), "C20.R2", fmt.Sprintf("%s|unwrap #%d", funcName(fn), k), p.Pos(c.Pos()), "the value tested for being an interface is the value unwrapped",
					"an interface test on one operand guards the unwrapping of another: the operand that is actually wrapped is left wrapped (or a plain one is unwrapped)")
			}
		}
	}
	r.Floor("C20.R2", n, 30)
}

// firstElemUnder: c is the first Elem() call in its block and the block is entered directly from the interface tests.
func firstElemUnder(c *ssa.Call, b *ssa.BasicBlock) bool {
	for _, in := range b.Instrs {
		if x, ok := in.(*ssa.Call); ok && reflectMethod(x) == "Elem" {
			return x == c
		}
	}
	return false
}

// sameAllocLoad: a and b are loads of the same local kept in memory (a variable captured by a function literal), with no store to
// it between the later one and the start of its block.
func sameAllocLoad(a, b ssa.Value) bool {
	ua, ok1 := a.(*ssa.UnOp)
	ub, ok2 := b.(*ssa.UnOp)
	if !ok1 || !ok2 || ua.Op != token.MUL || ub.Op != token.MUL {
		return false
	}
	al, ok := ua.X.(*ssa.Alloc)
	if !ok || ub.X != ssa.Value(al) {
		return false
	}
	for _, in := range ua.Block().Instrs {
		if in == ssa.Instruction(ua) {
			break
		}
		if st, ok := in.(*ssa.Store); ok && st.Addr == ssa.Value(al) {
			return false
		}
	}
	return true
}

// sameCellContent: a and b are loads of the same cell of the record reached by exactly the same definitions.
func sameCellContent(tt *typeTerms, a, b ssa.Value) bool {
	ua, ok1 := a.(*ssa.UnOp)
	ub, ok2 := b.(*ssa.UnOp)
	if !ok1 || !ok2 || tt.base == nil {
		return false
	}
	ca, cb := tt.m.cellAddr(ua.X, tt.base), tt.m.cellAddr(ub.X, tt.base)
	if ca == "" || ca != cb {
		return false
	}
	da, db := tt.before[ua][ca], tt.before[ub][cb]
	if len(da) != len(db) || len(da) == 0 {
		return false
	}
	for d := range da {
		if !db[d] {
			return false
		}
	}
	return true
}
