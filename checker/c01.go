package main

import (
	"fmt"
	"go/types"
	"sort"
	"strings"

	"golang.org/x/tools/go/ssa"
)

func init() { register("C01", "a script can never crash the embedding Go program", checkC01) }

// callsRecover: fn (or a function literal it defers) calls the builtin recover.
func callsRecover(fn *ssa.Function) bool {
	if fn == nil {
		return false
	}
	for _, b := range fn.Blocks {
		for _, in := range b.Instrs {
			if c, ok := in.(*ssa.Call); ok {
				if bi, ok := c.Call.Value.(*ssa.Builtin); ok && bi.Name() == "recover" {
					return true
				}
			}
		}
	}
	return false
}

// deferTarget returns the function a defer instruction runs.
func deferTarget(d *ssa.Defer) *ssa.Function {
	if f := d.Call.StaticCallee(); f != nil {
		return f
	}
	if mc, ok := d.Call.Value.(*ssa.MakeClosure); ok {
		if f, ok := mc.Fn.(*ssa.Function); ok {
			return f
		}
	}
	return nil
}

// debugOnlyGuard: every branch condition that controls whether block b is reached, between the function entry and b,
// is a test of the Debug option (a value loaded from a field named by the Options struct's only bool, or a copy of it).
func debugOnlyGuard(m *vmModel, fn *ssa.Function, b *ssa.BasicBlock) (bool, string) {
	for d := b; d != nil; d = d.Idom() {
		id := d.Idom()
		if id == nil {
			break
		}
		iff, ok := id.Instrs[len(id.Instrs)-1].(*ssa.If)
		if !ok {
			continue
		}
		// is d control dependent on this If? (d not post-dominating id is approximated by: id has two successors and only one reaches d without the other)
		t, f := id.Succs[0], id.Succs[1]
		tReach := t == d || t.Dominates(d)
		fReach := f == d || f.Dominates(d)
		if !tReach && !fReach {
			continue // join below the branch: not controlled by it
		}
		if !isDebugValue(m, fn, iff.Cond, 0) {
			return false, "the recover is skipped depending on `" + condString(iff.Cond) + "`"
		}
	}
	return true, ""
}

func isDebugValue(m *vmModel, fn *ssa.Function, v ssa.Value, depth int) bool {
	return debugPolarity(m, fn, v, depth) != 0
}

// debugPolarity: +1 when v is true exactly when the Debug option is set, -1 when it is true exactly when Debug is not set,
// 0 when v is not derived from the option.
func debugPolarity(m *vmModel, fn *ssa.Function, v ssa.Value, depth int) int {
	if depth > 6 {
		return 0
	}
	switch x := v.(type) {
	case *ssa.UnOp:
		if x.Op.String() == "!" {
			return -debugPolarity(m, fn, x.X, depth+1)
		}
		if fa, ok := x.X.(*ssa.FieldAddr); ok {
			if isNamed(fa.X.Type(), modPath+"/vm", "Options") && types.Identical(fieldOfAddr(fa).Type(), types.Typ[types.Bool]) {
				return 1
			}
		}
		if fv, ok := x.X.(*ssa.FreeVar); ok {
			b := bindingOf(fn, fv)
			if al, ok := b.(*ssa.Alloc); ok {
				for _, ref := range *al.Referrers() {
					if st, ok := ref.(*ssa.Store); ok && st.Addr == ssa.Value(al) {
						return debugPolarity(m, fn.Parent(), st.Val, depth+1)
					}
				}
			}
		}
		if al, ok := x.X.(*ssa.Alloc); ok {
			for _, ref := range *al.Referrers() {
				if st, ok := ref.(*ssa.Store); ok && st.Addr == ssa.Value(al) {
					return debugPolarity(m, fn, st.Val, depth+1)
				}
			}
		}
	case *ssa.FreeVar:
		if b := bindingOf(fn, x); b != nil {
			return debugPolarity(m, fn.Parent(), b, depth+1)
		}
	}
	return 0
}

// protectedCalls returns, for fn, the set of call instructions executed while a recover defer of fn is active.
func protectedCalls(m *vmModel, fn *ssa.Function) (prot map[ssa.Instruction]bool, defers []*ssa.Defer) {
	prot = map[ssa.Instruction]bool{}
	for _, b := range fn.Blocks {
		for _, in := range b.Instrs {
			if d, ok := in.(*ssa.Defer); ok && callsRecover(deferTarget(d)) {
				defers = append(defers, d)
			}
		}
	}
	for _, b := range fn.Blocks {
		for _, in := range b.Instrs {
			if _, ok := in.(ssa.CallInstruction); !ok {
				continue
			}
			for _, d := range defers {
				// active when the defer dominates the call, or when the only way to skip the defer is the Debug branch
				if instrDominates(d, in) {
					prot[in] = true
					continue
				}
				// defer in a conditional block guarded by Debug only: calls dominated by the guard's join are protected (in non-debug mode)
				db := d.Block()
				if len(db.Preds) == 1 {
					g := db.Preds[0]
					iff, ok := g.Instrs[len(g.Instrs)-1].(*ssa.If)
					pol := 0
					if ok {
						pol = debugPolarity(m, fn, iff.Cond, 0)
					}
					// the handler is installed on the side where Debug is NOT set: the other way round, ordinary runs have no handler
					if ok && ((pol < 0 && g.Succs[0] == db) || (pol > 0 && g.Succs[1] == db)) {
						if (g == in.Block() && false) || g.Dominates(in.Block()) && g != in.Block() && !reachableAvoidingBoth(g, in.Block(), db) {
							prot[in] = true
						} else if g.Dominates(in.Block()) && g != in.Block() {
							// the call is reachable both through the defer block and around it (the Debug edge): protected in non-debug mode
							other := g.Succs[0]
							if other == db {
								other = g.Succs[1]
							}
							if other == in.Block() || other.Dominates(in.Block()) || db.Succs[0] == other {
								prot[in] = true
							}
						}
					}
				}
			}
		}
	}
	return
}

func reachableAvoidingBoth(from, to, avoid *ssa.BasicBlock) bool {
	reach := reachable(from, func(b *ssa.BasicBlock) bool { return b == avoid })
	return reach[to]
}

func checkC01(p *Program, r *Report) {
	r.Explain("C01: a Go panic is contained iff every frame in which it can be raised lies below a deferred recover; decided as a coverage property of the call graph. " +
		"R1 from every exported entry point of vm, no evaluator (and no function that can run script code) is reachable through calls that are not made under an active deferred recover handler (a handler = function that calls recover() and stores into the run's error cell); the search reports the unprotected call chain. " +
		"R2 the only condition that may disable such a defer is the Debug option. " +
		"R3 every go statement of vm/env/core starts a function whose every call is made under a deferred recover, again disabled at most by Debug. " +
		"R4 no call of os.Exit / log.Fatal* / runtime.Goexit / syscall.Exit in vm, env, parser, ast, core. " +
		"R5 the recover handler always leaves a non-nil error, and code that runs outside of any recover in the entry points calls only reflect operations that cannot panic or are guarded by IsValid/CanInterface. " +
		"R6 (parse path, which has no recover by design) is decided under C15.R3 and shared here. " +
		"R9 every Unlock / RUnlock in package env is of a lock held on that path (lock typestate of C13.R2): unlocking an unheld mutex is a fatal runtime error, not a panic.")
	r.Assume("stack exhaustion, huge allocations, concurrent map writes between script goroutines and 'all goroutines are asleep' are outside the statement; reflect and the Go runtime are trusted to panic (not crash) on misuse")
	m, err := buildVMModel(p)
	if err != nil {
		r.Undecided("C01.R1", "model", "vm", err.Error())
		return
	}
	ea := buildErrAnalysis(m)
	// functions that can run script code: evaluators and everything that (transitively, statically) calls them
	runs := map[*ssa.Function]bool{m.evalExpr: true, m.evalLet: true, m.evalStmt: true, m.evalOp: true}
	for changed := true; changed; {
		changed = false
		for _, fn := range m.fns {
			if runs[fn] {
				continue
			}
			for _, b := range fn.Blocks {
				for _, in := range b.Instrs {
					if c, ok := in.(ssa.CallInstruction); ok {
						if callee := staticCallee(c); callee != nil && runs[callee] {
							runs[fn] = true
							changed = true
						}
					}
				}
			}
		}
	}
	prot := map[*ssa.Function]map[ssa.Instruction]bool{}
	allDefers := map[*ssa.Function][]*ssa.Defer{}
	for _, fn := range m.fns {
		prot[fn], allDefers[fn] = protectedCalls(m, fn)
	}
	// R2 (all handlers): every deferred recover handler of vm is installed unconditionally or on the side of a test of the
	// Debug option where the option is NOT set. A handler that is local to one operation (close, send, a reflect call) turns
	// the panic into an error at that statement, where the nearest try sees it (C09); installed on the wrong side it exists
	// only in debug runs.
	nHandlers := 0
	for _, fn := range m.fns {
		k := 0
		for _, d := range allDefers[fn] {
			k++
			nHandlers++
			db := d.Block()
			why := ""
			if db != fn.Blocks[0] && !db.Dominates(fn.Blocks[len(fn.Blocks)-1]) || len(db.Preds) == 1 {
				if len(db.Preds) == 1 {
					g := db.Preds[0]
					if iff, ok := g.Instrs[len(g.Instrs)-1].(*ssa.If); ok {
						switch pol := debugPolarity(m, fn, iff.Cond, 0); {
						case pol == 0:
							// some other condition (a case of a kind switch, an operand test): the handler is installed where the operation
							// it is there for stands; that the operation runs under it is the next clause's business
						case (pol < 0 && g.Succs[0] != db) || (pol > 0 && g.Succs[1] != db):
							why = "the handler is installed only when the Debug option is set: in ordinary runs the panic of this operation is not turned into an error here (it unwinds to the invocation's boundary, past every enclosing try)"
						}
					}
				}
			}
			r.Check(why == "", "C01.R2", fmt.Sprintf("%s|recover handler #%d installed unless Debug", funcName(fn), k), p.Pos(d.Pos()), "unconditional, or on the side of the Debug test where the option is not set", why)
		}
	}
	r.Note("recover_handlers", nHandlers)
	// ... and the operation it is there for runs under it: in a function that installs a handler, every call that runs foreign code
	// (reflect's Call / CallSlice) or can panic by contract (Close, Send, MapOf, SliceOf ...) comes after the installation
	nGuarded := 0
	for _, fn := range m.fns {
		if len(allDefers[fn]) == 0 {
			continue
		}
		k := 0
		for _, b := range fn.Blocks {
			for _, in := range b.Instrs {
				c, ok := in.(*ssa.Call)
				if !ok {
					continue
				}
				rm := reflectMethod(c)
				if rm != "Call" && rm != "CallSlice" && rm != "Close" && rm != "Send" {
					continue
				}
				k++
				nGuarded++
				r.Check(prot[fn][in], "C01.R2", fmt.Sprintf("%s|%s #%d runs under the handler installed here", funcName(fn), rm, k), p.Pos(c.Pos()), "made after the deferred recover handler of this function was installed",
					"reflect.Value."+rm+" is made before (or without) the recover handler this function installs: its panic is no longer turned into an error at this statement, it unwinds to the invocation's boundary, past every enclosing try (the catch block does not run and the command reports a failure for a script that handled its error)")
			}
		}
	}
	r.Note("calls_under_local_handlers", nGuarded)
	if esp := p.SSAPkg("env"); esp != nil {
		locksNotCopied(p, r, append(SrcFuncs(esp), m.fns...), "C01.R7")
	}
	// R9 (= the unlock half of C13.R2): unlocking a scope's mutex that is not held is not a panic but a fatal error of the
	// runtime ("sync: Unlock of unlocked RWMutex"): no recover handler sees it, the host process dies
	if em, err := buildEnvModel(p); err == nil {
		sub := NewReport("C01", r.Tier)
		sub.Secondary = true
		nPair := 0
		for _, fn := range SrcFuncs(em.sp) {
			hasLock := false
			for _, b := range fn.Blocks {
				for _, in := range b.Instrs {
					if c, ok := in.(ssa.CallInstruction); ok {
						if base, _ := em.mutexOp(c.Common()); base != nil {
							hasLock = true
						}
					}
				}
			}
			if !hasLock {
				continue
			}
			nPair++
			em.lockset(fn, sub, "C01.R9")
		}
		bad := 0
		for _, o := range sub.Obls {
			if o.Verdict != "ok" && (strings.Contains(o.Instance, "unlock-unheld") || strings.Contains(o.Instance, "runlock-unheld") || strings.Contains(o.Instance, "|join")) {
				bad++
				r.Fail("C01.R9", o.Instance, o.Site, o.By+": unlocking a mutex that is not held is a fatal error no recover handler can contain - a script reaches it through delete / assignment and kills the host")
			}
		}
		if bad == 0 {
			r.OK("C01.R9", "env|every unlock is of a held lock", "env", fmt.Sprintf("lock typestate of %d functions of package env: no Unlock / RUnlock of a lock that is not held on the path", nPair))
		}
		r.Floor("C01.R9", nPair, 10)
	}
	c01SharedMaps(p, r)
	// R1: unprotected reachability from exported roots
	nRoots := 0
	unprotectedFrames := map[*ssa.Function]bool{}
	for _, root := range m.fns {
		if root.Parent() != nil || root.Object() == nil || !root.Object().Exported() || root.Signature.Recv() != nil || !runs[root] {
			continue
		}
		nRoots++
		type item struct {
			fn   *ssa.Function
			path []string
		}
		seen := map[*ssa.Function]bool{root: true}
		work := []item{{root, []string{funcName(root)}}}
		bad := ""
		badSite := p.Pos(root.Pos())
		for len(work) > 0 && bad == "" {
			it := work[0]
			work = work[1:]
			unprotectedFrames[it.fn] = true
			for _, b := range it.fn.Blocks {
				for _, in := range b.Instrs {
					c, ok := in.(ssa.CallInstruction)
					if !ok || prot[it.fn][in] {
						continue
					}
					if _, isDefer := in.(*ssa.Defer); isDefer {
						continue
					}
					callee := staticCallee(c)
					if callee == nil || callee.Pkg != m.sp {
						continue
					}
					if callee == m.evalExpr || callee == m.evalLet || callee == m.evalStmt || callee == m.evalOp {
						bad = strings.Join(append(it.path, funcName(callee)), " -> ")
						badSite = p.Pos(in.Pos())
						break
					}
					if !seen[callee] {
						seen[callee] = true
						np := append(append([]string{}, it.path...), funcName(callee))
						work = append(work, item{callee, np})
					}
				}
			}
		}
		r.Check(bad == "", "C01.R1", funcName(root)+"|boundary-recover", badSite, "script evaluation is reachable from this entry point only through calls made under a deferred recover", "script code is evaluated with no recover between it and the host: "+bad)
	}
	r.Floor("C01.R1", nRoots, 4)

	// R2: in the frames that run outside of every recover, each call that can run host or script code is itself
	// made under a deferred recover that only Debug disables
	nDef := 0
	var fr []*ssa.Function
	for f := range unprotectedFrames {
		fr = append(fr, f)
	}
	sort.Slice(fr, func(i, j int) bool { return funcName(fr[i]) < funcName(fr[j]) })
	for _, fn := range fr {
		cnt := 0
		for _, b := range fn.Blocks {
			for _, in := range b.Instrs {
				c, ok := in.(*ssa.Call)
				if !ok {
					continue
				}
				risky := ""
				if o := calleeObj(c); o != nil && o.Pkg() != nil && o.Pkg().Path() == "reflect" && (o.Name() == "Call" || o.Name() == "CallSlice") {
					risky = "reflect." + o.Name()
				} else if callee := staticCallee(c); callee == nil {
					if _, isBuiltin := c.Call.Value.(*ssa.Builtin); !isBuiltin && !c.Call.IsInvoke() {
						risky = "call through a function value"
					}
				} else if callee.Pkg == m.sp && runs[callee] && (callee == m.evalExpr || callee == m.evalLet || callee == m.evalStmt || callee == m.evalOp) {
					risky = funcName(callee)
				}
				if risky == "" {
					continue
				}
				nDef++
				cnt++
				inst := fmt.Sprintf("%s|%s #%d", funcName(fn), risky, cnt)
				r.Check(prot[fn][in], "C01.R2", inst, p.Pos(c.Pos()), "made under a deferred recover that only the Debug option disables", risky+" outside of every recover (or the recover can be skipped by a condition other than Debug): a panic here reaches the host")
			}
		}
	}
	r.Floor("C01.R2", nDef, 3)

	// R3: goroutines
	nGo := 0
	for _, suffix := range []string{"vm", "env", "core", "parser", "ast"} {
		sp := p.SSAPkg(suffix)
		if sp == nil {
			continue
		}
		for _, fn := range SrcFuncs(sp) {
			for _, b := range fn.Blocks {
				for _, in := range b.Instrs {
					g, ok := in.(*ssa.Go)
					if !ok {
						continue
					}
					nGo++
					inst := funcName(fn) + "|go"
					site := p.Pos(g.Pos())
					var body *ssa.Function
					if mc, ok := g.Call.Value.(*ssa.MakeClosure); ok {
						body, _ = mc.Fn.(*ssa.Function)
					} else if f := g.Call.StaticCallee(); f != nil && f.Blocks != nil {
						body = f
					}
					if body == nil {
						r.Fail("C01.R3", inst, site, "a goroutine is started directly on a function without a recover: a panic in it kills the host process")
						continue
					}
					pc, defs := protectedCalls(m, body)
					bad := ""
					if len(defs) == 0 {
						bad = "the goroutine body has no deferred recover"
					}
					for _, d := range defs {
						if ok, why := debugOnlyGuard(m, body, d.Block()); !ok {
							bad = why
						}
					}
					for _, bb := range body.Blocks {
						for _, in2 := range bb.Instrs {
							if c, ok := in2.(*ssa.Call); ok && !pc[in2] {
								if _, isBuiltin := c.Call.Value.(*ssa.Builtin); !isBuiltin {
									bad = "a call in the goroutine body is made before/without the deferred recover"
								}
							}
							if _, ok := in2.(*ssa.Go); ok {
								bad = "nested goroutine without its own recover"
							}
						}
					}
					r.Check(bad == "", "C01.R3", inst, site, "the goroutine body runs every call under a deferred recover (disabled only by Debug)", bad+": a panic in it kills the host process")
				}
			}
		}
	}
	r.Floor("C01.R3", nGo, 1)

	// R4: process exits
	nPkgs := 0
	for _, suffix := range []string{"vm", "env", "parser", "ast", "core", "ast/astutil"} {
		sp := p.SSAPkg(suffix)
		if sp == nil {
			continue
		}
		nPkgs++
		bad := false
		for _, fn := range SrcFuncs(sp) {
			for _, b := range fn.Blocks {
				for _, in := range b.Instrs {
					if c, ok := in.(ssa.CallInstruction); ok {
						if o := calleeObj(c); o != nil && isProcessExit(o) {
							bad = true
							r.Fail("C01.R4", suffix+"|"+funcName(fn)+"|"+o.Name(), p.Pos(c.Pos()), "calls "+o.FullName()+": a script can end the host process")
						}
					}
				}
			}
		}
		if !bad {
			r.OK("C01.R4", suffix+"|no-exit", suffix, "no os.Exit / log.Fatal / runtime.Goexit / syscall.Exit")
		}
	}
	// positive control: the CLI does call os.Exit
	ctrl := false
	if sp := p.SSAPkg(""); sp != nil {
		for _, fn := range SrcFuncs(sp) {
			for _, b := range fn.Blocks {
				for _, in := range b.Instrs {
					if c, ok := in.(ssa.CallInstruction); ok {
						if o := calleeObj(c); o != nil && isProcessExit(o) {
							ctrl = true
						}
					}
				}
			}
		}
	}
	r.Check(ctrl, "C01.R4", "positive-control|anko.go", "anko.go", "matcher recognises the CLI's os.Exit", "process-exit matcher no longer matches anything")

	// R5a: the recover handlers leave a non-nil error
	for _, fn := range m.funcsOnRecord() {
		if !callsRecover(fn) {
			continue
		}
		base := m.baseOf(fn)
		// paths on which recover() returned non-nil: after the `== nil → return` test
		var rec *ssa.Call
		for _, b := range fn.Blocks {
			for _, in := range b.Instrs {
				if c, ok := in.(*ssa.Call); ok {
					if bi, ok := c.Call.Value.(*ssa.Builtin); ok && bi.Name() == "recover" {
						rec = c
					}
				}
			}
		}
		bad := ""
		for _, b := range fn.Blocks {
			ret, ok := b.Instrs[len(b.Instrs)-1].(*ssa.Return)
			if !ok {
				continue
			}
			// is this the early return for "nothing recovered"?
			early := false
			if len(b.Preds) == 1 {
				if iff, ok := b.Preds[0].Instrs[len(b.Preds[0].Instrs)-1].(*ssa.If); ok {
					if bo, ok := iff.Cond.(*ssa.BinOp); ok && bo.X == ssa.Value(rec) && isNilConst(bo.Y) && bo.Op.String() == "==" && b.Preds[0].Succs[0] == b {
						early = true
					}
				}
			}
			if early {
				continue
			}
			if rec != nil && !(rec.Block() == b || rec.Block().Dominates(b)) {
				continue // a return taken before recover() is called (the Debug option leaves the panic alone): nothing was recovered
			}
			// on all other returns an error must have been stored on every path since the recover
			stored := false
			for _, pb := range fn.Blocks {
				for _, in := range pb.Instrs {
					if st, ok := in.(*ssa.Store); ok && m.cellAddr(st.Addr, base) == "err" && !isNilConst(st.Val) {
						if pb == b || pb.Dominates(b) || allPredsStore(m, b, base) {
							stored = true
						}
					}
				}
			}
			if !stored {
				bad = "a recovered panic can leave the error cell nil at " + p.Pos(instrPos(ret))
			}
		}
		for _, b := range fn.Blocks {
			for _, in := range b.Instrs {
				if ta, ok := in.(*ssa.TypeAssert); ok && !ta.CommaOk {
					bad = "the recover handler contains an unchecked type assertion (it can panic itself)"
				}
				if _, ok := in.(*ssa.Panic); ok {
					bad = "the recover handler re-panics"
				}
			}
		}
		r.Check(bad == "", "C01.R5", funcName(fn)+"|handler-total", p.Pos(fn.Pos()), "a recovered panic always becomes a non-nil error and the handler cannot panic", bad)
	}
	// R5b: reflect operations executed outside every recover (the frames found by R1's search)
	var frames []*ssa.Function
	for f := range unprotectedFrames {
		frames = append(frames, f)
	}
	sort.Slice(frames, func(i, j int) bool { return funcName(frames[i]) < funcName(frames[j]) })
	safe := map[string]bool{"IsValid": true, "CanInterface": true, "Kind": true, "IsNil": false, "String": true, "CanSet": true, "CanAddr": true}
	nOut := 0
	for _, fn := range frames {
		for _, b := range fn.Blocks {
			for _, in := range b.Instrs {
				c, ok := in.(*ssa.Call)
				if !ok || prot[fn][in] {
					continue
				}
				o := calleeObj(c)
				if o == nil || o.Pkg() == nil || o.Pkg().Path() != "reflect" || o.Type().(*types.Signature).Recv() == nil {
					continue
				}
				nOut++
				inst := funcName(fn) + "|unprotected reflect." + o.Name()
				if safe[o.Name()] {
					r.OK("C01.R5", inst, p.Pos(c.Pos()), "cannot panic")
					continue
				}
				okG := guardedByCallOn(b, "IsValid", c.Call.Args[0]) && (o.Name() != "Interface" || guardedByCallOn(b, "CanInterface", c.Call.Args[0]))
				r.Check(okG, "C01.R5", inst, p.Pos(c.Pos()), "guarded by IsValid/CanInterface on the same value", "reflect.Value."+o.Name()+" runs outside of every recover and is not guarded: an invalid value panics into the host")
			}
		}
	}
	r.Note("frames_outside_recover", func() []string {
		var out []string
		for _, f := range frames {
			out = append(out, funcName(f))
		}
		return out
	}())
	_ = ea
	c01ParsePath(p, r, "C01.R6")
}

// allPredsStore: every predecessor chain into b passes a store of a non-nil value into the err cell (type-switch arms).
func allPredsStore(m *vmModel, b *ssa.BasicBlock, base ssa.Value) bool {
	if len(b.Preds) == 0 {
		return false
	}
	for _, pr := range b.Preds {
		ok := false
		for _, in := range pr.Instrs {
			if st, isSt := in.(*ssa.Store); isSt && m.cellAddr(st.Addr, base) == "err" && !isNilConst(st.Val) {
				ok = true
			}
		}
		if !ok {
			return false
		}
	}
	return true
}

// guardedByCallOn: b is dominated by the true edge of an If whose condition is (a conjunct) a call of method on the same cell/value.
func guardedByCallOn(b *ssa.BasicBlock, method string, recv ssa.Value) bool {
	for d := b; d != nil; d = d.Idom() {
		id := d.Idom()
		if id == nil {
			return false
		}
		iff, ok := id.Instrs[len(id.Instrs)-1].(*ssa.If)
		if !ok {
			continue
		}
		c, ok := iff.Cond.(*ssa.Call)
		if !ok {
			continue
		}
		o := calleeObj(c)
		if o == nil || o.Name() != method || len(c.Call.Args) == 0 || !sameLoad(c.Call.Args[0], recv) {
			continue
		}
		if edgeOnly(id, 0, d) {
			return true
		}
	}
	return false
}

// c01SharedMaps (R8): a fault the runtime does not let anybody recover from. A map kept in a package-level variable of the
// interpreter, the environment, the parser or the builtins and written (updated, deleted from) after initialisation is written
// by every run, script goroutine and host goroutine that gets there: two of them at once end the process with "fatal error:
// concurrent map writes", which no recover handler sees. Accepted: writes during package initialisation, and writes made while
// a package-level mutex locked earlier in the same function is held.
func c01SharedMaps(p *Program, r *Report) {
	r.Explain("R8 no map kept in a package-level variable of vm, env, parser, ast or core is updated after initialisation except under a package-level mutex locked in the same function (concurrent map writes are a fatal, unrecoverable fault).")
	isInit := initOracle(p)
	globalMap := func(v ssa.Value) *ssa.Global {
		for i := 0; i < 20; i++ {
			switch x := v.(type) {
			case *ssa.Global:
				return x
			case *ssa.UnOp:
				v = x.X
			case *ssa.FieldAddr:
				v = x.X
			case *ssa.Phi:
				return nil
			default:
				return nil
			}
		}
		return nil
	}
	n, bad := 0, 0
	for _, sfx := range []string{"vm", "env", "parser", "ast", "core", "ast/astutil", "packages"} {
		sp := p.SSAPkg(sfx)
		if sp == nil {
			continue
		}
		for _, fn := range SrcFuncs(sp) {
			k := 0
			for _, b := range fn.Blocks {
				for _, in := range b.Instrs {
					var g *ssa.Global
					what := ""
					switch x := in.(type) {
					case *ssa.MapUpdate:
						g, what = globalMap(x.Map), "update"
					case *ssa.Call:
						if bi, ok := x.Call.Value.(*ssa.Builtin); ok && (bi.Name() == "delete" || bi.Name() == "clear") && len(x.Call.Args) > 0 {
							if _, isMap := x.Call.Args[0].Type().Underlying().(*types.Map); isMap {
								g, what = globalMap(x.Call.Args[0]), bi.Name()
							}
						}
					}
					if g == nil {
						continue
					}
					n++
					if isInit(fn) {
						continue
					}
					// a package-level mutex locked before, in this function
					locked := false
					for _, b2 := range fn.Blocks {
						for _, in2 := range b2.Instrs {
							c, ok := in2.(*ssa.Call)
							if !ok || !instrDominates(c, in) {
								continue
							}
							if o := calleeObj(c); o != nil && o.Pkg() != nil && o.Pkg().Path() == "sync" && o.Name() == "Lock" && len(c.Call.Args) > 0 {
								if globalMap(c.Call.Args[0]) != nil {
									locked = true
								}
							}
						}
					}
					if locked {
						continue
					}
					k++
					bad++
					r.Fail("C01.R8", fmt.Sprintf("%s|%s of map %s.%s #%d", funcName(fn), what, g.Pkg.Pkg.Name(), g.Name(), k), p.Pos(instrPos(in)),
						"a package-level map is written after initialisation without a lock: two runs, script goroutines or host goroutines that get here together end the process with a fatal 'concurrent map writes', which no recover handler can turn into an error")
				}
			}
		}
	}
	if bad == 0 {
		r.OK("C01.R8", "package-level maps|written during initialisation only", "vm env parser ast core packages", fmt.Sprintf("%d map writes examined", n))
	}
	r.Floor("C01.R8", n, 5)
}
