package main

import (
	"fmt"
	"go/token"
	"go/types"
	"sort"
	"strings"

	"golang.org/x/tools/go/ssa"
)

func init() {
	register("C12", "the environment API behaves as a chain of dictionaries", func(p *Program, r *Report) { checkC12(p, r); c12Extra(p, r) })
}

func checkC12(p *Program, r *Report) {
	r.Explain("C12: structural skeleton of the dictionary-chain refinement, decided on the SSA of package env (closed world: unexported fields). " +
		"R1 every write to a scope's tables is define-style (dominated by the false edge of the dot test on the very key written), set-style (dominated by the true edge of a comma-ok lookup of the same key in the same table), a delete on the table, or lazy creation (store of a fresh empty map under a nil test of the same field); anything else is reported. " +
		"R2 no table write lies on a path to a return with a non-nil error. " +
		"R3 the scope written is the receiver itself; other scopes are reached only by self-recursion on the parent (set / delete-nearest) or through the root-seeking loop (global variants). " +
		"R4 lookup order: own table, then external lookup, then parent; built-in types only at the root and last. " +
		"R5 Copy builds fresh maps filled from the receiver's; the parent link is stored only into objects allocated in the same function or returned by Copy. " +
		"R6 no exported method can panic: every may-panic instruction (nil dereference incl. the comma-ok clobber, index, unchecked type assertion, explicit panic) is discharged by a dominating guard.")
	r.Explain("R4 is evaluated on scope cursors (the receiver, or the variable of a loop walking up the chain): every step to the parent - recursive call or cursor advance - is reached only after that scope's external lookup was asked or seen to be absent.")
	r.Assume("functional equivalence with a dictionary-chain model over all histories is not decided; receivers are non-nil; reflect.Values handed in by the host are valid")
	r.Exhaustive = true
	m, err := buildEnvModel(p)
	if err != nil {
		r.Undecided("C12.R1", "model", "env", err.Error())
		return
	}
	fns := SrcFuncs(m.sp)
	writers := map[*ssa.Function]bool{}
	nWrites := 0
	for _, fn := range fns {
		fname := funcName(fn)
		accs := m.accessesOf(fn)
		var recv ssa.Value
		if len(fn.Params) > 0 && m.isEnvPtr(fn.Params[0].Type()) {
			recv = fn.Params[0]
		}
		cnt := map[string]int{}
		var writes []tableAccess
		for _, a := range accs {
			if !a.write || isFresh(a.base) {
				continue
			}
			writes = append(writes, a)
		}
		if len(writes) > 0 {
			writers[fn] = true
		}
		for _, a := range writes {
			nWrites++
			tname := m.tables[a.field]
			key := fmt.Sprintf("%s|%s %s", fname, a.what, tname)
			cnt[key]++
			inst := key
			if cnt[key] > 1 {
				inst = fmt.Sprintf("%s #%d", key, cnt[key])
			}
			site := p.Pos(instrPos(a.in))
			// R3: base is the receiver
			okBase := recv != nil && a.base == recv
			byR3 := "writes the receiver's own table"
			if !okBase && recv != nil && m.scopeCursors(fn, recv)[a.base] && m.cursorActsOnHit(a.in.Block(), a.base) {
				// the iterative form of a search that recursed on the parent: the scope the loop has arrived at is written only
				// where that scope holds the binding (or is the root); which scope a mutator may reach is R7's business
				okBase, byR3 = true, "writes the table of the scope the chain walk has arrived at, under that scope's own hit (or at the root)"
			}
			r.Check(okBase, "C12.R3", inst, site, byR3, "writes the table of a scope other than the receiver")
			switch x := a.in.(type) {
			case *ssa.MapUpdate:
				switch {
				case dominatedByDotReject(x):
					r.OK("C12.R1", inst, site, "define-style: reached only when strings.Contains(key, \".\") is false")
				case dominatedBySameKeyLookup(x, a.base, a.field):
					r.OK("C12.R1", inst, site, "set-style: reached only when the same key is already bound in the same table")
				default:
					r.Fail("C12.R1", inst, site, "table write that neither rejects dotted names nor requires an existing binding of the key")
				}
			case *ssa.Store:
				mk, isMake := x.Val.(*ssa.MakeMap)
				okLazy := isMake && mk != nil && dominatedByNilTest(x, a.base, a.field)
				r.Check(okLazy, "C12.R1", inst, site, "lazy creation: a fresh empty map stored only when the field is nil", "table field overwritten (not a fresh map under a nil test): existing bindings of the scope are lost or shared")
			case *ssa.Call:
				if a.what == "delete" {
					r.OK("C12.R1", inst, site, "delete on the receiver's table")
				} else {
					r.Fail("C12.R1", inst, site, "unexpected "+a.what)
				}
			default:
				r.Fail("C12.R1", inst, site, "unexpected "+a.what)
			}
			// R2: no error return reachable after the write
			for _, b := range fn.Blocks {
				ret, ok := b.Instrs[len(b.Instrs)-1].(*ssa.Return)
				if !ok {
					continue
				}
				errIdx := -1
				for i := 0; i < fn.Signature.Results().Len(); i++ {
					if types.Identical(fn.Signature.Results().At(i).Type(), types.Universe.Lookup("error").Type()) {
						errIdx = i
					}
				}
				if errIdx < 0 || isNilConst(ret.Results[errIdx]) || b == fn.Recover {
					continue
				}
				reach := reachable(a.in.Block(), nil)
				after := func(in ssa.Instruction) bool {
					return reach[in.Block()] && (a.in.Block() != in.Block() || instrIndex(a.in) < instrIndex(in))
				}
				failing := after(ret)
				// a function with deferred calls returns through a result variable: what matters is where a non-nil error is stored into it
				if u, ok := ret.Results[errIdx].(*ssa.UnOp); ok {
					if al, ok := u.X.(*ssa.Alloc); ok {
						failing = false
						for _, ref := range *al.Referrers() {
							if st, ok := ref.(*ssa.Store); ok && st.Addr == ssa.Value(al) && !isNilConst(st.Val) && after(st) {
								failing = true
							}
						}
					}
				}
				if failing {
					r.Fail("C12.R2", inst+"|then-error", p.Pos(instrPos(ret)), "an error return is reachable after the table was already written: an invalid request changes the scope")
				}
			}
		}
		if len(writes) > 0 {
			r.OK("C12.R2", fname+"|errors-before-writes", p.Pos(fn.Pos()), "no non-nil error return reachable from a table write")
		}
	}
	r.Floor("C12.R1", nWrites, 6)

	// R3 (call graph): mutators reach other scopes only by self-recursion on parent or via the root loop
	mutator := map[*ssa.Function]bool{}
	for f := range writers {
		mutator[f] = true
	}
	for changed := true; changed; {
		changed = false
		for _, fn := range fns {
			if mutator[fn] {
				continue
			}
			for _, b := range fn.Blocks {
				for _, in := range b.Instrs {
					if c, ok := in.(ssa.CallInstruction); ok {
						if callee := staticCallee(c); callee != nil && mutator[callee] {
							mutator[fn] = true
							changed = true
						}
					}
				}
			}
		}
	}
	nCalls := 0
	for _, fn := range fns {
		if len(fn.Params) == 0 || !m.isEnvPtr(fn.Params[0].Type()) {
			continue
		}
		recv := fn.Params[0]
		fname := funcName(fn)
		for _, b := range fn.Blocks {
			for _, in := range b.Instrs {
				c, ok := in.(*ssa.Call)
				if !ok {
					continue
				}
				callee := staticCallee(c)
				if callee == nil || !mutator[callee] || len(c.Call.Args) == 0 || !m.isEnvPtr(c.Call.Args[0].Type()) {
					continue
				}
				nCalls++
				a0 := c.Call.Args[0]
				inst := fname + "|calls " + funcName(callee)
				site := p.Pos(c.Pos())
				switch {
				case a0 == ssa.Value(recv):
					r.OK("C12.R3", inst, site, "mutator applied to the receiver itself")
				case isFresh(a0):
					r.OK("C12.R3", inst, site, "mutator applied to a scope allocated here")
				case m.isParentLoad(a0, recv) && callee == fn:
					r.OK("C12.R3", inst, site, "self-recursion on the parent (nearest-binding search)")
				case m.isRootOf(a0, recv):
					r.OK("C12.R3", inst, site, "applied to the root reached by following parent until nil")
				case m.isFreshResult(a0):
					r.OK("C12.R3", inst, site, "applied to a freshly created scope")
				default:
					r.Fail("C12.R3", inst, site, "mutating another scope than the one addressed")
				}
			}
		}
	}
	r.Floor("C12.R3", nCalls, 8)

	c12Contract(p, r, m, fns, mutator)
	c12Order(p, r, m, fns)
	c12Copy(p, r, m, fns)
	c12Setters(p, r, m, fns)
	c12NoPanic(p, r, m, fns)
	// R11: every operation comes back and leaves the scope usable: the scope's lock is released on every path of every function
	// that takes it (the typestate analysis of C13.R2, read for what this property says: an operation that returns holding the
	// lock makes the next define/set on that scope, or on any scope below it, wait for ever)
	r.Explain("R11 every function of package env that takes a scope's lock releases it on every path to a return (an operation that keeps it makes every later write to the scope, and every chain walk through it, hang).")
	nLock := 0
	for _, fn := range fns {
		has := false
		for _, b := range fn.Blocks {
			for _, in := range b.Instrs {
				if c, ok := in.(ssa.CallInstruction); ok {
					if base, _ := m.mutexOp(c.Common()); base != nil {
						has = true
					}
				}
			}
		}
		if !has {
			continue
		}
		nLock++
		m.lockset(fn, r, "C12.R11")
		r.OK("C12.R11", funcName(fn)+"|lock released on every path", p.Pos(fn.Pos()), "lock/unlock typestate computed on all paths")
	}
	r.Floor("C12.R11", nLock, 12)
}

// dominatedByDotReject: the update m[k]=v executes only after strings.Contains(k, ".") returned false.
func dominatedByDotReject(mu *ssa.MapUpdate) bool {
	for d := mu.Block(); d != nil; d = d.Idom() {
		idom := d.Idom()
		if idom == nil {
			break
		}
		iff, ok := idom.Instrs[len(idom.Instrs)-1].(*ssa.If)
		if !ok {
			continue
		}
		c, ok := iff.Cond.(*ssa.Call)
		if !ok {
			continue
		}
		o := calleeObj(c)
		if o == nil || !isFuncNamed(o, "strings", "", "Contains") || len(c.Call.Args) != 2 {
			continue
		}
		dot, ok := c.Call.Args[1].(*ssa.Const)
		if !ok || dot.Value == nil || dot.Value.ExactString() != "\".\"" {
			continue
		}
		if c.Call.Args[0] != mu.Key {
			continue
		}
		// mu must be on the false side: false successor dominates mu's block
		f := idom.Succs[1]
		if f == mu.Block() || f.Dominates(mu.Block()) {
			return true
		}
	}
	return allKeysCheckedBefore(mu)
}

// allKeysCheckedBefore: the key written is a key of a map the function ranges over, and an earlier loop over the very same
// map returns (an error) for any key that contains a dot: `for k := range m { if strings.Contains(k, ".") { return err } }`
// followed by `for k, v := range m { table[k] = v }`.
func allKeysCheckedBefore(mu *ssa.MapUpdate) bool {
	keyOf := func(v ssa.Value) *ssa.Range { // v is the key of a range step
		ex, ok := v.(*ssa.Extract)
		if !ok || ex.Index != 1 {
			return nil
		}
		nx, ok := ex.Tuple.(*ssa.Next)
		if !ok {
			return nil
		}
		rg, _ := nx.Iter.(*ssa.Range)
		return rg
	}
	rg := keyOf(mu.Key)
	if rg == nil {
		return false
	}
	fn := mu.Parent()
	for _, b := range fn.Blocks {
		for _, in := range b.Instrs {
			c, ok := in.(*ssa.Call)
			if !ok || len(c.Call.Args) != 2 {
				continue
			}
			if o := calleeObj(c); o == nil || !isFuncNamed(o, "strings", "", "Contains") {
				continue
			}
			dot, ok := c.Call.Args[1].(*ssa.Const)
			if !ok || dot.Value == nil || dot.Value.ExactString() != "\".\"" {
				continue
			}
			rg2 := keyOf(c.Call.Args[0])
			if rg2 == nil || rg2 == rg || rg2.X != rg.X || !instrDominates(rg2, rg) {
				continue
			}
			// the true edge of the test returns
			for _, ref := range *c.Referrers() {
				iff, ok := ref.(*ssa.If)
				if !ok {
					continue
				}
				t := iff.Block().Succs[0]
				if _, isRet := t.Instrs[len(t.Instrs)-1].(*ssa.Return); isRet && len(t.Preds) == 1 {
					// and the second loop starts only after the first has run to its end (the first loop's exit dominates it): given by
					// rg2 dominating rg and the only other way out of the first loop being this return
					return true
				}
			}
		}
	}
	return false
}

func dominatedBySameKeyLookup(mu *ssa.MapUpdate, base ssa.Value, field int) bool {
	for d := mu.Block(); d != nil; d = d.Idom() {
		for _, pr := range d.Preds {
			iff, ok := pr.Instrs[len(pr.Instrs)-1].(*ssa.If)
			if !ok || pr.Succs[0] != d || len(d.Preds) != 1 {
				continue
			}
			ex, ok := iff.Cond.(*ssa.Extract)
			if !ok || ex.Index != 1 {
				continue
			}
			lk, ok := ex.Tuple.(*ssa.Lookup)
			if !ok || lk.Index != mu.Key {
				continue
			}
			if x, f, ok := fieldLoad(lk.X); ok && x == base && f == field {
				return true
			}
		}
	}
	return false
}

func dominatedByNilTest(st *ssa.Store, base ssa.Value, field int) bool {
	b := st.Block()
	for _, pr := range b.Preds {
		iff, ok := pr.Instrs[len(pr.Instrs)-1].(*ssa.If)
		if !ok || pr.Succs[0] != b || len(b.Preds) != 1 {
			continue
		}
		bo, ok := iff.Cond.(*ssa.BinOp)
		if !ok || bo.Op != token.EQL {
			continue
		}
		v := bo.X
		if isNilConst(v) {
			v = bo.Y
		} else if !isNilConst(bo.Y) {
			continue
		}
		if x, f, ok := fieldLoad(v); ok && x == base && f == field {
			return true
		}
	}
	return false
}

// isParentLoad: v == *(&recv.parent)
func (m *envModel) isParentLoad(v, recv ssa.Value) bool {
	x, f, ok := fieldLoad(v)
	return ok && x == recv && f == m.parentI
}

// isRootOf: v is the loop variable of `for e.parent != nil { e = e.parent }` started at recv, observed after the loop.
func (m *envModel) isRootOf(v, recv ssa.Value) bool {
	phi, ok := v.(*ssa.Phi)
	if !ok || len(phi.Edges) != 2 {
		return false
	}
	hasRecv, hasStep := false, false
	for _, e := range phi.Edges {
		if e == recv {
			hasRecv = true
		} else if x, f, ok := fieldLoad(e); ok && x == ssa.Value(phi) && f == m.parentI {
			hasStep = true
		}
	}
	if !hasRecv || !hasStep {
		return false
	}
	// loop condition: phi.parent != nil, and uses of phi outside the loop are on the == nil side
	blk := phi.Block()
	iff, ok := blk.Instrs[len(blk.Instrs)-1].(*ssa.If)
	if !ok {
		return false
	}
	bo, ok := iff.Cond.(*ssa.BinOp)
	if !ok || bo.Op != token.NEQ || !isNilConst(bo.Y) {
		return false
	}
	x, f, ok := fieldLoad(bo.X)
	return ok && x == ssa.Value(phi) && f == m.parentI
}

func (m *envModel) isFreshResult(v ssa.Value) bool {
	c, ok := v.(*ssa.Call)
	if !ok {
		return false
	}
	callee := staticCallee(c)
	if callee == nil || callee.Pkg != m.sp {
		return false
	}
	// callee returns only fresh allocations (or results of such callees)
	return m.returnsFresh(callee, map[*ssa.Function]bool{})
}

func (m *envModel) returnsFresh(fn *ssa.Function, seen map[*ssa.Function]bool) bool {
	if seen[fn] {
		return true
	}
	seen[fn] = true
	found := false
	for _, b := range fn.Blocks {
		ret, ok := b.Instrs[len(b.Instrs)-1].(*ssa.Return)
		if !ok || len(ret.Results) == 0 {
			continue
		}
		v := ret.Results[0]
		found = true
		if !m.freshValue(v, fn, seen, map[ssa.Value]bool{}) {
			return false
		}
	}
	return found
}

func (m *envModel) freshValue(v ssa.Value, fn *ssa.Function, seen map[*ssa.Function]bool, vs map[ssa.Value]bool) bool {
	if vs[v] {
		return true
	}
	vs[v] = true
	switch x := v.(type) {
	case *ssa.Alloc:
		return true
	case *ssa.Call:
		callee := staticCallee(x)
		return callee != nil && callee.Pkg == m.sp && m.returnsFresh(callee, seen)
	case *ssa.Phi:
		for _, e := range x.Edges {
			if !m.freshValue(e, fn, seen, vs) {
				return false
			}
		}
		return true
	}
	return false
}

// c12Order checks R4 on the lookup functions.
func c12Order(p *Program, r *Report, m *envModel, fns []*ssa.Function) {
	n := 0
	for _, fn := range fns {
		if len(fn.Params) == 0 || !m.isEnvPtr(fn.Params[0].Type()) {
			continue
		}
		recv := fn.Params[0]
		fname := funcName(fn)
		// the scope being searched: the receiver, or the variable of a loop that walks up the chain
		cur := m.scopeCursors(fn, recv)
		curOf := map[ssa.Instruction]ssa.Value{}
		var own []*ssa.Lookup
		var ext []*ssa.Call
		var parentCalls []ssa.Instruction // steps to the parent: recursive calls on c.parent, and the jump that carries c = c.parent round a loop
		var basic []*ssa.Lookup
		for _, b := range fn.Blocks {
			for _, in := range b.Instrs {
				switch x := in.(type) {
				case *ssa.Lookup:
					if bx, f, ok := fieldLoad(x.X); ok && cur[bx] {
						_, keyIsParam := x.Index.(*ssa.Parameter)
						if _, isT := m.tables[f]; isT && (bx == ssa.Value(recv) || keyIsParam) { // a loop looking up something else than the name asked for is another search (path resolution, R9)
							own = append(own, x)
							curOf[x] = bx
						}
					} else if u, ok := x.X.(*ssa.UnOp); ok {
						if g, ok := u.X.(*ssa.Global); ok && g.Pkg == m.sp {
							basic = append(basic, x)
						}
					}
				case *ssa.Call:
					if x.Call.IsInvoke() {
						if bx, f, ok := fieldLoad(x.Call.Value); ok && cur[bx] && f == m.extI {
							ext = append(ext, x)
							curOf[x] = bx
						}
					} else if callee := staticCallee(x); callee == fn && len(x.Call.Args) > 0 {
						if bx, f, ok := fieldLoad(x.Call.Args[0]); ok && cur[bx] && f == m.parentI {
							parentCalls = append(parentCalls, x)
							curOf[x] = bx
						}
					}
				case *ssa.Phi:
					if !cur[x] {
						continue
					}
					for k, e := range x.Edges {
						if bx, f, ok := fieldLoad(e); ok && cur[bx] && f == m.parentI {
							pr := b.Preds[k]
							jump := pr.Instrs[len(pr.Instrs)-1]
							parentCalls = append(parentCalls, jump)
							curOf[jump] = bx
						}
					}
				}
			}
		}
		m.advancePastExternal(p, r, fn, recv)
		if len(own) == 0 || len(parentCalls) == 0 {
			continue
		}
		n++
		site := p.Pos(fn.Pos())
		// own lookup dominates everything else
		first := own[0]
		okOwn := true
		for _, e := range ext {
			if !instrDominates(first, e) {
				okOwn = false
			}
		}
		for _, pc := range parentCalls {
			if !instrDominates(first, pc) {
				okOwn = false
			}
		}
		for _, bl := range basic {
			if !instrDominates(first, bl) {
				okOwn = false
			}
		}
		r.Check(okOwn, "C12.R4", fname+"|own-first", site, "the receiver's own table is consulted before external lookup, parent and built-ins", "another source is consulted before the scope's own table: the nearest binding can be shadowed")
		// external lookup before parent / basic: not reachable from the `externalLookup != nil` true edge without passing the invoke
		for _, e := range ext {
			// find the guarding If: block whose true successor dominates e's block
			ok2 := true
			for _, tgt := range append(append([]ssa.Instruction{}, parentCalls...), instrsOfL(basic)...) {
				if reachesAvoiding(e.Block().Idom(), tgt.Block(), e.Block()) && e.Block().Idom() != nil {
					// the path through the false edge (externalLookup == nil) is legitimate: require that
					// the only way around e is the nil edge of the guard
					if !guardIsNilTestOf(e.Block(), curOf[e], m.extI) {
						ok2 = false
					}
				}
			}
			r.Check(ok2, "C12.R4", fname+"|external-before-parent", p.Pos(e.Pos()), "external lookup is consulted before the parent whenever one is set", "the parent (or the built-in types) can be consulted although an external lookup is set and was not asked")
		}
		// built-ins are last: the external lookup must not be reachable after them
		for _, bl := range basic {
			reach := reachable(bl.Block(), nil)
			late := true
			for _, e := range ext {
				if reach[e.Block()] {
					late = false
				}
			}
			for _, pc := range parentCalls {
				if reach[pc.Block()] {
					late = false
				}
			}
			r.Check(late, "C12.R4", fname+"|builtins-last", p.Pos(bl.Pos()), "built-in type names are consulted after the external lookup", "built-in type names are consulted before the external lookup / the parent: they shadow what those would supply")
		}
		// parent call only when parent != nil; built-ins only when parent == nil
		for _, pc := range parentCalls {
			okGuard := m.guardedByParentTest(pc.Block(), curOf[pc], false)
			by := "parent consulted only when it exists"
			if _, isJump := pc.(*ssa.Jump); isJump && !okGuard {
				// `for c := e; c != nil; c = c.parent`: the step is unguarded, the loop head tests what it produced before any use
				for c := range cur {
					ph, isPhi := c.(*ssa.Phi)
					if !isPhi || len(pc.Block().Succs) != 1 || ph.Block() != pc.Block().Succs[0] {
						continue
					}
					if iff, ok := ph.Block().Instrs[len(ph.Block().Instrs)-1].(*ssa.If); ok {
						if bo, ok := iff.Cond.(*ssa.BinOp); ok && bo.X == ssa.Value(ph) && isNilConst(bo.Y) {
							okGuard, by = true, "the loop head tests the new scope for nil before it is used"
						}
					}
				}
			}
			r.Check(okGuard, "C12.R4", fname+"|parent-guard", p.Pos(instrPos(pc)), by, "parent consulted without a parent != nil test")
		}
		for _, bl := range basic {
			atRoot := false
			for c := range cur {
				if m.guardedByParentTest(bl.Block(), c, true) {
					atRoot = true
				}
			}
			r.Check(atRoot, "C12.R4", fname+"|builtins-at-root", p.Pos(bl.Pos()), "built-in types consulted only at the root scope, after everything else", "built-in type names are consulted in a non-root scope: they shadow definitions of enclosing scopes")
		}
		// found in own table → returned at once (true edge of ok returns the looked-up value)
		for _, lk := range own {
			if !lk.CommaOk {
				continue
			}
			okRet := false
			for _, ref := range *lk.Referrers() {
				if ex, ok := ref.(*ssa.Extract); ok && ex.Index == 1 {
					for _, r2 := range *ex.Referrers() {
						if iff, ok := r2.(*ssa.If); ok {
							t := iff.Block().Succs[0]
							reach := reachable(t, nil)
							okRet = true
							for _, other := range append(append(instrsOf(ext), parentCalls...), instrsOfL(basic)...) {
								if reach[other.Block()] {
									okRet = false
								}
							}
						}
					}
				}
			}
			r.Check(okRet, "C12.R4", fname+"|found-returns", p.Pos(lk.Pos()), "a binding found in the own table ends the search", "search continues although the own table has the binding")
		}
	}
	r.Floor("C12.R4", n, 5)
}

// scopeCursors: the receiver and every phi that is the receiver or the parent of a cursor on each edge (the variable of a
// loop that walks up the chain).
func (m *envModel) scopeCursors(fn *ssa.Function, recv ssa.Value) map[ssa.Value]bool {
	set := map[ssa.Value]bool{recv: true}
	for changed := true; changed; {
		changed = false
		for _, b := range fn.Blocks {
			for _, in := range b.Instrs {
				ph, ok := in.(*ssa.Phi)
				if !ok || set[ph] || !m.isEnvPtr(ph.Type()) {
					continue
				}
				all := true
				for _, e := range ph.Edges {
					if set[e] || e == ssa.Value(ph) {
						continue
					}
					if x, f, ok := fieldLoad(e); ok && f == m.parentI && (set[x] || x == ssa.Value(ph)) {
						continue
					}
					all = false
				}
				if all {
					set[ph] = true
					changed = true
				}
			}
		}
	}
	return set
}

// advancePastExternal (R4): in a function that asks a scope's external lookup, every step from a scope to its parent
// (a recursive call on the parent, or the cursor of a chain-walking loop moving up) is reached only after that scope's
// external lookup was asked or seen to be absent.
func (m *envModel) advancePastExternal(p *Program, r *Report, fn *ssa.Function, recv ssa.Value) {
	cur := m.scopeCursors(fn, recv)
	extOf := func(in ssa.Instruction) ssa.Value { // the cursor whose external lookup this instruction invokes
		c, ok := in.(*ssa.Call)
		if !ok || !c.Call.IsInvoke() {
			return nil
		}
		if x, f, ok := fieldLoad(c.Call.Value); ok && f == m.extI && cur[x] {
			return x
		}
		return nil
	}
	has := false
	for _, b := range fn.Blocks {
		for _, in := range b.Instrs {
			if extOf(in) != nil {
				has = true
			}
		}
	}
	if !has {
		return
	}
	type adv struct {
		c   ssa.Value
		b   *ssa.BasicBlock
		idx int
		pos token.Pos
	}
	var advs []adv
	for _, b := range fn.Blocks {
		for i, in := range b.Instrs {
			switch x := in.(type) {
			case *ssa.Call:
				if x.Call.IsInvoke() || len(x.Call.Args) == 0 {
					continue
				}
				if c, f, ok := fieldLoad(x.Call.Args[0]); ok && f == m.parentI && cur[c] {
					advs = append(advs, adv{c, b, i, x.Pos()})
				}
			case *ssa.Phi:
				if !cur[x] {
					continue
				}
				for k, e := range x.Edges {
					if c, f, ok := fieldLoad(e); ok && f == m.parentI && cur[c] {
						pr := b.Preds[k]
						pos := e.Pos()
						if !pos.IsValid() {
							pos = x.Pos()
						}
						advs = append(advs, adv{c, pr, len(pr.Instrs), pos})
					}
				}
			}
		}
	}
	nilEdge := func(b *ssa.BasicBlock, c ssa.Value) int { // the successor index on which c's external lookup is known absent
		iff, ok := b.Instrs[len(b.Instrs)-1].(*ssa.If)
		if !ok {
			return -1
		}
		bo, ok := iff.Cond.(*ssa.BinOp)
		if !ok || !isNilConst(bo.Y) {
			return -1
		}
		if x, f, ok := fieldLoad(bo.X); !ok || x != c || f != m.extI {
			return -1
		}
		if bo.Op == token.NEQ {
			return 1
		}
		if bo.Op == token.EQL {
			return 0
		}
		return -1
	}
	for k, a := range advs {
		start := fn.Blocks[0]
		if ph, ok := a.c.(*ssa.Phi); ok {
			start = ph.Block()
		}
		bad := false
		seen := map[*ssa.BasicBlock]bool{}
		var visit func(b *ssa.BasicBlock)
		visit = func(b *ssa.BasicBlock) {
			if seen[b] || bad {
				return
			}
			seen[b] = true
			inv := -1
			for i, in := range b.Instrs {
				if extOf(in) == a.c {
					inv = i
					break
				}
			}
			if b == a.b {
				if inv < 0 || inv > a.idx {
					bad = true
				}
				return
			}
			if inv >= 0 {
				return
			}
			skip := nilEdge(b, a.c)
			for i, s := range b.Succs {
				if i != skip {
					visit(s)
				}
			}
		}
		visit(start)
		r.Check(!bad, "C12.R4", fmt.Sprintf("%s|step to the parent #%d after the external lookup", funcName(fn), k+1), p.Pos(a.pos),
			"the search moves to the parent scope only after this scope's external lookup was asked or is absent",
			"the search moves on to the parent scope on a path where this scope's external lookup was neither asked nor seen to be absent: what it supplies for the name is skipped and a farther binding is returned")
	}
}

func instrsOf(cs []*ssa.Call) []ssa.Instruction {
	var out []ssa.Instruction
	for _, c := range cs {
		out = append(out, c)
	}
	return out
}
func instrsOfL(cs []*ssa.Lookup) []ssa.Instruction {
	var out []ssa.Instruction
	for _, c := range cs {
		out = append(out, c)
	}
	return out
}

// reachesAvoiding: tgt reachable from start without entering avoid.
func reachesAvoiding(start, tgt, avoid *ssa.BasicBlock) bool {
	if start == nil {
		return false
	}
	reach := reachable(start, func(b *ssa.BasicBlock) bool { return b == avoid })
	return reach[tgt]
}

// guardIsNilTestOf: block b's only predecessor ends in `recv.field != nil` with b on the true edge.
func guardIsNilTestOf(b *ssa.BasicBlock, recv ssa.Value, field int) bool {
	if len(b.Preds) != 1 {
		return false
	}
	pr := b.Preds[0]
	iff, ok := pr.Instrs[len(pr.Instrs)-1].(*ssa.If)
	if !ok || pr.Succs[0] != b {
		return false
	}
	bo, ok := iff.Cond.(*ssa.BinOp)
	if !ok || bo.Op != token.NEQ {
		return false
	}
	v := bo.X
	if isNilConst(v) {
		v = bo.Y
	}
	x, f, ok := fieldLoad(v)
	return ok && x == recv && f == field
}

// guardedByParentTest: b is dominated by the (isNil ? true : false) edge of `recv.parent == nil`.
func (m *envModel) guardedByParentTest(b *ssa.BasicBlock, recv ssa.Value, wantNil bool) bool {
	for d := b; d != nil; d = d.Idom() {
		id := d.Idom()
		if id == nil {
			return false
		}
		iff, ok := id.Instrs[len(id.Instrs)-1].(*ssa.If)
		if !ok {
			continue
		}
		bo, ok := iff.Cond.(*ssa.BinOp)
		if !ok || (bo.Op != token.EQL && bo.Op != token.NEQ) {
			continue
		}
		v := bo.X
		if isNilConst(v) {
			v = bo.Y
		} else if !isNilConst(bo.Y) {
			continue
		}
		x, f, ok := fieldLoad(v)
		if !ok || x != recv || f != m.parentI {
			continue
		}
		nilSucc := id.Succs[0]
		if bo.Op == token.NEQ {
			nilSucc = id.Succs[1]
		}
		nonNilSucc := id.Succs[1]
		if bo.Op == token.NEQ {
			nonNilSucc = id.Succs[0]
		}
		want := nonNilSucc
		if wantNil {
			want = nilSucc
		}
		if (want == d || want.Dominates(d)) && len(want.Preds) == 1 {
			return true
		}
	}
	return false
}

// c12Copy checks R5.
func c12Copy(p *Program, r *Report, m *envModel, fns []*ssa.Function) {
	nParent := 0
	for _, fn := range fns {
		fname := funcName(fn)
		for _, b := range fn.Blocks {
			for _, in := range b.Instrs {
				st, ok := in.(*ssa.Store)
				if !ok {
					continue
				}
				fa, ok := st.Addr.(*ssa.FieldAddr)
				if !ok || !m.isEnvPtr(fa.X.Type()) {
					continue
				}
				site := p.Pos(instrPos(st))
				if fa.Field == m.parentI {
					nParent++
					okOwn := isFresh(fa.X) || m.isFreshResult(fa.X)
					r.Check(okOwn, "C12.R5", fname+"|parent-link", site, "parent link set only on a scope allocated here or returned by a copying constructor", "the parent link of an existing scope is rewritten: the chain can become cyclic or a snapshot can be re-parented")
				}
				if _, isT := m.tables[fa.Field]; isT && isFresh(fa.X) {
					_, isMake := st.Val.(*ssa.MakeMap)
					if c, ok := st.Val.(*ssa.Call); ok && !isMake {
						// a map made by a helper of the package that returns nothing but maps it made itself (or nil)
						if callee := staticCallee(c); callee != nil && callee.Pkg == fn.Pkg && returnsFreshMap(callee) {
							isMake = true
						}
					}
					if ex, ok := st.Val.(*ssa.Extract); ok && !isMake {
						if c, ok := ex.Tuple.(*ssa.Call); ok {
							if callee := staticCallee(c); callee != nil && callee.Pkg == fn.Pkg && returnsFreshMapAt(callee, ex.Index, 0) {
								isMake = true
							}
						}
					}
					r.Check(isMake, "C12.R5", fname+"|fresh-table "+m.tables[fa.Field], site, "new scope gets a map made here", "a new scope is given another scope's table: later changes on either side are visible to the other")
				}
			}
		}
	}
	r.Floor("C12.R5", nParent, 3)
	// a child constructor (new scope whose parent is the receiver) gives the child nothing else: own tables are created on
	// first use and an external lookup is set on the scope it was set on only
	for _, fn := range fns {
		if len(fn.Params) == 0 || !m.isEnvPtr(fn.Params[0].Type()) {
			continue
		}
		children := map[ssa.Value]bool{}
		for _, b := range fn.Blocks {
			for _, in := range b.Instrs {
				if st, ok := in.(*ssa.Store); ok {
					if fa, ok := st.Addr.(*ssa.FieldAddr); ok && fa.Field == m.parentI && isFresh(fa.X) && st.Val == ssa.Value(fn.Params[0]) {
						children[fa.X] = true
					}
				}
			}
		}
		for c := range children {
			bad := ""
			for _, b := range fn.Blocks {
				for _, in := range b.Instrs {
					st, ok := in.(*ssa.Store)
					if !ok {
						continue
					}
					fa, ok := st.Addr.(*ssa.FieldAddr)
					if !ok || fa.X != c || fa.Field == m.parentI {
						continue
					}
					if _, isMake := st.Val.(*ssa.MakeMap); isMake {
						continue
					}
					if k, ok := st.Val.(*ssa.Const); ok && k.IsNil() {
						continue
					}
					bad = "field #" + fmt.Sprint(fa.Field) + " of the new scope is set at " + p.Pos(instrPos(st))
				}
			}
			r.Check(bad == "", "C12.R5", funcName(fn)+"|child starts empty", p.Pos(c.Pos()), "a new child scope gets its parent link and nothing else",
				bad+": the child starts with state taken from another scope (an inherited external lookup is asked before the parent's own table and stays after the parent's is replaced)")
		}
	}
	// bindings are replaced, never written through: Copy and DeepCopy duplicate the reflect.Value handles, so a binding changed in
	// place (Value.Set on what a table holds) changes the snapshot too
	nThrough := 0
	for _, fn := range fns {
		for _, b := range fn.Blocks {
			for _, in := range b.Instrs {
				c, ok := in.(*ssa.Call)
				if !ok {
					continue
				}
				rm := reflectMethod(c)
				if !strings.HasPrefix(rm, "Set") {
					continue
				}
				nThrough++
				r.Fail("C12.R5", fmt.Sprintf("%s|no write through a stored value #%d", funcName(fn), nThrough), p.Pos(c.Pos()), "package env calls reflect.Value."+rm+": a binding is changed in place instead of being replaced in its table; a copy of the scope holds the same reflect.Value handle, so the change is visible in the snapshot (and the other way round)")
			}
		}
	}
	if nThrough == 0 {
		r.OK("C12.R5", "bindings|replaced, never written through", "env", "no reflect.Value.Set* call in package env")
	}
	// Copy: the maps of the result are filled by ranging over the receiver's maps with key/value copied unchanged
	for _, fn := range fns {
		if len(fn.Params) != 1 || !m.isEnvPtr(fn.Params[0].Type()) {
			continue
		}
		recv := fn.Params[0]
		filled := map[int]bool{}
		made := map[int]bool{}
		for _, b := range fn.Blocks {
			for _, in := range b.Instrs {
				mu, ok := in.(*ssa.MapUpdate)
				if !ok {
					continue
				}
				x, f, ok := fieldLoad(mu.Map)
				if !ok || !isFresh(x) {
					continue
				}
				made[f] = true
				// key and value are extracts of a Next over a Range of recv's same field
				kx, ok1 := mu.Key.(*ssa.Extract)
				vx, ok2 := mu.Value.(*ssa.Extract)
				if ok1 && ok2 && kx.Tuple == vx.Tuple && kx.Index == 1 && vx.Index == 2 {
					if nx, ok := kx.Tuple.(*ssa.Next); ok {
						if rg, ok := nx.Iter.(*ssa.Range); ok {
							if bx, bf, ok := fieldLoad(rg.X); ok && bx == ssa.Value(recv) && bf == f {
								filled[f] = true
							}
						}
					}
				}
			}
		}
		if len(made) == 0 {
			continue
		}
		var fs []int
		for f := range m.tables {
			fs = append(fs, f)
		}
		sort.Ints(fs)
		for _, f := range fs {
			r.Check(filled[f], "C12.R5", funcName(fn)+"|copies "+m.tables[f], p.Pos(fn.Pos()), "every entry of the receiver's table is copied key-for-key into the new map", "the copy's "+m.tables[f]+" table is not filled entry by entry from the receiver's")
		}
	}
}

// c12NoPanic enumerates may-panic instructions of package env (R6).
func c12NoPanic(p *Program, r *Report, m *envModel, fns []*ssa.Function) {
	n := 0
	for _, fn := range fns {
		fname := funcName(fn)
		var recv ssa.Value
		if len(fn.Params) > 0 && m.isEnvPtr(fn.Params[0].Type()) {
			recv = fn.Params[0]
		}
		cnt := map[string]int{}
		mk := func(what string) string {
			cnt[what]++
			if cnt[what] > 1 {
				return fmt.Sprintf("%s|%s #%d", fname, what, cnt[what])
			}
			return fname + "|" + what
		}
		for _, b := range fn.Blocks {
			for _, in := range b.Instrs {
				site := p.Pos(instrPos(in))
				switch x := in.(type) {
				case *ssa.Panic:
					n++
					r.Fail("C12.R6", mk("panic"), site, "explicit panic in the environment API")
				case *ssa.TypeAssert:
					if !x.CommaOk {
						n++
						r.Fail("C12.R6", mk("type assertion"), site, "unchecked type assertion can panic")
					}
				case *ssa.IndexAddr:
					if _, isSlice := x.X.Type().Underlying().(*types.Slice); isSlice {
						n++
						ok := indexGuarded(x)
						r.Check(ok, "C12.R6", mk("index"), site, "index bounded by a dominating length test", "slice index without a dominating bounds test")
					}
				case *ssa.FieldAddr:
					if m.isEnvPtr(x.X.Type()) {
						if x.X == recv || isFresh(x.X) {
							continue
						}
						n++
						ok, why := m.nonNil(x.X, recv, x.Block(), map[ssa.Value]bool{})
						r.Check(ok, "C12.R6", mk("deref "+describeVal(x.X)), site, "scope pointer is non-nil here: "+why, "possible nil dereference of a scope pointer: "+why)
					}
				case *ssa.Call:
					if callee := staticCallee(x); callee != nil && callee.Pkg == m.sp && len(x.Call.Args) > 0 && m.isEnvPtr(x.Call.Args[0].Type()) && callee.Signature.Recv() != nil {
						a0 := x.Call.Args[0]
						if a0 == recv || isFresh(a0) {
							continue
						}
						n++
						ok, why := m.nonNil(a0, recv, x.Block(), map[ssa.Value]bool{})
						r.Check(ok, "C12.R6", mk("method on "+describeVal(a0)), site, "receiver is non-nil here: "+why, "method called on a possibly nil scope pointer: "+why)
					}
				}
			}
		}
	}
	r.Floor("C12.R6", n, 10)
}

func describeVal(v ssa.Value) string {
	switch x := v.(type) {
	case *ssa.Phi:
		return "loop variable " + x.Comment
	case *ssa.UnOp:
		if fa, ok := x.X.(*ssa.FieldAddr); ok {
			return "field " + fieldOfAddr(fa).Name()
		}
	case *ssa.Extract:
		return "asserted value"
	case *ssa.Call:
		return "call result"
	}
	return v.Name()
}

// indexGuarded: a[i] with i constant c dominated by the false edge of len(a) < c+1 / len(a) <= c, or i an induction variable bounded by len(a).
func indexGuarded(ia *ssa.IndexAddr) bool {
	if c, ok := ia.Index.(*ssa.Const); ok {
		idx := c.Int64()
		for d := ia.Block(); d != nil; d = d.Idom() {
			id := d.Idom()
			if id == nil {
				break
			}
			iff, ok := id.Instrs[len(id.Instrs)-1].(*ssa.If)
			if !ok {
				continue
			}
			bo, ok := iff.Cond.(*ssa.BinOp)
			if !ok {
				continue
			}
			lc, ok := bo.X.(*ssa.Call)
			if !ok {
				continue
			}
			bi, ok := lc.Call.Value.(*ssa.Builtin)
			if !ok || bi.Name() != "len" || lc.Call.Args[0] != ia.X {
				continue
			}
			k, ok := bo.Y.(*ssa.Const)
			if !ok {
				continue
			}
			// surviving edge implies len > idx
			falseS := id.Succs[1]
			trueS := id.Succs[0]
			onFalse := falseS == d || falseS.Dominates(d)
			onTrue := trueS == d || trueS.Dominates(d)
			switch bo.Op {
			case token.LSS: // len < k false ⇒ len >= k
				if onFalse && k.Int64() >= idx+1 {
					return true
				}
			case token.LEQ: // len <= k false ⇒ len > k
				if onFalse && k.Int64() >= idx {
					return true
				}
			case token.GTR:
				if onTrue && k.Int64() >= idx {
					return true
				}
			case token.GEQ:
				if onTrue && k.Int64() >= idx+1 {
					return true
				}
			case token.EQL:
				if onFalse && idx == 0 && k.Int64() == 0 {
					return true
				}
			}
		}
		return false
	}
	// induction variable i with i < len(a) controlling the block
	if phi, ok := ia.Index.(*ssa.Phi); ok {
		for d := ia.Block(); d != nil; d = d.Idom() {
			id := d.Idom()
			if id == nil {
				break
			}
			iff, ok := id.Instrs[len(id.Instrs)-1].(*ssa.If)
			if !ok {
				continue
			}
			bo, ok := iff.Cond.(*ssa.BinOp)
			if !ok || bo.Op != token.LSS || bo.X != ssa.Value(phi) {
				continue
			}
			if lc, ok := bo.Y.(*ssa.Call); ok {
				if bi, ok := lc.Call.Value.(*ssa.Builtin); ok && bi.Name() == "len" && lc.Call.Args[0] == ia.X {
					t := id.Succs[0]
					if t == d || t.Dominates(d) {
						// lower bound: phi starts at a non-negative constant and only increases
						lowOK := true
						for _, e := range phi.Edges {
							if c, ok := e.(*ssa.Const); ok {
								if c.Int64() < 0 {
									lowOK = false
								}
							} else if b2, ok := e.(*ssa.BinOp); ok && b2.Op == token.ADD && b2.X == ssa.Value(phi) {
								if c, ok := b2.Y.(*ssa.Const); !ok || c.Int64() < 0 {
									lowOK = false
								}
							} else {
								lowOK = false
							}
						}
						return lowOK
					}
				}
			}
		}
	}
	// lowered range index
	if isRangeIndex(ia.Index, ia.X) {
		return true
	}
	return false
}

// nonNil decides whether the *Env value v is non-nil when control is in block at.
func (m *envModel) nonNil(v ssa.Value, recv ssa.Value, at *ssa.BasicBlock, seen map[ssa.Value]bool) (bool, string) {
	if v == recv {
		return true, "receiver"
	}
	if seen[v] {
		return true, "cycle"
	}
	seen[v] = true
	// the value itself was tested: `for scope := e; scope != nil; scope = scope.parent { ... scope.values ... }`
	if at != nil && v.Referrers() != nil {
		for _, ref := range *v.Referrers() {
			bo, ok := ref.(*ssa.BinOp)
			if !ok || bo.X != v || !isNilConst(bo.Y) || (bo.Op != token.EQL && bo.Op != token.NEQ) {
				continue
			}
			for _, r2 := range *bo.Referrers() {
				iff, ok := r2.(*ssa.If)
				if !ok {
					continue
				}
				side := 0
				if bo.Op == token.EQL {
					side = 1
				}
				if edgeOnly(iff.Block(), side, at) {
					return true, "tested non-nil on this path"
				}
			}
		}
	}
	switch x := v.(type) {
	case *ssa.Alloc:
		return true, "allocated here"
	case *ssa.Call:
		if m.isFreshResult(x) {
			return true, "result of a constructor"
		}
		return false, "call result of unknown nil-ness"
	case *ssa.Phi:
		for i, e := range x.Edges {
			ok, why := m.nonNil(e, recv, x.Block().Preds[i], seen)
			if !ok {
				return false, "loop/merge variable may take a nil value: " + why
			}
		}
		return true, "all merged values are non-nil"
	case *ssa.Extract:
		// value of a comma-ok type assertion: non-nil only where ok is known true
		ta, isTA := x.Tuple.(*ssa.TypeAssert)
		if isTA && ta.CommaOk && x.Index == 0 {
			for _, ref := range *ta.Referrers() {
				okx, isEx := ref.(*ssa.Extract)
				if !isEx || okx.Index != 1 {
					continue
				}
				for _, r2 := range *okx.Referrers() {
					if iff, isIf := r2.(*ssa.If); isIf {
						t := iff.Block().Succs[0]
						if len(t.Preds) == 1 && (t == at || t.Dominates(at)) {
							return true, "comma-ok assertion succeeded on this path"
						}
					}
				}
			}
			return false, "value of a comma-ok type assertion used where the assertion may have failed (nil on failure)"
		}
		return false, "tuple element of unknown nil-ness"
	case *ssa.UnOp:
		// load of base.parent: non-nil if `at` is dominated by the non-nil edge of a test of the same field of the same base
		if fa, ok := x.X.(*ssa.FieldAddr); ok && fa.Field == m.parentI {
			if m.guardedByParentTest(at, fa.X, false) || m.guardedByParentTest(x.Block(), fa.X, false) {
				return true, "parent tested non-nil on this path"
			}
			// the loop form: `for e.parent != nil { e = e.parent }`
			return false, "parent link loaded without a dominating nil test"
		}
		return false, "loaded pointer of unknown nil-ness"
	}
	return false, "unknown value"
}

// c12Contract checks each exported mutator against the scope its name promises (API contract taken from the property's operation list).
func c12Contract(p *Program, r *Report, m *envModel, fns []*ssa.Function, mutator map[*ssa.Function]bool) {
	contract := map[string]string{
		"Define": "self", "DefineValue": "self", "DefineType": "self", "DefineReflectType": "self", "Delete": "self", "NewModule": "self",
		"DefineGlobal": "root", "DefineGlobalValue": "root", "DefineGlobalType": "root", "DefineGlobalReflectType": "root",
		"Set": "nearest", "SetValue": "nearest", "DeleteGlobal": "nearest",
	}
	n := 0
	for _, fn := range fns {
		if fn.Object() == nil || fn.Parent() != nil || len(fn.Params) == 0 || !m.isEnvPtr(fn.Params[0].Type()) {
			continue
		}
		want, ok := contract[fn.Name()]
		if !ok {
			continue
		}
		n++
		recv := fn.Params[0]
		fname := funcName(fn)
		site := p.Pos(fn.Pos())
		var self, parent, root, other int
		for _, b := range fn.Blocks {
			for _, in := range b.Instrs {
				c, ok := in.(*ssa.Call)
				if !ok {
					continue
				}
				callee := staticCallee(c)
				if callee == nil || !mutator[callee] || len(c.Call.Args) == 0 || !m.isEnvPtr(c.Call.Args[0].Type()) {
					continue
				}
				a0 := c.Call.Args[0]
				switch {
				case a0 == ssa.Value(recv):
					self++
				case m.isParentLoad(a0, recv) && callee == fn:
					parent++
				case m.isRootOf(a0, recv):
					root++
				case isFresh(a0) || m.isFreshResult(a0):
				default:
					other++
				}
			}
		}
		writesSelf := 0
		for _, a := range m.accessesOf(fn) {
			if a.write && a.base == ssa.Value(recv) {
				writesSelf++
			}
		}
		switch want {
		case "self":
			r.Check(self+writesSelf > 0 && parent == 0 && root == 0 && other == 0, "C12.R7", fname+"|addressed-scope", site,
				"acts on the addressed scope only", fmt.Sprintf("%s must touch only the addressed scope (self=%d parent=%d root=%d other=%d)", fn.Name(), self+writesSelf, parent, root, other))
		case "root":
			r.Check(root > 0 && self == 0 && writesSelf == 0 && parent == 0 && other == 0, "C12.R7", fname+"|root-scope", site,
				"acts on the root reached by following parent links until nil", fmt.Sprintf("%s must act on the global (root) scope (self=%d root=%d parent=%d other=%d)", fn.Name(), self+writesSelf, root, parent, other))
		case "nearest":
			// either delegates to a "nearest" sibling on self, or: acts on self only under an own-table hit (or at the root) and otherwise recurses on the parent
			deleg := false
			for _, b := range fn.Blocks {
				for _, in := range b.Instrs {
					if c, ok := in.(*ssa.Call); ok {
						if callee := staticCallee(c); callee != nil && callee != fn && contract[callee.Name()] == "nearest" && len(c.Call.Args) > 0 && c.Call.Args[0] == ssa.Value(recv) {
							deleg = true
						}
					}
				}
			}
			if deleg {
				r.Check(parent == 0 && root == 0 && other == 0, "C12.R7", fname+"|nearest-binding", site, "delegates to the nearest-binding operation on the same scope", fn.Name()+" reaches other scopes itself")
				continue
			}
			okSelf := true
			for _, b := range fn.Blocks {
				for _, in := range b.Instrs {
					act := false
					switch x := in.(type) {
					case *ssa.MapUpdate:
						if bx, f, ok := fieldLoad(x.Map); ok && bx == ssa.Value(recv) {
							_, act = m.tables[f]
						}
					case *ssa.Call:
						if callee := staticCallee(x); callee != nil && mutator[callee] && callee != fn && len(x.Call.Args) > 0 && x.Call.Args[0] == ssa.Value(recv) {
							act = true
						}
					}
					if !act {
						continue
					}
					if !(m.underOwnHit(in.Block(), recv) || m.guardedByParentTest(in.Block(), recv, true)) {
						okSelf = false
					}
				}
			}
			if parent == 0 && root == 0 && other == 0 {
				// iterative form: a cursor that starts at the receiver and moves to its own parent; every write is made on the
				// cursor's table where the cursor's scope holds the binding or is the root
				cur := m.scopeCursors(fn, recv)
				steps, okCur := 0, true
				for c := range cur {
					if ph, isPhi := c.(*ssa.Phi); isPhi {
						for _, e := range ph.Edges {
							if x, f, ok := fieldLoad(e); ok && f == m.parentI && cur[x] {
								steps++
							}
						}
					}
				}
				for _, a := range m.accessesOf(fn) {
					if !a.write {
						continue
					}
					if !cur[a.base] || !m.cursorActsOnHit(a.in.Block(), a.base) {
						okCur = false
					}
				}
				if steps > 0 && okCur {
					r.OK("C12.R7", fname+"|nearest-binding", site, "walks the chain with a cursor and writes only where the cursor's scope holds the binding (or is the root)")
					continue
				}
			}
			r.Check(okSelf && parent > 0 && root == 0 && other == 0, "C12.R7", fname+"|nearest-binding", site,
				"acts on this scope only when it holds the binding (or is the root) and otherwise recurses on the parent",
				fmt.Sprintf("%s must update the nearest existing binding: act here only on an own-table hit, else recurse on parent (ownHitOnly=%v parentRecursion=%d root=%d other=%d)", fn.Name(), okSelf, parent, root, other))
		}
	}
	r.Floor("C12.R7", n, 12)
	envWholeChainCopy(p, r, m, fns, "C12.R5")
}

// envWholeChainCopy: a function that gives a copied scope a new parent obtains it by recursing with itself on the parent,
// so the snapshot covers the whole chain (used by C12.R5 and C14.R6).
func envWholeChainCopy(p *Program, r *Report, m *envModel, fns []*ssa.Function, rule string) int {
	n := 0
	for _, fn := range fns {
		if len(fn.Params) != 1 || !m.isEnvPtr(fn.Params[0].Type()) {
			continue
		}
		for _, b := range fn.Blocks {
			for _, in := range b.Instrs {
				st, ok := in.(*ssa.Store)
				if !ok {
					continue
				}
				fa, ok := st.Addr.(*ssa.FieldAddr)
				if !ok || fa.Field != m.parentI || !m.isEnvPtr(fa.X.Type()) || isFresh(fa.X) {
					continue
				}
				// storing the parent link of a copied scope
				c, isCall := st.Val.(*ssa.Call)
				n++
				rec := isCall && staticCallee(c) == fn && len(c.Call.Args) == 1 && m.isParentLoad(c.Call.Args[0], fa.X)
				r.Check(rec, rule, funcName(fn)+"|whole-chain", p.Pos(instrPos(st)), "the copy's parent is the same deep copy applied to the parent (recursion over the whole chain)",
					"the copy's parent is not produced by recursing with the same function: scopes further up are shared between the copy and the original")
			}
		}
	}
	return n
}

// underOwnHit: block is dominated by the true edge of a comma-ok lookup in one of recv's own tables.
// cursorActsOnHit: block b is reached only when the scope held by cursor c has the binding in its own table, or is the root.
func (m *envModel) cursorActsOnHit(b *ssa.BasicBlock, c ssa.Value) bool {
	if m.underOwnHit(b, c) || m.guardedByParentTest(b, c, true) {
		return true
	}
	// `if ok || c.parent == nil { act }`: every edge into the acting block is the hit edge or the root edge
	for d := b; d != nil; d = d.Idom() {
		if len(d.Preds) < 2 {
			continue
		}
		all := true
		for _, pr := range d.Preds {
			iff, ok := pr.Instrs[len(pr.Instrs)-1].(*ssa.If)
			if !ok || pr.Succs[0] == pr.Succs[1] {
				all = false
				break
			}
			side := 0
			if pr.Succs[1] == d {
				side = 1
			}
			good := false
			if ex, ok := iff.Cond.(*ssa.Extract); ok && ex.Index == 1 && side == 0 {
				if lk, ok := ex.Tuple.(*ssa.Lookup); ok {
					if x, f, ok := fieldLoad(lk.X); ok && x == c {
						_, good = m.tables[f]
					}
				}
			}
			if bo, ok := iff.Cond.(*ssa.BinOp); ok && isNilConst(bo.Y) {
				if x, f, ok := fieldLoad(bo.X); ok && x == c && f == m.parentI {
					good = (bo.Op == token.EQL && side == 0) || (bo.Op == token.NEQ && side == 1)
				}
			}
			if !good {
				all = false
				break
			}
		}
		if all {
			return true
		}
		break
	}
	return false
}

func (m *envModel) underOwnHit(b *ssa.BasicBlock, recv ssa.Value) bool {
	for d := b; d != nil; d = d.Idom() {
		if len(d.Preds) != 1 {
			continue
		}
		pr := d.Preds[0]
		iff, ok := pr.Instrs[len(pr.Instrs)-1].(*ssa.If)
		if !ok || pr.Succs[0] != d {
			continue
		}
		ex, ok := iff.Cond.(*ssa.Extract)
		if !ok || ex.Index != 1 {
			continue
		}
		lk, ok := ex.Tuple.(*ssa.Lookup)
		if !ok {
			continue
		}
		if x, f, ok := fieldLoad(lk.X); ok && x == recv {
			if _, isT := m.tables[f]; isT {
				return true
			}
		}
	}
	return false
}

// c12Extra: R8 the interface-valued wrappers (Define/Set ...) end in one and the same reflect-valued operation on every path;
// R9 a module path is resolved in the selected module's own table after its first component.
// c12Setters (R10): a method of the scope type whose whole effect is to store its parameter into a field of the receiver (the
// external-lookup setter) does so on every path: a guard in front of the store makes some argument - nil, to remove what was set
// - silently ineffective.
func c12Setters(p *Program, r *Report, m *envModel, fns []*ssa.Function) {
	n := 0
	for _, fn := range fns {
		if len(fn.Params) != 2 || !m.isEnvPtr(fn.Params[0].Type()) || fn.Signature.Results().Len() != 0 {
			continue
		}
		var stores []*ssa.Store
		other := false
		for _, b := range fn.Blocks {
			for _, in := range b.Instrs {
				switch x := in.(type) {
				case *ssa.Store:
					if fa, ok := x.Addr.(*ssa.FieldAddr); ok && fa.X == ssa.Value(fn.Params[0]) && x.Val == ssa.Value(fn.Params[1]) {
						stores = append(stores, x)
					} else {
						other = true
					}
				case *ssa.MapUpdate:
					other = true
				}
			}
		}
		if len(stores) == 0 || other {
			continue
		}
		n++
		bad := ""
		for _, b := range fn.Blocks {
			if ret, ok := b.Instrs[len(b.Instrs)-1].(*ssa.Return); ok {
				dom := false
				for _, st := range stores {
					if instrDominates(st, ret) {
						dom = true
					}
				}
				if !dom {
					bad = "the return at " + p.Pos(instrPos(ret)) + " is reached without the store"
				}
			}
		}
		r.Check(bad == "", "C12.R10", funcName(fn)+"|stores its argument on every path", p.Pos(fn.Pos()), "the store dominates every return",
			bad+": for some argument (nil, meant to remove what was set) the setter does nothing, and the old value keeps answering lookups and is carried into every later copy")
	}
	r.Floor("C12.R10", n, 1)
}

func c12Extra(p *Program, r *Report) {
	m, err := buildEnvModel(p)
	if err != nil {
		return
	}
	r.Explain("R8 a wrapper that takes the value as interface{} calls the same reflect.Value operation of the scope on every path (the nil branch and the non-nil branch of Set both end in SetValue). " +
		"R9 the path lookup moves along the parent chain only itself and only for the first component: it calls no operation of the scope that walks the parent chain or consults the external lookup.")
	fns := SrcFuncs(m.sp)
	n := 0
	for _, fn := range fns {
		sg := fn.Signature
		if sg.Recv() == nil || sg.Params().Len() != 2 || !types.IsInterface(sg.Params().At(1).Type()) || isErrorType(sg.Params().At(1).Type()) || len(fn.Blocks) == 0 {
			continue
		}
		callees := map[*ssa.Function]bool{}
		for _, b := range fn.Blocks {
			for _, in := range b.Instrs {
				c, ok := in.(*ssa.Call)
				if !ok {
					continue
				}
				callee := staticCallee(c)
				if callee == nil || callee.Pkg != m.sp || len(c.Call.Args) != 3 || !isReflectValue(c.Call.Args[2].Type()) {
					continue
				}
				callees[callee] = true
			}
		}
		if len(callees) == 0 {
			continue
		}
		n++
		var names []string
		for c := range callees {
			names = append(names, c.Name())
		}
		sort.Strings(names)
		r.Check(len(callees) == 1, "C12.R8", funcName(fn)+"|one operation on every path", p.Pos(fn.Pos()), "always "+names[0],
			fmt.Sprintf("the wrapper ends in different operations depending on the value (%v): for some values (nil) it defines where it should update the nearest binding, or the reverse", names))
	}
	r.Floor("C12.R8", n, 2)

	// chain walkers: functions of the scope that read the parent link or the external lookup (transitively)
	walker := map[*ssa.Function]bool{}
	for iter := 0; iter < 5; iter++ {
		for _, fn := range fns {
			if walker[fn] {
				continue
			}
			for _, b := range fn.Blocks {
				for _, in := range b.Instrs {
					switch x := in.(type) {
					case *ssa.FieldAddr:
						if x.Field == m.parentI && m.isEnvPtr(x.X.Type()) {
							walker[fn] = true
						}
						if fieldOfAddr(x).Name() == "externalLookup" {
							walker[fn] = true
						}
					case *ssa.Call:
						if callee := staticCallee(x); callee != nil && walker[callee] {
							walker[fn] = true
						}
					}
				}
			}
		}
	}
	n9 := 0
	for _, fn := range fns {
		// the path lookup: a method taking a []string path and returning (*Env, error)
		sg := fn.Signature
		if sg.Recv() == nil || sg.Params().Len() != 1 || sg.Params().At(0).Type().String() != "[]string" || sg.Results().Len() != 2 || !m.isEnvPtr(sg.Results().At(0).Type()) {
			continue
		}
		n9++
		bad := ""
		for _, b := range fn.Blocks {
			for _, in := range b.Instrs {
				if c, ok := in.(*ssa.Call); ok {
					if callee := staticCallee(c); callee != nil && callee.Pkg == m.sp && walker[callee] && callee != fn {
						bad = callee.Name() + " at " + p.Pos(c.Pos())
					}
				}
			}
		}
		r.Check(bad == "", "C12.R9", funcName(fn)+"|components resolved in the module's own table", p.Pos(fn.Pos()), "only direct table lookups",
			"the path lookup calls "+bad+", which walks the parent chain (and the external lookup): a later path component is found in an enclosing scope or a sibling module instead of failing")
	}
	r.Floor("C12.R9", n9, 1)
}
