package main

import (
	"fmt"
	"go/token"
	"go/types"
	"sort"
	"strings"

	"golang.org/x/tools/go/ssa"
)

func init() {
	register("C14", "runs are isolated and repeatable; executing a tree never changes it", checkC14)
}

// localForward resolves a load of base.field to the value stored into the same field earlier in the same block
// (no call or other store to that field in between). Returns v unchanged when no such store exists.
func localForward(v ssa.Value) ssa.Value {
	u, ok := v.(*ssa.UnOp)
	if !ok {
		return v
	}
	fa, ok := u.X.(*ssa.FieldAddr)
	if !ok {
		return v
	}
	b := u.Block()
	idx := instrIndex(u)
	for i := idx - 1; i >= 0; i-- {
		switch x := b.Instrs[i].(type) {
		case *ssa.Store:
			if fa2, ok := x.Addr.(*ssa.FieldAddr); ok && fa2.X == fa.X && fa2.Field == fa.Field {
				return x.Val
			}
		case *ssa.Call:
			// a call that is not handed the object (nor anything reached from it) cannot store into its field: a method of a
			// parsed node asked for its position, a reflect accessor, a conversion helper over plain values
			touches := false
			for _, a := range x.Call.Args {
				if a == fa.X || rootOf(a) == fa.X {
					touches = true
				}
			}
			if x.Call.IsInvoke() && (x.Call.Value == fa.X || rootOf(x.Call.Value) == fa.X) {
				touches = true
			}
			if _, isClosure := x.Call.Value.(*ssa.MakeClosure); isClosure {
				touches = true
			}
			if _, isFn := x.Call.Value.(*ssa.Function); !isFn && !x.Call.IsInvoke() {
				if _, isBuiltin := x.Call.Value.(*ssa.Builtin); !isBuiltin {
					touches = true // a function value: it may have captured the object
				}
			}
			if touches {
				return v
			}
		case *ssa.Defer, *ssa.Go:
			return v
		}
	}
	return v
}

// rootOf follows an address/value back to its origin through field/index addressing, loads of slices, conversions.
func rootOf(v ssa.Value) ssa.Value {
	for i := 0; i < 50; i++ {
		switch x := v.(type) {
		case *ssa.FieldAddr:
			v = x.X
		case *ssa.IndexAddr:
			v = x.X
		case *ssa.Slice:
			v = x.X
		case *ssa.ChangeType:
			v = x.X
		case *ssa.MakeInterface:
			v = x.X
		case *ssa.ChangeInterface:
			v = x.X
		case *ssa.TypeAssert:
			v = x.X
		case *ssa.Extract:
			if ta, ok := x.Tuple.(*ssa.TypeAssert); ok {
				v = ta.X
			} else {
				return v
			}
		default:
			return v
		}
	}
	return v
}

func isAstStruct(t types.Type) bool {
	n := namedOf(t)
	if n == nil || n.Obj().Pkg() == nil || n.Obj().Pkg().Path() != modPath+"/ast" {
		return false
	}
	_, ok := n.Underlying().(*types.Struct)
	return ok
}

// treeWrite describes a write into a value of an ast struct type (or a slice hanging off one).
type treeWrite struct {
	in   ssa.Instruction
	what string
	root ssa.Value
}

// treeWritesOf enumerates writes into ast structures in fn.
func treeWritesOf(fn *ssa.Function) []treeWrite {
	var out []treeWrite
	// does the address chain pass through an ast struct?
	throughAst := func(addr ssa.Value) (bool, ssa.Value) {
		v := addr
		hit := false
		for i := 0; i < 50; i++ {
			switch x := v.(type) {
			case *ssa.FieldAddr:
				if isAstStruct(x.X.Type()) {
					hit = true
				}
				v = x.X
			case *ssa.IndexAddr:
				// element of a slice: where does the slice come from?
				if u, ok := x.X.(*ssa.UnOp); ok {
					if fa, ok := u.X.(*ssa.FieldAddr); ok && isAstStruct(fa.X.Type()) {
						hit = true
						v = fa.X
						continue
					}
				}
				v = x.X
			case *ssa.UnOp:
				// load of a pointer stored in an ast struct field (e.g. TypeData *TypeStruct)
				if fa, ok := x.X.(*ssa.FieldAddr); ok && isAstStruct(fa.X.Type()) {
					hit = true
					v = fa.X
					continue
				}
				fw := localForward(x)
				if fw != ssa.Value(x) {
					v = fw
					continue
				}
				return hit, v
			case *ssa.MakeInterface:
				v = x.X
			case *ssa.ChangeInterface:
				v = x.X
			case *ssa.TypeAssert:
				v = x.X
			case *ssa.Extract:
				if ta, ok := x.Tuple.(*ssa.TypeAssert); ok {
					v = ta.X
					continue
				}
				return hit, v
			default:
				return hit, v
			}
		}
		return hit, v
	}
	for _, b := range fn.Blocks {
		for _, in := range b.Instrs {
			switch x := in.(type) {
			case *ssa.Store:
				if hit, root := throughAst(x.Addr); hit {
					out = append(out, treeWrite{x, "store", root})
				}
			case *ssa.MapUpdate:
				if hit, root := throughAst(x.Map); hit {
					out = append(out, treeWrite{x, "map update", root})
				}
			case *ssa.Call:
				cc := x.Common()
				// SetPosition (static or through the ast.Pos interface)
				if o := calleeObj(x); o != nil && o.Name() == "SetPosition" && o.Pkg() != nil && o.Pkg().Path() == modPath+"/ast" {
					var recv ssa.Value
					if cc.IsInvoke() {
						recv = cc.Value
					} else if len(cc.Args) > 0 {
						recv = cc.Args[0]
					}
					_, root := throughAst(recv)
					out = append(out, treeWrite{x, "SetPosition", root})
				}
				if bi, ok := cc.Value.(*ssa.Builtin); ok && (bi.Name() == "append" || bi.Name() == "copy") && len(cc.Args) > 0 {
					if u, ok := cc.Args[0].(*ssa.UnOp); ok {
						if fa, ok := u.X.(*ssa.FieldAddr); ok && isAstStruct(fa.X.Type()) {
							_, root := throughAst(fa)
							out = append(out, treeWrite{x, bi.Name() + " into a slice of the tree", root})
						}
					}
				}
				// reflective access to a node
				if o := calleeObj(x); o != nil && o.Pkg() != nil && o.Pkg().Path() == "reflect" && (o.Name() == "ValueOf" || o.Name() == "NewAt") && len(cc.Args) > 0 {
					a := stripConv(cc.Args[0])
					if p, ok := a.Type().(*types.Pointer); ok && isAstStruct(p.Elem()) {
						out = append(out, treeWrite{x, "reflect." + o.Name() + " of a node pointer", rootOf(a)})
					}
				}
			}
		}
	}
	return out
}

func checkC14(p *Program, r *Report) {
	r.Explain("C14: effect/ownership analysis (E4) over the SSA of every function of vm, env, core and astutil. " +
		"R1 every store, map update, append-into, SetPosition call and reflective handle whose target lies in a structure of package ast must have a root allocated in the same function (a fresh node); exhaustive over all store-like instructions; positive control: the same matcher must find the parser's own tree construction. " +
		"R2 every write to (or through) a package-level variable of vm, env, parser, ast, core happens in a package initialiser; reasoned exceptions: parser debug switches, env.Packages/PackageTypes filled by init functions of package packages only. " +
		"R3 every runInfoStruct is a local allocation that does not escape to a global, a channel or a go statement. " +
		"R4 the import handler uses the package tables only as range operands and re-binds each entry in an environment created there. " +
		"R5 every reflect.Value kept in a package-level variable (or element) is built by a constructor that yields a non-addressable Value; addressable ones are shared mutable storage that & and *p = v could reach.")
	r.Explain("R7 every place that builds a per-run record initialises the same set of fields. R6 a deep copy of an environment (the way a host isolates runs that start from one template) recurses with itself over the whole parent chain: no scope of the original is shared with the copy.")
	r.Assume("determinism of host functions, map iteration order and goroutine scheduling are outside the statement")
	r.Exhaustive = true

	// R1
	nStores, nTree := 0, 0
	var sample []string
	for _, suffix := range []string{"vm", "env", "core", "ast/astutil", "ast", ""} {
		sp := p.SSAPkg(suffix)
		if sp == nil {
			continue
		}
		for _, fn := range SrcFuncs(sp) {
			for _, b := range fn.Blocks {
				for _, in := range b.Instrs {
					switch in.(type) {
					case *ssa.Store, *ssa.MapUpdate:
						nStores++
					}
				}
			}
			cnt := map[string]int{}
			for _, w := range treeWritesOf(fn) {
				// methods of ast types writing their own receiver (SetPosition itself) are the mutators, not uses
				if suffix == "ast" {
					continue
				}
				nTree++
				key := funcName(fn) + "|" + w.what
				cnt[key]++
				inst := key
				if cnt[key] > 1 {
					inst = fmt.Sprintf("%s #%d", key, cnt[key])
				}
				site := p.Pos(instrPos(w.in))
				fresh := isFresh(w.root)
				if fresh {
					if len(sample) < 12 {
						sample = append(sample, inst)
					}
					r.OK("C14.R1", inst, site, "target is a node allocated in this function")
				} else {
					r.Fail("C14.R1", inst, site, "writes into a parsed tree it did not allocate ("+w.what+" rooted at "+describeRoot(w.root)+"): a tree run twice or concurrently sees the change")
				}
			}
		}
	}
	r.Floor("C14.R1", nTree, 4)
	r.Note("store_instructions_examined", nStores)
	// positive control on the parser
	ctrl := 0
	if sp := p.SSAPkg("parser"); sp != nil {
		for _, fn := range SrcFuncs(sp) {
			for _, w := range treeWritesOf(fn) {
				if !isFresh(w.root) {
					ctrl++
				}
			}
		}
	}
	r.Check(ctrl >= 5, "C14.R1", "positive-control|parser", "parser/parser.go", fmt.Sprintf("matcher finds %d writes to existing nodes in the parser's own tree construction", ctrl), "the tree-write matcher no longer recognises the parser's own node updates: rule would pass vacuously")

	c14Globals(p, r)
	c14RunInfo(p, r)
	c14Import(p, r)
	c14RecordLiterals(p, r)
	treeLiteralsNotAddressable(p, r, "C14.R8")
	c14LookupFailure(p, r)
	c14CapturedWrites(p, r)
	// R6: snapshots used to isolate runs cover the whole scope chain
	if em, err := buildEnvModel(p); err != nil {
		r.Undecided("C14.R6", "model", "env", err.Error())
	} else {
		n := envWholeChainCopy(p, r, em, SrcFuncs(em.sp), "C14.R6")
		r.Floor("C14.R6", n, 1)
	}
}

func describeRoot(v ssa.Value) string {
	switch x := v.(type) {
	case *ssa.Parameter:
		return "parameter " + x.Name()
	case *ssa.Global:
		return "package variable " + x.Name()
	case *ssa.UnOp:
		if fa, ok := x.X.(*ssa.FieldAddr); ok {
			return "field " + fieldOfAddr(fa).Name()
		}
		if g, ok := x.X.(*ssa.Global); ok {
			return "package variable " + g.Name()
		}
	case *ssa.FreeVar:
		return "captured variable " + x.Name()
	}
	return v.Name()
}

// c14Globals: R2 + R5.
func c14Globals(p *Program, r *Report) {
	allowedWriters := map[string]string{
		"parser.yyDebug":        "host-set diagnostics switch (EnableDebug)",
		"parser.yyErrorVerbose": "host-set diagnostics switch (EnableErrorVerbose)",
	}
	nGlobals, nWrites := 0, 0
	pkgs := []string{"vm", "env", "parser", "ast", "core", "ast/astutil"}
	isInit := initOracle(p)
	globalOf := func(addr ssa.Value) *ssa.Global {
		v := addr
		for i := 0; i < 50; i++ {
			switch x := v.(type) {
			case *ssa.Global:
				return x
			case *ssa.FieldAddr:
				v = x.X
			case *ssa.IndexAddr:
				v = x.X
			case *ssa.UnOp:
				v = x.X
			case *ssa.Slice:
				v = x.X
			case *ssa.Lookup:
				v = x.X
			default:
				return nil
			}
		}
		return nil
	}
	inScope := map[*ssa.Package]bool{}
	for _, s := range pkgs {
		if sp := p.SSAPkg(s); sp != nil {
			inScope[sp] = true
			for _, m := range sp.Members {
				if _, ok := m.(*ssa.Global); ok {
					nGlobals++
				}
			}
		}
	}
	var all []*ssa.Package
	for _, sp := range p.SSAPkgs {
		all = append(all, sp)
	}
	sort.Slice(all, func(i, j int) bool { return all[i].Pkg.Path() < all[j].Pkg.Path() })
	for _, sp := range all {
		for _, fn := range SrcFuncs(sp) {
			cnt := map[string]int{}
			for _, b := range fn.Blocks {
				for _, in := range b.Instrs {
					var g *ssa.Global
					what := ""
					switch x := in.(type) {
					case *ssa.Store:
						g = globalOf(x.Addr)
						what = "store"
					case *ssa.MapUpdate:
						g = globalOf(x.Map)
						what = "map update"
					case *ssa.Call:
						if bi, ok := x.Call.Value.(*ssa.Builtin); ok && bi.Name() == "delete" {
							g = globalOf(x.Call.Args[0])
							what = "delete"
						} else if !isInit(fn) {
							// the address of a package-level variable handed to a call: a container with methods (sync.Map,
							// sync.Pool, a cache type) kept at package level is state shared by all runs, whatever its methods do
							for _, a := range x.Call.Args {
								if ga, ok := a.(*ssa.Global); ok {
									if _, isStruct := derefType(ga.Type()).Underlying().(*types.Struct); isStruct {
										g = ga
										what = "call of " + calleeName(x) + " on"
									}
								}
							}
						}
					}
					if g == nil || g.Pkg == nil || !inScope[g.Pkg] {
						continue
					}
					nWrites++
					gname := g.Pkg.Pkg.Name() + "." + g.Name()
					key := funcName(fn) + "|" + what + " " + gname
					cnt[key]++
					inst := key
					if cnt[key] > 1 {
						continue // one obligation per (function, variable, kind)
					}
					site := p.Pos(instrPos(in))
					switch {
					case isInit(fn) && (fn.Pkg == g.Pkg || fn.Pkg.Pkg.Path() == modPath+"/packages"):
						r.OK("C14.R2", inst, site, "written by a package initialiser")
					case allowedWriters[gname] != "":
						r.OK("C14.R2", inst, site, "allowed: "+allowedWriters[gname])
					default:
						r.Fail("C14.R2", inst, site, "package-level variable "+gname+" is written after initialisation: state shared by every run and environment in the process")
					}
				}
			}
		}
	}
	// writes through a package-level pointer into a shared node (e.g. SetPosition on a node kept in a global)
	for _, s2 := range pkgs {
		sp := p.SSAPkg(s2)
		if sp == nil {
			continue
		}
		for _, fn := range SrcFuncs(sp) {
			if isInit(fn) {
				continue
			}
			for _, w := range treeWritesOf(fn) {
				var g *ssa.Global
				switch x := w.root.(type) {
				case *ssa.Global:
					g = x
				case *ssa.UnOp:
					g, _ = x.X.(*ssa.Global)
				}
				if g == nil {
					continue
				}
				nWrites++
				r.Fail("C14.R2", funcName(fn)+"|"+w.what+" through "+g.Pkg.Pkg.Name()+"."+g.Name(), p.Pos(instrPos(w.in)),
					"a node shared through package-level variable "+g.Name()+" is modified after initialisation: every tree that links to it, in every parse and run, sees the change")
			}
		}
	}
	r.Floor("C14.R2", nWrites, 5)
	r.Note("package_level_variables_in_scope", nGlobals)

	// R5: reflect.Values stored in globals must be non-addressable
	allowedAddr := map[string]string{
		"vm.errorNilValue": "typed nil error used only in the error slot of the VM function protocol (compared with IsNil, never placed in rv)",
		"env.NilValue":     "exported; env.TestAddr pins that a symbol defined as NilValue is addressable. Since the repair, Define/Set(nil) no longer bind NilValue itself and the VM resets rv on the error paths that return it",
	}
	n5 := 0
	for _, s := range pkgs {
		sp := p.SSAPkg(s)
		if sp == nil {
			continue
		}
		for _, fn := range SrcFuncs(sp) {
			if !isInit(fn) {
				continue
			}
			for _, b := range fn.Blocks {
				for _, in := range b.Instrs {
					st, ok := in.(*ssa.Store)
					if !ok || !isNamed(st.Val.Type(), "reflect", "Value") {
						continue
					}
					g := globalOf(st.Addr)
					if g == nil {
						continue
					}
					n5++
					gname := g.Pkg.Pkg.Name() + "." + g.Name()
					addr, how := mayBeAddressable(st.Val, 0)
					inst := "global-value|" + gname
					site := p.Pos(instrPos(st))
					switch {
					case !addr:
						r.OK("C14.R5", inst, site, "not addressable: "+how)
					case allowedAddr[gname] != "":
						r.OK("C14.R5", inst, site, "addressable ("+how+") but allowed: "+allowedAddr[gname])
						c14AddrUses(p, r, g, gname)
					default:
						r.Fail("C14.R5", inst, site, "package-level reflect.Value is addressable ("+how+"): a script can take its address with & and overwrite it for the whole process")
					}
				}
			}
		}
	}
	r.Floor("C14.R5", n5, 8)
}

// mayBeAddressable classifies the constructor of a reflect.Value.
func mayBeAddressable(v ssa.Value, depth int) (bool, string) {
	if depth > 6 {
		return true, "unknown construction"
	}
	switch x := v.(type) {
	case *ssa.Call:
		o := calleeObj(x)
		if o == nil || o.Pkg() == nil || o.Pkg().Path() != "reflect" {
			return true, "result of a non-reflect call"
		}
		sig := o.Type().(*types.Signature)
		if sig.Recv() == nil {
			switch o.Name() {
			case "ValueOf", "Zero", "MakeSlice", "MakeMap", "MakeMapWithSize", "MakeChan", "MakeFunc", "New", "Append", "AppendSlice":
				return false, "reflect." + o.Name()
			case "Indirect":
				return true, "reflect.Indirect"
			}
			return true, "reflect." + o.Name()
		}
		switch o.Name() {
		case "Elem":
			// Elem of an interface Value is not addressable; Elem of a pointer is
			if len(x.Call.Args) > 0 {
				if c2, ok := x.Call.Args[0].(*ssa.Call); ok {
					if o2 := calleeObj(c2); o2 != nil && o2.Pkg() != nil && o2.Pkg().Path() == "reflect" {
						if o2.Name() == "New" {
							return true, "reflect.New(T).Elem()"
						}
						if o2.Name() == "ValueOf" && len(c2.Call.Args) == 1 {
							if _, isPtr := stripConv(c2.Call.Args[0]).Type().Underlying().(*types.Pointer); isPtr {
								return true, "reflect.ValueOf(pointer).Elem()"
							}
						}
					}
				}
			}
			return true, "Value.Elem()"
		case "Index", "Field", "FieldByName", "FieldByIndex", "Addr", "MapIndex", "Slice", "Slice3":
			if o.Name() == "MapIndex" {
				return false, "Value.MapIndex (map elements are not addressable)"
			}
			return true, "Value." + o.Name() + "()"
		case "Convert", "Interface":
			return false, "Value." + o.Name()
		}
		return true, "Value." + o.Name() + "()"
	case *ssa.UnOp:
		if g, ok := x.X.(*ssa.Global); ok {
			return true, "copy of package variable " + g.Name()
		}
	case *ssa.Const:
		return false, "zero Value"
	case *ssa.Alloc:
		return false, "zero Value"
	}
	return true, "unknown construction"
}

// c14AddrUses checks the uses of an allowed addressable global in package vm: it must not be stored into rv,
// a LiteralExpr, or handed to DefineValue/SetValue.
func c14AddrUses(p *Program, r *Report, g *ssa.Global, gname string) {
	for _, suffix := range []string{"vm", "parser", "core"} {
		sp := p.SSAPkg(suffix)
		if sp == nil {
			continue
		}
		for _, fn := range SrcFuncs(sp) {
			for _, b := range fn.Blocks {
				for _, in := range b.Instrs {
					u, ok := in.(*ssa.UnOp)
					if !ok || u.X != ssa.Value(g) {
						continue
					}
					for _, ref := range *u.Referrers() {
						bad := ""
						switch x := ref.(type) {
						case *ssa.Store:
							if fa, ok := x.Addr.(*ssa.FieldAddr); ok && x.Val == ssa.Value(u) {
								fld := fieldOfAddr(fa)
								if fld.Name() == "rv" || isAstStruct(fa.X.Type()) {
									bad = "stored into " + fld.Name()
								}
							}
						case *ssa.Call:
							if o := calleeObj(x); o != nil && o.Pkg() != nil && o.Pkg().Path() == modPath+"/env" {
								bad = "passed to env." + o.Name()
							}
						}
						if bad != "" {
							r.Fail("C14.R5", "use|"+gname+"|"+funcName(fn), p.Pos(instrPos(ref)), "addressable shared value "+gname+" is "+bad+": it becomes reachable by & from a script")
						}
					}
				}
			}
		}
	}
}

// c14RunInfo: R3.
func c14RunInfo(p *Program, r *Report) {
	sp := p.SSAPkg("vm")
	if sp == nil {
		r.Undecided("C14.R3", "vm", "-", "package vm not loaded")
		return
	}
	n := 0
	for _, fn := range SrcFuncs(sp) {
		for _, b := range fn.Blocks {
			for _, in := range b.Instrs {
				al, ok := in.(*ssa.Alloc)
				if !ok || !isNamed(al.Type(), modPath+"/vm", "runInfoStruct") {
					continue
				}
				n++
				inst := funcName(fn) + "|runInfo"
				site := p.Pos(instrPos(al))
				bad := ""
				var visit func(v ssa.Value, depth int)
				seen := map[ssa.Value]bool{}
				visit = func(v ssa.Value, depth int) {
					if seen[v] || depth > 4 {
						return
					}
					seen[v] = true
					for _, ref := range *v.Referrers() {
						switch x := ref.(type) {
						case *ssa.Store:
							if x.Val == v {
								if _, isG := rootOf(x.Addr).(*ssa.Global); isG {
									bad = "stored in a package-level variable"
								} else if _, isAlloc := rootOf(x.Addr).(*ssa.Alloc); !isAlloc {
									bad = "stored through a pointer that outlives the run"
								}
							}
						case *ssa.Send:
							if x.X == v {
								bad = "sent on a channel"
							}
						case *ssa.Go:
							for _, a := range x.Call.Args {
								if a == v {
									bad = "passed to a go statement"
								}
							}
						case *ssa.MakeClosure:
							// captured by a closure: allowed only if the closure is not started with go
							for _, r2 := range *x.Referrers() {
								if _, isGo := r2.(*ssa.Go); isGo {
									bad = "captured by a function started with go"
								}
							}
						case *ssa.MakeInterface:
							visit(x, depth+1)
						case *ssa.Phi:
							visit(x, depth+1)
						}
					}
				}
				visit(al, 0)
				r.Check(bad == "", "C14.R3", inst, site, "per-run record is a local allocation that stays with its run", "the per-run record is "+bad+": two runs can share interpreter state")
			}
		}
	}
	r.Floor("C14.R3", n, 2)
}

// c14Import: R4.
func c14Import(p *Program, r *Report) {
	sp := p.SSAPkg("vm")
	envSp := p.SSAPkg("env")
	if sp == nil || envSp == nil {
		return
	}
	n := 0
	for _, fn := range SrcFuncs(sp) {
		for _, b := range fn.Blocks {
			for _, in := range b.Instrs {
				u, ok := in.(*ssa.UnOp)
				if !ok {
					continue
				}
				g, ok := u.X.(*ssa.Global)
				if !ok || g.Pkg != envSp || (g.Name() != "Packages" && g.Name() != "PackageTypes") {
					continue
				}
				// u is the registry map; its only uses must be lookups; the looked-up table only Range
				for _, ref := range *u.Referrers() {
					lk, ok := ref.(*ssa.Lookup)
					if !ok {
						if _, dbg := ref.(*ssa.DebugRef); dbg {
							continue
						}
						n++
						r.Fail("C14.R4", funcName(fn)+"|"+g.Name()+"|registry use", p.Pos(instrPos(ref)), "the package registry is used other than by lookup")
						continue
					}
					var tables []ssa.Value
					if lk.CommaOk {
						for _, r2 := range *lk.Referrers() {
							if ex, ok := r2.(*ssa.Extract); ok && ex.Index == 0 {
								tables = append(tables, ex)
							}
						}
					} else {
						tables = append(tables, lk)
					}
					for _, t := range tables {
						for _, r2 := range *t.Referrers() {
							n++
							inst := funcName(fn) + "|" + g.Name() + "|table use"
							site := p.Pos(instrPos(r2))
							switch x := r2.(type) {
							case *ssa.Range:
								// each entry re-bound on an Env created here
								okBind := false
								for _, r3 := range *x.Referrers() {
									nx, ok := r3.(*ssa.Next)
									if !ok {
										continue
									}
									for _, r4 := range *nx.Referrers() {
										ex, ok := r4.(*ssa.Extract)
										if !ok || ex.Index != 2 {
											continue
										}
										for _, r5 := range *ex.Referrers() {
											if c, ok := r5.(*ssa.Call); ok {
												if o := calleeObj(c); o != nil && o.Pkg() != nil && o.Pkg().Path() == modPath+"/env" && strings.HasPrefix(o.Name(), "Define") && len(c.Call.Args) > 0 {
													if m, e := buildEnvModel(p); e == nil && m.isFreshResult2(c.Call.Args[0]) {
														okBind = true
													}
												}
											}
										}
									}
								}
								r.Check(okBind, "C14.R4", inst+" (range)", site, "table only iterated; every entry re-bound with Define* on an environment created in the import handler", "package table entries are not copied into a new environment")
							case *ssa.DebugRef:
								n--
							case *ssa.Call:
								// the table handed to a bulk-define method of a scope created here: accepted when that method only reads the
								// table it is given (ranges over it, asks its length, looks keys up) - it copies the entries, it cannot keep the table
								okBulk := false
								if callee := staticCallee(x); callee != nil && callee.Pkg == envSp && len(x.Call.Args) >= 2 {
									if em, e := buildEnvModel(p); e == nil && em.isFreshResult2(x.Call.Args[0]) {
										for i, a := range x.Call.Args {
											if a == t && i < len(callee.Params) {
												if what, write, ok := em.helperUseOfParam(callee, i); ok && !write {
													okBulk = true
													_ = what
												}
											}
										}
									}
								}
								r.Check(okBulk, "C14.R4", inst, site, "table handed to a method of a scope created here that only reads it: the entries are copied", "the shared package table itself is used (not just iterated): importing environments would share one table")
							default:
								r.Fail("C14.R4", inst, site, "the shared package table itself is used (not just iterated): importing environments would share one table")
							}
						}
					}
				}
			}
		}
	}
	r.Floor("C14.R4", n, 2)
}

// isFreshResult2: v is the result of (*Env).NewEnv / NewModule / Copy style constructor call (any package).
func (m *envModel) isFreshResult2(v ssa.Value) bool {
	c, ok := v.(*ssa.Call)
	if !ok {
		return false
	}
	callee := staticCallee(c)
	return callee != nil && callee.Pkg == m.sp && m.returnsFresh(callee, map[*ssa.Function]bool{})
}

// c14RecordLiterals (R7): every place that builds a per-run record initialises the same fields: a field added to the record and
// set for the top-level run only (or for function invocations only) is state one kind of run has and the other silently lacks.
func c14RecordLiterals(p *Program, r *Report) {
	m, err := buildVMModel(p)
	if err != nil {
		return
	}
	type lit struct {
		fn     *ssa.Function
		al     *ssa.Alloc
		fields map[string]bool
	}
	var lits []lit
	for _, fn := range m.fns {
		for _, b := range fn.Blocks {
			for _, in := range b.Instrs {
				al, ok := in.(*ssa.Alloc)
				if !ok || !m.isRI(al.Type()) {
					continue
				}
				fs := map[string]bool{}
				for _, ref := range *al.Referrers() {
					fa, ok := ref.(*ssa.FieldAddr)
					if !ok {
						continue
					}
					// initialisation: stores in the allocating block, before the record is used by a call
					for _, r2 := range *fa.Referrers() {
						if st, ok := r2.(*ssa.Store); ok && st.Addr == ssa.Value(fa) && st.Block() == al.Block() {
							fs[fieldOfAddr(fa).Name()] = true
						}
					}
				}
				lits = append(lits, lit{fn, al, fs})
			}
		}
	}
	if len(lits) < 2 {
		r.Undecided("C14.R7", "record literals", "vm", fmt.Sprintf("expected at least two places that build a per-run record, found %d", len(lits)))
		return
	}
	union := map[string]bool{}
	for _, l := range lits {
		for f := range l.fields {
			union[f] = true
		}
	}
	for _, l := range lits {
		var missing []string
		for f := range union {
			if !l.fields[f] {
				missing = append(missing, f)
			}
		}
		sort.Strings(missing)
		r.Check(len(missing) == 0, "C14.R7", funcName(l.fn)+"|record initialised like its siblings", p.Pos(l.al.Pos()), fmt.Sprintf("%d fields set, the same as every other record", len(l.fields)),
			fmt.Sprintf("this record does not set %v, which another place that builds a per-run record does: runs started here silently lack that state", missing))
	}
}

// treeLiteralsNotAddressable (C14.R8, C10.R11): every reflect.Value that package parser makes for the tree is unaddressable by
// construction (reflect.ValueOf / reflect.Zero of a non-pointer). The interpreter hands a literal's Value to the script as it
// is; an addressable one is storage owned by the tree that `s[i] = x`, `&s` and `*p = v` write into: running a tree would then
// change it, and two variables assigned from one literal would share a cell.
func treeLiteralsNotAddressable(p *Program, r *Report, rule string) {
	r.Explain("\"+rule+\" every reflect.Value package parser makes for the tree is unaddressable by construction (reflect.ValueOf / reflect.Zero of a non-pointer): a literal's storage inside the tree can never be written by a running script.")
	sp := p.SSAPkg("parser")
	if sp == nil {
		r.Undecided(rule, "parser", "-", "package parser not loaded")
		return
	}
	n := 0
	isRV := func(t types.Type) bool { return t.String() == "reflect.Value" }
	for _, fn := range SrcFuncs(sp) {
		res := fn.Signature.Results()
		k := 0
		for _, b := range fn.Blocks {
			for _, in := range b.Instrs {
				switch x := in.(type) {
				case *ssa.Return:
					if res.Len() == 0 || !isRV(res.At(0).Type()) || len(x.Results) == 0 {
						continue
					}
					v := x.Results[0]
					if u, ok := v.(*ssa.UnOp); ok {
						if _, isG := u.X.(*ssa.Global); isG {
							continue // package-level values are decided by R5
						}
					}
					k++
					n++
					addr, how := mayBeAddressable(v, 0)
					r.Check(!addr, rule, fmt.Sprintf("%s|value #%d made for the tree", funcName(fn), k), p.Pos(instrPos(x)), "not addressable: "+how,
						"the parser builds a literal's value as "+how+", which is addressable: the literal's storage inside the tree can be written by the running script (s[i] = x on a string from a literal, &s, *p = v), so executing a tree changes it and values copied from one literal share a cell")
				case *ssa.Store:
					if !isRV(x.Val.Type()) {
						continue
					}
					fa, ok := x.Addr.(*ssa.FieldAddr)
					if !ok {
						continue
					}
					c, ok := x.Val.(*ssa.Call)
					if !ok {
						continue
					}
					if o := calleeObj(c); o == nil || o.Pkg() == nil || o.Pkg().Path() != "reflect" {
						continue
					}
					_ = fa
					k++
					n++
					addr, how := mayBeAddressable(c, 0)
					r.Check(!addr, rule, fmt.Sprintf("%s|value #%d made for the tree", funcName(fn), k), p.Pos(instrPos(x)), "not addressable: "+how,
						"a node field is given a value built as "+how+", which is addressable: the running script can write into the tree")
				}
			}
		}
	}
	r.Floor(rule, n, 5)
}

// c14LookupFailure (R9): a failed scope lookup returns the scope package's shared, addressable nil Value next to its error. Where
// vm puts a lookup's result straight into the result cell, the failure edge replaces it before the handler returns, so that the
// process-wide value never becomes a script value (a script could take its address and overwrite nil for every environment).
func c14LookupFailure(p *Program, r *Report) {
	r.Explain("R9 where vm puts a scope lookup's value straight into the result cell, the failure edge replaces it before the handler returns.")
	m, err := buildVMModel(p)
	if err != nil {
		r.Undecided("C14.R9", "model", "vm", err.Error())
		return
	}
	n := 0
	for _, fn := range m.funcsOnRecord() {
		base := m.baseOf(fn)
		k := 0
		for _, b := range fn.Blocks {
			for _, in := range b.Instrs {
				c, ok := in.(*ssa.Call)
				if !ok {
					continue
				}
				callee := staticCallee(c)
				if callee == nil || callee.Pkg == nil || callee.Pkg.Pkg.Path() != modPath+"/env" {
					continue
				}
				res := callee.Signature.Results()
				if res.Len() != 2 || res.At(0).Type().String() != "reflect.Value" || !isErrorType(res.At(1).Type()) {
					continue
				}
				// is result 0 stored into the rv cell?
				var rvStore *ssa.Store
				for _, ref := range *c.Referrers() {
					ex, ok := ref.(*ssa.Extract)
					if !ok || ex.Index != 0 {
						continue
					}
					for _, r2 := range *ex.Referrers() {
						if st, ok := r2.(*ssa.Store); ok && m.cellAddr(st.Addr, base) == "rv" {
							rvStore = st
						}
					}
				}
				if rvStore == nil {
					continue
				}
				k++
				n++
				// the failure edge: the first test of the err cell / the error result against nil after the call
				blk := rvStore.Block()
				iff, ok := blk.Instrs[len(blk.Instrs)-1].(*ssa.If)
				bad := "the lookup's error is not tested right after the call"
				if ok {
					if bo, ok := iff.Cond.(*ssa.BinOp); ok && isNilConst(bo.Y) && (bo.Op == token.NEQ || bo.Op == token.EQL) {
						fail := blk.Succs[0]
						if bo.Op == token.EQL {
							fail = blk.Succs[1]
						}
						bad = ""
						seen := map[*ssa.BasicBlock]bool{}
						var visit func(x *ssa.BasicBlock)
						visit = func(x *ssa.BasicBlock) {
							if seen[x] || bad != "" {
								return
							}
							seen[x] = true
							for _, in2 := range x.Instrs {
								if st, ok := in2.(*ssa.Store); ok && m.cellAddr(st.Addr, base) == "rv" {
									return
								}
								if _, ok := in2.(*ssa.Return); ok {
									bad = "on the failure edge the handler returns at " + p.Pos(instrPos(in2)) + " with the lookup's value still in the result cell"
									return
								}
							}
							for _, s2 := range x.Succs {
								visit(s2)
							}
						}
						visit(fail)
					}
				}
				r.Check(bad == "", "C14.R9", fmt.Sprintf("%s|%s result #%d replaced on failure", funcName(fn), callee.Name(), k), p.Pos(c.Pos()), "the failure edge stores another value into the result cell before returning",
					bad+": a failed lookup hands out the scope package's shared addressable nil Value, which a script can then take the address of and overwrite for every environment in the process")
			}
		}
	}
	r.Floor("C14.R9", n, 2)
}

// c14CapturedWrites (R10): a function literal that package vm turns into a function value (reflect.MakeFunc, reflect.ValueOf,
// what a script holds as a function) can be called by several executions at once. It therefore writes nothing it captured from
// the function that created it: such storage exists once per function value, not once per call, and two overlapping calls would
// overwrite each other's data (arguments of one run arriving in another).
func c14CapturedWrites(p *Program, r *Report) {
	sp := p.SSAPkg("vm")
	if sp == nil {
		return
	}
	// function literals that escape as function values
	esc := map[*ssa.Function]bool{}
	for _, fn := range SrcFuncs(sp) {
		for _, b := range fn.Blocks {
			for _, in := range b.Instrs {
				c, ok := in.(*ssa.Call)
				if !ok {
					continue
				}
				o := calleeObj(c)
				if o == nil || o.Pkg() == nil || o.Pkg().Path() != "reflect" || (o.Name() != "MakeFunc" && o.Name() != "ValueOf") {
					continue
				}
				for _, a := range c.Call.Args {
					if mi, ok := a.(*ssa.MakeInterface); ok {
						a = mi.X
					}
					if mc, ok := a.(*ssa.MakeClosure); ok {
						if f, ok := mc.Fn.(*ssa.Function); ok {
							esc[f] = true
						}
					}
				}
			}
		}
	}
	// closures called by an escaping closure run under the same conditions
	for changed := true; changed; {
		changed = false
		for f := range esc {
			for _, b := range f.Blocks {
				for _, in := range b.Instrs {
					if c, ok := in.(*ssa.Call); ok {
						if g := calleeValueFunc(c); g != nil && g.Parent() != nil && !esc[g] && g.Pkg == sp {
							esc[g] = true
							changed = true
						}
					}
				}
			}
		}
	}
	var fs []*ssa.Function
	for f := range esc {
		fs = append(fs, f)
	}
	sort.Slice(fs, func(i, j int) bool { return funcName(fs[i]) < funcName(fs[j]) })
	// rootsAtCapture: the address derives from a captured variable
	var rootsAtCapture func(v ssa.Value, d int) bool
	rootsAtCapture = func(v ssa.Value, d int) bool {
		if d > 8 {
			return false
		}
		switch x := v.(type) {
		case *ssa.FreeVar:
			return true
		case *ssa.UnOp:
			return rootsAtCapture(x.X, d+1)
		case *ssa.IndexAddr:
			return rootsAtCapture(x.X, d+1)
		case *ssa.FieldAddr:
			return rootsAtCapture(x.X, d+1)
		case *ssa.Slice:
			return rootsAtCapture(x.X, d+1)
		}
		return false
	}
	for _, f := range fs {
		bad := ""
		for _, b := range f.Blocks {
			for _, in := range b.Instrs {
				switch x := in.(type) {
				case *ssa.Store:
					if rootsAtCapture(x.Addr, 0) {
						bad = "it stores into captured storage at " + p.Pos(instrPos(x))
					}
				case *ssa.MapUpdate:
					if rootsAtCapture(x.Map, 0) {
						bad = "it updates a captured map at " + p.Pos(instrPos(x))
					}
				}
			}
		}
		r.Check(bad == "", "C14.R10", funcName(f)+"|writes nothing it captured", p.Pos(f.Pos()), "reads its captured variables only",
			bad+": that storage exists once per function value, so two executions calling the same function value at the same time (a shared library scope, a host-defined function) overwrite each other's data")
	}
	r.Floor("C14.R10", len(fs), 3)
}

// initOracle returns a predicate: the function runs only during package initialisation (an init function, a function
// nested in one, or an unexported helper that only such functions call and that is never used as a value).
func initOracle(p *Program) func(fn *ssa.Function) bool {
	// static callers, to recognise helpers that only package initialisers call
	callers := map[*ssa.Function][]*ssa.Function{}
	usedAsValue := map[*ssa.Function]bool{}
	for _, sp := range p.SSAPkgs {
		for _, fn := range SrcFuncs(sp) {
			for _, b := range fn.Blocks {
				for _, in := range b.Instrs {
					if c, ok := in.(ssa.CallInstruction); ok {
						if callee := staticCallee(c); callee != nil {
							callers[callee] = append(callers[callee], fn)
						}
					}
					for _, op := range in.Operands(nil) {
						if f, ok := (*op).(*ssa.Function); ok {
							if c, isCall := in.(ssa.CallInstruction); !isCall || c.Common().Value != ssa.Value(f) {
								usedAsValue[f] = true
							}
						}
					}
				}
			}
		}
	}
	var isInit func(fn *ssa.Function) bool
	initMemo := map[*ssa.Function]int{}
	isInit = func(fn *ssa.Function) bool {
		for f := fn; f != nil; f = f.Parent() {
			if f.Name() == "init" || strings.HasPrefix(f.Name(), "init#") {
				return true
			}
		}
		if v, ok := initMemo[fn]; ok {
			return v == 1
		}
		initMemo[fn] = 2 // in progress: treated as not-init for cycles
		ok := fn.Parent() == nil && fn.Object() != nil && !fn.Object().Exported() && !usedAsValue[fn] && len(callers[fn]) > 0
		if ok {
			for _, c := range callers[fn] {
				if !isInit(c) {
					ok = false
				}
			}
		}
		if ok {
			initMemo[fn] = 1
		}
		return ok
	}
	return isInit
}
