package main

import (
	"fmt"
	"go/constant"
	"go/token"
	"go/types"
	"sort"
	"strings"

	"golang.org/x/tools/go/ssa"
)

func init() { register("C05", "arithmetic follows the int64/float64/string tower exactly", checkC05) }

var opToken = map[string]token.Token{"+": token.ADD, "-": token.SUB, "|": token.OR, "*": token.MUL, "/": token.QUO, "%": token.REM,
	"<<": token.SHL, ">>": token.SHR, "&": token.AND, "<": token.LSS, "<=": token.LEQ, ">": token.GTR, ">=": token.GEQ, "^": token.XOR}

// numProjection: v is the numeric reading of a reflect.Value: toInt64(x) / toFloat64(x) / x.Int() / x.Float() (through uint64/int conversions).
// Returns the kind of projection and the reflect.Value it reads.
func (m *vmModel) numProjection(v ssa.Value, depth int) (string, ssa.Value, bool) {
	if depth > 4 {
		return "", nil, false
	}
	switch x := v.(type) {
	case *ssa.Convert:
		k, src, ok := m.numProjection(x.X, depth+1)
		if ok {
			return k + "→" + types.TypeString(x.Type(), nil), src, true
		}
	case *ssa.Call:
		switch reflectMethod(x) {
		case "Int":
			return "int", x.Call.Args[0], true
		case "Float":
			return "float", x.Call.Args[0], true
		}
		if callee := staticCallee(x); callee != nil && callee.Pkg == m.sp && len(x.Call.Args) == 1 && isReflectValue(x.Call.Args[0].Type()) && callee.Signature.Results().Len() == 1 {
			switch t := callee.Signature.Results().At(0).Type().(type) {
			case *types.Basic:
				switch t.Kind() {
				case types.Int64:
					return "int", x.Call.Args[0], true
				case types.Float64:
					return "float", x.Call.Args[0], true
				}
			}
		}
	}
	return "", nil, false
}

// operandField: which operand of the node does the reflect.Value v come from (the field evaluated by the last event before the rv load v derives from).
func operandField(m *vmModel, va *evalAnalysis, fn *ssa.Function, v ssa.Value, depth int) string {
	if depth > 8 {
		return ""
	}
	base := m.baseOf(fn)
	switch x := v.(type) {
	case *ssa.UnOp:
		if m.cellAddr(x.X, base) == "rv" {
			best := ""
			var bestEv *evalEvent
			for _, e := range va.events[fn] {
				if e.role == "let" || !instrDominates(e.call, x) {
					continue
				}
				if bestEv == nil || instrDominates(bestEv.call, e.call) {
					bestEv = e
				}
			}
			if bestEv != nil && len(bestEv.operands) == 1 {
				f, _, _ := fieldOfPath(bestEv.operands[0])
				best = f
			}
			return best
		}
		if al, ok := x.X.(*ssa.Alloc); ok {
			for _, ref := range *al.Referrers() {
				if st, ok := ref.(*ssa.Store); ok && st.Addr == ssa.Value(al) {
					if f := operandField(m, va, fn, st.Val, depth+1); f != "" {
						return f
					}
				}
			}
		}
	case *ssa.Phi:
		res := ""
		for _, e := range x.Edges {
			f := operandField(m, va, fn, e, depth+1)
			if f == "" {
				continue
			}
			if res == "" {
				res = f
			} else if res != f {
				return "mixed"
			}
		}
		return res
	case *ssa.Call:
		if reflectMethod(x) == "Elem" {
			return operandField(m, va, fn, x.Call.Args[0], depth+1)
		}
	}
	return ""
}

// operatorCaseOf: the operator string of the nearest `node.Operator == "s"` true edge dominating b.
var operatorCaseCache = map[*ssa.Function]map[*ssa.BasicBlock][]string{}

// operatorCasesOf: the operator strings for which block b is reachable, evaluated outright: every comparison of the function
// between a string and a string constant is decided as if the operator were s, for each constant s in turn (and once for an
// operator that equals none of them). `case ">>", "<<":` with an inner `if op == ">>"` is read like two separate cases.
func operatorCasesOf(b *ssa.BasicBlock) []string {
	fn := b.Parent()
	if c, ok := operatorCaseCache[fn]; ok {
		return c[b]
	}
	var atoms []*ssa.BinOp
	consts := map[string]bool{}
	for _, bb := range fn.Blocks {
		for _, in := range bb.Instrs {
			bo, ok := in.(*ssa.BinOp)
			if !ok || (bo.Op != token.EQL && bo.Op != token.NEQ) {
				continue
			}
			c, ok := bo.Y.(*ssa.Const)
			if !ok || c.Value == nil || c.Value.Kind() != constant.String {
				continue
			}
			// the subject is the operator of the node: a load of a string field
			if u, ok := bo.X.(*ssa.UnOp); ok {
				if _, ok := u.X.(*ssa.FieldAddr); ok {
					atoms = append(atoms, bo)
					consts[constant.StringVal(c.Value)] = true
				}
			}
		}
	}
	out := map[*ssa.BasicBlock][]string{}
	var names []string
	for s := range consts {
		names = append(names, s)
	}
	sort.Strings(names)
	for _, s := range names {
		world := map[ssa.Value]bool{}
		for _, a := range atoms {
			eq := constant.StringVal(a.Y.(*ssa.Const).Value) == s
			if a.Op == token.NEQ {
				eq = !eq
			}
			world[a] = eq
		}
		for bb := range worldReach(fn, world) {
			out[bb] = append(out[bb], s)
		}
	}
	operatorCaseCache[fn] = out
	return out[b]
}

// operatorCaseOf: the one operator string under whose case block b stands ("" when it stands under none or under several).
func operatorCaseOf(b *ssa.BasicBlock) string {
	cs := operatorCasesOf(b)
	if len(cs) == 1 {
		return cs[0]
	}
	return ""
}

func checkC05(p *Program, r *Report) {
	r.Explain("C05: numerical results are runtime values; decided are the structural necessary conditions. " +
		"R1 the operator computed is the operator written: in the add / multiply / comparison / unary handlers every arithmetic or ordering instruction on numeric readings of the operands (toInt64, toFloat64, Value.Int, Value.Float) carries the Go operator of the `case \"op\"` it stands under, reads its left side from the left operand and its right side from the right operand, uses the same reading on both sides, float64 for `/`, and an unsigned conversion of the shift count. " +
		"R2 every ordering operator has an exact integer path (Value.Int on both sides) taken when both operands are signed integers, and its float64 path only otherwise. " +
		"R3 the small-integer cache is transparent: array length = max-min+1, entry i-min holds ValueOf(int64(i)) for every i in [min,max], the lookup indexes v-min only under min <= v <= max and otherwise boxes v itself. " +
		"R4 every integer division/remainder is dominated by a zero test of the divisor whose zero edge raises an error. " +
		"R11 `+ - *` are carried out in float64 as soon as one operand is a float: the add / multiply handlers are evaluated outright for every pair of operand kinds (booleans, numbers, strings) with a float operand - operator string and kind tests decided, pure functions over kinds interpreted - and the int64 computation must be unreachable (`+` with a string and `*` with a string on the left have their own meaning and are left out). " +
		"R5 string conversion of operands for `+` goes through Go's default formatting only (fmt.Sprint), no second formatter.")
	r.Assume("which of the int/float/string branches is chosen for a pair of kinds, and toInt64/toFloat64 agreeing with Go's conversions for every value, are value-level and not decided; wrap-around is Go's")
	m, err := buildVMModel(p)
	if err != nil {
		r.Undecided("C05.R1", "model", "vm", err.Error())
		return
	}
	va := buildEvalAnalysis(m)
	handlers := map[string]*ssa.Function{}
	for _, k := range []string{"AddOperator", "MultiplyOperator", "ComparisonOperator"} {
		handlers[k] = m.handlers["op"][k]
	}
	handlers["UnaryExpr"] = m.handlers["expr"]["UnaryExpr"]
	nOps := 0
	seenOps := map[string]map[string]bool{}
	for _, kind := range []string{"AddOperator", "MultiplyOperator", "ComparisonOperator", "UnaryExpr"} {
		h := handlers[kind]
		if h == nil {
			r.Undecided("C05.R1", kind, "vm", "handler not found")
			continue
		}
		seenOps[kind] = map[string]bool{}
		cnt := map[string]int{}
		for _, b := range h.Blocks {
			for _, in := range b.Instrs {
				site := p.Pos(instrPos(in))
				switch x := in.(type) {
				case *ssa.BinOp:
					if _, isArith := map[token.Token]bool{token.ADD: true, token.SUB: true, token.MUL: true, token.QUO: true, token.REM: true, token.AND: true, token.OR: true, token.XOR: true, token.SHL: true, token.SHR: true, token.LSS: true, token.LEQ: true, token.GTR: true, token.GEQ: true}[x.Op]; !isArith {
						continue
					}
					kx, vx, okx := m.numProjection(x.X, 0)
					ky, vy, oky := m.numProjection(x.Y, 0)
					if !okx && !oky {
						continue
					}
					op := operatorCaseOf(b)
					if op == "" {
						continue
					}
					nOps++
					seenOps[kind][op+":"+strings.SplitN(kx, "→", 2)[0]] = true
					key := fmt.Sprintf("%s|case %q|%s %s", kind, op, strings.SplitN(kx, "→", 2)[0], x.Op)
					cnt[key]++
					inst := key
					if cnt[key] > 1 {
						inst = fmt.Sprintf("%s #%d", key, cnt[key])
					}
					want, known := opToken[op]
					if !known {
						continue
					}
					// comparisons with constants inside a case (count < 0, rhs == 0) are guards, not the operator
					if _, isC := x.Y.(*ssa.Const); isC {
						nOps--
						continue
					}
					bad := ""
					switch {
					case x.Op != want:
						bad = fmt.Sprintf("case %q computes `%s`", op, x.Op)
					case !okx || !oky:
						bad = "one side is not a numeric reading of an operand"
					case strings.SplitN(kx, "→", 2)[0] != strings.SplitN(ky, "→", 2)[0]:
						bad = "the two sides use different numeric readings (" + kx + " vs " + ky + ")"
					case op == "/" && !strings.HasPrefix(kx, "float"):
						bad = "`/` is not computed in float64"
					case (op == "<<" || op == ">>") && !strings.Contains(ky, "uint"):
						bad = "the shift count is not taken as unsigned"
					case strings.Contains(kx, "→"):
						bad = "the left operand is converted (" + kx + ") before the operator is applied: the result is not the one Go computes on int64/float64 (a right shift of a negative number becomes logical, for instance)"
					case strings.Contains(ky, "→") && op != "<<" && op != ">>":
						bad = "the right operand is converted (" + ky + ") before the operator is applied"
					default:
						fl, fr := operandField(m, va, h, vx, 0), operandField(m, va, h, vy, 0)
						if fl != "" && fr != "" && fl != "mixed" && fr != "mixed" {
							if before, ok := m.nm.Before(kind, fr, fl); ok && before {
								bad = fmt.Sprintf("operands are swapped: the left side reads %s, the right side %s", fl, fr)
							}
							if fl == fr {
								bad = "both sides read the same operand (" + fl + ")"
							}
						}
					}
					r.Check(bad == "", "C05.R1", inst, site, fmt.Sprintf("%s on %s readings of left and right operand", x.Op, strings.SplitN(kx, "→", 2)[0]), bad)
				case *ssa.UnOp:
					if x.Op != token.SUB && x.Op != token.XOR {
						continue
					}
					kx, _, okx := m.numProjection(x.X, 0)
					if !okx {
						continue
					}
					op := operatorCaseOf(b)
					if op == "" {
						continue
					}
					nOps++
					seenOps[kind][op+":"+kx] = true
					key := fmt.Sprintf("%s|unary case %q|%s %s", kind, op, kx, x.Op)
					cnt[key]++
					inst := key
					if cnt[key] > 1 {
						inst = fmt.Sprintf("%s #%d", key, cnt[key])
					}
					r.Check(opToken[op] == x.Op, "C05.R1", inst, site, "unary "+x.Op.String()+" on a numeric reading", fmt.Sprintf("unary case %q computes `%s`", op, x.Op))
				}
			}
		}
	}
	r.Floor("C05.R1", nOps, 25)
	// every operator of the statement has an implementation in its handler
	want := map[string][]string{"AddOperator": {"+:int", "+:float", "-:int", "-:float", "|:int"}, "MultiplyOperator": {"*:int", "*:float", "/:float", "%:int", "<<:int", ">>:int", "&:int"},
		"ComparisonOperator": {"<:int", "<:float", "<=:int", "<=:float", ">:int", ">:float", ">=:int", ">=:float"}, "UnaryExpr": {"-:int", "-:float", "^:int"}}
	var kinds []string
	for k := range want {
		kinds = append(kinds, k)
	}
	sort.Strings(kinds)
	for _, k := range kinds {
		for _, w := range want[k] {
			what := "an exact int64 path"
			if strings.HasSuffix(w, "float") {
				what = "a float64 path"
			}
			r.Check(seenOps[k][w], "C05.R2", k+"|has "+w, "vm", "operator "+strings.SplitN(w, ":", 2)[0]+" has "+what, "operator "+strings.SplitN(w, ":", 2)[0]+" has no "+strings.TrimPrefix(what, "a")+": results are computed in the other numeric domain (precision/wrap-around differ from Go's int64/float64)")
		}
	}
	// R2: integer comparisons under isIntKind(lhs) && isIntKind(rhs)
	if h := handlers["ComparisonOperator"]; h != nil {
		for _, b := range h.Blocks {
			for _, in := range b.Instrs {
				x, ok := in.(*ssa.BinOp)
				if !ok {
					continue
				}
				kx, _, okx := m.numProjection(x.X, 0)
				if !okx || operatorCaseOf(b) == "" {
					continue
				}
				if _, isC := x.Y.(*ssa.Const); isC {
					continue
				}
				nInt := intKindGuards(m, b, true)
				nNot := intKindGuards(m, b, false)
				inst := fmt.Sprintf("ComparisonOperator|case %q|%s guard", operatorCaseOf(b), kx)
				if kx == "int" {
					r.Check(nInt >= 2, "C05.R2", inst, p.Pos(x.Pos()), "integer comparison taken only when both operands are signed integers", "the exact integer comparison is not guarded by 'both operands are integers'")
				} else {
					r.Check(nNot >= 1, "C05.R2", inst, p.Pos(x.Pos()), "float comparison taken only when an operand is not an integer", "integers can be compared through float64 (distinct values beyond 2^53 compare equal)")
				}
			}
		}
	}
	c05FloatDomain(p, r, m, va, handlers)
	c05Cache(p, r, m)
	c05DivZero(p, r, m)
	c05ToString(p, r, m)
	c05ConverterSiblings(p, r, m)
	wrapperKindsAgree(p, r, m, "C05.R6")
	c05NoIdentityShortcut(p, r, m)
	c05UnaryStaysInteger(p, r, m)
	r.Explain("R10 the integer converters read a value of an integer kind with the exact accessors: for each integer kind, with the function's kind tests decided, no float conversion and no float-valued helper is reachable.")
	c05IntegersReadExactly(p, r, m)
	c05KindSwitchComplete(p, r, m)
	accessorKindAgreement(p, r, m, "C05.R8")
}

// intKindGuards counts dominating edges `isIntKind(x)` (wantTrue) / its negation that control block b.
func intKindGuards(m *vmModel, b *ssa.BasicBlock, wantTrue bool) int {
	n := 0
	for d := b; d != nil; d = d.Idom() {
		id := d.Idom()
		if id == nil {
			break
		}
		iff, ok := id.Instrs[len(id.Instrs)-1].(*ssa.If)
		if !ok {
			continue
		}
		c, ok := iff.Cond.(*ssa.Call)
		if !ok {
			continue
		}
		callee := staticCallee(c)
		if callee == nil || callee.Pkg != m.sp || !isIntKindFunc(callee) {
			continue
		}
		onTrue := edgeOnly(id, 0, d)
		onFalse := edgeOnly(id, 1, d)
		if wantTrue && onTrue && !onFalse {
			n++
		}
		if !wantTrue && onFalse && !onTrue {
			n++
		}
	}
	if !wantTrue && n == 0 {
		// the else-branch of `a && b`: reached from the false edge of either test (not dominated by a single one)
		for _, pr := range b.Preds {
			if iff, ok := pr.Instrs[len(pr.Instrs)-1].(*ssa.If); ok && pr.Succs[1] == b {
				if c, ok := iff.Cond.(*ssa.Call); ok {
					if callee := staticCallee(c); callee != nil && isIntKindFunc(callee) {
						n++
					}
				}
			}
		}
	}
	return n
}

// isIntKindFunc: func(reflect.Value) bool that returns true exactly for the signed integer kinds (checked by folding).
func isIntKindFunc(fn *ssa.Function) bool {
	if fn.Signature.Params().Len() != 1 || fn.Signature.Results().Len() != 1 || !isReflectValue(fn.Signature.Params().At(0).Type()) {
		return false
	}
	// all `Kind() == K` tests whose true edge returns true must be for K in Int..Int64, and all five must be present
	kinds := map[int64]bool{}
	for _, b := range fn.Blocks {
		for _, in := range b.Instrs {
			if bo, ok := in.(*ssa.BinOp); ok && bo.Op == token.EQL {
				if kc, ok := bo.X.(*ssa.Call); ok && reflectMethod(kc) == "Kind" {
					if c, ok := bo.Y.(*ssa.Const); ok {
						kinds[c.Int64()] = true
					}
				}
			}
		}
	}
	if len(kinds) != 5 {
		return false
	}
	for k := int64(2); k <= 6; k++ {
		if !kinds[k] {
			return false
		}
	}
	return true
}

// c05FloatBoxes (R3): a function of vm that boxes a float (func(float) reflect.Value) returns reflect.ValueOf of that very float on
// every path. A shared value picked by a comparison cannot stand in for it: == does not distinguish -0 from +0.
func c05FloatBoxes(p *Program, r *Report, m *vmModel) {
	r.Explain("R3 also: a func(float) reflect.Value of vm returns reflect.ValueOf of that very float on every path.")
	n := 0
	for _, fn := range m.fns {
		sig := fn.Signature
		if sig.Params().Len() != 1 || sig.Results().Len() != 1 || !isReflectValue(sig.Results().At(0).Type()) || len(fn.Blocks) == 0 || sig.Recv() != nil {
			continue
		}
		bt, ok := sig.Params().At(0).Type().(*types.Basic)
		if !ok || bt.Info()&types.IsFloat == 0 {
			continue
		}
		n++
		bad := ""
		for _, b := range fn.Blocks {
			ret, ok := b.Instrs[len(b.Instrs)-1].(*ssa.Return)
			if !ok {
				continue
			}
			okRet := false
			if c, ok := ret.Results[0].(*ssa.Call); ok && isFuncNamed(calleeObj(c), "reflect", "", "ValueOf") {
				if mi, ok := c.Call.Args[0].(*ssa.MakeInterface); ok && mi.X == ssa.Value(fn.Params[0]) {
					okRet = true
				}
			}
			if !okRet {
				bad = "the return at " + p.Pos(instrPos(ret)) + " yields something else than reflect.ValueOf of the number given"
			}
		}
		r.Check(bad == "", "C05.R3", funcName(fn)+"|boxes the float itself", p.Pos(fn.Pos()), "every return is reflect.ValueOf(v)",
			bad+": a float result is replaced by a stand-in chosen by comparison, and -0 == 0 (so 0.0 * -1 becomes +0 and 1 / it +Inf instead of -Inf)")
	}
	if n == 0 {
		r.Undecided("C05.R3", "float box", "vm", "no func(float) reflect.Value helper found in package vm")
	}
}

func c05Cache(p *Program, r *Report, m *vmModel) {
	c05FloatBoxes(p, r, m)
	// the lookup: func(int64) reflect.Value indexing a package-level array of reflect.Value
	var lookup *ssa.Function
	var arr *ssa.Global
	for _, fn := range m.fns {
		if fn.Signature.Params().Len() != 1 || fn.Signature.Results().Len() != 1 || !isReflectValue(fn.Signature.Results().At(0).Type()) {
			continue
		}
		if b, ok := fn.Signature.Params().At(0).Type().(*types.Basic); !ok || b.Kind() != types.Int64 {
			continue
		}
		for _, b := range fn.Blocks {
			for _, in := range b.Instrs {
				if ia, ok := in.(*ssa.IndexAddr); ok {
					if g, ok := ia.X.(*ssa.Global); ok {
						lookup, arr = fn, g
					}
				}
			}
		}
	}
	if lookup == nil {
		r.Undecided("C05.R3", "int64Value", "vm", "small-integer cache lookup not found")
		return
	}
	site := p.Pos(lookup.Pos())
	at, ok := derefType(arr.Type()).Underlying().(*types.Array)
	if !ok {
		r.Undecided("C05.R3", "cache", site, "cache is not an array")
		return
	}
	// lookup: guards v >= lo && v <= hi, index v - lo
	var lo, hi, off *int64
	var idx *ssa.IndexAddr
	for _, b := range lookup.Blocks {
		for _, in := range b.Instrs {
			switch x := in.(type) {
			case *ssa.BinOp:
				if x.X == ssa.Value(lookup.Params[0]) {
					if c, ok := x.Y.(*ssa.Const); ok {
						v := c.Int64()
						switch x.Op {
						case token.GEQ:
							lo = &v
						case token.LEQ:
							hi = &v
						case token.GTR:
							v2 := v + 1
							lo = &v2
						case token.LSS:
							v2 := v - 1
							hi = &v2
						case token.SUB:
							off = &v
						}
					}
				}
			case *ssa.IndexAddr:
				idx = x
			}
		}
	}
	bad := ""
	switch {
	case lo == nil || hi == nil || off == nil || idx == nil:
		bad = "cannot find the range test and the index expression of the cache lookup"
	case *off != *lo:
		bad = fmt.Sprintf("the lookup indexes v-(%d) but tests v >= %d: it returns the entry of another number", *off, *lo)
	case at.Len() != *hi-*lo+1:
		bad = fmt.Sprintf("the cache has %d entries but the lookup accepts %d..%d", at.Len(), *lo, *hi)
	default:
		// index only under both guards
		if !(dominatedByCmp(idx.Block(), lookup.Params[0], token.GEQ, *lo) && dominatedByCmp(idx.Block(), lookup.Params[0], token.LEQ, *hi)) {
			bad = "the cache is indexed without the range test"
		}
		// the other return boxes v itself
		okBox := false
		for _, b := range lookup.Blocks {
			if ret, ok := b.Instrs[len(b.Instrs)-1].(*ssa.Return); ok {
				if c, ok := ret.Results[0].(*ssa.Call); ok {
					if o := calleeObj(c); o != nil && isFuncNamed(o, "reflect", "", "ValueOf") && stripConv(c.Call.Args[0]) == ssa.Value(lookup.Params[0]) {
						okBox = true
					}
				}
			}
		}
		if !okBox && bad == "" {
			bad = "values outside the cache are not boxed unchanged"
		}
	}
	r.Check(bad == "", "C05.R3", funcName(lookup)+"|lookup", site, fmt.Sprintf("entries for %d..%d, index v-%d under the range test, other values boxed", deref64(lo), deref64(hi), deref64(off)), bad)
	// the fill loop
	okFill, why := false, "the loop filling the cache was not found"
	for _, fn := range m.fns {
		if !strings.HasPrefix(fn.Name(), "init") {
			continue
		}
		for _, b := range fn.Blocks {
			for _, in := range b.Instrs {
				st, ok := in.(*ssa.Store)
				if !ok {
					continue
				}
				ia, ok := st.Addr.(*ssa.IndexAddr)
				if !ok || ia.X != ssa.Value(arr) {
					continue
				}
				// index = i - lo ; value = ValueOf(int64(i))
				bo, ok := ia.Index.(*ssa.BinOp)
				if !ok || bo.Op != token.SUB {
					why = "entries are not stored at i-min"
					continue
				}
				c, _ := bo.Y.(*ssa.Const)
				phi, _ := bo.X.(*ssa.Phi)
				if c == nil || phi == nil || lo == nil || c.Int64() != *lo {
					why = "entries are not stored at i-min"
					continue
				}
				vc, ok := st.Val.(*ssa.Call)
				if !ok {
					why = "entries are not reflect.ValueOf(int64(i))"
					continue
				}
				if o := calleeObj(vc); o == nil || !isFuncNamed(o, "reflect", "", "ValueOf") {
					why = "entries are not reflect.ValueOf(int64(i))"
					continue
				}
				arg := stripConv(vc.Call.Args[0])
				if cv, ok := arg.(*ssa.Convert); ok {
					arg = cv.X
				}
				if arg != ssa.Value(phi) {
					why = "entry i-min does not hold the value i"
					continue
				}
				// loop bounds
				initOK, stepOK, boundOK := false, false, false
				for _, e := range phi.Edges {
					if k, ok := e.(*ssa.Const); ok && k.Int64() == *lo {
						initOK = true
					}
					if b2, ok := e.(*ssa.BinOp); ok && b2.Op == token.ADD && b2.X == ssa.Value(phi) {
						if k, ok := b2.Y.(*ssa.Const); ok && k.Int64() == 1 {
							stepOK = true
						}
					}
				}
				for _, ref := range *phi.Referrers() {
					if b2, ok := ref.(*ssa.BinOp); ok && b2.X == ssa.Value(phi) {
						if k, ok := b2.Y.(*ssa.Const); ok && hi != nil {
							if (b2.Op == token.LEQ && k.Int64() == *hi) || (b2.Op == token.LSS && k.Int64() == *hi+1) {
								boundOK = true
							}
						}
					}
				}
				if initOK && stepOK && boundOK {
					okFill = true
				} else {
					why = "the fill loop does not run over exactly min..max"
				}
			}
		}
	}
	r.Check(okFill, "C05.R3", "init|fill", site, "entry i-min = ValueOf(int64(i)) for i = min..max", why)
}

func deref64(p *int64) int64 {
	if p == nil {
		return 0
	}
	return *p
}

// dominatedByCmp: block b is dominated by the true edge of `v op k`.
func dominatedByCmp(b *ssa.BasicBlock, v ssa.Value, op token.Token, k int64) bool {
	for d := b; d != nil; d = d.Idom() {
		id := d.Idom()
		if id == nil {
			return false
		}
		iff, ok := id.Instrs[len(id.Instrs)-1].(*ssa.If)
		if !ok {
			continue
		}
		bo, ok := iff.Cond.(*ssa.BinOp)
		if !ok || bo.X != v || bo.Op != op {
			continue
		}
		c, ok := bo.Y.(*ssa.Const)
		if !ok || c.Int64() != k {
			continue
		}
		if edgeOnly(id, 0, d) {
			return true
		}
	}
	return false
}

func c05DivZero(p *Program, r *Report, m *vmModel) {
	n := 0
	for _, fn := range m.fns {
		base := m.baseOf(fn)
		for _, b := range fn.Blocks {
			for _, in := range b.Instrs {
				x, ok := in.(*ssa.BinOp)
				if !ok || (x.Op != token.REM && x.Op != token.QUO) {
					continue
				}
				bt, ok := x.X.Type().Underlying().(*types.Basic)
				if !ok || bt.Info()&types.IsInteger == 0 {
					continue
				}
				if _, isConst := x.Y.(*ssa.Const); isConst {
					continue
				}
				n++
				inst := fmt.Sprintf("%s|integer %s", funcName(fn), x.Op)
				okG := false
				for d := b; d != nil; d = d.Idom() {
					id := d.Idom()
					if id == nil {
						break
					}
					iff, ok := id.Instrs[len(id.Instrs)-1].(*ssa.If)
					if !ok {
						continue
					}
					c, ok := iff.Cond.(*ssa.BinOp)
					if !ok || c.X != x.Y || !isZeroConst(c.Y) {
						continue
					}
					var zeroSucc, other *ssa.BasicBlock
					if c.Op == token.EQL {
						zeroSucc, other = id.Succs[0], id.Succs[1]
					} else if c.Op == token.NEQ {
						zeroSucc, other = id.Succs[1], id.Succs[0]
					} else {
						continue
					}
					if !(other == d || other.Dominates(d)) {
						continue
					}
					// the zero edge stores an error and returns
					storesErr := false
					for _, in2 := range zeroSucc.Instrs {
						if st, ok := in2.(*ssa.Store); ok && base != nil && m.cellAddr(st.Addr, base) == "err" && !isNilConst(st.Val) {
							storesErr = true
						}
					}
					_, returns := zeroSucc.Instrs[len(zeroSucc.Instrs)-1].(*ssa.Return)
					if storesErr && returns {
						okG = true
					}
				}
				r.Check(okG, "C05.R4", inst, p.Pos(x.Pos()), "divisor tested against zero, the zero edge raises an error", "integer "+x.Op.String()+" without a zero test of the divisor that raises an error")
			}
		}
	}
	r.Floor("C05.R4", n, 1)
}

func c05ToString(p *Program, r *Report, m *vmModel) {
	// the string reading used by `+`: func(reflect.Value) string called in the add handler
	h := m.handlers["op"]["AddOperator"]
	if h == nil {
		return
	}
	var toStr *ssa.Function
	for _, b := range h.Blocks {
		for _, in := range b.Instrs {
			if c, ok := in.(*ssa.Call); ok {
				if callee := staticCallee(c); callee != nil && callee.Pkg == m.sp && callee.Signature.Params().Len() == 1 && isReflectValue(callee.Signature.Params().At(0).Type()) && callee.Signature.Results().Len() == 1 {
					if bt, ok := callee.Signature.Results().At(0).Type().(*types.Basic); ok && bt.Kind() == types.String {
						toStr = callee
					}
				}
			}
		}
	}
	if toStr == nil {
		r.Undecided("C05.R5", "toString", "vm", "string reading of operands not found")
		return
	}
	bad := ""
	sprint := false
	for _, b := range toStr.Blocks {
		for _, in := range b.Instrs {
			c, ok := in.(*ssa.Call)
			if !ok {
				continue
			}
			if rm := reflectMethod(c); rm != "" {
				continue
			}
			o := calleeObj(c)
			if o != nil && o.Pkg() != nil && o.Pkg().Path() == "fmt" && o.Name() == "Sprint" {
				sprint = true
				continue
			}
			if _, isB := c.Call.Value.(*ssa.Builtin); isB {
				continue
			}
			name := "a function value"
			if o != nil {
				name = o.FullName()
			}
			bad = "operands are also formatted by " + name + ": numbers concatenated to strings are not in Go's default formatting"
		}
	}
	if !sprint && bad == "" {
		bad = "non-string operands are not formatted with fmt.Sprint"
	}
	r.Check(bad == "", "C05.R5", funcName(toStr)+"|default formatting", p.Pos(toStr.Pos()), "strings pass through, everything else is fmt.Sprint of the value", bad)
}

// c05ConverterSiblings (R6): the conversion helpers of the tower (value -> int64 / int / float64 with an error result) are
// siblings: they unwrap pointers and interfaces alike and handle the same set of kinds; a kind handled by one and forgotten by
// another makes the same operand a number in one operator and an error (or zero) in the next.
func c05ConverterSiblings(p *Program, r *Report, m *vmModel) {
	type conv struct {
		fn    *ssa.Function
		kinds map[int64]bool
	}
	var convs []conv
	for _, fn := range m.fns {
		sg := fn.Signature
		if sg.Recv() != nil || sg.Params().Len() != 1 || sg.Results().Len() != 2 || !isReflectValue(sg.Params().At(0).Type()) || !isErrorType(sg.Results().At(1).Type()) || len(fn.Blocks) == 0 {
			continue
		}
		bt, ok := sg.Results().At(0).Type().(*types.Basic)
		if !ok || bt.Info()&types.IsNumeric == 0 {
			continue
		}
		ks := map[int64]bool{}
		for _, b := range fn.Blocks {
			for _, in := range b.Instrs {
				if v, ok := in.(ssa.Value); ok {
					if k, K := kindCmp(v); k != nil {
						ks[K] = true
					}
				}
			}
		}
		convs = append(convs, conv{fn, ks})
	}
	if len(convs) < 2 {
		r.Undecided("C05.R6", "numeric converters", "vm", fmt.Sprintf("expected the family of value -> number converters, found %d", len(convs)))
		return
	}
	sort.Slice(convs, func(i, j int) bool { return convs[i].fn.Name() < convs[j].fn.Name() })
	union := map[int64]bool{}
	for _, c := range convs {
		for k := range c.kinds {
			union[k] = true
		}
	}
	for _, c := range convs {
		var missing []string
		for k := range union {
			if !c.kinds[k] {
				missing = append(missing, kindName(k))
			}
		}
		sort.Strings(missing)
		r.Check(len(missing) == 0, "C05.R6", c.fn.Name()+"|handles the kinds its siblings handle", p.Pos(c.fn.Pos()), fmt.Sprintf("%d kinds, like the other converters", len(c.kinds)),
			fmt.Sprintf("%s does not handle %v, which the other numeric converters do: a value of that kind is a number for one operator and an error (or zero) for another", c.fn.Name(), missing))
	}
}

// wrapperKindsAgree (C05.R6, C07.R4): the value converters of vm (value -> int64 / int / float64 / bool with an error result) look
// through the same wrappers: a kind among {pointer, interface} that one of them tests for (to unwrap) all of them test for. A
// converter that stops looking through pointers makes the same operand truthy for one construct and "not convertible" (false)
// for another: `ptr || f()` then runs f although the result does not depend on it.
func wrapperKindsAgree(p *Program, r *Report, m *vmModel, rule string) {
	type conv struct {
		fn *ssa.Function
		w  map[int64]bool
	}
	var convs []conv
	for _, fn := range m.fns {
		sg := fn.Signature
		if sg.Recv() != nil || sg.Params().Len() != 1 || sg.Results().Len() != 2 || !isReflectValue(sg.Params().At(0).Type()) || !isErrorType(sg.Results().At(1).Type()) || len(fn.Blocks) == 0 {
			continue
		}
		bt, ok := sg.Results().At(0).Type().(*types.Basic)
		if !ok || bt.Info()&(types.IsNumeric|types.IsBoolean) == 0 {
			continue
		}
		w := map[int64]bool{}
		for _, b := range fn.Blocks {
			for _, in := range b.Instrs {
				if v, ok := in.(ssa.Value); ok {
					if k, K := kindCmp(v); k != nil && (K == 20 || K == 22) {
						w[K] = true
					}
					// the negated form of the test (`if k != Ptr { } else { deref }`) looks at the kind all the same
					if bo, ok := v.(*ssa.BinOp); ok && bo.Op == token.NEQ {
						if c, ok := bo.Y.(*ssa.Const); ok && c.Value != nil && bo.X.Type().String() == "reflect.Kind" && (c.Int64() == 20 || c.Int64() == 22) {
							w[c.Int64()] = true
						}
					}
				}
			}
		}
		convs = append(convs, conv{fn, w})
	}
	if len(convs) < 3 {
		r.Undecided(rule, "value converters", "vm", fmt.Sprintf("expected the family of value converters, found %d", len(convs)))
		return
	}
	sort.Slice(convs, func(i, j int) bool { return convs[i].fn.Name() < convs[j].fn.Name() })
	union := map[int64]bool{}
	for _, c := range convs {
		for k := range c.w {
			union[k] = true
		}
	}
	for _, c := range convs {
		var missing []string
		for k := range union {
			if !c.w[k] {
				missing = append(missing, kindName(k))
			}
		}
		sort.Strings(missing)
		r.Check(len(missing) == 0, rule, c.fn.Name()+"|looks through the wrappers its siblings look through", p.Pos(c.fn.Pos()), "pointer and interface, like the other converters",
			fmt.Sprintf("%s does not test for %v, which the other value converters look through: an operand of that kind converts for one construct and is 'not convertible' for another (a pointer to a true value is falsy for && || ?: and if)", c.fn.Name(), missing))
	}
}

// c05NoIdentityShortcut (R7): an arithmetic handler that leaves with one of its operands itself as the result (no operation
// applied) does so only under an equality test of the other operand with a constant (x * 1, s * 1): an order test (count <= 1)
// also takes the neighbouring value, for which the general path gives something else ("ab" * 0 is "", not "ab").
func c05NoIdentityShortcut(p *Program, r *Report, m *vmModel) {
	n := 0
	ea := buildErrAnalysis(m)
	va := buildEvalAnalysis(m)
	for _, kind := range []string{"AddOperator", "MultiplyOperator"} {
		h := m.handlers["op"][kind]
		if h == nil {
			continue
		}
		base := m.baseOf(h)
		var isOperand func(v ssa.Value, d int) bool
		isOperand = func(v ssa.Value, d int) bool {
			if d > 6 {
				return false
			}
			if sv := spilledValue(v); sv != nil {
				v = sv
			}
			switch x := v.(type) {
			case *ssa.UnOp:
				return m.cellAddr(x.X, base) == "rv"
			case *ssa.Phi:
				for _, e := range x.Edges {
					if !isOperand(e, d+1) {
						return false
					}
				}
				return len(x.Edges) > 0
			case *ssa.Call:
				if reflectMethod(x) == "Elem" {
					return isOperand(x.Call.Args[0], d+1)
				}
			}
			return false
		}
		k := 0
		for _, b := range h.Blocks {
			if _, isRet := b.Instrs[len(b.Instrs)-1].(*ssa.Return); !isRet {
				continue
			}
			// the last store to the value cell in a returning block
			var last *ssa.Store
			errSet := false
			for _, in := range b.Instrs {
				if st, ok := in.(*ssa.Store); ok {
					switch m.cellAddr(st.Addr, base) {
					case "rv":
						last = st
					case "err":
						if !isNilConst(st.Val) {
							errSet = true
						}
					}
				}
			}
			n++
			// the operand returned as it is must be known to have a kind of its own: the arm is chosen by the kind the two operands
			// have together (a string next to a number makes the string arm), the returned operand can be the other one
			ownKind := func(v ssa.Value) bool {
				if sv := spilledValue(v); sv != nil {
					v = sv
				}
				for d := b; d != nil && d.Idom() != nil; d = d.Idom() {
					id := d.Idom()
					iff, ok := id.Instrs[len(id.Instrs)-1].(*ssa.If)
					if !ok {
						continue
					}
					if kc, K := kindCmp(iff.Cond); kc != nil && K != 20 && K != 22 && edgeOnly(id, 0, d) {
						if c, ok := kc.(*ssa.Call); ok && reflectMethod(c) == "Kind" {
							recv := c.Call.Args[0]
							if sv := spilledValue(recv); sv != nil {
								recv = sv
							}
							if recv == v || (v == nil && m.cellLoad(recv, base) == "rv") {
								return true
							}
						}
					}
				}
				return false
			}
			if last == nil && !errSet && ea != nil {
				// nothing stored: the value cell still holds the right operand as its evaluation left it
				ret := b.Instrs[len(b.Instrs)-1]
				if st := ea.before[h][ret]; st != nil && st.cell == eNil && evaluatedBefore(va, h, b) {
					k++
					r.Check(ownKind(nil), "C05.R7", fmt.Sprintf("%s|right operand left as the result #%d", kind, k), p.Pos(instrPos(ret)), "under a test of that operand's own kind",
						"the handler returns successfully without computing anything: the right operand itself is the result, whatever its kind (a number next to an empty string stays a number instead of becoming a string)")
				}
				continue
			}
			// a constant as the result of an operator (a boxed literal 0, "" …): a shortcut that replaces the computation; like the
			// identity shortcut below it is sound only for one exact value of an operand, not under an order test or a disjunction
			if last != nil && !errSet && boxedConstant(last.Val) && ea != nil {
				ret := b.Instrs[len(b.Instrs)-1]
				if st := ea.before[h][ret]; st != nil && st.cell == eNil {
					k++
					exactK := false
					for d := b; d != nil && d.Idom() != nil; d = d.Idom() {
						id := d.Idom()
						if iff, ok := id.Instrs[len(id.Instrs)-1].(*ssa.If); ok {
							if bo, ok := iff.Cond.(*ssa.BinOp); ok {
								_, isK := bo.Y.(*ssa.Const)
								bt, isNum := bo.X.Type().(*types.Basic)
								if isK && isNum && bt.Info()&types.IsNumeric != 0 && ((bo.Op == token.EQL && edgeOnly(id, 0, d)) || (bo.Op == token.NEQ && edgeOnly(id, 1, d))) {
									exactK = true
								}
							}
						}
					}
					r.Check(exactK, "C05.R7", fmt.Sprintf("%s|constant result #%d only for one exact operand value", kind, k), p.Pos(instrPos(last)), "under an equality test of an operand's numeric reading with a constant",
						"the handler returns a constant as the result of the operator without computing it, and not under a plain equality test of an operand with a constant: a shortcut chosen by an order test or a disjunction also covers values for which Go's operator gives something else (-8 >> 64 is -1, not 0)")
					continue
				}
			}
			if last == nil || errSet || !isOperand(last.Val, 0) {
				continue
			}
			k++
			if !ownKind(last.Val) {
				r.Fail("C05.R7", fmt.Sprintf("%s|operand returned as the result #%d has the arm's kind", kind, k), p.Pos(instrPos(last)),
					"the handler returns an operand unchanged without having tested that operand's own kind: the arm is chosen by the kind both operands have together, so the operand returned can be the other one (\"\" + 5 gives the number 5, not the string \"5\")")
				continue
			}
			exact := false
			for d := b; d != nil && d.Idom() != nil; d = d.Idom() {
				id := d.Idom()
				if iff, ok := id.Instrs[len(id.Instrs)-1].(*ssa.If); ok {
					if bo, ok := iff.Cond.(*ssa.BinOp); ok {
						_, isK := bo.Y.(*ssa.Const)
						bt, isNum := bo.X.Type().(*types.Basic) // the operand's numeric reading (not a Kind or a type test)
						if isK && isNum && bt.Info()&types.IsNumeric != 0 && ((bo.Op == token.EQL && edgeOnly(id, 0, d)) || (bo.Op == token.NEQ && edgeOnly(id, 1, d))) {
							exact = true
						}
					}
				}
			}
			r.Check(exact, "C05.R7", fmt.Sprintf("%s|operand returned as the result #%d only for one exact value", kind, k), p.Pos(instrPos(last)), "under an equality test with a constant",
				"the handler returns an operand unchanged as the result without an equality test of the other operand: a shortcut chosen by an order test also covers a neighbouring value for which the operation gives something else (\"ab\" * 0 must be \"\")")
		}
	}
	if n == 0 {
		r.Undecided("C05.R7", "arithmetic handlers", "vm", "no returning block found in the + and * handlers")
	} else {
		r.OK("C05.R7", "arithmetic handlers|results are computed", "vm", fmt.Sprintf("%d exits of the + - and * / %% handlers inspected", n))
	}
}

// c05UnaryStaysInteger (R9): the unary operators applied to an operand of an integer kind give an integer: evaluated outright for
// each signed integer kind (the kind tests of the handler decided, everything else both ways), no float result is reachable.
// Negating the smallest int64 wraps, as in Go; a detour through float64 for "values that do not fit" changes the type of the
// result and of everything computed from it.
func c05UnaryStaysInteger(p *Program, r *Report, m *vmModel) {
	h := m.handlers["expr"]["UnaryExpr"]
	if h == nil {
		r.Undecided("C05.R9", "UnaryExpr", "vm", "handler of unary expressions not found")
		return
	}
	floatBox := map[*ssa.Function]bool{}
	for _, fn := range m.fns {
		sig := fn.Signature
		if sig.Recv() == nil && sig.Params().Len() == 1 && sig.Results().Len() == 1 && isReflectValue(sig.Results().At(0).Type()) {
			if bt, ok := sig.Params().At(0).Type().(*types.Basic); ok && bt.Info()&types.IsFloat != 0 {
				floatBox[fn] = true
			}
		}
	}
	// kind atoms grouped by the Kind() call they test
	atoms := map[ssa.Value][]*ssa.BinOp{}
	for _, b := range h.Blocks {
		for _, in := range b.Instrs {
			if bo, ok := in.(*ssa.BinOp); ok && (bo.Op == token.EQL || bo.Op == token.NEQ) {
				if kc, ok := bo.X.(*ssa.Call); ok && reflectMethod(kc) == "Kind" {
					if _, ok := bo.Y.(*ssa.Const); ok {
						atoms[kc] = append(atoms[kc], bo)
					}
				}
			}
		}
	}
	n := 0
	var kcs []ssa.Value
	for kc := range atoms {
		kcs = append(kcs, kc)
	}
	sort.Slice(kcs, func(i, j int) bool { return kcs[i].Pos() < kcs[j].Pos() })
	for _, kc := range kcs {
		as := atoms[kc]
		// only switches that have an arm for a signed integer kind
		hasInt := false
		for _, a := range as {
			if K := a.Y.(*ssa.Const).Int64(); K >= 2 && K <= 6 {
				hasInt = true
			}
		}
		if !hasInt {
			continue
		}
		n++
		bad := ""
		for K := int64(2); K <= 6; K++ {
			world := map[ssa.Value]bool{}
			for _, a := range as {
				eq := a.Y.(*ssa.Const).Int64() == K
				if a.Op == token.NEQ {
					eq = !eq
				}
				world[a] = eq
			}
			// walk from the block of the Kind() call
			reach := worldReachFrom(h, kc.(*ssa.Call).Block(), world)
			for b := range reach {
				for _, in := range b.Instrs {
					if c, ok := in.(*ssa.Call); ok && floatBox[staticCallee(c)] {
						bad = fmt.Sprintf("for an operand of kind %s the float result at %s is reachable", kindName(K), p.Pos(c.Pos()))
					}
				}
			}
		}
		r.Check(bad == "", "C05.R9", fmt.Sprintf("UnaryExpr|integer operand gives an integer #%d", n), p.Pos(kc.Pos()), "no float result reachable for the signed integer kinds",
			bad+": the unary operator leaves the integers for some value (negating the smallest int64 must wrap, as in Go)")
	}
	if n == 0 {
		r.Undecided("C05.R9", "UnaryExpr|kind switch", p.Pos(h.Pos()), "no kind switch with an integer arm found in the unary handler")
	}
}

// c05KindSwitchComplete (R6): a switch over the kind of one value that has arms for some of the signed integer kinds has arms for
// all five (Int, Int8, Int16, Int32, Int64), and likewise for the unsigned ones (Uint .. Uint64) and the two float kinds: a kind
// left out of the list falls into the default arm and is treated as "not a number of that class" (a host int on the left of `+`
// is then added as an integer to a float or a string).
func c05KindSwitchComplete(p *Program, r *Report, m *vmModel) {
	fns := m.fns
	if csp := p.SSAPkg("core"); csp != nil {
		fns = append(append([]*ssa.Function{}, fns...), SrcFuncs(csp)...)
	}
	if n := kindSwitchesComplete(p, r, fns, "C05.R6"); n < 8 {
		r.Undecided("C05.R6", "kind switches", "vm", fmt.Sprintf("only %d kind switches over a numeric class found", n))
	}
}

// kindSwitchesComplete: a switch (or if-chain) over a value's kind that has arms for most kinds of a numeric class (signed,
// unsigned, float) has arms for all of them. Returns the number of (switch, class) pairs examined.
func kindSwitchesComplete(p *Program, r *Report, fns []*ssa.Function, rule string) int {
	classes := []struct {
		name  string
		kinds []int64
	}{{"signed integer", []int64{2, 3, 4, 5, 6}}, {"unsigned integer", []int64{7, 8, 9, 10, 11}}, {"float", []int64{13, 14}}}
	n := 0
	for _, fn := range fns {
		atoms := map[ssa.Value]map[int64]bool{}
		var order []ssa.Value
		for _, b := range fn.Blocks {
			for _, in := range b.Instrs {
				bo, ok := in.(*ssa.BinOp)
				if !ok || bo.Op != token.EQL {
					continue
				}
				kc := bo.X
				if kc.Type().String() != "reflect.Kind" {
					continue
				}
				k, ok := bo.Y.(*ssa.Const)
				if !ok {
					continue
				}
				if atoms[kc] == nil {
					atoms[kc] = map[int64]bool{}
					order = append(order, kc)
				}
				atoms[kc][k.Int64()] = true
			}
		}
		k := 0
		for _, kc := range order {
			for _, cl := range classes {
				have := 0
				var missing []string
				for _, K := range cl.kinds {
					if atoms[kc][K] {
						have++
					} else {
						missing = append(missing, kindName(K))
					}
				}
				if have < 2 || (len(cl.kinds) > 2 && have < 3) {
					continue // one or two kinds picked on purpose (Int64 alone, Float64 alone)
				}
				k++
				n++
				r.Check(len(missing) == 0, rule, fmt.Sprintf("%s|kind switch #%d covers the %s kinds", funcName(fn), k, cl.name), p.Pos(kc.Pos()), "all kinds of the class have an arm",
					fmt.Sprintf("the switch has arms for %d of the %s kinds but not for %v: a value of that kind takes the default arm and is not treated as a number of its class", have, cl.name, missing))
			}
		}
	}
	return n
}

// evaluatedBefore: every path to block b has passed an operand evaluation of the handler (so the value cell holds an operand).
func evaluatedBefore(va *evalAnalysis, h *ssa.Function, b *ssa.BasicBlock) bool {
	evalBlocks := map[*ssa.BasicBlock]bool{}
	for _, e := range va.events[h] {
		evalBlocks[e.call.Block()] = true
	}
	if len(evalBlocks) == 0 {
		return false
	}
	return !reachable(h.Blocks[0], func(x *ssa.BasicBlock) bool { return evalBlocks[x] })[b]
}

// c05IntegersReadExactly (R10): the integer converters (reflect.Value -> int64 / int) read a value of an integer kind with the
// exact accessors (Int, Uint): evaluated outright for each signed and unsigned integer kind, with the function's own kind
// tests decided, nothing that goes through a float is reachable — no conversion of a float to an integer, no call of a
// float-valued function of the package. A detour through float64 is exact only up to 2^53: a host int or uint64 beyond that
// would come back as a neighbouring number, and with it every integer operator and the integer comparison.
func c05IntegersReadExactly(p *Program, r *Report, m *vmModel) {
	n := 0
	for _, fn := range m.fns {
		sg := fn.Signature
		if sg.Recv() != nil || sg.Params().Len() != 1 || sg.Results().Len() != 2 || !isReflectValue(sg.Params().At(0).Type()) || !isErrorType(sg.Results().At(1).Type()) || len(fn.Blocks) == 0 {
			continue
		}
		bt, ok := sg.Results().At(0).Type().(*types.Basic)
		if !ok || bt.Info()&types.IsInteger == 0 {
			continue
		}
		var atoms []*ssa.BinOp
		for _, b := range fn.Blocks {
			for _, in := range b.Instrs {
				if bo, ok := in.(*ssa.BinOp); ok && (bo.Op == token.EQL || bo.Op == token.NEQ) {
					if kc, ok := bo.X.(*ssa.Call); ok && reflectMethod(kc) == "Kind" {
						if _, ok := bo.Y.(*ssa.Const); ok {
							atoms = append(atoms, bo)
						}
					}
				}
			}
		}
		if len(atoms) == 0 {
			continue
		}
		var bad []string
		where := fn.Pos()
		for K := int64(2); K <= 11; K++ {
			world := map[ssa.Value]bool{}
			for _, a := range atoms {
				eq := a.Y.(*ssa.Const).Int64() == K
				if a.Op == token.NEQ {
					eq = !eq
				}
				world[a] = eq
			}
			reach := worldReach(fn, world)
			hit := false
			for _, b := range fn.Blocks {
				if !reach[b] {
					continue
				}
				for _, in := range b.Instrs {
					switch x := in.(type) {
					case *ssa.Convert:
						if fb, ok := x.X.Type().Underlying().(*types.Basic); ok && fb.Info()&types.IsFloat != 0 {
							hit, where = true, x.Pos()
						}
					case *ssa.Call:
						if callee := staticCallee(x); callee != nil && callee.Pkg == m.sp && callee.Signature.Results().Len() > 0 {
							if fb, ok := callee.Signature.Results().At(0).Type().Underlying().(*types.Basic); ok && fb.Info()&types.IsFloat != 0 {
								hit, where = true, x.Pos()
							}
						}
						if reflectMethod(x) == "Float" {
							hit, where = true, x.Pos()
						}
					}
				}
			}
			if hit {
				bad = append(bad, kindName(K))
			}
		}
		n++
		r.Check(len(bad) == 0, "C05.R10", fn.Name()+"|integer kinds read without a float", p.Pos(where), "for every integer kind only the exact accessors are reachable",
			fmt.Sprintf("a value of kind %v is read through a float: exact only up to 2^53, beyond that the integer operators and == work on a neighbouring number", bad))
	}
	r.Floor("C05.R10", n, 2)
}

// boxedConstant: v is a constant put into a reflect.Value by one of the package's boxing helpers or reflect.ValueOf / Zero.
func boxedConstant(v ssa.Value) bool {
	c, ok := v.(*ssa.Call)
	if !ok || len(c.Call.Args) != 1 {
		return false
	}
	a := c.Call.Args[0]
	if mi, ok := a.(*ssa.MakeInterface); ok {
		a = mi.X
	}
	if cv, ok := a.(*ssa.Convert); ok {
		a = cv.X
	}
	_, isConst := a.(*ssa.Const)
	return isConst && isReflectValue(c.Type())
}
