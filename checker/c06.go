package main

import (
	"fmt"
	"go/token"
	"go/types"
	"sort"
	"strings"

	"golang.org/x/tools/go/ssa"
)

func init() { register("C06", "equality is one coherent relation", checkC06) }

func checkC06(p *Program, r *Report) {
	r.Explain("C06: whether equal(a,b) is symmetric or agrees with <= and >= for mixed kinds depends on values flowing through strconv and float formatting and is not decided. Decided are the structural necessary conditions: " +
		"R1 `!=` is the negation of `==`: under case \"!=\" the result is !f(x,y) for the very call f(x,y) made under case \"==\" (same callee, same operands in the same order). " +
		"R2 one comparator: membership (`in`) calls f(item, element) once per element and switch calls f(case value, subject) per case expression; no other comparison (reflect.DeepEqual, == on Interface()) touches the operands in those handlers. " +
		"R3 nil equals only nil: in f the results of the two nil tests decide before anything else (both nil => true, exactly one => false). " +
		"R4 two integers are compared as integers: in f the float64 comparison is reachable only when an operand is a float, the int64 comparison only when neither is. " +
		"R5 a string equals a number only as a decimal numeral: every strconv.ParseInt that reads an operand uses base 10 (other bases only under a matching prefix test, never base 0).")
	r.Explain("R6 also: the formatted-string comparison is unreachable in the world where both operands are floats of the same width.")
	r.Assume("symmetry, the int/float/string coercion semantics and structural comparison of containers (reflect.DeepEqual) are value-level and not decided")
	m, err := buildVMModel(p)
	if err != nil {
		r.Undecided("C06.R1", "model", "vm", err.Error())
		return
	}
	va := buildEvalAnalysis(m)
	r.Explain("R11 (= C07.R8) the comparison handler takes its left operand out of its interface before the right operand is evaluated: otherwise `a[0] == bump()` compares the slot's new content with the right operand, and 1 == 2 depends on where the 1 was read from.")
	leftValueFixedBeforeRight(p, r, m, va, "C06.R11")
	h := m.handlers["op"]["ComparisonOperator"]
	if h == nil {
		r.Undecided("C06.R1", "ComparisonOperator", "vm", "handler not found")
		return
	}
	// R1
	var eqCall, neCall *ssa.Call
	neNegated := false
	for _, b := range h.Blocks {
		for _, in := range b.Instrs {
			c, ok := in.(*ssa.Call)
			if !ok {
				continue
			}
			callee := staticCallee(c)
			if callee == nil || callee.Pkg != m.sp || len(c.Call.Args) != 2 || !isReflectValue(c.Call.Args[0].Type()) || !isReflectValue(c.Call.Args[1].Type()) {
				continue
			}
			if bt, ok := callee.Signature.Results().At(0).Type().(*types.Basic); !ok || bt.Kind() != types.Bool {
				continue
			}
			switch operatorCaseOf(b) {
			case "==":
				eqCall = c
			case "!=":
				neCall = c
				for _, ref := range *c.Referrers() {
					if u, ok := ref.(*ssa.UnOp); ok && u.Op == token.NOT {
						neNegated = true
					}
				}
			}
		}
	}
	site := p.Pos(h.Pos())
	var f *ssa.Function
	switch {
	case eqCall == nil || neCall == nil:
		r.Fail("C06.R1", "ComparisonOperator|== and !=", site, "`==` and `!=` are not both decided by a comparator call")
	default:
		f = staticCallee(eqCall)
		bad := ""
		if staticCallee(neCall) != f {
			bad = "`!=` uses a different comparator than `==`"
		} else if !neNegated {
			bad = "`!=` is not the negation of the comparator's result"
		} else {
			for i := 0; i < 2; i++ {
				fe, fn := operandField(m, va, h, eqCall.Call.Args[i], 0), operandField(m, va, h, neCall.Call.Args[i], 0)
				if fe != fn {
					bad = fmt.Sprintf("`==` and `!=` pass the operands in a different order (argument %d: %s vs %s)", i+1, fe, fn)
				}
			}
		}
		r.Check(bad == "", "C06.R1", "ComparisonOperator|!= negates ==", site, "`!=` is !"+f.Name()+"(left, right) with the same operands as `==`", bad)
	}
	if f == nil {
		return
	}
	// R2
	nSites := 0
	for _, pr := range []struct{ role, kind, what string }{{"expr", "IncludeExpr", "membership"}, {"stmt", "SwitchStmt", "switch"}} {
		hh := m.handlers[pr.role][pr.kind]
		if hh == nil {
			r.Undecided("C06.R2", pr.kind, "vm", "handler not found")
			continue
		}
		calls := 0
		other := ""
		var tth *typeTerms
		for _, b := range hh.Blocks {
			for _, in := range b.Instrs {
				c, ok := in.(*ssa.Call)
				if !ok {
					continue
				}
				if staticCallee(c) == f {
					calls++
					nSites++
					// result decides: If on the call
					decides := false
					for _, ref := range *c.Referrers() {
						if _, ok := ref.(*ssa.If); ok {
							decides = true
						}
					}
					r.Check(decides, "C06.R2", pr.kind+"|"+f.Name()+" decides", p.Pos(c.Pos()), pr.what+" is decided by "+f.Name(), "the comparator's result does not decide "+pr.what)
					if tth == nil {
						tth = newTypeTerms(m, hh, nil)
					}
					for ai, a := range c.Call.Args {
						why := impureOperand(tth, a, 0)
						r.Check(why == "", "C06.R2", fmt.Sprintf("%s|%s argument %d is the operand itself", pr.kind, f.Name(), ai+1), p.Pos(c.Pos()), "an evaluated operand (or an element of it), only unwrapped", "the value compared is not the operand itself but "+why+": "+pr.what+" is no longer the == relation")
					}
				}
				if o := calleeObj(c); o != nil && o.Pkg() != nil && o.Pkg().Path() == "reflect" && o.Name() == "DeepEqual" {
					other = "reflect.DeepEqual"
				}
			}
			for _, in := range b.Instrs {
				if bo, ok := in.(*ssa.BinOp); ok && (bo.Op == token.EQL || bo.Op == token.NEQ) {
					if fromInterfaceCall(bo.X) || fromInterfaceCall(bo.Y) {
						other = "== on the Go values of the operands"
					}
				}
			}
		}
		r.Check(calls == 1 && other == "", "C06.R2", pr.kind+"|single comparator", p.Pos(hh.Pos()), pr.what+" compares with "+f.Name()+" only", fmt.Sprintf("%s uses %d calls of %s and %s", pr.what, calls, f.Name(), other))
	}
	r.Floor("C06.R2", nSites+2, 4)

	// R3: nil tests first
	var nilCalls []*ssa.Call
	for _, in := range f.Blocks[0].Instrs {
		if c, ok := in.(*ssa.Call); ok {
			if callee := staticCallee(c); callee != nil && callee.Pkg == m.sp && len(c.Call.Args) == 1 && (c.Call.Args[0] == ssa.Value(f.Params[0]) || c.Call.Args[0] == ssa.Value(f.Params[1])) {
				nilCalls = append(nilCalls, c)
			}
		}
	}
	bad := ""
	if len(nilCalls) != 2 || staticCallee(nilCalls[0]) != staticCallee(nilCalls[1]) || nilCalls[0].Call.Args[0] == nilCalls[1].Call.Args[0] {
		bad = "the comparator does not begin by testing both operands for nil"
	} else {
		for _, w := range [][2]bool{{true, true}, {true, false}, {false, true}} {
			wd := map[ssa.Value]bool{nilCalls[0]: w[0], nilCalls[1]: w[1]}
			want := w[0] && w[1]
			for _, st := range worldStates(f, wd) {
				for _, in := range st.b.Instrs {
					switch x := in.(type) {
					case *ssa.Call:
						if x != nilCalls[0] && x != nilCalls[1] {
							bad = fmt.Sprintf("with nil tests (%v, %v) the operands are examined further instead of deciding", w[0], w[1])
						}
					case *ssa.Return:
						if got, ok := worldEval(wd, x.Results[0], st, 0); !ok || got != want {
							bad = fmt.Sprintf("with nil tests (%v, %v) the result is not %v", w[0], w[1], want)
						}
					}
				}
			}
		}
	}
	r.Check(bad == "", "C06.R3", f.Name()+"|nil first", p.Pos(f.Pos()), "nil tests of both operands decide first", bad)

	// R4: float compare only when an operand is float
	atoms, intClass := kindAtoms(m, f)
	// world(li, ri): the outcome of the two tests when the left / right operand is an integer
	world := func(li, ri bool) map[ssa.Value]bool {
		if intClass {
			return map[ssa.Value]bool{atoms[0]: li, atoms[1]: ri}
		}
		return map[ssa.Value]bool{atoms[0]: !li, atoms[1]: !ri}
	}
	nCmp := 0
	if len(atoms) != 2 {
		r.Undecided("C06.R4", f.Name()+"|kind tests", p.Pos(f.Pos()), fmt.Sprintf("expected one is-float (or is-integer) test per operand in the comparator, found %d", len(atoms)))
	} else {
		reach := map[[2]bool]map[*ssa.BasicBlock]bool{}
		for _, w := range [][2]bool{{false, false}, {true, false}, {false, true}, {true, true}} {
			reach[w] = worldReach(f, world(!w[0], !w[1]))
		}
		for _, b := range f.Blocks {
			for _, in := range b.Instrs {
				bo, ok := in.(*ssa.BinOp)
				if !ok || bo.Op != token.EQL {
					continue
				}
				kx, _, okx := m.numProjection(bo.X, 0)
				ky, _, oky := m.numProjection(bo.Y, 0)
				if !okx || !oky {
					continue
				}
				nCmp++
				inst := f.Name() + "|" + kx + " comparison"
				ff := reach[[2]bool{false, false}][b]
				other := reach[[2]bool{true, false}][b] || reach[[2]bool{false, true}][b] || reach[[2]bool{true, true}][b]
				// numeric readings are compared only when BOTH operands are numbers: the is-number predicate of each operand holds on the way
				if !bothNumeric(m, f, b) {
					r.Fail("C06.R4", inst+"|both numeric", p.Pos(bo.Pos()), "numeric readings are compared on a path where the is-number test did not hold for both operands: a container or string compared with a number goes through its zero reading (0 == [] would be true)")
				} else {
					r.OK("C06.R4", inst+"|both numeric", p.Pos(bo.Pos()), "both operands passed the is-number test")
				}
				switch {
				case kx != ky:
					r.Fail("C06.R4", inst, p.Pos(bo.Pos()), "the two sides are read differently ("+kx+" vs "+ky+")")
				case kx == "float":
					r.Check(!ff, "C06.R4", inst, p.Pos(bo.Pos()), "float64 comparison unreachable when neither operand is a float", "two integers can be compared through float64: distinct int64 values beyond 2^53 compare equal")
				case kx == "int":
					r.Check(ff && !other, "C06.R4", inst, p.Pos(bo.Pos()), "int64 comparison exactly when neither operand is a float", "the integer comparison is reachable with a float operand (truncation) or not reachable for two integers")
				}
			}
		}
	}
	r.Floor("C06.R4", nCmp, 2)

	// R6: the formatted-string comparison is for two floats only
	if len(atoms) == 2 {
		nStr := 0
		for _, b := range f.Blocks {
			for _, in := range b.Instrs {
				bo, ok := in.(*ssa.BinOp)
				if !ok || bo.Op != token.EQL {
					continue
				}
				if bt, ok := bo.X.Type().Underlying().(*types.Basic); !ok || bt.Kind() != types.String {
					continue
				}
				nStr++
				badW := ""
				for _, w := range [][2]bool{{false, false}, {true, false}, {false, true}} {
					if worldReach(f, world(!w[0], !w[1]))[b] {
						badW = fmt.Sprintf("(left float %v, right float %v)", w[0], w[1])
					}
				}
				r.Check(badW == "", "C06.R6", f.Name()+"|formatted-string comparison", p.Pos(bo.Pos()), "numbers are compared as formatted strings only when both are floats", "an integer and a float are compared as formatted strings "+badW+": 1000000 == 1000000.0 is false while <= and >= both hold")
				// ... and only when the two floats are of different widths: two values of one type are compared by Go's ==
				same := world(false, false)
				for _, b2 := range f.Blocks {
					for _, in2 := range b2.Instrs {
						if kd, ok := in2.(*ssa.BinOp); ok && (kd.Op == token.EQL || kd.Op == token.NEQ) && kd.X.Type().String() == "reflect.Kind" && kd.Y.Type().String() == "reflect.Kind" {
							if _, c := kd.Y.(*ssa.Const); !c && kd.X != kd.Y {
								same[kd] = kd.Op == token.EQL
							}
						}
					}
				}
				r.Check(!worldReach(f, same)[b], "C06.R6", f.Name()+"|formatted-string comparison|different widths only", p.Pos(bo.Pos()), "two floats of the same type never reach the formatted-string comparison",
					"two floats of the same type are compared as formatted strings instead of by Go's ==: 0.0 == -0.0 is false (\"0\" vs \"-0\") and NaN equals itself")
			}
		}
		r.Note("C06.R6 string comparisons in comparator", nStr)
	}

	// R7: a numeric string is read the same way on either side
	var leafSets [2]map[string]bool
	var leafSite [2]string
	for side := 0; side < 2; side++ {
		leafSets[side] = map[string]bool{}
		for _, b := range f.Blocks {
			if !underStringTest(b, f.Params[side]) {
				continue
			}
			for _, in := range b.Instrs {
				c, ok := in.(*ssa.Call)
				if !ok || len(c.Call.Args) == 0 {
					continue
				}
				fromSide := false
				for _, a := range c.Call.Args {
					if derivesFromParam(a, f.Params[side], 0) {
						fromSide = true
					}
				}
				if !fromSide {
					continue
				}
				if leafSite[side] == "" {
					leafSite[side] = p.Pos(c.Pos())
				}
				parseLeaves(m, c, leafSets[side], map[*ssa.Function]bool{})
			}
		}
	}
	if len(leafSets[0]) == 0 || len(leafSets[1]) == 0 {
		r.Undecided("C06.R7", f.Name()+"|string operand conversions", p.Pos(f.Pos()), "the conversions of a string operand compared with a number were not found on both sides")
	} else {
		diff := ""
		for k := range leafSets[0] {
			if !leafSets[1][k] {
				diff += " left-only:" + k
			}
		}
		for k := range leafSets[1] {
			if !leafSets[0][k] {
				diff += " right-only:" + k
			}
		}
		r.Check(diff == "", "C06.R7", f.Name()+"|string operand conversions", leafSite[0], "a string compared with a number is parsed by the same routines whichever side it is on: "+keysOf(leafSets[0]), "a string is parsed differently depending on its side ("+strings.TrimSpace(diff)+"): \"N\" == n and n == \"N\" disagree for some numeral")
	}

	// R9: a string is declared "not a number" only after it was tried as a float: the helper that reads a string operand
	// returns its negative verdict only on paths that went through the float parse (an integer numeral is also a float numeral,
	// so the float parse is the one that decides)
	seenG := map[*ssa.Function]bool{}
	for side := 0; side < 2; side++ {
		for _, b := range f.Blocks {
			if !underStringTest(b, f.Params[side]) {
				continue
			}
			for _, in := range b.Instrs {
				c, ok := in.(*ssa.Call)
				if !ok {
					continue
				}
				g := staticCallee(c)
				if g == nil || g.Pkg != m.sp || seenG[g] || len(g.Blocks) == 0 || g.Signature.Results().Len() != 2 {
					continue
				}
				if bt, ok := g.Signature.Results().At(1).Type().(*types.Basic); !ok || bt.Kind() != types.Bool {
					continue
				}
				seenG[g] = true
				floatBlocks := map[*ssa.BasicBlock]bool{}
				for _, gb := range g.Blocks {
					for _, gin := range gb.Instrs {
						if gc, ok := gin.(*ssa.Call); ok {
							leaves := map[string]bool{}
							parseLeaves(m, gc, leaves, map[*ssa.Function]bool{})
							for l := range leaves {
								if strings.Contains(l, "ParseFloat") {
									floatBlocks[gb] = true
								}
							}
						}
					}
				}
				// the integer reading comes first: a numeral that is an integer is compared as an int64 (all 64 bits), and only a
				// numeral the integer parse rejects is read as a float
				intBlocks := map[*ssa.BasicBlock]bool{}
				for _, gb := range g.Blocks {
					for _, gin := range gb.Instrs {
						if gc, ok := gin.(*ssa.Call); ok {
							leaves := map[string]bool{}
							parseLeaves(m, gc, leaves, map[*ssa.Function]bool{})
							for l := range leaves {
								if strings.Contains(l, "ParseInt") {
									intBlocks[gb] = true
								}
							}
						}
					}
				}
				if len(intBlocks) == 0 && len(floatBlocks) > 0 {
					r.Fail("C06.R9", g.Name()+"|integer reading before float reading", p.Pos(g.Pos()),
						"the string is read with the float parse only: an integer numeral is rounded to float64 before it is compared (and turned back into an integer afterwards at best), so \"9007199254740993\" equals 9007199254740992")
				}
				if len(intBlocks) > 0 && len(floatBlocks) > 0 {
					early := ""
					noInt := reachable(g.Blocks[0], func(x *ssa.BasicBlock) bool { return intBlocks[x] && !floatBlocks[x] })
					for fb := range floatBlocks {
						if noInt[fb] && !intBlocks[fb] {
							early = "the float parse in block " + fmt.Sprint(fb.Index) + " can run before the integer parse was tried"
						}
						if intBlocks[fb] {
							// same block: order of the two calls
							iInt, iFl := -1, -1
							for i, gin := range fb.Instrs {
								if gc, ok := gin.(*ssa.Call); ok {
									leaves := map[string]bool{}
									parseLeaves(m, gc, leaves, map[*ssa.Function]bool{})
									for l := range leaves {
										if strings.Contains(l, "ParseInt") && iInt < 0 {
											iInt = i
										}
										if strings.Contains(l, "ParseFloat") && iFl < 0 {
											iFl = i
										}
									}
								}
							}
							if iFl >= 0 && iInt >= 0 && iFl < iInt {
								early = "the float parse precedes the integer parse"
							}
						}
					}
					r.Check(early == "", "C06.R9", g.Name()+"|integer reading before float reading", p.Pos(g.Pos()), "the float parse is reached only after the integer parse was tried",
						early+": every integer numeral is rounded to float64 before it is compared, so \"9007199254740993\" equals 9007199254740992")
				}
				bad := ""
				reach := reachable(g.Blocks[0], func(x *ssa.BasicBlock) bool { return floatBlocks[x] })
				for _, gb := range g.Blocks {
					ret, ok := gb.Instrs[len(gb.Instrs)-1].(*ssa.Return)
					if !ok || len(ret.Results) != 2 {
						continue
					}
					if k, ok := ret.Results[1].(*ssa.Const); ok && k.Value != nil && k.Value.String() == "false" && reach[gb] && !floatBlocks[gb] {
						bad = "the negative verdict at " + p.Pos(instrPos(ret)) + " can be reached without the float parse having been tried"
					}
				}
				r.Check(bad == "", "C06.R9", g.Name()+"|not a number only after the float parse", p.Pos(g.Pos()), "every 'not a number' return lies behind the float parse",
					bad+": a decimal numeral that only the float parse accepts (\"1E3\", an integer beyond int64) is no longer equal to the number it denotes")
			}
		}
	}

	// R8: every result of the comparator is one of: false, true for two nils, a comparison of the operands' numeric/bool/string
	// readings by the package's conversion helpers, or reflect.DeepEqual of the two operands
	if len(nilCalls) == 2 {
		k := 0
		for _, b := range f.Blocks {
			ret, ok := b.Instrs[len(b.Instrs)-1].(*ssa.Return)
			if !ok {
				continue
			}
			k++
			inst := fmt.Sprintf("%s|result #%d", f.Name(), k)
			site := p.Pos(instrPos(ret))
			switch x := ret.Results[0].(type) {
			case *ssa.Const:
				if x.Value != nil && x.Value.String() == "true" {
					bad := false
					for _, w := range [][2]bool{{false, false}, {true, false}, {false, true}} {
						if worldReach(f, map[ssa.Value]bool{nilCalls[0]: w[0], nilCalls[1]: w[1]})[b] {
							bad = true
						}
					}
					r.Check(!bad, "C06.R8", inst, site, "constant true only for two nils", "the comparator answers true without comparing anything for operands that are not both nil")
				} else {
					r.OK("C06.R8", inst, site, "constant false")
				}
			case *ssa.BinOp:
				good := x.Op == token.EQL && readingOf(m, f, x.X) && readingOf(m, f, x.Y)
				r.Check(good, "C06.R8", inst, site, "equality of two readings of the operands", "the result is a comparison of something other than the operands' values (readings by the conversion helpers)")
			case *ssa.Call:
				o := calleeObj(x)
				good := o != nil && isFuncNamed(o, "reflect", "", "DeepEqual") && len(x.Call.Args) == 2 && interfaceOfOperand(x.Call.Args[0]) && interfaceOfOperand(x.Call.Args[1])
				r.Check(good, "C06.R8", inst, site, "reflect.DeepEqual of the two operands", "the result comes from a call other than reflect.DeepEqual on the two operands")
			default:
				// phi of the nil tests (`return l && r`) is handled by R3; anything else is unknown
				ok := true
				for _, w := range [][2]bool{{true, true}, {true, false}, {false, true}, {false, false}} {
					wd := map[ssa.Value]bool{nilCalls[0]: w[0], nilCalls[1]: w[1]}
					for _, st := range worldStates(f, wd) {
						if st.b == b {
							if _, known := worldEval(wd, ret.Results[0], st, 0); !known {
								ok = false
							}
						}
					}
				}
				r.Check(ok, "C06.R8", inst, site, "decided by the nil tests", "a result of unknown origin")
			}
		}
	}

	// R5: ParseInt bases
	nParse := 0
	perFn := map[*ssa.Function]int{}
	for _, fn := range m.fns {
		for _, b := range fn.Blocks {
			for _, in := range b.Instrs {
				c, ok := in.(*ssa.Call)
				if !ok {
					continue
				}
				o := calleeObj(c)
				if o == nil || !isFuncNamed(o, "strconv", "", "ParseInt") {
					continue
				}
				nParse++
				perFn[fn]++
				base, _ := c.Call.Args[1].(*ssa.Const)
				inst := fmt.Sprintf("%s|ParseInt #%d", funcName(fn), perFn[fn])
				switch {
				case base == nil:
					r.Fail("C06.R5", inst, p.Pos(c.Pos()), "numeric strings are parsed with a non-constant base")
				case base.Int64() == 10:
					r.OK("C06.R5", inst, p.Pos(c.Pos()), "decimal")
				case base.Int64() == 16 || base.Int64() == 2:
					// with an explicit base the "0x"/"0b" prefix is a syntax error: the branch cannot make a hex or binary string equal a number
					r.Check(prefixTestedArg(b, c.Call.Args[0]), "C06.R5", inst, p.Pos(c.Pos()), fmt.Sprintf("base %d only on the unmodified string that was tested for its prefix (always a syntax error: no hex/binary string equals a number)", base.Int64()), fmt.Sprintf("strings are parsed in base %d: a non-decimal string can equal a number", base.Int64()))
				default:
					r.Fail("C06.R5", inst, p.Pos(c.Pos()), fmt.Sprintf("numeric strings are parsed with base %d: a string like \"010\" or \"0x10\" equals a different number on one side of == than on the other", base.Int64()))
				}
			}
		}
	}
	r.Floor("C06.R5", nParse, 2)
	// ... and what is parsed is the string as it is: the text handed to ParseInt / ParseFloat is the operand's own String(),
	// not an edited copy (trimmed, lower-cased, with separators removed): an edited copy makes strings that are not numerals
	// equal to numbers
	nText := 0
	perFn = map[*ssa.Function]int{}
	for _, fn := range m.fns {
		for _, b := range fn.Blocks {
			for _, in := range b.Instrs {
				c, ok := in.(*ssa.Call)
				if !ok {
					continue
				}
				o := calleeObj(c)
				if o == nil || !(isFuncNamed(o, "strconv", "", "ParseInt") || isFuncNamed(o, "strconv", "", "ParseFloat")) {
					continue
				}
				nText++
				perFn[fn]++
				arg := c.Call.Args[0]
				if sv := spilledValue(arg); sv != nil {
					arg = sv
				}
				ac, isCall := arg.(*ssa.Call)
				if prm, isPrm := arg.(*ssa.Parameter); isPrm && !isCall {
					// a helper that is handed the text: every caller in the package hands it the operand's own String()
					idx, sites, all := -1, 0, true
					for i, q := range fn.Params {
						if q == prm {
							idx = i
						}
					}
					for _, f2 := range m.fns {
						for _, b2 := range f2.Blocks {
							for _, in2 := range b2.Instrs {
								c2, ok := in2.(*ssa.Call)
								if !ok || staticCallee(c2) != fn || idx < 0 || idx >= len(c2.Call.Args) {
									continue
								}
								sites++
								a2 := c2.Call.Args[idx]
								if sv := spilledValue(a2); sv != nil {
									a2 = sv
								}
								if cc, ok := a2.(*ssa.Call); !ok || reflectMethod(cc) != "String" {
									all = false
								}
							}
						}
					}
					if sites > 0 && all {
						nText += sites - 1 // one numeral reader shared by its callers stands for each of them
						r.OK("C06.R5", fmt.Sprintf("%s|%s #%d parses the operand's own text", funcName(fn), o.Name(), perFn[fn]), p.Pos(c.Pos()), fmt.Sprintf("the text is a parameter that all %d callers fill with reflect.Value.String() of the operand", sites))
						continue
					}
				}
				r.Check(isCall && reflectMethod(ac) == "String", "C06.R5", fmt.Sprintf("%s|%s #%d parses the operand's own text", funcName(fn), o.Name(), perFn[fn]), p.Pos(c.Pos()),
					"the argument is reflect.Value.String() of the operand", "the text handed to strconv."+o.Name()+" is not the operand's own string but something computed from it: strings that are not numerals (padded, re-cased, ...) become equal to numbers")
			}
		}
	}
	r.Floor("C06.R5", nText, 7)
	r.Explain("R10 in the comparator the unwrapping of one operand is not decided by the other operand (no else-if between the two): symmetric preparation is a necessary condition of a symmetric relation.")
	comparatorOperandsIndependent(p, r, m, "C06.R10")
}

type wstate struct{ b, pred *ssa.BasicBlock }

// worldEval: the value of boolean v at state (block, predecessor) when the given boolean values are fixed.
func worldEval(world map[ssa.Value]bool, v ssa.Value, at wstate, d int) (bool, bool) {
	if d > 8 {
		return false, false
	}
	if w, ok := world[v]; ok {
		return w, true
	}
	switch x := v.(type) {
	case *ssa.Const:
		if x.Value != nil && (x.Value.String() == "true" || x.Value.String() == "false") {
			return x.Value.String() == "true", true
		}
	case *ssa.UnOp:
		if x.Op == token.NOT {
			r, ok := worldEval(world, x.X, at, d+1)
			return !r, ok
		}
	case *ssa.Phi:
		if x.Block() == at.b && at.pred != nil {
			for i, pr := range at.b.Preds {
				if pr == at.pred {
					// the edge value is defined in (or before) the predecessor; its own phis cannot be resolved further
					return worldEval(world, x.Edges[i], wstate{at.pred, nil}, d+1)
				}
			}
		}
	}
	return false, false
}

// worldStates: the (block, predecessor) states of fn reachable from the entry when the given boolean values are fixed; conditions not composed of them (through !, constants and phis) take both branches.
func worldStates(fn *ssa.Function, world map[ssa.Value]bool) []wstate {
	seen := map[wstate]bool{}
	var out []wstate
	work := []wstate{{fn.Blocks[0], nil}}
	for len(work) > 0 {
		s := work[len(work)-1]
		work = work[:len(work)-1]
		if seen[s] {
			continue
		}
		seen[s] = true
		out = append(out, s)
		succs := s.b.Succs
		if iff, ok := s.b.Instrs[len(s.b.Instrs)-1].(*ssa.If); ok {
			if v, ok := worldEval(world, iff.Cond, s, 0); ok {
				if v {
					succs = succs[:1]
				} else {
					succs = succs[1:]
				}
			}
		}
		for _, n := range succs {
			work = append(work, wstate{n, s.b})
		}
	}
	return out
}

// worldStatesAvoiding: like worldStates, but the walk does not continue out of (nor report) blocks for which stop holds.
func worldStatesAvoiding(fn *ssa.Function, world map[ssa.Value]bool, stop func(*ssa.BasicBlock) bool) []wstate {
	seen := map[wstate]bool{}
	var out []wstate
	work := []wstate{{fn.Blocks[0], nil}}
	for len(work) > 0 {
		s := work[len(work)-1]
		work = work[:len(work)-1]
		if seen[s] || stop(s.b) {
			continue
		}
		seen[s] = true
		out = append(out, s)
		succs := s.b.Succs
		if iff, ok := s.b.Instrs[len(s.b.Instrs)-1].(*ssa.If); ok {
			if v, ok := worldEval(world, iff.Cond, s, 0); ok {
				if v {
					succs = succs[:1]
				} else {
					succs = succs[1:]
				}
			}
		}
		for _, n := range succs {
			work = append(work, wstate{n, s.b})
		}
	}
	return out
}

// worldReachFrom: blocks reachable from start (entered from its dominator) when the given boolean values are fixed.
func worldReachFrom(fn *ssa.Function, start *ssa.BasicBlock, world map[ssa.Value]bool) map[*ssa.BasicBlock]bool {
	reach := map[*ssa.BasicBlock]bool{}
	seen := map[wstate]bool{}
	work := []wstate{{start, nil}}
	for len(work) > 0 {
		s := work[len(work)-1]
		work = work[:len(work)-1]
		if seen[s] {
			continue
		}
		seen[s] = true
		reach[s.b] = true
		succs := s.b.Succs
		if iff, ok := s.b.Instrs[len(s.b.Instrs)-1].(*ssa.If); ok {
			if v, ok := worldEval(world, iff.Cond, s, 0); ok {
				if v {
					succs = succs[:1]
				} else {
					succs = succs[1:]
				}
			}
		}
		for _, n := range succs {
			work = append(work, wstate{n, s.b})
		}
	}
	return reach
}

func worldReach(fn *ssa.Function, world map[ssa.Value]bool) map[*ssa.BasicBlock]bool {
	reach := map[*ssa.BasicBlock]bool{}
	for _, s := range worldStates(fn, world) {
		reach[s.b] = true
	}
	return reach
}

// kindCmp: v is `k == K` for a reflect.Kind k and constant K; returns k and K.
func kindCmp(v ssa.Value) (ssa.Value, int64) {
	if bo, ok := v.(*ssa.BinOp); ok && bo.Op == token.EQL {
		if c, ok := bo.Y.(*ssa.Const); ok && c.Value != nil && bo.X.Type().String() == "reflect.Kind" {
			return bo.X, c.Int64()
		}
	}
	return nil, 0
}

// orOfKinds: v is `k == K1 || k == K2 || ...` (short-circuit phis) on one subject k; returns k and the set of kinds.
func orOfKinds(v ssa.Value, depth int) (ssa.Value, map[int64]bool) {
	if k, K := kindCmp(v); k != nil {
		return k, map[int64]bool{K: true}
	}
	ph, ok := v.(*ssa.Phi)
	if !ok || depth > 6 {
		return nil, nil
	}
	var subj ssa.Value
	set := map[int64]bool{}
	for i, e := range ph.Edges {
		if c, ok := e.(*ssa.Const); ok && c.Value != nil && c.Value.String() == "true" {
			// the short-circuit edge: its predecessor branched on a kind test of the same subject
			pr := ph.Block().Preds[i]
			iff, ok := pr.Instrs[len(pr.Instrs)-1].(*ssa.If)
			if !ok || pr.Succs[0] != ph.Block() {
				return nil, nil
			}
			k, ks := orOfKinds(iff.Cond, depth+1)
			if k == nil || (subj != nil && subj != k) {
				return nil, nil
			}
			subj = k
			for K := range ks {
				set[K] = true
			}
			continue
		}
		k, ks := orOfKinds(e, depth+1)
		if k == nil || (subj != nil && subj != k) {
			return nil, nil
		}
		subj = k
		for K := range ks {
			set[K] = true
		}
	}
	return subj, set
}

// kindSetFunc: for a helper func(reflect.Value|reflect.Kind) bool made of kind tests only, the set of kinds it tests.
func kindSetFunc(fn *ssa.Function) map[int64]bool {
	if fn == nil || fn.Signature.Params().Len() != 1 || fn.Signature.Results().Len() != 1 || len(fn.Blocks) == 0 {
		return nil
	}
	if bt, ok := fn.Signature.Results().At(0).Type().(*types.Basic); !ok || bt.Kind() != types.Bool {
		return nil
	}
	pt := fn.Signature.Params().At(0).Type()
	if !isReflectValue(pt) && pt.String() != "reflect.Kind" {
		return nil
	}
	kinds := map[int64]bool{}
	for _, b := range fn.Blocks {
		for _, in := range b.Instrs {
			switch x := in.(type) {
			case *ssa.BinOp:
				if k, K := kindCmp(x); k != nil {
					kinds[K] = true
				}
			case *ssa.Call:
				if reflectMethod(x) != "Kind" {
					return nil
				}
			}
		}
	}
	return kinds
}

func sameKinds(set map[int64]bool, ks ...int64) bool {
	if len(set) != len(ks) {
		return false
	}
	for _, k := range ks {
		if !set[k] {
			return false
		}
	}
	return true
}

// kindAtoms: the two boolean values in f that say of each operand "is a float" (kinds 13, 14) or, alternatively, "is a signed integer" (kinds 2..6).
func kindAtoms(m *vmModel, f *ssa.Function) (atoms []ssa.Value, intClass bool) {
	var fl, in []ssa.Value
	subj := map[ssa.Value]ssa.Value{}
	for _, b := range f.Blocks {
		for _, ins := range b.Instrs {
			switch x := ins.(type) {
			case *ssa.Phi:
				if k, set := orOfKinds(x, 0); k != nil {
					if sameKinds(set, 13, 14) {
						fl = append(fl, x)
						subj[x] = k
					} else if sameKinds(set, 2, 3, 4, 5, 6) {
						in = append(in, x)
						subj[x] = k
					}
				}
			case *ssa.Call:
				callee := staticCallee(x)
				if callee == nil || callee.Pkg != m.sp || len(x.Call.Args) != 1 {
					continue
				}
				set := kindSetFunc(callee)
				if sameKinds(set, 13, 14) {
					fl = append(fl, x)
					subj[x] = x.Call.Args[0]
				} else if sameKinds(set, 2, 3, 4, 5, 6) {
					in = append(in, x)
					subj[x] = x.Call.Args[0]
				}
			}
		}
	}
	if len(fl) == 2 && subj[fl[0]] != subj[fl[1]] {
		return fl, false
	}
	if len(fl) == 0 && len(in) == 2 && subj[in[0]] != subj[in[1]] {
		return in, true
	}
	return nil, false
}

// prefixTestedArg: block b lies on the true edge of strings.HasPrefix(arg, ...) for this very value.
func prefixTestedArg(b *ssa.BasicBlock, arg ssa.Value) bool {
	for d := b; d != nil && d.Idom() != nil; d = d.Idom() {
		id := d.Idom()
		iff, ok := id.Instrs[len(id.Instrs)-1].(*ssa.If)
		if !ok {
			continue
		}
		c, ok := iff.Cond.(*ssa.Call)
		if !ok {
			continue
		}
		if o := calleeObj(c); o != nil && isFuncNamed(o, "strings", "", "HasPrefix") && c.Call.Args[0] == arg {
			if id.Succs[0] == d || (id.Succs[0].Dominates(d) && !id.Succs[1].Dominates(d)) {
				return true
			}
		}
	}
	return false
}

// derivesFromParam: v is the parameter, possibly unwrapped by Elem or merged by phis with itself.
func derivesFromParam(v ssa.Value, par *ssa.Parameter, d int) bool {
	if d > 6 {
		return false
	}
	switch x := v.(type) {
	case *ssa.Parameter:
		return x == par
	case *ssa.Phi:
		for _, e := range x.Edges {
			if derivesFromParam(e, par, d+1) {
				return true
			}
		}
	case *ssa.Call:
		if o := calleeObj(x); o != nil && o.Name() == "Elem" && len(x.Call.Args) > 0 {
			return derivesFromParam(x.Call.Args[0], par, d+1)
		}
	}
	return false
}

// underStringTest: b is on the true edge of `Kind(x) == reflect.String` for x derived from par.
func underStringTest(b *ssa.BasicBlock, par *ssa.Parameter) bool {
	for d := b; d != nil && d.Idom() != nil; d = d.Idom() {
		id := d.Idom()
		iff, ok := id.Instrs[len(id.Instrs)-1].(*ssa.If)
		if !ok {
			continue
		}
		bo, ok := iff.Cond.(*ssa.BinOp)
		if !ok || bo.Op != token.EQL {
			continue
		}
		c, ok := bo.Y.(*ssa.Const)
		if !ok || c.Value == nil || c.Int64() != 24 || bo.X.Type().String() != "reflect.Kind" {
			continue
		}
		k, ok := bo.X.(*ssa.Call)
		if !ok || len(k.Call.Args) == 0 || !derivesFromParam(k.Call.Args[0], par, 0) {
			continue
		}
		if id.Succs[0] == d || (id.Succs[0].Dominates(d) && !id.Succs[1].Dominates(d)) {
			return true
		}
	}
	return false
}

// parseLeaves: the strconv parse routines (with constant base) reachable from call c through functions of the vm package.
func parseLeaves(m *vmModel, c *ssa.Call, out map[string]bool, seen map[*ssa.Function]bool) {
	if o := calleeObj(c); o != nil && o.Pkg() != nil && o.Pkg().Path() == "strconv" {
		k := "strconv." + o.Name()
		if len(c.Call.Args) > 1 {
			if b, ok := c.Call.Args[1].(*ssa.Const); ok && strings.HasPrefix(o.Name(), "ParseInt") || strings.HasPrefix(o.Name(), "ParseUint") {
				if ok {
					k += fmt.Sprintf("(base %d)", b.Int64())
				} else {
					k += "(variable base)"
				}
			}
		}
		out[k] = true
		return
	}
	callee := staticCallee(c)
	if callee == nil || callee.Pkg != m.sp || seen[callee] {
		return
	}
	seen[callee] = true
	for _, b := range callee.Blocks {
		for _, in := range b.Instrs {
			if cc, ok := in.(*ssa.Call); ok {
				parseLeaves(m, cc, out, seen)
			}
		}
	}
}

func keysOf(m map[string]bool) string {
	var ks []string
	for k := range m {
		ks = append(ks, k)
	}
	sort.Strings(ks)
	return strings.Join(ks, ", ")
}

// fromInterfaceCall: v is x.Interface() of a reflect.Value.
func fromInterfaceCall(v ssa.Value) bool {
	c, ok := v.(*ssa.Call)
	return ok && reflectMethod(c) == "Interface"
}

// impureOperand: "" when v is the value left by an evaluation, only unwrapped (Elem) or indexed (Index); otherwise what else it went through.
func impureOperand(tt *typeTerms, v ssa.Value, depth int) string {
	if depth > 10 {
		return "a value of unknown origin"
	}
	if u, ok := v.(*ssa.UnOp); ok && u.Op == token.MUL && tt.base != nil && tt.m.cellAddr(u.X, tt.base) == "rv" {
		for d := range tt.before[u]["rv"] {
			switch x := d.(type) {
			case *ssa.Store:
				if why := impureOperand(tt, x.Val, depth+1); why != "" {
					return why
				}
			case *ssa.Call:
				if tt.m.evalRole(x, tt.base) == "" {
					return "the result of " + calleeName(x)
				}
			default:
				return "the value the handler was entered with"
			}
		}
		return ""
	}
	if sv := spilledValue(v); sv != nil {
		return impureOperand(tt, sv, depth+1)
	}
	switch x := v.(type) {
	case *ssa.Phi:
		for _, e := range x.Edges {
			if why := impureOperand(tt, e, depth+1); why != "" {
				return why
			}
		}
		return ""
	case *ssa.Call:
		switch reflectMethod(x) {
		case "Elem":
			if !elemAfterNilTest(tt, x) {
				return "an operand unwrapped without the nil test of the idiom (a nil operand becomes the invalid reflect.Value, which is not nil to the comparator)"
			}
			return impureOperand(tt, x.Call.Args[0], depth+1)
		case "Index":
			return impureOperand(tt, x.Call.Args[0], depth+1)
		}
		return "the result of " + calleeName(x)
	case *ssa.Extract:
		if c, ok := x.Tuple.(*ssa.Call); ok {
			return "the result of " + calleeName(c)
		}
	}
	return "a value of unknown origin"
}

// readingOf: v is a reading of an operand by a helper of the package or a reflect accessor (toInt64(x), numToString(x), x.Bool(), result 0 of tryToBool(x) ...).
func readingOf(m *vmModel, f *ssa.Function, v ssa.Value) bool {
	if ex, ok := v.(*ssa.Extract); ok && ex.Index == 0 {
		v = ex.Tuple
	}
	c, ok := v.(*ssa.Call)
	if !ok || len(c.Call.Args) != 1 || !isReflectValue(c.Call.Args[0].Type()) {
		return false
	}
	if callee := staticCallee(c); callee != nil && callee.Pkg == m.sp {
		return true
	}
	switch reflectMethod(c) {
	case "Int", "Uint", "Float", "Bool", "String":
		return true
	}
	return false
}

func interfaceOfOperand(v ssa.Value) bool {
	c, ok := v.(*ssa.Call)
	return ok && reflectMethod(c) == "Interface"
}

// bothNumeric: block b is dominated by the true edges of two calls of one kind-set predicate (is-number) on two different values.
func bothNumeric(m *vmModel, f *ssa.Function, b *ssa.BasicBlock) bool {
	seen := map[ssa.Value]bool{}
	var pred *ssa.Function
	for d := b; d != nil && d.Idom() != nil; d = d.Idom() {
		id := d.Idom()
		iff, ok := id.Instrs[len(id.Instrs)-1].(*ssa.If)
		if !ok {
			continue
		}
		c, ok := iff.Cond.(*ssa.Call)
		if !ok || len(c.Call.Args) != 1 {
			continue
		}
		callee := staticCallee(c)
		if callee == nil || callee.Pkg != m.sp {
			continue
		}
		ks := kindSetFunc(callee)
		if len(ks) < 8 || !ks[6] || !ks[14] { // a predicate over the numeric kinds (Int64 and Float64 among them)
			continue
		}
		if !edgeOnly(id, 0, d) {
			continue
		}
		if pred != nil && pred != callee {
			continue
		}
		pred = callee
		seen[c.Call.Args[0]] = true
	}
	return len(seen) >= 2
}

// elemAfterNilTest: the Elem() call lies on the not-nil side of an IsNil() test of the same value.
func elemAfterNilTest(tt *typeTerms, c *ssa.Call) bool {
	recv := c.Call.Args[0]
	same := func(v ssa.Value) bool {
		return v == recv || tt.sameValue(v, recv) || sameCellContent(tt, v, recv) || sameAllocLoad(recv, v) || sameAllocLoad(v, recv)
	}
	for d := c.Block(); d != nil && d.Idom() != nil; d = d.Idom() {
		id := d.Idom()
		iff, ok := id.Instrs[len(id.Instrs)-1].(*ssa.If)
		if !ok {
			continue
		}
		cond, neg := iff.Cond, false
		if u, ok := cond.(*ssa.UnOp); ok && u.Op == token.NOT {
			cond, neg = u.X, true
		}
		nc, ok := cond.(*ssa.Call)
		if !ok || reflectMethod(nc) != "IsNil" || !same(nc.Call.Args[0]) {
			continue
		}
		notNil := 1 // successor on which the value is not nil
		if neg {
			notNil = 0
		}
		if edgeOnly(id, notNil, d) {
			return true
		}
	}
	return false
}

// findComparator returns the function `==` is decided by (the two-reflect.Value bool function called under case "==").
func findComparator(m *vmModel) *ssa.Function {
	h := m.handlers["op"]["ComparisonOperator"]
	if h == nil {
		return nil
	}
	for _, b := range h.Blocks {
		for _, in := range b.Instrs {
			c, ok := in.(*ssa.Call)
			if !ok {
				continue
			}
			callee := staticCallee(c)
			if callee == nil || callee.Pkg != m.sp || len(c.Call.Args) != 2 || !isReflectValue(c.Call.Args[0].Type()) || !isReflectValue(c.Call.Args[1].Type()) {
				continue
			}
			if bt, ok := callee.Signature.Results().At(0).Type().(*types.Basic); !ok || bt.Kind() != types.Bool {
				continue
			}
			if operatorCaseOf(b) == "==" {
				return callee
			}
		}
	}
	return nil
}

// paramRoots: which of the function's parameters v is computed from.
func paramRoots(fn *ssa.Function, v ssa.Value, seen map[ssa.Value]bool, out map[int]bool) {
	if seen[v] {
		return
	}
	seen[v] = true
	switch x := v.(type) {
	case *ssa.Parameter:
		for i, pr := range fn.Params {
			if pr == x {
				out[i] = true
			}
		}
		return
	case *ssa.Const, *ssa.Global, *ssa.Function, *ssa.Builtin:
		return
	case *ssa.Alloc:
		// spilled parameter or local: what is stored into it
		for _, ref := range *x.Referrers() {
			if st, ok := ref.(*ssa.Store); ok && st.Addr == ssa.Value(x) {
				paramRoots(fn, st.Val, seen, out)
			}
		}
		return
	}
	if in, ok := v.(ssa.Instruction); ok {
		for _, op := range in.Operands(nil) {
			if *op != nil {
				paramRoots(fn, *op, seen, out)
			}
		}
	}
}

// comparatorOperandsIndependent: in the comparator, what is done to one operand before the comparison (taking it out of its
// interface or pointer) is not decided by the other operand. An unwrapping of the right operand that runs only when the left
// one needed none (an else-if chain) leaves one side wrapped when both arrive wrapped: equal(a, b) then differs from == on the
// same two values (which unwraps both before calling), and from equal(b, a).
func comparatorOperandsIndependent(p *Program, r *Report, m *vmModel, rule string) {
	f := findComparator(m)
	if f == nil {
		r.Undecided(rule, "comparator", "vm", "comparator not found")
		return
	}
	n := 0
	for _, b := range f.Blocks {
		for _, in := range b.Instrs {
			c, ok := in.(*ssa.Call)
			if !ok || reflectMethod(c) != "Elem" {
				continue
			}
			own := map[int]bool{}
			paramRoots(f, c.Call.Args[0], map[ssa.Value]bool{}, own)
			if len(own) != 1 {
				continue
			}
			me := -1
			for i := range own {
				me = i
			}
			n++
			bad := ""
			// controlling conditions: blocks with an If of which exactly one successor leads to b without leaving b's dominance
			for _, cb := range f.Blocks {
				iff, ok := cb.Instrs[len(cb.Instrs)-1].(*ssa.If)
				if !ok || cb == b || !cb.Dominates(b) {
					continue
				}
				r0, r1 := reachable(cb.Succs[0], nil)[b], reachable(cb.Succs[1], nil)[b]
				if r0 == r1 {
					continue
				}
				other := cb.Succs[0]
				if r0 {
					other = cb.Succs[1]
				}
				roots := map[int]bool{}
				paramRoots(f, iff.Cond, map[ssa.Value]bool{}, roots)
				if roots[me] || len(roots) == 0 {
					continue
				}
				// an early exit (the other side returns without rejoining) is not a dependence of the preparation
				fromOther, fromB := reachable(other, nil), reachable(b, nil)
				joins := false
				for x := range fromOther {
					if fromB[x] && x != b {
						joins = true
					}
				}
				if joins {
					bad = "whether it runs is decided at " + p.Pos(instrPos(iff)) + " by the other operand alone"
				}
			}
			r.Check(bad == "", rule, fmt.Sprintf("%s|unwrapping #%d of operand %d is independent of the other operand", f.Name(), n, me+1), p.Pos(c.Pos()),
				"controlled by tests on the operand itself (and by early exits)", bad+": when both operands arrive inside an interface only one is taken out, and the comparator's answer depends on the side a value is on and on how it was obtained")
		}
	}
	r.Floor(rule, n, 2)
}
