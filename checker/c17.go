package main

import (
	"fmt"
	"go/token"
	"go/types"
	"sort"
	"strings"

	"golang.org/x/tools/go/ssa"
)

func init() {
	register("C17", "the AST walker reaches every node of every parsed program", func(p *Program, r *Report) {
		checkC17(p, r)
		r.Explain("R4 a return that comes before a walker looks at its node is taken only when the node or the callback is nil.")
		c17EarlyExits(p, r)
		r.Explain("R5 every error a function of the walker package returns is the callback's result, another walker's result, or the unknown-kind error made in the default arm of the kind switch.")
		c17ErrorOrigin(p, r)
	})
}

// walker describes one function of astutil that walks nodes of a category.
type walker struct {
	fn     *ssa.Function
	cat    string // Stmt | Expr | Operator
	slice  bool   // walks a slice of nodes by delegating to `elem`
	elem   *walker
	cases  map[string]*ssa.TypeAssert // node kind -> the comma-ok type assertion opening its clause
	multi  map[string]bool            // kinds that share a clause with other kinds (bound variable stays an interface)
	cb     ssa.CallInstruction        // the callback call on the node itself
	hasDef bool
}

func checkC17(p *Program, r *Report) {
	r.Explain("C17: exhaustive structural decision over the node model (E0) and the walker's SSA. " +
		"R1: every node kind the parser can place in a child position (flow analysis of the grammar actions, keyed by grammar symbol recovered from the LALR tables) has a clause in the walk function that position is given to. " +
		"R2: in the clause of kind T every child field of T is passed to a walk function on every path that does not return a callback error (forward must-analysis; element-wise loops are accepted when the visit dominates the loop latches and indexes with the loop's induction variable). " +
		"R6: every child field the grammar actions can leave nil (left out of a node literal, given as nil, or fed from a symbol that is nil for an empty block) is walked nil-safely: the walk function answers nil for a nil node before it looks at it, or the call stands under a non-nil test of the field. " +
		"R3: the callback call on the node dominates all child walks; every result of a walk or callback call is returned directly or tested non-nil with the true edge returning that very value.")
	r.Assume("the callback is only reached through the walk functions of package astutil (closed world: unexported helpers)")
	r.Exhaustive = true
	g, err := BuildLALR(p)
	if err != nil {
		r.Undecided("C17.R1", "tables", "parser/parser.go", err.Error())
		return
	}
	m, err := BuildNodeModel(p, g)
	if err != nil {
		r.Undecided("C17.R1", "model", "ast", err.Error())
		return
	}
	desc := map[string]interface{}{}
	for k, v := range m.describe() {
		if !strings.HasPrefix(k, "nt:") {
			desc[k] = v
		}
	}
	r.Note("producible_kinds", desc)
	sp := p.SSAPkg("ast/astutil")
	if sp == nil {
		r.Undecided("C17.R1", "astutil", "-", "package ast/astutil not loaded")
		return
	}
	// discover walkers
	walkers := map[*ssa.Function]*walker{}
	var order []*walker
	for _, fn := range SrcFuncs(sp) {
		if len(fn.Params) < 2 || fn.Parent() != nil {
			continue
		}
		if _, ok := fn.Params[len(fn.Params)-1].Type().Underlying().(*types.Signature); !ok {
			continue
		}
		cat, sl := m.catOf(fn.Params[0].Type())
		if cat == "" {
			continue
		}
		w := &walker{fn: fn, cat: cat, slice: sl, cases: map[string]*ssa.TypeAssert{}, multi: map[string]bool{}}
		walkers[fn] = w
		order = append(order, w)
	}
	// classify: switch-bearing walkers vs forwarding walkers
	for _, w := range order {
		if w.slice {
			continue
		}
		clauseOf := map[*ssa.BasicBlock][]string{}
		for _, b := range w.fn.Blocks {
			for _, in := range b.Instrs {
				ta, ok := in.(*ssa.TypeAssert)
				if !ok || !ta.CommaOk || ta.X != ssa.Value(w.fn.Params[0]) {
					continue
				}
				if k := m.nodeKind(ta.AssertedType); k != "" {
					w.cases[k] = ta
					if eb := clauseEntry(ta); eb != nil {
						clauseOf[eb] = append(clauseOf[eb], k)
					}
				}
			}
		}
		for _, ks := range clauseOf {
			if len(ks) > 1 {
				for _, k := range ks {
					w.multi[k] = true
				}
			}
		}
	}
	var sw []*walker
	for _, w := range order {
		if !w.slice && len(w.cases) >= 2 {
			sw = append(sw, w)
		}
	}
	r.Floor("C17.R1", len(sw), 3)
	byCat := map[string]*walker{}
	for _, w := range sw {
		if prev := byCat[w.cat]; prev != nil {
			r.Advise(fmt.Sprintf("two switch-bearing walkers for category %s: %s and %s", w.cat, funcName(prev.fn), funcName(w.fn)))
		}
		byCat[w.cat] = w
	}
	// forwarding walkers: slice walkers and Walk itself
	isSwitch := func(f *ssa.Function) *walker {
		if w := walkers[f]; w != nil && !w.slice && len(w.cases) >= 2 {
			return w
		}
		return nil
	}
	for _, w := range order {
		if isSwitch(w.fn) != nil {
			continue
		}
		// find delegate: call to a switch-bearing walker with param0 (or an element of it)
		for _, b := range w.fn.Blocks {
			for _, in := range b.Instrs {
				c, ok := in.(ssa.CallInstruction)
				if !ok {
					continue
				}
				if t := isSwitch(staticCallee(c)); t != nil && len(c.Common().Args) > 0 {
					a := c.Common().Args[0]
					if w.slice {
						if isElemOf(a, w.fn.Params[0]) {
							w.elem = t
						}
					} else if a == ssa.Value(w.fn.Params[0]) {
						w.elem = t
					}
				}
			}
		}
	}
	// validate slice walkers: canonical loop over all elements, result propagated
	for _, w := range order {
		if !w.slice {
			continue
		}
		inst := funcName(w.fn)
		site := p.Pos(w.fn.Pos())
		if w.elem == nil {
			r.Fail("C17.R2", inst+"|elements", site, "slice walker does not pass its elements to a walk function")
			continue
		}
		ok, why := canonicalElemLoop(w.fn, w.elem.fn)
		r.Check(ok, "C17.R2", inst+"|elements", site, "range loop over the parameter, element i passed to "+funcName(w.elem.fn), why)
	}
	// the exported entry
	var entry *ssa.Function
	for _, fn := range SrcFuncs(sp) {
		if fn.Object() != nil && fn.Object().Exported() && fn.Parent() == nil {
			if w := walkers[fn]; w != nil && w.elem != nil && !w.slice {
				entry = fn
				root := m.Kinds("root")
				for _, k := range root {
					_, has := w.elem.cases[k]
					r.Check(has, "C17.R1", funcName(w.elem.fn)+"|"+k, p.Pos(w.elem.fn.Pos()),
						"root kind has a clause", "parser returns a "+k+" at the root but "+funcName(w.elem.fn)+" has no clause for it")
				}
			}
		}
	}
	if entry == nil {
		r.Undecided("C17.R1", "entry", "ast/astutil", "exported walk entry not found")
	}

	fieldTarget := func(f *ssa.Function) *walker { // the switch-bearing walker a call to f ends in
		w := walkers[f]
		if w == nil {
			return nil
		}
		if isSwitch(f) != nil {
			return w
		}
		return w.elem
	}

	// per switch-bearing walker: clauses
	nClauses, nFields := 0, 0
	var kindsSeen []string
	required := map[*walker]map[string]string{} // walker -> kind -> a field that needs it
	need := func(w *walker, kind, from string) {
		if required[w] == nil {
			required[w] = map[string]string{}
		}
		if _, ok := required[w][kind]; !ok {
			required[w][kind] = from
		}
	}
	for _, w := range sw {
		wname := funcName(w.fn)
		// R3a: callback on the node dominates every clause
		w.cb = findCallback(w.fn)
		if w.cb == nil {
			r.Fail("C17.R3", wname+"|callback", p.Pos(w.fn.Pos()), "no call presenting the node itself to the callback")
		} else {
			okAll := true
			for k, ta := range w.cases {
				if !instrDominates(w.cb, ta) {
					okAll = false
					r.Fail("C17.R3", wname+"|callback-before|"+k, p.Pos(ta.Pos()), "children of "+k+" can be walked before the node itself is presented")
				}
			}
			if okAll {
				r.OK("C17.R3", wname+"|callback", p.Pos(w.cb.Pos()), "callback call on the node dominates all clauses")
			}
		}
		var kinds []string
		for k := range w.cases {
			kinds = append(kinds, k)
		}
		sort.Strings(kinds)
		for _, k := range kinds {
			ta := w.cases[k]
			nClauses++
			kindsSeen = append(kindsSeen, wname+":"+k)
			children := m.Children[k]
			if len(children) == 0 {
				r.OK("C17.R2", wname+"|"+k, p.Pos(ta.Pos()), "leaf kind: no child fields")
				continue
			}
			res := analyseClause(m, w, k, ta, walkers, fieldTarget)
			for _, cf := range children {
				nFields++
				inst := wname + "|" + k + "." + cf.Name
				site := p.Pos(ta.Pos())
				switch {
				case w.multi[k]:
					r.Fail("C17.R2", inst, site, "clause shared with other kinds: child field is never walked")
				case res.inline[cf.Name] != "":
					// handled inline by type assertion of the elements
					if res.inlineOK[cf.Name] {
						r.OK("C17.R2", inst, site, "elements handled inline as "+res.inline[cf.Name]+": presented to the callback and children walked")
					} else {
						r.Fail("C17.R2", inst, site, "elements handled inline as "+res.inline[cf.Name]+" but "+res.inlineWhy[cf.Name])
					}
				case res.missingAt[cf.Name] != "":
					r.Fail("C17.R2", inst, site, "child field "+cf.Name+" is not walked on the path returning at "+res.missingAt[cf.Name])
				default:
					r.OK("C17.R2", inst, site, "walked on every non-error path ("+res.via[cf.Name]+")")
				}
				if tw := res.target[cf.Name]; tw != nil {
					for _, ck := range m.Kinds("field:" + k + "." + cf.Name) {
						need(tw, ck, k+"."+cf.Name)
					}
				}
			}
		}
		// R3b: every result is propagated
		for _, b := range w.fn.Blocks {
			for _, in := range b.Instrs {
				c, ok := in.(*ssa.Call)
				if !ok {
					continue
				}
				callee := staticCallee(c)
				isWalk := callee != nil && walkers[callee] != nil
				isCb := w.cb != nil && ssa.Instruction(c) == ssa.Instruction(w.cb)
				if !isWalk && !isCb {
					continue
				}
				ok2, why := resultPropagated(c)
				what := "callback"
				if isWalk {
					what = funcName(callee)
				}
				inst := fmt.Sprintf("%s|result-of|%s|%s", wname, what, argDesc(c))
				r.Check(ok2, "C17.R3", inst, p.Pos(c.Pos()), "error result returned or tested with the non-nil edge returning it", why)
			}
		}
	}
	// R3b in the helpers of the package (functions that are not kind-switch walkers): results of walks are propagated there too
	isSw := map[*ssa.Function]bool{}
	for _, w := range sw {
		isSw[w.fn] = true
	}
	for _, fn := range SrcFuncs(sp) {
		if isSw[fn] || fn.Parent() != nil {
			continue
		}
		for _, b := range fn.Blocks {
			for _, in := range b.Instrs {
				c, ok := in.(*ssa.Call)
				if !ok || staticCallee(c) == nil || staticCallee(c).Pkg != fn.Pkg {
					continue
				}
				callee := staticCallee(c)
				res := callee.Signature.Results()
				if res.Len() != 1 || !isErrorType(res.At(0).Type()) {
					continue
				}
				if walkers[callee] == nil && len(helperSummary(m, callee, walkers, fieldTarget, 0).param) == 0 && len(helperSummary(m, callee, walkers, fieldTarget, 0).fields) == 0 {
					continue
				}
				ok2, why := resultPropagated(c)
				r.Check(ok2, "C17.R3", fmt.Sprintf("%s|result-of|%s|%s", funcName(fn), funcName(callee), argDesc(c)), p.Pos(c.Pos()), "error result returned or tested with the non-nil edge returning it", why)
			}
		}
	}
	// R1: required kinds have clauses
	for _, w := range sw {
		var ks []string
		for k := range required[w] {
			ks = append(ks, k)
		}
		sort.Strings(ks)
		for _, k := range ks {
			_, has := w.cases[k]
			r.Check(has, "C17.R1", funcName(w.fn)+"|"+k, p.Pos(w.fn.Pos()),
				"clause present (needed for "+required[w][k]+")",
				"the parser can place a "+k+" in "+required[w][k]+" but "+funcName(w.fn)+" has no clause for it")
		}
	}
	// kinds producible somewhere but never required by any walked field: unreachable for the walker
	reachK := map[string]bool{}
	for _, w := range sw {
		for k := range required[w] {
			reachK[k] = true
		}
	}
	for _, k := range m.Kinds("root") {
		reachK[k] = true
	}
	for _, cat := range []string{"Stmt", "Expr", "Operator"} {
		for _, k := range m.Kinds("cat:" + cat) {
			if !reachK[k] {
				r.Fail("C17.R1", "unreached|"+k, "-", "the parser produces "+k+" nodes but no walked child position can hold one: such nodes are never presented")
			}
		}
	}
	c17NilChildren(p, r, g, m, walkers, sw)
	r.Note("walkers", len(order))
	r.Note("clauses", nClauses)
	r.Note("child_fields_checked", nFields)
	r.Note("clauses_list", kindsSeen)
}

// clauseEntry returns the block entered when a comma-ok type assertion succeeds.
func clauseEntry(ta *ssa.TypeAssert) *ssa.BasicBlock {
	for _, ref := range *ta.Referrers() {
		ex, ok := ref.(*ssa.Extract)
		if !ok || ex.Index != 1 {
			continue
		}
		for _, r2 := range *ex.Referrers() {
			if iff, ok := r2.(*ssa.If); ok {
				return iff.Block().Succs[0]
			}
		}
	}
	return nil
}

func clauseValue(ta *ssa.TypeAssert) ssa.Value {
	for _, ref := range *ta.Referrers() {
		if ex, ok := ref.(*ssa.Extract); ok && ex.Index == 0 {
			return ex
		}
	}
	return nil
}

// isElemOf reports whether v is *(&slice[i]) for the given slice value.
func isElemOf(v ssa.Value, slice ssa.Value) bool {
	u, ok := v.(*ssa.UnOp)
	if !ok {
		return false
	}
	ia, ok := u.X.(*ssa.IndexAddr)
	return ok && ia.X == slice
}

// fieldLoad: v == *(&x.F) → (x, field index)
func fieldLoad(v ssa.Value) (ssa.Value, int, bool) {
	u, ok := v.(*ssa.UnOp)
	if !ok {
		return nil, 0, false
	}
	fa, ok := u.X.(*ssa.FieldAddr)
	if !ok {
		return nil, 0, false
	}
	return fa.X, fa.Field, true
}

// canonicalElemLoop checks `for _, x := range xs { if err := target(x, f); err != nil { return err } }`.
func canonicalElemLoop(fn, target *ssa.Function) (bool, string) {
	var call *ssa.Call
	for _, b := range fn.Blocks {
		for _, in := range b.Instrs {
			if c, ok := in.(*ssa.Call); ok && staticCallee(c) == target {
				if call != nil {
					return false, "more than one delegating call"
				}
				call = c
			}
		}
	}
	if call == nil {
		return false, "no delegating call"
	}
	u := call.Call.Args[0].(*ssa.UnOp)
	ia := u.X.(*ssa.IndexAddr)
	if !isRangeIndex(ia.Index, fn.Params[0]) {
		return false, "element index is not the range induction variable over the whole parameter"
	}
	// the call must be inside the loop and dominate the latch
	for _, l := range loopsOf(fn) {
		if l.Body[call.Block()] {
			for _, la := range l.Latches {
				if !(call.Block() == la || call.Block().Dominates(la)) {
					return false, "an iteration can skip the element"
				}
			}
			if ok, why := resultPropagated(call); !ok {
				return false, why
			}
			return true, ""
		}
	}
	return false, "delegating call is not inside a loop"
}

// isRangeIndex recognises the lowered `for i := range xs` induction variable: i = phi(-1, i+1) + 1 bounded by len(xs),
// or the classic i = phi(0, i+1) with i < len(xs).
func isRangeIndex(idx ssa.Value, xs ssa.Value) bool {
	// lowered range: idx = BinOp(phi + 1)
	if bo, ok := idx.(*ssa.BinOp); ok {
		if phi, ok := bo.X.(*ssa.Phi); ok {
			if c, ok := bo.Y.(*ssa.Const); ok && c.Int64() == 1 {
				hasInit, hasStep := false, false
				for _, e := range phi.Edges {
					if c, ok := e.(*ssa.Const); ok && c.Int64() == -1 {
						hasInit = true
					}
					if e == ssa.Value(bo) {
						hasStep = true
					}
				}
				if hasInit && hasStep && boundedByLen(bo, xs) {
					return true
				}
			}
		}
	}
	if phi, ok := idx.(*ssa.Phi); ok {
		hasInit, hasStep := false, false
		for _, e := range phi.Edges {
			if c, ok := e.(*ssa.Const); ok && c.Int64() == 0 {
				hasInit = true
			}
			if bo, ok := e.(*ssa.BinOp); ok && bo.X == ssa.Value(phi) {
				if c, ok := bo.Y.(*ssa.Const); ok && c.Int64() == 1 {
					hasStep = true
				}
			}
		}
		return hasInit && hasStep && boundedByLen(phi, xs)
	}
	return false
}

func boundedByLen(i ssa.Value, xs ssa.Value) bool {
	for _, ref := range *i.Referrers() {
		bo, ok := ref.(*ssa.BinOp)
		if !ok || bo.X != i {
			continue
		}
		if c, ok := bo.Y.(*ssa.Call); ok {
			if b, ok := c.Call.Value.(*ssa.Builtin); ok && b.Name() == "len" && len(c.Call.Args) == 1 && sameSlice(c.Call.Args[0], xs) {
				return true
			}
		}
	}
	return false
}

func sameSlice(a, b ssa.Value) bool {
	if a == b {
		return true
	}
	// two loads of the same field of the same value
	xa, fa, oka := fieldLoad(a)
	xb, fb, okb := fieldLoad(b)
	return oka && okb && xa == xb && fa == fb
}

// findCallback finds the call presenting param0 to the callback: f(x) or helper(x, f) where helper calls its func parameter.
func findCallback(fn *ssa.Function) ssa.CallInstruction {
	fparam := fn.Params[len(fn.Params)-1]
	for _, b := range fn.Blocks {
		for _, in := range b.Instrs {
			c, ok := in.(*ssa.Call)
			if !ok {
				continue
			}
			cc := c.Common()
			if cc.Value == ssa.Value(fparam) && len(cc.Args) == 1 && stripConv(cc.Args[0]) == ssa.Value(fn.Params[0]) {
				return c
			}
			if callee := cc.StaticCallee(); callee != nil && len(cc.Args) == 2 && cc.Args[1] == ssa.Value(fparam) &&
				stripConv(cc.Args[0]) == ssa.Value(fn.Params[0]) && callsItsFuncParam(callee) {
				return c
			}
		}
	}
	return nil
}

// callsItsFuncParam: helper(x, f) returns f(x) whenever both are non-nil.
func callsItsFuncParam(fn *ssa.Function) bool {
	if len(fn.Params) != 2 || fn.Blocks == nil {
		return false
	}
	for _, b := range fn.Blocks {
		for _, in := range b.Instrs {
			c, ok := in.(*ssa.Call)
			if !ok {
				continue
			}
			if c.Call.Value == ssa.Value(fn.Params[1]) && len(c.Call.Args) == 1 && c.Call.Args[0] == ssa.Value(fn.Params[0]) {
				// result must be returned
				for _, ref := range *c.Referrers() {
					if _, ok := ref.(*ssa.Return); ok {
						// every return of constant nil must be guarded by a nil test of a parameter
						return helperNilReturnsGuarded(fn)
					}
				}
			}
		}
	}
	return false
}

func helperNilReturnsGuarded(fn *ssa.Function) bool {
	for _, b := range fn.Blocks {
		ret, ok := b.Instrs[len(b.Instrs)-1].(*ssa.Return)
		if !ok || len(ret.Results) != 1 || !isNilConst(ret.Results[0]) {
			continue
		}
		// all predecessors must branch on param == nil
		if len(b.Preds) == 0 {
			return false
		}
		for _, pr := range b.Preds {
			iff, ok := pr.Instrs[len(pr.Instrs)-1].(*ssa.If)
			if !ok {
				return false
			}
			bo, ok := iff.Cond.(*ssa.BinOp)
			if !ok || !(isNilConst(bo.Y) || isNilConst(bo.X)) {
				return false
			}
			v := bo.X
			if isNilConst(v) {
				v = bo.Y
			}
			if v != ssa.Value(fn.Params[0]) && v != ssa.Value(fn.Params[1]) {
				return false
			}
		}
	}
	return true
}

// resultPropagated: the error result of c is returned directly, or tested `!= nil` with the true edge returning it.
func resultPropagated(c *ssa.Call) (bool, string) {
	refs := *c.Referrers()
	if len(refs) == 0 {
		return false, "the error result is dropped"
	}
	tested := false
	for _, ref := range refs {
		switch x := ref.(type) {
		case *ssa.Return:
			if len(x.Results) == 1 && x.Results[0] == ssa.Value(c) {
				tested = true
			}
		case *ssa.BinOp:
			if !(isNilConst(x.Y) || isNilConst(x.X)) {
				continue
			}
			for _, r2 := range *x.Referrers() {
				iff, ok := r2.(*ssa.If)
				if !ok {
					continue
				}
				var errBlock *ssa.BasicBlock
				switch x.Op.String() {
				case "!=":
					errBlock = iff.Block().Succs[0]
				case "==":
					errBlock = iff.Block().Succs[1]
				}
				if errBlock == nil {
					continue
				}
				ret, ok := errBlock.Instrs[len(errBlock.Instrs)-1].(*ssa.Return)
				if ok && len(errBlock.Instrs) == 1 && len(ret.Results) == 1 && ret.Results[0] == ssa.Value(c) {
					tested = true
				} else {
					return false, "a non-nil error is not returned at once"
				}
			}
		}
	}
	if !tested {
		return false, "the error result is neither returned nor tested"
	}
	// "stops at once": nothing of the package is called between the call and the place its result is returned or tested
	for _, ref := range refs {
		var use ssa.Instruction
		switch x := ref.(type) {
		case *ssa.Return:
			use = x
		case *ssa.BinOp:
			use = x
		}
		if use == nil || use.Block() != c.Block() {
			continue
		}
		between := false
		for _, in := range c.Block().Instrs {
			if in == ssa.Instruction(c) {
				between = true
				continue
			}
			if in == use {
				break
			}
			if !between {
				continue
			}
			if c2, ok := in.(*ssa.Call); ok {
				if callee := staticCallee(c2); (callee != nil && callee.Pkg == c.Parent().Pkg) || c2.Call.Value == c.Parent().Params[len(c.Parent().Params)-1] {
					return false, "another walk or callback call is made before this result is looked at: the walk does not stop at once on an error"
				}
			}
		}
	}
	return true, ""
}

func argDesc(c *ssa.Call) string {
	if len(c.Call.Args) == 0 {
		return "()"
	}
	a := c.Call.Args[0]
	if x, f, ok := fieldLoad(a); ok {
		st := derefType(x.Type()).Underlying().(*types.Struct)
		return namedOf(x.Type()).Obj().Name() + "." + st.Field(f).Name()
	}
	if u, ok := a.(*ssa.UnOp); ok {
		if ia, ok := u.X.(*ssa.IndexAddr); ok {
			if x, f, ok := fieldLoad(ia.X); ok {
				st := derefType(x.Type()).Underlying().(*types.Struct)
				return namedOf(x.Type()).Obj().Name() + "." + st.Field(f).Name() + "[i]"
			}
			return "param[i]"
		}
	}
	if _, ok := stripConv(a).(*ssa.Parameter); ok {
		return "node"
	}
	if _, ok := stripConv(a).(*ssa.Alloc); ok {
		return "fresh-node"
	}
	return "value"
}

type clauseResult struct {
	missingAt map[string]string // field -> position of a return reached without visiting it
	via       map[string]string
	target    map[string]*walker
	inline    map[string]string // field -> kind the elements are asserted to
	inlineOK  map[string]bool
	inlineWhy map[string]string
}

// analyseClause runs the forward must-analysis of visited child fields over one clause.
func analyseClause(m *NodeModel, w *walker, kind string, ta *ssa.TypeAssert, walkers map[*ssa.Function]*walker, target func(*ssa.Function) *walker) *clauseResult {
	return analyseFrom(m, w, kind, clauseEntry(ta), clauseValue(ta), walkers, target, 0)
}

// helperWalks: what a function of the walker package that is not itself a walk function does with its parameters, so that a
// clause which hands children (or the node) to a helper is judged like one that walks them itself.
//   param[j]  parameter j (a child: statement, expression, operator or a list of them) is walked on every non-error path
//   fields[j] for a parameter that is a node: its child fields walked on every non-error path
type helperWalks struct {
	param  map[int]*walker
	fields map[int]map[string]*walker
}

var helperWalkCache = map[*ssa.Function]*helperWalks{}

func helperSummary(m *NodeModel, g *ssa.Function, walkers map[*ssa.Function]*walker, target func(*ssa.Function) *walker, depth int) *helperWalks {
	if hw, ok := helperWalkCache[g]; ok {
		return hw
	}
	hw := &helperWalks{param: map[int]*walker{}, fields: map[int]map[string]*walker{}}
	helperWalkCache[g] = hw // recursion sees the empty summary
	if depth > 3 || len(g.Blocks) == 0 {
		return hw
	}
	for j, prm := range g.Params {
		if cat, _ := m.catOf(prm.Type()); cat != "" {
			// must-walk of the parameter as a whole
			var tw *walker
			events := map[ssa.Instruction]bool{}
			errEdge := map[*ssa.BasicBlock]*ssa.BasicBlock{}
			for _, b := range g.Blocks {
				for _, in := range b.Instrs {
					c, ok := in.(*ssa.Call)
					if !ok || staticCallee(c) == nil || len(c.Call.Args) == 0 {
						continue
					}
					callee := staticCallee(c)
					hit := false
					if walkers[callee] != nil && !multiChildHelper(m, callee) && c.Call.Args[0] == ssa.Value(prm) {
						hit = true
						tw = target(callee)
					} else if callee.Pkg == g.Pkg && (walkers[callee] == nil || multiChildHelper(m, callee)) {
						sub := helperSummary(m, callee, walkers, target, depth+1)
						for i, a := range c.Call.Args {
							if a == ssa.Value(prm) && sub.param[i] != nil {
								hit = true
								tw = sub.param[i]
							}
						}
					}
					if hit {
						events[c] = true
					}
					if walkers[callee] != nil || callee.Pkg == g.Pkg {
						for _, ref := range *c.Referrers() {
							if bo, ok := ref.(*ssa.BinOp); ok && isNilConst(bo.Y) {
								for _, r2 := range *bo.Referrers() {
									if iff, ok := r2.(*ssa.If); ok {
										if bo.Op == token.NEQ {
											errEdge[iff.Block()] = iff.Block().Succs[0]
										} else if bo.Op == token.EQL {
											errEdge[iff.Block()] = iff.Block().Succs[1]
										}
									}
								}
							}
						}
					}
				}
			}
			if len(events) > 0 && mustPassBeforeReturn(g, events, errEdge) {
				hw.param[j] = tw
			}
			continue
		}
		if kind := m.nodeKind(prm.Type()); kind != "" {
			res := analyseFrom(m, &walker{fn: g}, kind, g.Blocks[0], prm, walkers, target, depth+1)
			fs := map[string]*walker{}
			for _, cf := range m.Children[kind] {
				if res.missingAt[cf.Name] == "" && res.via[cf.Name] != "" {
					fs[cf.Name] = res.target[cf.Name]
				}
			}
			hw.fields[j] = fs
		}
	}
	return hw
}

// multiChildHelper: a function that takes several children at once (walkLoop(init, cond, post, body, f)) is a helper, not a
// walk function of its first parameter.
func multiChildHelper(m *NodeModel, fn *ssa.Function) bool {
	n := 0
	for _, prm := range fn.Params {
		if cat, _ := m.catOf(prm.Type()); cat != "" {
			n++
		}
	}
	return n >= 2
}

// mustPassBeforeReturn: every path from the entry to a return that is not taken on the error edge of a walk passes an event.
func mustPassBeforeReturn(g *ssa.Function, events map[ssa.Instruction]bool, errEdge map[*ssa.BasicBlock]*ssa.BasicBlock) bool {
	type st struct {
		b    *ssa.BasicBlock
		seen bool
	}
	visited := map[st]bool{}
	work := []st{{g.Blocks[0], false}}
	for len(work) > 0 {
		c := work[len(work)-1]
		work = work[:len(work)-1]
		if visited[c] {
			continue
		}
		visited[c] = true
		seen := c.seen
		for _, in := range c.b.Instrs {
			if events[in] {
				seen = true
			}
			if _, isRet := in.(*ssa.Return); isRet && !seen {
				return false
			}
		}
		for _, s := range c.b.Succs {
			if errEdge[c.b] == s {
				continue
			}
			work = append(work, st{s, seen})
		}
	}
	return true
}

func analyseFrom(m *NodeModel, w *walker, kind string, entry *ssa.BasicBlock, nv ssa.Value, walkers map[*ssa.Function]*walker, target func(*ssa.Function) *walker, depth int) *clauseResult {
	res := &clauseResult{missingAt: map[string]string{}, via: map[string]string{}, target: map[string]*walker{},
		inline: map[string]string{}, inlineOK: map[string]bool{}, inlineWhy: map[string]string{}}
	children := m.Children[kind]
	st := m.Nodes[kind].Underlying().(*types.Struct)
	fieldIdx := map[int]string{}
	for _, cf := range children {
		fieldIdx[cf.Index] = cf.Name
	}
	if entry == nil {
		for _, cf := range children {
			res.missingAt[cf.Name] = "clause entry not found"
		}
		return res
	}
	prog := w.fn.Prog
	pos := func(in ssa.Instruction) string {
		ps := prog.Fset.Position(instrPos(in))
		return fmt.Sprintf("line %d", ps.Line)
	}
	// events: call -> field visited (whole) ; element visits hoisted to loop headers
	whole := map[ssa.Instruction]string{}
	hoist := map[*ssa.BasicBlock][]string{}
	errEdge := map[*ssa.BasicBlock]*ssa.BasicBlock{} // block ending in If on a walk result -> error successor
	loops := loopsOf(w.fn)
	region := reachable(entry, nil)
	for b := range region {
		for _, in := range b.Instrs {
			c, ok := in.(*ssa.Call)
			if !ok {
				continue
			}
			callee := staticCallee(c)
			if callee != nil && (walkers[callee] == nil || multiChildHelper(m, callee)) && callee.Pkg == w.fn.Pkg && nv != nil && len(callee.Blocks) > 0 && callee != w.fn {
				// children (or the node itself) handed to a helper of the package
				hw := helperSummary(m, callee, walkers, target, depth)
				var names []string
				for i, a := range c.Call.Args {
					if x, f, ok := fieldLoad(a); ok && x == nv {
						if name, ok := fieldIdx[f]; ok && hw.param[i] != nil {
							names = append(names, name)
							res.via[name] = "handed to " + funcName(callee)
							res.target[name] = hw.param[i]
						}
					}
					if a == nv {
						for name, tw := range hw.fields[i] {
							names = append(names, name)
							res.via[name] = "node handed to " + funcName(callee)
							res.target[name] = tw
						}
					}
				}
				if len(names) > 0 {
					sort.Strings(names)
					whole[c] = strings.Join(names, ",")
					for _, ref := range *c.Referrers() {
						if bo, ok := ref.(*ssa.BinOp); ok && (isNilConst(bo.Y) || isNilConst(bo.X)) {
							for _, r2 := range *bo.Referrers() {
								if iff, ok := r2.(*ssa.If); ok {
									if bo.Op.String() == "!=" {
										errEdge[iff.Block()] = iff.Block().Succs[0]
									} else if bo.Op.String() == "==" {
										errEdge[iff.Block()] = iff.Block().Succs[1]
									}
								}
							}
						}
					}
				}
				continue
			}
			if callee == nil || walkers[callee] == nil || len(c.Call.Args) == 0 {
				continue
			}
			a := c.Call.Args[0]
			if sl, ok := a.(*ssa.Slice); ok && nv != nil && walkers[callee].slice {
				// a list literal of children handed to a list walker: []ast.Stmt{stmt.Try, stmt.Catch, stmt.Finally}
				if al, ok := sl.X.(*ssa.Alloc); ok {
					var names []string
					for _, ref := range *al.Referrers() {
						ia, ok := ref.(*ssa.IndexAddr)
						if !ok {
							continue
						}
						for _, r2 := range *ia.Referrers() {
							if st, ok := r2.(*ssa.Store); ok && st.Addr == ssa.Value(ia) {
								if x, f, ok := fieldLoad(st.Val); ok && x == nv {
									if name, ok := fieldIdx[f]; ok && instrDominates(st, c) {
										names = append(names, name)
										res.via[name] = "element of a list literal given to " + funcName(callee)
										res.target[name] = target(callee)
									}
								}
							}
						}
					}
					if len(names) > 0 {
						sort.Strings(names)
						whole[c] = strings.Join(names, ",")
					}
				}
			}
			if x, f, ok := fieldLoad(a); ok && nv != nil && x == nv {
				if name, ok := fieldIdx[f]; ok {
					whole[c] = name
					res.via[name] = funcName(callee)
					res.target[name] = target(callee)
				}
			} else if al, ok := stripConv(a).(*ssa.Alloc); ok && nv != nil && m.nodeKind(al.Type()) != "" {
				// a fresh node built from this node's fields and walked in its place:
				// field F stored into field G of the fresh node counts as a visit of F (G is checked in the fresh kind's own clause)
				for _, ref := range *al.Referrers() {
					fa, ok := ref.(*ssa.FieldAddr)
					if !ok {
						continue
					}
					for _, r2 := range *fa.Referrers() {
						st, ok := r2.(*ssa.Store)
						if !ok || st.Addr != ssa.Value(fa) {
							continue
						}
						if x, f, ok := fieldLoad(st.Val); ok && x == nv {
							if name, ok := fieldIdx[f]; ok && instrDominates(st, c) {
								gname := fieldOfAddr(fa).Name()
								isChild := false
								for _, cf := range m.Children[m.nodeKind(al.Type())] {
									if cf.Name == gname {
										isChild = true
									}
								}
								if isChild {
									if whole[c] == "" {
										whole[c] = name
									} else {
										whole[c] += "," + name
									}
									res.via[name] = "fresh " + m.nodeKind(al.Type()) + "." + gname + " given to " + funcName(callee)
									res.target[name] = target(callee)
								}
							}
						}
					}
				}
			} else if u, ok := a.(*ssa.UnOp); ok {
				if ia, ok := u.X.(*ssa.IndexAddr); ok {
					if x, f, ok := fieldLoad(ia.X); ok && nv != nil && x == nv {
						if name, ok := fieldIdx[f]; ok {
							// element-wise visit: find innermost loop
							var inner *Loop
							for _, l := range loops {
								if l.Body[b] && (inner == nil || len(l.Body) < len(inner.Body)) {
									inner = l
								}
							}
							okLoop := inner != nil && isRangeIndexAny(ia.Index, nv, st)
							if okLoop {
								for _, la := range inner.Latches {
									if !(b == la || b.Dominates(la)) {
										okLoop = false
									}
								}
							}
							if okLoop {
								hoist[inner.Header] = append(hoist[inner.Header], name)
								res.via[name] = "element-wise " + funcName(callee)
								res.target[name] = target(callee)
							}
						}
					}
				}
			}
			// error edges
			for _, ref := range *c.Referrers() {
				if bo, ok := ref.(*ssa.BinOp); ok && (isNilConst(bo.Y) || isNilConst(bo.X)) {
					for _, r2 := range *bo.Referrers() {
						if iff, ok := r2.(*ssa.If); ok {
							if bo.Op.String() == "!=" {
								errEdge[iff.Block()] = iff.Block().Succs[0]
							} else if bo.Op.String() == "==" {
								errEdge[iff.Block()] = iff.Block().Succs[1]
							}
						}
					}
				}
			}
		}
	}
	// inline handling: elements of a slice field type-asserted to a node kind
	if nv != nil {
		for b := range region {
			for _, in := range b.Instrs {
				ta2, ok := in.(*ssa.TypeAssert)
				if !ok || ta2.CommaOk {
					continue
				}
				u, ok := ta2.X.(*ssa.UnOp)
				if !ok {
					continue
				}
				ia, ok := u.X.(*ssa.IndexAddr)
				if !ok {
					continue
				}
				x, f, ok := fieldLoad(ia.X)
				if !ok || x != nv {
					continue
				}
				name, ok := fieldIdx[f]
				if !ok {
					continue
				}
				if _, walked := res.via[name]; walked {
					continue
				}
				k2 := m.nodeKind(ta2.AssertedType)
				if k2 == "" {
					continue
				}
				res.inline[name] = k2
				// may-analysis: callback on the element, and each child field of k2 given to a walker
				var missing []string
				cbSeen := false
				seenF := map[string]bool{}
				for b2 := range region {
					for _, in2 := range b2.Instrs {
						c, ok := in2.(*ssa.Call)
						if !ok || len(c.Call.Args) == 0 {
							continue
						}
						a0 := c.Call.Args[0]
						if stripConv(a0) == ssa.Value(ta2) {
							if w.cb != nil && (staticCallee(c) == staticCallee(w.cb) || c.Call.Value == w.cb.Common().Value) {
								cbSeen = true
							}
						}
						if x2, f2, ok := fieldLoad(a0); ok && x2 == ssa.Value(ta2) {
							if callee := staticCallee(c); callee != nil && walkers[callee] != nil {
								seenF[derefType(ta2.AssertedType).Underlying().(*types.Struct).Field(f2).Name()] = true
							}
						}
					}
				}
				if !cbSeen {
					missing = append(missing, "the "+k2+" node itself is never presented to the callback")
				}
				for _, cf := range m.Children[k2] {
					if !seenF[cf.Name] {
						missing = append(missing, "its child field "+cf.Name+" is not walked")
					}
				}
				res.inlineOK[name] = len(missing) == 0
				res.inlineWhy[name] = strings.Join(missing, "; ")
			}
		}
	}
	// dataflow
	all := map[string]bool{}
	for _, cf := range children {
		all[cf.Name] = true
	}
	in := map[*ssa.BasicBlock]map[string]bool{}
	clone := func(s map[string]bool) map[string]bool {
		o := map[string]bool{}
		for k := range s {
			o[k] = true
		}
		return o
	}
	work := []*ssa.BasicBlock{entry}
	in[entry] = map[string]bool{}
	for len(work) > 0 {
		b := work[0]
		work = work[1:]
		state := clone(in[b])
		for _, h := range hoist[b] {
			state[h] = true
		}
		for _, ins := range b.Instrs {
			if name, ok := whole[ins]; ok {
				for _, n1 := range strings.Split(name, ",") {
					state[n1] = true
				}
			}
			if ret, ok := ins.(*ssa.Return); ok {
				for _, cf := range children {
					if !state[cf.Name] && res.missingAt[cf.Name] == "" {
						res.missingAt[cf.Name] = pos(ret)
					}
				}
			}
		}
		for si, s := range b.Succs {
			if errEdge[b] == s {
				continue
			}
			state := state
			// on the nil side of a test of a child field there is nothing of that field to walk
			if iff, ok := b.Instrs[len(b.Instrs)-1].(*ssa.If); ok && nv != nil && len(b.Succs) == 2 && b.Succs[0] != b.Succs[1] {
				if bo, ok := iff.Cond.(*ssa.BinOp); ok && isNilConst(bo.Y) {
					if x, f, ok := fieldLoad(bo.X); ok && x == nv {
						if name, ok := fieldIdx[f]; ok && ((bo.Op == token.EQL && si == 0) || (bo.Op == token.NEQ && si == 1)) {
							state = clone(state)
							state[name] = true
						}
					}
				}
			}
			old, seen := in[s]
			if !seen {
				in[s] = clone(state)
				work = append(work, s)
				continue
			}
			changed := false
			for k := range old {
				if !state[k] {
					delete(old, k)
					changed = true
				}
			}
			if changed {
				work = append(work, s)
			}
		}
	}
	_ = all
	return res
}

// isRangeIndexAny: idx is the induction variable of a loop bounded by len of some slice field of nv.
func isRangeIndexAny(idx ssa.Value, nv ssa.Value, st *types.Struct) bool {
	check := func(i ssa.Value) bool {
		for _, ref := range *i.Referrers() {
			bo, ok := ref.(*ssa.BinOp)
			if !ok || bo.X != i {
				continue
			}
			if c, ok := bo.Y.(*ssa.Call); ok {
				if b, ok := c.Call.Value.(*ssa.Builtin); ok && b.Name() == "len" && len(c.Call.Args) == 1 {
					if x, _, ok := fieldLoad(c.Call.Args[0]); ok && x == nv {
						return true
					}
				}
			}
		}
		return false
	}
	if bo, ok := idx.(*ssa.BinOp); ok {
		if phi, ok := bo.X.(*ssa.Phi); ok {
			if c, ok := bo.Y.(*ssa.Const); ok && c.Int64() == 1 {
				hasInit, hasStep := false, false
				for _, e := range phi.Edges {
					if c, ok := e.(*ssa.Const); ok && c.Int64() == -1 {
						hasInit = true
					}
					if e == ssa.Value(bo) {
						hasStep = true
					}
				}
				return hasInit && hasStep && check(bo)
			}
		}
	}
	if phi, ok := idx.(*ssa.Phi); ok {
		hasInit, hasStep := false, false
		for _, e := range phi.Edges {
			if c, ok := e.(*ssa.Const); ok && c.Int64() == 0 {
				hasInit = true
			}
			if bo, ok := e.(*ssa.BinOp); ok && bo.X == ssa.Value(phi) {
				if c, ok := bo.Y.(*ssa.Const); ok && c.Int64() == 1 {
					hasStep = true
				}
			}
		}
		return hasInit && hasStep && check(phi)
	}
	return false
}

// c17EarlyExits (R4): a walker looks at every non-nil node: a return that comes before the walker examines the node's kind (or
// before a forwarding walker calls on) is taken only when the node or the callback is nil.
func c17EarlyExits(p *Program, r *Report) {
	sp := p.SSAPkg("ast/astutil")
	if sp == nil {
		return
	}
	n := 0
	for _, fn := range SrcFuncs(sp) {
		if len(fn.Params) < 2 || fn.Parent() != nil || len(fn.Blocks) == 0 {
			continue
		}
		if _, ok := fn.Params[len(fn.Params)-1].Type().Underlying().(*types.Signature); !ok {
			continue
		}
		// the first place the node is looked at: a type assertion on it, or a call that passes it (or an element of it) on
		var work *ssa.BasicBlock
		for _, b := range fn.Blocks {
			for _, in := range b.Instrs {
				switch x := in.(type) {
				case *ssa.TypeAssert:
					if x.X == ssa.Value(fn.Params[0]) && work == nil {
						work = b
					}
				case *ssa.Call:
					if work == nil && x.Call.Value != nil {
						for _, a := range x.Call.Args {
							if ci, ok := a.(*ssa.ChangeInterface); ok {
								a = ci.X
							}
							if mi, ok := a.(*ssa.MakeInterface); ok {
								a = mi.X
							}
							if a == ssa.Value(fn.Params[0]) {
								work = b
							}
						}
						if x.Call.Value == ssa.Value(fn.Params[len(fn.Params)-1]) {
							work = b
						}
					}
				case *ssa.Range, *ssa.Next:
					if work == nil {
						work = b
					}
				}
			}
			if work != nil {
				break
			}
		}
		if work == nil {
			continue
		}
		for _, b := range fn.Blocks {
			ret, ok := b.Instrs[len(b.Instrs)-1].(*ssa.Return)
			if !ok || b == work || work.Dominates(b) {
				continue
			}
			n++
			// every edge into this early exit is the true edge of `param == nil`
			good := len(b.Preds) > 0
			for _, pr := range b.Preds {
				iff, ok := pr.Instrs[len(pr.Instrs)-1].(*ssa.If)
				okEdge := false
				if ok && pr.Succs[0] == b {
					if bo, ok := iff.Cond.(*ssa.BinOp); ok && bo.Op == token.EQL && isNilConst(bo.Y) {
						if _, isPar := bo.X.(*ssa.Parameter); isPar {
							okEdge = true
						}
					}
				}
				if ok && pr.Succs[1] == b {
					if bo, ok := iff.Cond.(*ssa.BinOp); ok && bo.Op == token.NEQ && isNilConst(bo.Y) {
						if _, isPar := bo.X.(*ssa.Parameter); isPar {
							okEdge = true
						}
					}
				}
				if !okEdge {
					good = false
				}
			}
			r.Check(good, "C17.R4", fmt.Sprintf("%s|early exit at block %d", fn.Name(), b.Index), p.Pos(instrPos(ret)), "taken only for a nil node or a nil callback",
				"the walker can return before it looks at the node for a reason other than the node or the callback being nil: whole subtrees are skipped without an error")
		}
	}
	r.Floor("C17.R4", n, 3)
}

// c17ErrorOrigin (R5): "returns no error unless the callback does". Every error a function of the walker package can return
// is the result of the callback, the result of another function of the package, or the "unknown kind" error made in the
// default arm of the switch over the node's kind (the arm reached only when no kind matched; the kinds that do reach it are
// R1's business). An error made anywhere else is an error the callback did not return.
func c17ErrorOrigin(p *Program, r *Report) {
	sp := p.SSAPkg("ast/astutil")
	if sp == nil {
		return
	}
	n := 0
	for _, fn := range SrcFuncs(sp) {
		res := fn.Signature.Results()
		if res.Len() == 0 || !isErrorType(res.At(res.Len()-1).Type()) || len(fn.Blocks) == 0 {
			continue
		}
		// the failing edges of every kind test on the node: a block is in the default arm when all of them dominate it
		var failEdges []*ssa.BasicBlock
		if len(fn.Params) > 0 {
			for _, b := range fn.Blocks {
				for _, in := range b.Instrs {
					ta, ok := in.(*ssa.TypeAssert)
					if !ok || !ta.CommaOk || ta.X != ssa.Value(fn.Params[0]) {
						continue
					}
					if iff, ok := b.Instrs[len(b.Instrs)-1].(*ssa.If); ok {
						if ex, ok := iff.Cond.(*ssa.Extract); ok && ex.Tuple == ssa.Value(ta) && ex.Index == 1 {
							failEdges = append(failEdges, b.Succs[1])
						}
					}
				}
			}
		}
		// the node is presented to the callback before its kind is examined (R3): the default arm lies after that call
		var presented []ssa.Instruction
		if len(fn.Params) > 0 {
			for _, b := range fn.Blocks {
				for _, in := range b.Instrs {
					c, ok := in.(*ssa.Call)
					if !ok {
						continue
					}
					for _, a := range c.Call.Args {
						if ci, ok := a.(*ssa.ChangeInterface); ok {
							a = ci.X
						}
						if mi, ok := a.(*ssa.MakeInterface); ok {
							a = mi.X
						}
						if a == ssa.Value(fn.Params[0]) {
							presented = append(presented, c)
						}
					}
				}
			}
		}
		inDefault := func(b *ssa.BasicBlock) bool {
			if len(failEdges) < 2 {
				return false // one test is not a switch over the kinds
			}
			shown := false
			for _, c := range presented {
				if c.Block() != b && c.Block().Dominates(b) {
					shown = true
				}
			}
			if !shown {
				return false
			}
			for _, fe := range failEdges {
				if fe != b && !fe.Dominates(b) {
					return false
				}
			}
			return true
		}
		count := map[string]int{}
		seen := map[ssa.Value]bool{}
		var visit func(v ssa.Value, at ssa.Instruction)
		visit = func(v ssa.Value, at ssa.Instruction) {
			if seen[v] {
				return
			}
			seen[v] = true
			switch x := v.(type) {
			case *ssa.Const:
				return
			case *ssa.Phi:
				for _, e := range x.Edges {
					visit(e, x)
				}
				return
			case *ssa.Extract:
				visit(x.Tuple, x)
				return
			case *ssa.ChangeInterface:
				visit(x.X, x)
				return
			case *ssa.Call:
				what := "a call through a function value"
				own := false
				if x.Call.IsInvoke() {
					what = "method " + x.Call.Method.Name()
				} else if sc := x.Call.StaticCallee(); sc != nil {
					what = funcName(sc)
					own = sc.Pkg == sp
				} else if _, isPar := x.Call.Value.(*ssa.Parameter); isPar {
					own = true // the callback
				} else if _, isFV := x.Call.Value.(*ssa.FreeVar); isFV {
					own = true
				}
				n++
				key := fn.Name() + "|error from " + what
				count[key]++
				inst := key
				if count[key] > 1 {
					inst = fmt.Sprintf("%s #%d", key, count[key])
				}
				r.Check(own || inDefault(x.Block()), "C17.R5", inst, p.Pos(instrPos(x)),
					"the callback's, a sub-walk's, or the unknown-kind error of the default arm",
					"the walker makes an error of its own outside the default arm of its kind switch: Walk can fail although the callback never returned an error")
				return
			}
			n++
			key := fn.Name() + "|error value " + strings.SplitN(v.String(), "(", 2)[0]
			count[key]++
			inst := key
			if count[key] > 1 {
				inst = fmt.Sprintf("%s #%d", key, count[key])
			}
			var pos token.Pos
			if in, ok := v.(ssa.Instruction); ok {
				pos = instrPos(in)
			} else {
				pos = instrPos(at)
			}
			blk := at.Block()
			if in, ok := v.(ssa.Instruction); ok {
				blk = in.Block()
			}
			r.Check(inDefault(blk), "C17.R5", inst, p.Pos(pos),
				"the callback's, a sub-walk's, or the unknown-kind error of the default arm",
				"the walker returns an error of its own outside the default arm of its kind switch: Walk can fail although the callback never returned an error")
		}
		for _, b := range fn.Blocks {
			ret, ok := b.Instrs[len(b.Instrs)-1].(*ssa.Return)
			if !ok || len(ret.Results) == 0 {
				continue
			}
			visit(ret.Results[len(ret.Results)-1], ret)
		}
	}
	r.Floor("C17.R5", n, 60)
}
