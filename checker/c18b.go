package main

import (
	"fmt"

	"golang.org/x/tools/go/ssa"
)

// C18.R5 — one stream. "writes to standard output exactly what the script prints (followed by one diagnostic line if it
// fails)": the print builtins and the command's own diagnostics must reach the file descriptor in program order. They do
// while nothing holds a buffered handle on os.Stdout. Once one exists (bufio.NewWriter(os.Stdout) in the command, the
// builtins or the interpreter), every direct write of package main (fmt.Print*, fmt.Fprint*(os.Stdout, ...), os.Stdout.Write*)
// must come after a Flush with no script execution in between, and every os.Exit of package main after a Flush:
// otherwise a script that prints and then fails shows its diagnostic before (or in the middle of) its output, or loses the
// tail of its output.
func c18OneStream(p *Program, r *Report, sp *ssa.Package) {
	isStdout := func(v ssa.Value) bool {
		for i := 0; i < 4; i++ {
			switch x := v.(type) {
			case *ssa.MakeInterface:
				v = x.X
				continue
			case *ssa.ChangeInterface:
				v = x.X
				continue
			case *ssa.UnOp:
				if g, ok := x.X.(*ssa.Global); ok && g.Pkg != nil && g.Pkg.Pkg.Path() == "os" && g.Name() == "Stdout" {
					return true
				}
			}
			break
		}
		return false
	}
	var buffered []*ssa.Call
	for _, suffix := range []string{"", "core", "vm", "env", "packages"} {
		spk := p.SSAPkg(suffix)
		if spk == nil {
			continue
		}
		for _, fn := range SrcFuncs(spk) {
			for _, b := range fn.Blocks {
				for _, in := range b.Instrs {
					c, ok := in.(*ssa.Call)
					if !ok || len(c.Call.Args) == 0 {
						continue
					}
					if o := calleeObj(c); o != nil && o.Pkg() != nil && o.Pkg().Path() == "bufio" && (o.Name() == "NewWriter" || o.Name() == "NewWriterSize" || o.Name() == "NewReadWriter") {
						for _, a := range c.Call.Args {
							if isStdout(a) {
								buffered = append(buffered, c)
							}
						}
					}
				}
			}
		}
	}
	// direct writes and exits of package main
	type site struct {
		in   ssa.Instruction
		what string
	}
	var writes, exits []site
	isFlush := func(in ssa.Instruction) bool {
		c, ok := in.(*ssa.Call)
		if !ok {
			return false
		}
		o := calleeObj(c)
		return o != nil && o.Pkg() != nil && o.Pkg().Path() == "bufio" && o.Name() == "Flush"
	}
	runsScript := func(in ssa.Instruction) bool {
		c, ok := in.(*ssa.Call)
		if !ok {
			return false
		}
		if f := staticCallee(c); f != nil && f.Pkg != nil && f.Pkg.Pkg.Path() == modPath+"/vm" {
			return true
		}
		return false
	}
	for _, fn := range SrcFuncs(sp) {
		for _, b := range fn.Blocks {
			for _, in := range b.Instrs {
				c, ok := in.(*ssa.Call)
				if !ok {
					continue
				}
				o := calleeObj(c)
				if o == nil || o.Pkg() == nil {
					continue
				}
				switch {
				case o.Pkg().Path() == "fmt" && (o.Name() == "Print" || o.Name() == "Println" || o.Name() == "Printf"):
					writes = append(writes, site{c, "fmt." + o.Name()})
				case o.Pkg().Path() == "fmt" && (o.Name() == "Fprint" || o.Name() == "Fprintln" || o.Name() == "Fprintf") && len(c.Call.Args) > 0 && isStdout(c.Call.Args[0]):
					writes = append(writes, site{c, "fmt." + o.Name() + "(os.Stdout)"})
				case o.Pkg().Path() == "os" && (o.Name() == "Write" || o.Name() == "WriteString") && len(c.Call.Args) > 0 && isStdout(c.Call.Args[0]):
					writes = append(writes, site{c, "os.Stdout." + o.Name()})
				case o.Pkg().Path() == "os" && o.Name() == "Exit":
					exits = append(exits, site{c, "os.Exit"})
				}
			}
		}
	}
	if len(buffered) == 0 {
		r.OK("C18.R5", "no buffered handle on standard output", "anko.go", fmt.Sprintf("no bufio writer is made on os.Stdout in the command, the builtins or the interpreter: the %d direct writes of package main and the print builtins reach the descriptor in program order", len(writes)))
		r.Floor("C18.R5", len(writes), 2)
		return
	}
	// functions of package main that run script code, directly or through other functions of the package
	runs := map[*ssa.Function]bool{}
	for changed := true; changed; {
		changed = false
		for _, fn := range SrcFuncs(sp) {
			if runs[fn] {
				continue
			}
			for _, b := range fn.Blocks {
				for _, in := range b.Instrs {
					if runsScript(in) {
						runs[fn] = true
					}
					if c, ok := in.(*ssa.Call); ok {
						if f := staticCallee(c); f != nil && runs[f] {
							runs[fn] = true
						}
					}
				}
			}
			if runs[fn] {
				changed = true
			}
		}
	}
	ranScript := func(in ssa.Instruction) bool {
		if runsScript(in) {
			return true
		}
		if c, ok := in.(*ssa.Call); ok {
			if f := staticCallee(c); f != nil && runs[f] {
				return true
			}
		}
		return false
	}
	// flushedBefore: on every path from a script execution in the same function to the site a Flush is passed
	// (a write that no script execution of its function can precede has nothing buffered in front of it)
	flushedBefore := func(s ssa.Instruction) bool {
		fn := s.Parent()
		type pos struct {
			b *ssa.BasicBlock
			i int
		}
		for _, b := range fn.Blocks {
			for i, in := range b.Instrs {
				if !ranScript(in) || in == s {
					continue
				}
				seen := map[pos]bool{}
				work := []pos{{b, i + 1}}
				for len(work) > 0 {
					c := work[len(work)-1]
					work = work[:len(work)-1]
					if seen[c] {
						continue
					}
					seen[c] = true
					stopped := false
					for j := c.i; j < len(c.b.Instrs); j++ {
						if c.b.Instrs[j] == s {
							return false
						}
						if isFlush(c.b.Instrs[j]) {
							stopped = true
							break
						}
					}
					if stopped {
						continue
					}
					for _, n := range c.b.Succs {
						work = append(work, pos{n, 0})
					}
				}
			}
		}
		return true
	}
	where := p.Pos(buffered[0].Pos())
	for i, w := range writes {
		r.Check(flushedBefore(w.in), "C18.R5", fmt.Sprintf("%s|%s #%d after a flush", funcName(w.in.Parent()), w.what, i+1), p.Pos(w.in.Pos()),
			"no script execution of this function reaches the write without passing a Flush",
			"standard output has a buffered handle (made at "+where+") and this direct write is not preceded by a Flush: what the script printed is still in the buffer when this line reaches the descriptor (the diagnostic overtakes the script's output)")
	}
	for i, e := range exits {
		r.Check(flushedBefore(e.in), "C18.R5", fmt.Sprintf("%s|os.Exit #%d after a flush", funcName(e.in.Parent()), i+1), p.Pos(e.in.Pos()),
			"no script execution of this function reaches the exit without passing a Flush",
			"standard output has a buffered handle (made at "+where+") and the process can exit here without a Flush: the tail of the script's output is lost")
	}
	r.Floor("C18.R5", len(writes), 2)
}
