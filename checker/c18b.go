package main

import (
	"fmt"
	"go/token"
	"go/types"

	"golang.org/x/tools/go/ssa"
)

// C18.R5 — one stream. "writes to standard output exactly what the script prints (followed by one diagnostic line if it
// fails)": the print builtins and the command's own diagnostics must reach the file descriptor in program order. They do
// while nothing holds a buffered handle on os.Stdout. Once one exists (bufio.NewWriter(os.Stdout) in the command, the
// builtins or the interpreter), every direct write of package main (fmt.Print*, fmt.Fprint*(os.Stdout, ...), os.Stdout.Write*)
// must come after a Flush with no script execution in between, and every os.Exit of package main after a Flush:
// otherwise a script that prints and then fails shows its diagnostic before (or in the middle of) its output, or loses the
// tail of its output.
func c18OneStream(p *Program, r *Report, sp *ssa.Package) {
	isStdout := func(v ssa.Value) bool {
		for i := 0; i < 4; i++ {
			switch x := v.(type) {
			case *ssa.MakeInterface:
				v = x.X
				continue
			case *ssa.ChangeInterface:
				v = x.X
				continue
			case *ssa.UnOp:
				if g, ok := x.X.(*ssa.Global); ok && g.Pkg != nil && g.Pkg.Pkg.Path() == "os" && g.Name() == "Stdout" {
					return true
				}
			}
			break
		}
		return false
	}
	var buffered []*ssa.Call
	for _, suffix := range []string{"", "core", "vm", "env", "packages"} {
		spk := p.SSAPkg(suffix)
		if spk == nil {
			continue
		}
		for _, fn := range SrcFuncs(spk) {
			for _, b := range fn.Blocks {
				for _, in := range b.Instrs {
					c, ok := in.(*ssa.Call)
					if !ok || len(c.Call.Args) == 0 {
						continue
					}
					if o := calleeObj(c); o != nil && o.Pkg() != nil && o.Pkg().Path() == "bufio" && (o.Name() == "NewWriter" || o.Name() == "NewWriterSize" || o.Name() == "NewReadWriter") {
						for _, a := range c.Call.Args {
							if isStdout(a) {
								buffered = append(buffered, c)
							}
						}
					}
				}
			}
		}
	}
	// direct writes and exits of package main
	type site struct {
		in   ssa.Instruction
		what string
	}
	var writes, exits []site
	isFlush := func(in ssa.Instruction) bool {
		c, ok := in.(*ssa.Call)
		if !ok {
			return false
		}
		o := calleeObj(c)
		return o != nil && o.Pkg() != nil && o.Pkg().Path() == "bufio" && o.Name() == "Flush"
	}
	runsScript := func(in ssa.Instruction) bool {
		c, ok := in.(*ssa.Call)
		if !ok {
			return false
		}
		if f := staticCallee(c); f != nil && f.Pkg != nil && f.Pkg.Pkg.Path() == modPath+"/vm" {
			return true
		}
		return false
	}
	for _, fn := range SrcFuncs(sp) {
		for _, b := range fn.Blocks {
			for _, in := range b.Instrs {
				c, ok := in.(*ssa.Call)
				if !ok {
					continue
				}
				o := calleeObj(c)
				if o == nil || o.Pkg() == nil {
					continue
				}
				switch {
				case o.Pkg().Path() == "fmt" && (o.Name() == "Print" || o.Name() == "Println" || o.Name() == "Printf"):
					writes = append(writes, site{c, "fmt." + o.Name()})
				case o.Pkg().Path() == "fmt" && (o.Name() == "Fprint" || o.Name() == "Fprintln" || o.Name() == "Fprintf") && len(c.Call.Args) > 0 && isStdout(c.Call.Args[0]):
					writes = append(writes, site{c, "fmt." + o.Name() + "(os.Stdout)"})
				case o.Pkg().Path() == "os" && (o.Name() == "Write" || o.Name() == "WriteString") && len(c.Call.Args) > 0 && isStdout(c.Call.Args[0]):
					writes = append(writes, site{c, "os.Stdout." + o.Name()})
				case o.Pkg().Path() == "os" && o.Name() == "Exit":
					exits = append(exits, site{c, "os.Exit"})
				}
			}
		}
	}
	if len(buffered) == 0 {
		r.OK("C18.R5", "no buffered handle on standard output", "anko.go", fmt.Sprintf("no bufio writer is made on os.Stdout in the command, the builtins or the interpreter: the %d direct writes of package main and the print builtins reach the descriptor in program order", len(writes)))
		r.Floor("C18.R5", len(writes), 2)
		return
	}
	// functions of package main that run script code, directly or through other functions of the package
	runs := map[*ssa.Function]bool{}
	for changed := true; changed; {
		changed = false
		for _, fn := range SrcFuncs(sp) {
			if runs[fn] {
				continue
			}
			for _, b := range fn.Blocks {
				for _, in := range b.Instrs {
					if runsScript(in) {
						runs[fn] = true
					}
					if c, ok := in.(*ssa.Call); ok {
						if f := staticCallee(c); f != nil && runs[f] {
							runs[fn] = true
						}
					}
				}
			}
			if runs[fn] {
				changed = true
			}
		}
	}
	ranScript := func(in ssa.Instruction) bool {
		if runsScript(in) {
			return true
		}
		if c, ok := in.(*ssa.Call); ok {
			if f := staticCallee(c); f != nil && runs[f] {
				return true
			}
		}
		return false
	}
	// flushedBefore: on every path from a script execution in the same function to the site a Flush is passed
	// (a write that no script execution of its function can precede has nothing buffered in front of it)
	flushedBefore := func(s ssa.Instruction) bool {
		fn := s.Parent()
		type pos struct {
			b *ssa.BasicBlock
			i int
		}
		for _, b := range fn.Blocks {
			for i, in := range b.Instrs {
				if !ranScript(in) || in == s {
					continue
				}
				seen := map[pos]bool{}
				work := []pos{{b, i + 1}}
				for len(work) > 0 {
					c := work[len(work)-1]
					work = work[:len(work)-1]
					if seen[c] {
						continue
					}
					seen[c] = true
					stopped := false
					for j := c.i; j < len(c.b.Instrs); j++ {
						if c.b.Instrs[j] == s {
							return false
						}
						if isFlush(c.b.Instrs[j]) {
							stopped = true
							break
						}
					}
					if stopped {
						continue
					}
					for _, n := range c.b.Succs {
						work = append(work, pos{n, 0})
					}
				}
			}
		}
		return true
	}
	where := p.Pos(buffered[0].Pos())
	for i, w := range writes {
		r.Check(flushedBefore(w.in), "C18.R5", fmt.Sprintf("%s|%s #%d after a flush", funcName(w.in.Parent()), w.what, i+1), p.Pos(w.in.Pos()),
			"no script execution of this function reaches the write without passing a Flush",
			"standard output has a buffered handle (made at "+where+") and this direct write is not preceded by a Flush: what the script printed is still in the buffer when this line reaches the descriptor (the diagnostic overtakes the script's output)")
	}
	for i, e := range exits {
		r.Check(flushedBefore(e.in), "C18.R5", fmt.Sprintf("%s|os.Exit #%d after a flush", funcName(e.in.Parent()), i+1), p.Pos(e.in.Pos()),
			"no script execution of this function reaches the exit without passing a Flush",
			"standard output has a buffered handle (made at "+where+") and the process can exit here without a Flush: the tail of the script's output is lost")
	}
	r.Floor("C18.R5", len(writes), 2)
}

// C18.R6 — the command does not die on the way from the library's verdict to its exit code: package main has no recover, so an
// out-of-range index or slice in it ends the process with Go's status 2 and a stack trace whatever vm.Execute returned. Every
// index and slice expression of package main is dominated by a bound test on the same expressions (upper bound) and cannot be
// negative (a constant, a loop index, or an expression tested against 0 / 1 on the path).
// R7 — the script's arguments are not rebuilt inside os.Args: `args` is a sub-slice of os.Args, and an append into os.Args[:k]
// shifts the elements the script is about to read; package main never stores to os.Args.
func c18NoPanicNoArgsRewrite(p *Program, r *Report, sp *ssa.Package) {
	n := 0
	for _, fn := range SrcFuncs(sp) {
		fname := funcName(fn)
		cnt := 0
		for _, b := range fn.Blocks {
			for _, in := range b.Instrs {
				site := p.Pos(instrPos(in))
				switch x := in.(type) {
				case *ssa.IndexAddr:
					if _, isArr := derefType(x.X.Type()).Underlying().(*types.Array); isArr {
						continue
					}
					n++
					cnt++
					inst := fmt.Sprintf("%s|index #%d within bounds", fname, cnt)
					if isRangeIndex(x.Index, x.X) {
						r.OK("C18.R6", inst, site, "range index over the same slice")
						continue
					}
					if c, ok := x.Index.(*ssa.Const); ok {
						if ln, ok := literalLen(x.X); ok && c.Int64() >= 0 && c.Int64() < ln {
							r.OK("C18.R6", inst, site, "constant index into a literal")
							continue
						}
					}
					up, why := upperGuard(b, x.X, x.Index, true)
					low := nonNegativeOnPath(b, x.Index)
					r.Check(up && low, "C18.R6", inst, site, "index tested against the length ("+why+") and not negative",
						"an index of package main is not dominated by a test of both of its bounds: out of range it ends the process with a Go panic (status 2 and a stack trace) whatever the library returned for the script")
				case *ssa.Store:
					if u, ok := x.Addr.(*ssa.Global); ok && u.Pkg != nil && u.Pkg.Pkg.Path() == "os" && u.Name() == "Args" {
						r.Fail("C18.R7", fname+"|store to os.Args", site, "package main rewrites os.Args: the script's arguments are a sub-slice of it, so an append into os.Args[:k] shifts the very elements the script is about to read (the script sees its second argument twice)")
					}
				}
			}
		}
	}
	r.Note("C18.R6 index expressions of package main", n)
	if n == 0 {
		r.OK("C18.R6", "main|no index expression", "anko.go", "package main contains no index or slice-element expression on a slice (checked over every function)")
	}
	r.OK("C18.R7", "main|os.Args left alone", "anko.go", "no store to os.Args in package main (checked over every function)")
}

// nonNegativeOnPath: idx is a constant >= 0, a len, a loop index starting at a non-negative constant and only incremented,
// or `e - k` with `e >= k` (or `e > k-1`) tested on the path to b.
func nonNegativeOnPath(b *ssa.BasicBlock, idx ssa.Value) bool {
	switch x := idx.(type) {
	case *ssa.Const:
		return x.Int64() >= 0
	case *ssa.Call:
		if bi, ok := x.Call.Value.(*ssa.Builtin); ok && (bi.Name() == "len" || bi.Name() == "cap") {
			return true
		}
	case *ssa.Phi:
		for _, e := range x.Edges {
			if c, ok := e.(*ssa.Const); ok && c.Int64() >= 0 {
				continue
			}
			if bo, ok := e.(*ssa.BinOp); ok && bo.Op == token.ADD && bo.X == ssa.Value(x) {
				if c, ok := bo.Y.(*ssa.Const); ok && c.Int64() >= 0 {
					continue
				}
			}
			return false
		}
		return true
	case *ssa.BinOp:
		if x.Op == token.ADD {
			return nonNegativeOnPath(b, x.X) && nonNegativeOnPath(b, x.Y)
		}
		if x.Op == token.SUB {
			k, ok := x.Y.(*ssa.Const)
			if !ok {
				return false
			}
			// a test e >= k / e > k-1 (true edge) or e < k / e <= k-1 (false edge) dominating b
			for d := b; d != nil && d.Idom() != nil; d = d.Idom() {
				id := d.Idom()
				iff, ok := id.Instrs[len(id.Instrs)-1].(*ssa.If)
				if !ok {
					continue
				}
				bo, ok := iff.Cond.(*ssa.BinOp)
				if !ok || bo.X != x.X {
					continue
				}
				c, ok := bo.Y.(*ssa.Const)
				if !ok {
					continue
				}
				onTrue, onFalse := edgeOnly(id, 0, d), edgeOnly(id, 1, d)
				switch {
				case bo.Op == token.GEQ && onTrue && c.Int64() >= k.Int64(),
					bo.Op == token.GTR && onTrue && c.Int64() >= k.Int64()-1,
					bo.Op == token.LSS && onFalse && c.Int64() >= k.Int64(),
					bo.Op == token.LEQ && onFalse && c.Int64() >= k.Int64()-1:
					return true
				}
			}
		}
	}
	return false
}
