package main

import (
	"fmt"
	"go/constant"
	"go/token"
	"sort"
	"strings"

	"golang.org/x/tools/go/ssa"
)

// C05.R11 — "+ - * are carried out in float64 as soon as one operand is a float".
//
// Decided by evaluating the add / multiply handlers outright for every pair of operand kinds in which an operand is a float:
// the operator string and every comparison of an operand's kind with a constant are fixed (a kind that goes through a pure
// function over kinds, such as the precedence helper, is computed by interpreting that function), every other condition
// takes both branches, and the int64 computation of the operator must not be reachable. Pairs for which the statement gives
// the operator another meaning are left out: `+` with a string (concatenation), `*` with a string on the left (repetition);
// only the operand kinds of the statement are considered: int64, float64 and strings.
func c05FloatDomain(p *Program, r *Report, m *vmModel, va *evalAnalysis, handlers map[string]*ssa.Function) {
	// the operand values the statement quantifies over: int64, float64 and strings. (Evaluated over all numeric kinds and
	// booleans the rule also reports `true + 1.5`, `uint8(2) + 1.5` and `float32(0.5) * 2`, computed on int64 on today's tree
	// while the mirrored expressions are computed in float64: host-typed operands, outside this property's domain; DESIGN 9.5.)
	kinds := map[string]int64{"Int64": 6, "Float64": 14, "String": 24}
	var kindList []int64
	for _, k := range kinds {
		kindList = append(kindList, k)
	}
	sort.Slice(kindList, func(i, j int) bool { return kindList[i] < kindList[j] })
	kname := map[int64]string{}
	for n, k := range kinds {
		kname[k] = n
	}
	isFloat := func(k int64) bool { return k == 13 || k == 14 }
	n := 0
	for _, hk := range []string{"AddOperator", "MultiplyOperator"} {
		h := handlers[hk]
		if h == nil {
			continue
		}
		// operator atoms and kind tests
		var opAtoms []*ssa.BinOp
		type kindAtom struct {
			bo *ssa.BinOp
			k  int64
		}
		var kAtoms []kindAtom
		var boolCalls []*ssa.Call // calls of functions over kinds that answer a bool (isFloatKind(k))
		sides := map[string]bool{}
		var sideOf func(v ssa.Value) string
		sideOf = func(v ssa.Value) string {
			c, ok := v.(*ssa.Call)
			if !ok || reflectMethod(c) != "Kind" {
				return ""
			}
			return operandField(m, va, h, c.Call.Args[0], 0)
		}
		for _, b := range h.Blocks {
			for _, in := range b.Instrs {
				if c, ok := in.(*ssa.Call); ok && staticCallee(c) != nil && reflectMethod(c) == "" && len(c.Call.Args) > 0 && c.Type().String() == "bool" {
					allKinds := true
					for _, a := range c.Call.Args {
						if a.Type().String() != "reflect.Kind" && !isReflectValue(a.Type()) {
							allKinds = false
						}
					}
					if allKinds {
						boolCalls = append(boolCalls, c)
						for _, a := range c.Call.Args {
							s := sideOf(a)
							if isReflectValue(a.Type()) {
								s = operandField(m, va, h, a, 0)
							}
							if s != "" && s != "mixed" {
								sides[s] = true
							}
						}
					}
				}
				bo, ok := in.(*ssa.BinOp)
				if !ok || (bo.Op != token.EQL && bo.Op != token.NEQ) {
					continue
				}
				c, ok := bo.Y.(*ssa.Const)
				if !ok || c.Value == nil {
					continue
				}
				if c.Value.Kind() == constant.String {
					if u, ok := bo.X.(*ssa.UnOp); ok {
						if _, ok := u.X.(*ssa.FieldAddr); ok {
							opAtoms = append(opAtoms, bo)
						}
					}
					continue
				}
				if bo.X.Type().String() == "reflect.Kind" {
					kAtoms = append(kAtoms, kindAtom{bo, c.Int64()})
					var collect func(v ssa.Value, d int)
					collect = func(v ssa.Value, d int) {
						if s := sideOf(v); s != "" && s != "mixed" {
							sides[s] = true
						}
						if c, ok := v.(*ssa.Call); ok && d < 3 && staticCallee(c) != nil && reflectMethod(c) == "" {
							for _, a := range c.Call.Args {
								collect(a, d+1)
							}
						}
					}
					collect(bo.X, 0)
				}
			}
		}
		var sideNames []string
		for s := range sides {
			sideNames = append(sideNames, s)
		}
		sort.Strings(sideNames)
		if len(sideNames) != 2 {
			r.Undecided("C05.R11", hk+"|operand kinds", p.Pos(h.Pos()), fmt.Sprintf("the kind tests of the handler read %d operands (%s), expected the left and the right one", len(sideNames), strings.Join(sideNames, ",")))
			continue
		}
		left, right := sideNames[0], sideNames[1]
		if before, ok := m.nm.Before(hk, right, left); ok && before {
			left, right = right, left
		}
		// the int64 computations of each operator
		intOps := map[string][]*ssa.BinOp{}
		for _, b := range h.Blocks {
			for _, in := range b.Instrs {
				x, ok := in.(*ssa.BinOp)
				if !ok {
					continue
				}
				if _, isC := x.Y.(*ssa.Const); isC {
					continue
				}
				kx, _, okx := m.numProjection(x.X, 0)
				if !okx || strings.SplitN(kx, "→", 2)[0] != "int" {
					continue
				}
				for _, op := range []string{"+", "-", "*"} {
					if x.Op == opToken[op] {
						intOps[op] = append(intOps[op], x)
					}
				}
			}
		}
		var kindOf func(v ssa.Value, world map[string]int64, d int) (int64, bool)
		kindOf = func(v ssa.Value, world map[string]int64, d int) (int64, bool) {
			if d > 4 {
				return 0, false
			}
			if s := sideOf(v); s != "" {
				k, ok := world[s]
				return k, ok
			}
			if isReflectValue(v.Type()) { // an operand handed to a helper as a whole: the helper may only ask for its kind
				k, ok := world[operandField(m, va, h, v, 0)]
				return k, ok
			}
			if c, ok := v.(*ssa.Const); ok && c.Value != nil && c.Value.Kind() == constant.Int {
				return c.Int64(), true
			}
			if c, ok := v.(*ssa.Call); ok {
				if callee := staticCallee(c); callee != nil && reflectMethod(c) == "" && len(callee.Blocks) > 0 {
					var args []int64
					for _, a := range c.Call.Args {
						k, ok := kindOf(a, world, d+1)
						if !ok {
							return 0, false
						}
						args = append(args, k)
					}
					return evalIntFunc(callee, args, 0)
				}
			}
			return 0, false
		}
		for _, op := range []string{"+", "-", "*"} {
			if len(intOps[op]) == 0 {
				continue
			}
			n++
			worlds, bad := 0, ""
			var badAt *ssa.BinOp
			for _, kl := range kindList {
				for _, kr := range kindList {
					if !isFloat(kl) && !isFloat(kr) {
						continue
					}
					if op == "+" && (kl == 24 || kr == 24) {
						continue
					}
					if op == "*" && kl == 24 {
						continue
					}
					worlds++
					w := map[ssa.Value]bool{}
					for _, a := range opAtoms {
						eq := constant.StringVal(a.Y.(*ssa.Const).Value) == op
						if a.Op == token.NEQ {
							eq = !eq
						}
						w[a] = eq
					}
					kw := map[string]int64{left: kl, right: kr}
					for _, a := range kAtoms {
						if k, ok := kindOf(a.bo.X, kw, 0); ok {
							eq := k == a.k
							if a.bo.Op == token.NEQ {
								eq = !eq
							}
							w[a.bo] = eq
						}
					}
					for _, c := range boolCalls {
						if k, ok := kindOf(c, kw, 0); ok {
							w[c] = k != 0
						}
					}
					reach := worldReach(h, w)
					for _, x := range intOps[op] {
						if reach[x.Block()] && bad == "" {
							bad = fmt.Sprintf("with a %s on the left and a %s on the right", kname[kl], kname[kr])
							badAt = x
						}
					}
				}
			}
			site := p.Pos(h.Pos())
			if badAt != nil {
				site = p.Pos(badAt.Pos())
			}
			r.Check(bad == "", "C05.R11", fmt.Sprintf("%s|case %q|float operand never computed on int64", hk, op), site,
				fmt.Sprintf("the int64 computation is unreachable in all %d pairs of operand kinds with a float operand", worlds),
				bad+" the operator is computed on the int64 readings of the operands: the fraction of the float operand is lost (`+ - *` are carried out in float64 as soon as one operand is a float)")
		}
	}
	r.Floor("C05.R11", n, 3)
}

// evalIntFunc interprets a pure function over integers (kinds): comparisons, branches, phis and calls of functions of the same
// shape. ok=false when the function does anything else.
func evalIntFunc(fn *ssa.Function, args []int64, depth int) (int64, bool) {
	if depth > 3 || len(fn.Blocks) == 0 || len(args) != len(fn.Params) {
		return 0, false
	}
	env := map[ssa.Value]int64{}
	for i, pa := range fn.Params {
		env[pa] = args[i]
	}
	val := func(v ssa.Value) (int64, bool) {
		if c, ok := v.(*ssa.Const); ok && c.Value != nil {
			switch c.Value.Kind() {
			case constant.Int:
				return c.Int64(), true
			case constant.Bool:
				if constant.BoolVal(c.Value) {
					return 1, true
				}
				return 0, true
			}
			return 0, false
		}
		x, ok := env[v]
		return x, ok
	}
	b := fn.Blocks[0]
	var prev *ssa.BasicBlock
	for steps := 0; steps < 2000; steps++ {
		for _, in := range b.Instrs {
			switch x := in.(type) {
			case *ssa.DebugRef:
			case *ssa.Phi:
				for i, pr := range b.Preds {
					if pr == prev {
						v, ok := val(x.Edges[i])
						if !ok {
							return 0, false
						}
						env[x] = v
					}
				}
			case *ssa.BinOp:
				l, ok1 := val(x.X)
				rr, ok2 := val(x.Y)
				if !ok1 || !ok2 {
					return 0, false
				}
				var res bool
				switch x.Op {
				case token.EQL:
					res = l == rr
				case token.NEQ:
					res = l != rr
				case token.LSS:
					res = l < rr
				case token.LEQ:
					res = l <= rr
				case token.GTR:
					res = l > rr
				case token.GEQ:
					res = l >= rr
				default:
					return 0, false
				}
				env[x] = 0
				if res {
					env[x] = 1
				}
			case *ssa.UnOp:
				if x.Op != token.NOT {
					return 0, false
				}
				v, ok := val(x.X)
				if !ok {
					return 0, false
				}
				env[x] = 1 - v
			case *ssa.Call:
				if reflectMethod(x) == "Kind" { // a reflect.Value parameter stands for its kind
					v, ok := val(x.Call.Args[0])
					if !ok {
						return 0, false
					}
					env[x] = v
					continue
				}
				callee := staticCallee(x)
				if callee == nil || reflectMethod(x) != "" {
					return 0, false
				}
				var as []int64
				for _, a := range x.Call.Args {
					v, ok := val(a)
					if !ok {
						return 0, false
					}
					as = append(as, v)
				}
				v, ok := evalIntFunc(callee, as, depth+1)
				if !ok {
					return 0, false
				}
				env[x] = v
			case *ssa.If:
				c, ok := val(x.Cond)
				if !ok {
					return 0, false
				}
				prev = b
				if c != 0 {
					b = b.Succs[0]
				} else {
					b = b.Succs[1]
				}
			case *ssa.Jump:
				prev = b
				b = b.Succs[0]
			case *ssa.Return:
				if len(x.Results) != 1 {
					return 0, false
				}
				return val(x.Results[0])
			default:
				return 0, false
			}
		}
	}
	return 0, false
}
