package main

import (
	"go/token"
	"go/types"
	"sort"
	"strings"

	"golang.org/x/tools/go/ssa"
)

// addrAnalysis renders, for the index/slice handlers, where the container and the integer arguments of an addressing
// reflect call come from: operand fields of the node ("Item", "Index", "Begin", "End", "Cap"), the assigned value ("=value"),
// constants, len/cap of a container. Helper functions with a single static caller are resolved through that call site.
type addrAnalysis struct {
	m       *vmModel
	va      *evalAnalysis
	sums    *typeSummaries
	tts     map[*ssa.Function]*typeTerms
	callers map[*ssa.Function][]*ssa.Call
	letFns  map[*ssa.Function]bool
}

func newAddrAnalysis(m *vmModel, va *evalAnalysis, sums *typeSummaries) *addrAnalysis {
	a := &addrAnalysis{m: m, va: va, sums: sums, tts: map[*ssa.Function]*typeTerms{}, callers: map[*ssa.Function][]*ssa.Call{}, letFns: map[*ssa.Function]bool{}}
	for _, fn := range m.fns {
		for _, b := range fn.Blocks {
			for _, in := range b.Instrs {
				if c, ok := in.(*ssa.Call); ok {
					if callee := staticCallee(c); callee != nil && callee.Pkg == m.sp {
						a.callers[callee] = append(a.callers[callee], c)
					}
				}
			}
		}
	}
	for _, h := range m.handlers["let"] {
		a.letFns[h] = true
	}
	return a
}

func (a *addrAnalysis) tt(fn *ssa.Function) *typeTerms {
	if t, ok := a.tts[fn]; ok {
		return t
	}
	t := newTypeTerms(a.m, fn, a.sums)
	a.tts[fn] = t
	return t
}

// uniqueCaller: the single static call site of fn inside package vm (evaluator dispatch excluded), or nil.
func (a *addrAnalysis) uniqueCaller(fn *ssa.Function) *ssa.Call {
	cs := a.callers[fn]
	if len(cs) == 1 {
		return cs[0]
	}
	return nil
}

// rvAt: the operand the record's value cell holds just before instruction `at` of fn.
func (a *addrAnalysis) rvAt(fn *ssa.Function, at ssa.Instruction, depth int) string {
	t := a.tt(fn)
	if t.base == nil || depth > 6 {
		return ""
	}
	defs := t.before[at]["rv"]
	if len(defs) != 1 {
		return ""
	}
	for d := range defs {
		return a.defOperand(fn, d, depth)
	}
	return ""
}

func (a *addrAnalysis) defOperand(fn *ssa.Function, d ssa.Instruction, depth int) string {
	switch x := d.(type) {
	case nil:
		// value of the cell on entry
		if a.letFns[fn] {
			return "=value"
		}
		if cs := a.uniqueCaller(fn); cs != nil {
			return a.rvAt(cs.Parent(), cs, depth+1)
		}
	case *ssa.Store:
		return a.opnd(fn, x.Val, depth+1)
	case *ssa.Call:
		for _, e := range a.va.events[fn] {
			if e.call == x && e.role == "expr" && len(e.operands) == 1 {
				f, _, direct := fieldOfPath(e.operands[0])
				if direct {
					return f
				}
			}
		}
	}
	return ""
}

// opnd: the operand a reflect.Value derives from ("" if unknown, "mixed" if it depends on the path).
func (a *addrAnalysis) opnd(fn *ssa.Function, v ssa.Value, depth int) string {
	if depth > 10 {
		return ""
	}
	t := a.tt(fn)
	if u, ok := v.(*ssa.UnOp); ok && u.Op == token.MUL && t.base != nil && a.m.cellAddr(u.X, t.base) == "rv" {
		return a.rvAt(fn, u, depth)
	}
	if sv := spilledValue(v); sv != nil {
		return a.opnd(fn, sv, depth+1)
	}
	switch x := v.(type) {
	case *ssa.Parameter:
		if cs := a.uniqueCaller(fn); cs != nil {
			for i, p := range fn.Params {
				if p == x && i < len(cs.Call.Args) {
					return a.opnd(cs.Parent(), cs.Call.Args[i], depth+1)
				}
			}
		}
	case *ssa.Phi:
		res := ""
		for _, e := range x.Edges {
			if e == ssa.Value(x) {
				continue
			}
			f := a.opnd(fn, e, depth+1)
			if f == "" {
				return ""
			}
			if res == "" {
				res = f
			} else if res != f {
				return "mixed"
			}
		}
		return res
	case *ssa.Extract:
		// a converted value is still "the value"
		if c, ok := x.Tuple.(*ssa.Call); ok && x.Index == 0 {
			if callee := staticCallee(c); callee != nil {
				if _, ok := a.sums.typeParam[callee]; ok && len(c.Call.Args) > 0 {
					return a.opnd(fn, c.Call.Args[0], depth+1)
				}
			}
		}
	case *ssa.Call:
		switch reflectMethod(x) {
		case "Elem":
			return a.opnd(fn, x.Call.Args[0], depth+1)
		}
		if o := calleeObj(x); o != nil && o.Pkg() != nil && o.Pkg().Path() == "reflect" {
			switch o.Name() {
			case "Append":
				return a.opnd(fn, x.Call.Args[0], depth+1)
			case "MakeMap", "MakeMapWithSize":
				// a fresh map of the operand's own type that replaces a nil map (and is assigned back)
				if tc, ok := x.Call.Args[0].(*ssa.Call); ok && reflectMethod(tc) == "Type" {
					return a.opnd(fn, tc.Call.Args[0], depth+1)
				}
			}
		}
	}
	return ""
}

// isIntConverter: func(reflect.Value) (int, error) of package vm.
func (a *addrAnalysis) isIntConverter(fn *ssa.Function) bool {
	if fn == nil || fn.Pkg != a.m.sp {
		return false
	}
	sg := fn.Signature
	if sg.Params().Len() != 1 || sg.Results().Len() != 2 || !isReflectValue(sg.Params().At(0).Type()) || !isErrorType(sg.Results().At(1).Type()) {
		return false
	}
	b, ok := sg.Results().At(0).Type().(*types.Basic)
	return ok && b.Kind() == types.Int
}

// symInt: a symbolic rendering of an integer: constants, int(<operand>), len(<operand>), cap(<operand>), X+n, alternatives joined by "|".
func (a *addrAnalysis) symInt(fn *ssa.Function, v ssa.Value, depth int) string {
	if depth > 10 {
		return "?"
	}
	switch x := v.(type) {
	case *ssa.Const:
		if x.Value != nil {
			return x.Value.ExactString()
		}
	case *ssa.Parameter:
		if cs := a.uniqueCaller(fn); cs != nil {
			for i, p := range fn.Params {
				if p == x && i < len(cs.Call.Args) {
					return a.symInt(cs.Parent(), cs.Call.Args[i], depth+1)
				}
			}
		}
	case *ssa.Extract:
		if c, ok := x.Tuple.(*ssa.Call); ok && x.Index == 0 && a.isIntConverter(staticCallee(c)) {
			if o := a.opnd(fn, c.Call.Args[0], depth+1); o != "" {
				return "int(" + o + ")"
			}
		}
	case *ssa.Call:
		// a single-result integer reading of an operand: toInt(x)
		if callee := staticCallee(x); callee != nil && callee.Pkg == a.m.sp && len(x.Call.Args) == 1 && isReflectValue(x.Call.Args[0].Type()) && callee.Signature.Results().Len() == 1 {
			if b, ok := callee.Signature.Results().At(0).Type().(*types.Basic); ok && b.Kind() == types.Int {
				if o := a.opnd(fn, x.Call.Args[0], depth+1); o != "" {
					return "int(" + o + ")"
				}
			}
		}
		switch reflectMethod(x) {
		case "Len":
			if o := a.opnd(fn, x.Call.Args[0], depth+1); o != "" {
				return "len(" + o + ")"
			}
		case "Cap":
			if o := a.opnd(fn, x.Call.Args[0], depth+1); o != "" {
				return "cap(" + o + ")"
			}
		}
	case *ssa.BinOp:
		if c, ok := x.Y.(*ssa.Const); ok && c.Value != nil && (x.Op == token.ADD || x.Op == token.SUB) {
			return a.symInt(fn, x.X, depth+1) + x.Op.String() + c.Value.ExactString()
		}
	case *ssa.Phi:
		set := map[string]bool{}
		for _, e := range x.Edges {
			if e == ssa.Value(x) {
				continue
			}
			for _, alt := range strings.Split(a.symInt(fn, e, depth+1), "|") {
				set[alt] = true
			}
		}
		var ks []string
		for k := range set {
			ks = append(ks, k)
		}
		sort.Strings(ks)
		return strings.Join(ks, "|")
	case *ssa.Convert:
		return a.symInt(fn, x.X, depth+1)
	}
	if sv := spilledValue(v); sv != nil {
		return a.symInt(fn, sv, depth+1)
	}
	return "?"
}

// strSegs: a string expression as a sequence of segments "<operand>[lo:hi]" / "<operand>" (whole string).
func (a *addrAnalysis) strSegs(fn *ssa.Function, v ssa.Value, depth int) []string {
	if depth > 12 {
		return []string{"?"}
	}
	switch x := v.(type) {
	case *ssa.BinOp:
		if x.Op == token.ADD {
			return append(a.strSegs(fn, x.X, depth+1), a.strSegs(fn, x.Y, depth+1)...)
		}
	case *ssa.Call:
		if reflectMethod(x) == "String" {
			recv := x.Call.Args[0]
			if c, ok := recv.(*ssa.Call); ok && reflectMethod(c) == "Slice" {
				if o := a.opnd(fn, c.Call.Args[0], depth+1); o != "" {
					return []string{o + "[" + a.symInt(fn, c.Call.Args[1], depth+1) + ":" + a.symInt(fn, c.Call.Args[2], depth+1) + "]"}
				}
			}
			if o := a.opnd(fn, recv, depth+1); o != "" {
				return []string{o}
			}
		}
	case *ssa.Slice:
		inner := a.strSegs(fn, x.X, depth+1)
		if len(inner) == 1 && !strings.Contains(inner[0], "[") && inner[0] != "?" {
			lo, hi := "0", "len("+inner[0]+")"
			if x.Low != nil {
				lo = a.symInt(fn, x.Low, depth+1)
			}
			if x.High != nil {
				hi = a.symInt(fn, x.High, depth+1)
			}
			return []string{inner[0] + "[" + lo + ":" + hi + "]"}
		}
	}
	return []string{"?"}
}
