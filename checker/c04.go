package main

import (
	"fmt"
	"go/token"
	"go/types"
	"os"
	"sort"
	"strings"

	"golang.org/x/tools/go/ssa"
)

func init() {
	register("C04", "names follow lexical block scope; closures capture their defining scope", checkC04)
}

// env-cell abstract values
const (
	envOrig  = "Orig"
	envChild = "Child"
	envOther = "Other"
	envMixed = "Mixed"
)

type envFlow struct {
	m     *vmModel
	fn    *ssa.Function
	base  ssa.Value
	entry map[ssa.Value]bool          // loads of the env cell that see the value the function was entered with
	ctors map[*ssa.Function]token.Pos // env methods whose result the flow took for a fresh child of their receiver
	// scope-setting helpers ("run this block in a new child of env and make env current again"): a function on the record with
	// one scope parameter. Inside it the parameter plays the part of the entry scope (whatever the cell held on entry is
	// unknown); at a call of it the cell becomes what was passed for the parameter.
	paramScope  ssa.Value
	scopeParamK map[*ssa.Function]int
}

// The state is "<current>;<pending>": what the scope cell holds now, and what a deferred function literal registered so far will
// store into it when the function returns ("" = none).
func (f *envFlow) Entry() string {
	if f.paramScope != nil {
		return envOther + ";"
	}
	return envOrig + ";"
}
func (f *envFlow) Copy(s string) string { return s }
func envCur(s string) string {
	if i := strings.Index(s, ";"); i >= 0 {
		return s[:i]
	}
	return s
}
func envPending(s string) string {
	if i := strings.Index(s, ";"); i >= 0 {
		return s[i+1:]
	}
	return ""
}
func joinEnv1(a, b string) string {
	if a == b {
		return a
	}
	return envMixed
}
func (f *envFlow) Join(a, b string) (string, bool) {
	if a == b {
		return a, false
	}
	j := joinEnv1(envCur(a), envCur(b)) + ";" + joinEnv1(envPending(a), envPending(b))
	return j, j != a
}
func (f *envFlow) classify(v ssa.Value) string {
	if f.entry[v] && f.paramScope == nil {
		return envOrig
	}
	if f.paramScope != nil && v == f.paramScope {
		return envOrig
	}
	if sv := spilledValue(v); sv != nil {
		return f.classify(sv) // a local captured by a (deferred) function literal lives in memory
	}
	var c *ssa.Call
	switch x := v.(type) {
	case *ssa.Call:
		c = x
	case *ssa.Extract:
		if cc, ok := x.Tuple.(*ssa.Call); ok && x.Index == 0 {
			c = cc
		}
	}
	if c != nil {
		if callee := staticCallee(c); callee != nil && callee.Pkg != nil && callee.Pkg.Pkg.Path() == modPath+"/env" && callee.Signature.Recv() != nil &&
			len(c.Call.Args) >= 1 && f.classify(c.Call.Args[0]) == envOrig && callee.Signature.Results().Len() >= 1 && isNamed(callee.Signature.Results().At(0).Type(), modPath+"/env", "Env") {
			if f.ctors != nil {
				if _, ok := f.ctors[callee]; !ok {
					f.ctors[callee] = c.Pos()
				}
			}
			return envChild
		}
	}
	return envOther
}

// deferredRestore: d defers a function literal that stores one of its captured variables into the scope cell of this record;
// returns the classification of that variable's value.
func (f *envFlow) deferredRestore(d *ssa.Defer) string {
	mc, ok := d.Call.Value.(*ssa.MakeClosure)
	if !ok {
		return ""
	}
	cf := mc.Fn.(*ssa.Function)
	for _, b := range cf.Blocks {
		for _, in := range b.Instrs {
			st, ok := in.(*ssa.Store)
			if !ok {
				continue
			}
			fa, ok := st.Addr.(*ssa.FieldAddr)
			if !ok || f.m.cell[fa.Field] != "env" {
				continue
			}
			// the stored value: a load of a captured variable
			u, ok := st.Val.(*ssa.UnOp)
			if !ok {
				return envOther
			}
			fv, ok := u.X.(*ssa.FreeVar)
			if !ok {
				return envOther
			}
			for i, v := range cf.FreeVars {
				if v == fv {
					if al, ok := mc.Bindings[i].(*ssa.Alloc); ok {
						for _, ref := range *al.Referrers() {
							if s2, ok := ref.(*ssa.Store); ok && s2.Addr == ssa.Value(al) {
								return f.classify(s2.Val)
							}
						}
					}
				}
			}
			return envOther
		}
	}
	return ""
}

func (f *envFlow) Instr(in ssa.Instruction, s string) string {
	switch x := in.(type) {
	case *ssa.Store:
		if f.m.cellAddr(x.Addr, f.base) == "env" {
			return f.classify(x.Val) + ";" + envPending(s)
		}
	case *ssa.Call:
		if callee := staticCallee(x); callee != nil {
			if k, ok := f.scopeParamK[callee]; ok && k < len(x.Call.Args) && sameBase(x.Call.Args[0], f.base) {
				return f.classify(x.Call.Args[k]) + ";" + envPending(s)
			}
		}
	case *ssa.Defer:
		if c := f.deferredRestore(x); c != "" && envPending(s) == "" {
			return envCur(s) + ";" + c // the first registered literal runs last
		}
	case *ssa.RunDefers:
		if pd := envPending(s); pd != "" {
			return pd + ";"
		}
	}
	return s
}
func (f *envFlow) Edge(from *ssa.BasicBlock, succ int, s string) (string, bool) { return s, true }

// envStores lists the stores to the env cell of the function's record.
func (m *vmModel) envStores(fn *ssa.Function) []*ssa.Store {
	base := m.baseOf(fn)
	var out []*ssa.Store
	for _, b := range fn.Blocks {
		for _, in := range b.Instrs {
			if st, ok := in.(*ssa.Store); ok && m.cellAddr(st.Addr, base) == "env" {
				out = append(out, st)
			}
		}
	}
	return out
}

func checkC04(p *Program, r *Report) {
	r.Explain("C04: typestate of the env cell of the per-run record (values: Orig = scope current on entry, Child = fresh child of Orig made by an env constructor, Other). " +
		"R1 pairing: every function of vm that stores to the env cell of a record it did not allocate holds Orig in it at every return (inductive over call depth: callees preserve the cell, so after any statement, by any exit, the scope is the one current before it). " +
		"R2 every statement evaluated by such a function runs in Child; the scope-switching handlers are the handlers of if, try, the loop forms, for-in, switch and module (floor 7). " +
		"R3 binding discipline: only the identifier clause of the assignment dispatcher (and module member assignment) may call SetValue, and it defines in the current scope only on SetValue's error edge with the same name and value; every other binding form (var, for-in variables, catch variable, parameters, function names) goes through DefineValue on the current scope; nothing in vm calls DefineGlobal*. " +
		"R4 a function value captures the scope cell of its defining record by value at creation, and every invocation builds a fresh record whose scope is a fresh child of the captured scope, defining parameters there.")
	r.Explain("R2 also covers workers: a function that runs its node's body without switching scope itself (the per-kind workers of for-in) is called only with a fresh child scope current. R5 the env methods the flow takes for child constructors return a scope allocated in the call whose parent link is the receiver.")
	r.Assume("lookup along the parent chain is decided under C12.R4; names themselves are not value-dependent")
	m, err := buildVMModel(p)
	if err != nil {
		r.Undecided("C04.R1", "model", "vm", err.Error())
		return
	}
	va := buildEvalAnalysis(m)
	nFuncs, nReturns := 0, 0
	var switching []string
	befores := map[*ssa.Function]map[ssa.Instruction]string{}
	ctors := map[*ssa.Function]token.Pos{}
	// scope-setting helpers: functions on a record (receiver) with exactly one parameter of the scope type that store to the cell
	scopeParamK := map[*ssa.Function]int{}
	for _, fn := range m.funcsOnRecord() {
		if _, isParam := m.baseOf(fn).(*ssa.Parameter); !isParam || len(m.envStores(fn)) == 0 {
			continue
		}
		k, n := -1, 0
		for i, prm := range fn.Params {
			if i > 0 && isNamed(prm.Type(), modPath+"/env", "Env") {
				k = i
				n++
			}
		}
		if n == 1 {
			scopeParamK[fn] = k
		}
	}
	for _, fn := range m.funcsOnRecord() {
		base := m.baseOf(fn)
		if _, isParam := base.(*ssa.Parameter); !isParam {
			continue // records allocated here are initialised, not switched
		}
		stores := m.envStores(fn)
		callsHelper := false
		for _, b := range fn.Blocks {
			for _, in := range b.Instrs {
				if c, ok := in.(*ssa.Call); ok {
					if _, isH := scopeParamK[staticCallee(c)]; isH && staticCallee(c) != nil {
						callsHelper = true
					}
				}
			}
		}
		if len(stores) == 0 && !callsHelper {
			continue
		}
		nFuncs++
		fname := funcName(fn)
		switching = append(switching, fname)
		// entry-valued loads: loads of the env cell that no store can reach
		reachFromStore := map[*ssa.BasicBlock]bool{}
		for _, st := range stores {
			for b := range reachable(st.Block(), nil) {
				if b != st.Block() {
					reachFromStore[b] = true
				}
			}
			// blocks on a cycle through the store's own block
			for _, s := range st.Block().Succs {
				if reachable(s, nil)[st.Block()] {
					reachFromStore[st.Block()] = true
				}
			}
		}
		fl := &envFlow{m: m, fn: fn, base: base, entry: map[ssa.Value]bool{}, ctors: ctors, scopeParamK: scopeParamK}
		if k, ok := scopeParamK[fn]; ok {
			fl.paramScope = fn.Params[k]
		}
		for _, b := range fn.Blocks {
			for _, in := range b.Instrs {
				u, ok := in.(*ssa.UnOp)
				if !ok || m.cellAddr(u.X, base) != "env" {
					continue
				}
				clean := !reachFromStore[b]
				if clean {
					for _, st := range stores {
						if st.Block() == b && instrIndex(st) < instrIndex(u) {
							clean = false
						}
					}
				}
				if clean {
					fl.entry[u] = true
				}
			}
		}
		before, _ := runForward[string](fn, fl)
		befores[fn] = before
		ri := 0
		seenRet := map[string]int{}
		for _, b := range fn.Blocks {
			ret, ok := b.Instrs[len(b.Instrs)-1].(*ssa.Return)
			if !ok || b == fn.Recover {
				continue
			}
			st, ok := before[ret]
			if !ok {
				continue // unreachable
			}
			ri++
			nReturns++
			inst := fmt.Sprintf("%s|return|%s", fname, exitKey(ret))
			if seenRet[inst] > 0 {
				inst = fmt.Sprintf("%s #%d", inst, seenRet[inst]+1)
			}
			seenRet[fmt.Sprintf("%s|return|%s", fname, exitKey(ret))]++
			site := p.Pos(instrPos(ret))
			r.Check(envCur(st) == envOrig, "C04.R1", inst, site, "scope cell holds the entry scope", "returns with the scope cell holding "+describeEnv(envCur(st))+": the caller continues in the wrong scope ("+exitDesc(ret)+")")
		}
		// a scope-setting helper is handed the scope that was current before the construct (its block then runs in a fresh child
		// of that scope, and that scope is current again afterwards)
		for _, b := range fn.Blocks {
			for _, in := range b.Instrs {
				c, ok := in.(*ssa.Call)
				if !ok || staticCallee(c) == nil {
					continue
				}
				if k, isH := scopeParamK[staticCallee(c)]; isH && k < len(c.Call.Args) {
					r.Check(fl.classify(c.Call.Args[k]) == envOrig, "C04.R2", fmt.Sprintf("%s|scope handed to %s", fname, staticCallee(c).Name()), p.Pos(c.Pos()),
						"the helper that runs the block in a fresh child scope is given the entry scope", "the block helper is given "+describeEnv(fl.classify(c.Call.Args[k]))+" instead of the scope current before the construct: the block runs in a child of the wrong scope and that scope stays current")
				}
			}
		}
		// R2: statements run in a child scope
		for _, e := range va.events[fn] {
			if e.role != "stmt" {
				continue
			}
			st := before[e.call]
			inst := fname + "|stmt " + normIdx(strings.Join(e.operands, "|"))
			r.Check(envCur(st) == envChild, "C04.R2", inst, p.Pos(e.call.Pos()), "statement runs in a fresh child of the entry scope", "a block statement runs in "+describeEnv(envCur(st))+" instead of a fresh child scope: its bindings leak or shadow wrongly")
		}
	}
	// R2, through helpers: a function that runs the body of its node without switching the scope itself (the per-kind workers of
	// for-in) relies on its caller: every call of it is made with the scope cell holding a fresh child.
	seqHandler := m.handlers["stmt"]["StmtsStmt"]
	nHelp := 0
	for _, h := range m.funcsOnRecord() {
		if _, isParam := m.baseOf(h).(*ssa.Parameter); !isParam || len(m.envStores(h)) > 0 || h == seqHandler {
			continue
		}
		body := ""
		for _, e := range va.events[h] {
			if e.role == "stmt" && len(e.operands) > 0 && strings.HasPrefix(e.operands[0], "node.") {
				body = normIdx(strings.Join(e.operands, "|"))
			}
		}
		if body == "" {
			continue
		}
		nHelp++
		var visit func(g *ssa.Function, seen map[*ssa.Function]bool)
		visit = func(g *ssa.Function, seen map[*ssa.Function]bool) {
			if seen[g] {
				return
			}
			seen[g] = true
			calls := 0
			for _, caller := range m.funcsOnRecord() {
				cbase := m.baseOf(caller)
				for _, b := range caller.Blocks {
					for _, in := range b.Instrs {
						c, ok := in.(*ssa.Call)
						if !ok || m.calleeOnBase(c, cbase) != g {
							continue
						}
						calls++
						inst := fmt.Sprintf("%s|stmt %s|called from %s", funcName(h), body, funcName(caller))
						if bf, sw := befores[caller]; sw {
							st, reach := bf[c]
							if !reach {
								continue
							}
							r.Check(envCur(st) == envChild, "C04.R2", inst, p.Pos(c.Pos()), "the worker that runs the body is called with a fresh child scope current",
								"the worker that runs this construct's body is called with "+describeEnv(envCur(st))+" current instead of a fresh child scope: the loop variables and the body's bindings land in the enclosing block and stay visible after the construct")
						} else if _, isParam := cbase.(*ssa.Parameter); isParam && len(m.envStores(caller)) == 0 {
							visit(caller, seen)
						} else {
							r.Undecided("C04.R2", inst, p.Pos(c.Pos()), "caller of a body-running worker is not a scope-switching handler")
						}
					}
				}
			}
			if calls == 0 && g == h {
				r.Undecided("C04.R2", funcName(h)+"|stmt "+body, p.Pos(h.Pos()), "no static call of this body-running worker found")
			}
		}
		visit(h, map[*ssa.Function]bool{})
	}
	r.Floor("C04.R2", nHelp, 3)
	// R5: what the flow above takes for "a fresh child of the current scope" really is one: the env method called returns a scope
	// allocated in the call whose parent link is the receiver itself.
	var cs []*ssa.Function
	for c := range ctors {
		cs = append(cs, c)
	}
	sort.Slice(cs, func(i, j int) bool { return funcName(cs[i]) < funcName(cs[j]) })
	for _, c := range cs {
		why := childOfReceiver(c, map[*ssa.Function]bool{})
		r.Check(why == "", "C04.R5", funcName(c)+"|child of its receiver", p.Pos(c.Pos()), "returns a scope allocated in the call whose parent is the receiver",
			"vm switches to the result of this method as the block's own scope, but "+why+": the block's scope is not a direct child of the scope it was opened in, so names resolve past enclosing blocks or bindings leak")
	}
	r.Floor("C04.R5", len(cs), 1)
	sort.Strings(switching)
	r.Floor("C04.R1", nFuncs, 7)
	r.Note("scope_switching_functions", switching)
	r.Note("returns_checked", nReturns)

	c04Binding(p, r, m)
	c04Closure(p, r, m)
	c04Scratch(p, r, m, va)
}

func describeEnv(s string) string {
	switch s {
	case envOrig:
		return "the entry scope"
	case envChild:
		return "a child scope"
	case envMixed:
		return "different scopes depending on the path"
	case "":
		return "an unknown scope"
	}
	return "a foreign scope"
}

func exitDesc(ret *ssa.Return) string {
	b := ret.Block()
	if len(b.Preds) == 1 {
		if iff, ok := b.Preds[0].Instrs[len(b.Preds[0].Instrs)-1].(*ssa.If); ok {
			side := "true"
			if b.Preds[0].Succs[1] == b {
				side = "false"
			}
			return "exit on the " + side + " edge of `" + condString(iff.Cond) + "`"
		}
	}
	return "exit block " + b.Comment
}

func condString(v ssa.Value) string {
	switch x := v.(type) {
	case *ssa.BinOp:
		return operandString(x.X) + " " + x.Op.String() + " " + operandString(x.Y)
	case *ssa.Call:
		if callee := staticCallee(x); callee != nil {
			return callee.Name() + "(...)"
		}
	}
	return v.Name()
}

func operandString(v ssa.Value) string {
	switch x := v.(type) {
	case *ssa.Const:
		return x.Name()
	case *ssa.UnOp:
		if fa, ok := x.X.(*ssa.FieldAddr); ok {
			return "." + fieldOfAddr(fa).Name()
		}
		if g, ok := x.X.(*ssa.Global); ok {
			return g.Name()
		}
	}
	return v.Name()
}

// c04Binding checks R3.
func c04Binding(p *Program, r *Report, m *vmModel) {
	nBind := 0
	isEnvMethod := func(c *ssa.Call) (*types.Func, bool) {
		o := calleeObj(c)
		if o == nil || o.Pkg() == nil || o.Pkg().Path() != modPath+"/env" {
			return nil, false
		}
		sig := o.Type().(*types.Signature)
		return o, sig.Recv() != nil
	}
	for _, fn := range m.fns {
		base := m.baseOf(fn)
		fname := funcName(fn)
		cnt := map[string]int{}
		for _, b := range fn.Blocks {
			for _, in := range b.Instrs {
				c, ok := in.(*ssa.Call)
				if !ok {
					continue
				}
				o, ok := isEnvMethod(c)
				if !ok {
					continue
				}
				name := o.Name()
				site := p.Pos(c.Pos())
				key := fname + "|" + name
				cnt[key]++
				inst := key
				if cnt[key] > 1 {
					inst = fmt.Sprintf("%s #%d", key, cnt[key])
				}
				switch {
				case strings.HasPrefix(name, "DefineGlobal") || name == "Set" || name == "Define" && fn.Pkg == m.sp && base != nil:
					nBind++
					if name == "Define" {
						// Define(symbol, interface{}) re-wraps the value: the VM binds reflect.Values as they are
						r.Fail("C04.R3", inst, site, "vm binds a name with "+name+" instead of DefineValue on the current scope")
					} else {
						r.Fail("C04.R3", inst, site, "vm calls "+name+": a script-level binding form must bind in the current scope only")
					}
				case name == "SetValue":
					nBind++
					inLet := fn == m.evalLet
					onModule := false
					if !inLet && base != nil {
						// assignment to a member of a module: receiver is the module value, not the scope cell
						if len(c.Call.Args) > 0 && m.cellLoad(c.Call.Args[0], base) == "" {
							onModule = true
						}
					}
					r.Check(inLet || onModule, "C04.R3", inst, site, "assignment: set nearest binding (identifier clause) / module member", "SetValue called outside the assignment dispatcher: a binding form updates an outer scope")
					if inLet {
						// DefineValue only on SetValue's error edge with the same symbol and value, on the current scope
						okDef := false
						why := "no define-here fallback on SetValue's failure"
						for _, ref := range *c.Referrers() {
							bo, ok := ref.(*ssa.BinOp)
							if !ok || !isNilConst(bo.Y) {
								continue
							}
							for _, r2 := range *bo.Referrers() {
								iff, ok := r2.(*ssa.If)
								if !ok {
									continue
								}
								errSucc := iff.Block().Succs[0]
								if bo.Op.String() == "==" {
									errSucc = iff.Block().Succs[1]
								}
								for _, in2 := range errSucc.Instrs {
									c2, ok := in2.(*ssa.Call)
									if !ok {
										continue
									}
									if o2, ok := isEnvMethod(c2); ok && o2.Name() == "DefineValue" {
										sameArgs := len(c2.Call.Args) == 3 && len(c.Call.Args) == 3 && sameLoad(c2.Call.Args[1], c.Call.Args[1]) && sameLoad(c2.Call.Args[2], c.Call.Args[2]) &&
											m.cellLoad(c2.Call.Args[0], base) == "env" && m.cellLoad(c.Call.Args[0], base) == "env"
										if sameArgs {
											okDef = true
										} else {
											why = "the fallback defines a different name/value or in a different scope"
										}
									}
								}
								// the success edge must not define
								okSucc := iff.Block().Succs[1]
								if bo.Op.String() == "==" {
									okSucc = iff.Block().Succs[0]
								}
								for _, in2 := range okSucc.Instrs {
									if c2, ok := in2.(*ssa.Call); ok {
										if o2, ok := isEnvMethod(c2); ok && strings.HasPrefix(o2.Name(), "Define") && len(okSucc.Preds) == 1 {
											okDef = false
											why = "defines in the current scope although the nearest binding was updated"
										}
									}
								}
							}
						}
						r.Check(okDef, "C04.R3", inst+"|else-define-here", site, "defines in the current scope only when no enclosing binding exists, same name and value", why)
					}
				case name == "DefineValue" || name == "DefineReflectType" || name == "DefineType":
					if base == nil {
						continue
					}
					nBind++
					// receiver: the current scope cell, or an environment made in this function (import, closure record)
					recv := c.Call.Args[0]
					okRecv := m.cellLoad(recv, base) == "env"
					if !okRecv {
						if rc, ok := recv.(*ssa.Call); ok {
							if callee := staticCallee(rc); callee != nil && callee.Pkg != nil && callee.Pkg.Pkg.Path() == modPath+"/env" {
								okRecv = true
							}
						}
					}
					r.Check(okRecv, "C04.R3", inst, site, "binds in the current scope (or in an environment created here)", name+" on a scope other than the current one")
					// a name that is an identifier *expression* (an assignment target, not a declared name) is bound here only as the
					// fallback of the assignment dispatcher, after the nearest existing binding was looked for
					if name == "DefineValue" && len(c.Call.Args) > 1 && fn != m.evalLet {
						if x, _, ok := fieldLoad(c.Call.Args[1]); ok && m.nm.nodeKind(x.Type()) == "IdentExpr" {
							r.Fail("C04.R3", inst+"|identifier target defined without looking for its binding", site,
								"an identifier that is the target of an assignment is defined in the current scope without first updating the nearest existing binding (only the assignment dispatcher may do that, as the fallback of a failed SetValue): a write from a nested block or function creates a shadow and the outer variable keeps its old value")
						}
					}
				}
			}
		}
	}
	// the assignment dispatcher must try the nearest existing binding first
	hasSet := false
	for _, b := range m.evalLet.Blocks {
		for _, in := range b.Instrs {
			if c, ok := in.(*ssa.Call); ok {
				if o, ok := isEnvMethod(c); ok && o.Name() == "SetValue" && m.cellLoad(c.Call.Args[0], m.baseOf(m.evalLet)) == "env" {
					hasSet = true
				}
			}
		}
	}
	r.Check(hasSet, "C04.R3", funcName(m.evalLet)+"|set-nearest-first", p.Pos(m.evalLet.Pos()), "plain assignment first tries SetValue on the current scope chain", "plain assignment never updates an existing enclosing binding: it always defines in the current block")
	// declaring forms (var, loop variables, catch variable, module, function name and parameters) bind in the current scope:
	// they never go through the assignment dispatcher, which would update an enclosing binding of the same name
	aa := newAddrAnalysis(m, nil, nil)
	decl := c10HandlerSet(m, aa, "VarStmt", "ForStmt", "TryStmt", "ModuleStmt", "FuncExpr")
	var dfns []*ssa.Function
	for fn := range decl {
		dfns = append(dfns, fn)
	}
	sort.Slice(dfns, func(i, j int) bool { return funcName(dfns[i]) < funcName(dfns[j]) })
	for _, fn := range dfns {
		bad := ""
		for _, b := range fn.Blocks {
			for _, in := range b.Instrs {
				if c, ok := in.(*ssa.Call); ok && staticCallee(c) == m.evalLet {
					bad = p.Pos(c.Pos())
				}
			}
		}
		nBind++
		r.Check(bad == "", "C04.R3", funcName(fn)+"|declares, never assigns", p.Pos(fn.Pos()), "binds with DefineValue only", "a declaring form ("+decl[fn]+") binds through the assignment dispatcher at "+bad+": when an enclosing scope already has the name, that outer binding is overwritten instead of a new one being made")
	}
	r.Floor("C04.R3", nBind, 10)
}

func sameLoad(a, b ssa.Value) bool {
	if a == b {
		return true
	}
	ua, ok1 := a.(*ssa.UnOp)
	ub, ok2 := b.(*ssa.UnOp)
	if !ok1 || !ok2 {
		return false
	}
	fa, ok1 := ua.X.(*ssa.FieldAddr)
	fb, ok2 := ub.X.(*ssa.FieldAddr)
	return ok1 && ok2 && fa.X == fb.X && fa.Field == fb.Field
}

// c04Closure checks R4.
func c04Closure(p *Program, r *Report, m *vmModel) {
	n := 0
	for _, fn := range m.fns {
		if fn.Parent() == nil {
			continue
		}
		// closures that allocate a record
		var rec *ssa.Alloc
		for _, b := range fn.Blocks {
			for _, in := range b.Instrs {
				if al, ok := in.(*ssa.Alloc); ok && m.isRI(al.Type()) {
					rec = al
				}
			}
		}
		if rec == nil {
			continue
		}
		n++
		fname := funcName(fn)
		site := p.Pos(instrPos(rec))
		// env field initialised with <captured scope>.NewEnv()
		okEnv, why := false, "the invocation record's scope is not a fresh child of a captured scope"
		for _, ref := range *rec.Referrers() {
			fa, ok := ref.(*ssa.FieldAddr)
			if !ok || m.cell[fa.Field] != "env" {
				continue
			}
			for _, r2 := range *fa.Referrers() {
				st, ok := r2.(*ssa.Store)
				if !ok || st.Addr != ssa.Value(fa) {
					continue
				}
				c, ok := st.Val.(*ssa.Call)
				if !ok {
					why = "scope of an invocation is not created by a constructor call: invocations would share locals"
					continue
				}
				callee := staticCallee(c)
				if callee == nil || callee.Pkg == nil || callee.Pkg.Pkg.Path() != modPath+"/env" || len(c.Call.Args) != 1 {
					continue
				}
				// receiver: load of a captured variable whose binding in the parent is a load of the parent's env cell
				recv := c.Call.Args[0]
				var fv *ssa.FreeVar
				if u, ok := recv.(*ssa.UnOp); ok {
					fv, _ = u.X.(*ssa.FreeVar)
				} else {
					fv, _ = recv.(*ssa.FreeVar)
				}
				if fv == nil {
					why = "invocation scope is not derived from a captured variable"
					continue
				}
				bound := bindingOf(fn, fv)
				pbase := m.baseOf(fn.Parent())
				if bound != nil && pbase != nil {
					// the captured variable holds the parent's env cell value at creation time
					if al, ok := bound.(*ssa.Alloc); ok {
						// assigned exactly once, at creation, and never through an alias or by the function value itself
						if v := allocSingleValue(al); v != nil && m.cellLoad(v, pbase) == "env" {
							okEnv = true
						}
					} else if m.cellLoad(bound, pbase) == "env" {
						okEnv = true
					}
				}
				if !okEnv {
					why = "the captured scope is not the scope current when the function value was created"
				}
			}
		}
		r.Check(okEnv, "C04.R4", fname+"|fresh-child-of-defining-scope", site, "every invocation allocates its own record whose scope is a fresh child of the scope captured at creation", why)
		// parameters are defined in that record's scope
		okParams := false
		for _, b := range fn.Blocks {
			for _, in := range b.Instrs {
				if c, ok := in.(*ssa.Call); ok {
					if o := calleeObj(c); o != nil && isFuncNamed(o, modPath+"/env", "Env", "DefineValue") && m.cellLoad(c.Call.Args[0], rec) == "env" {
						okParams = true
					}
				}
			}
		}
		r.Check(okParams, "C04.R4", fname+"|parameters", site, "parameters are bound with DefineValue in the invocation's own scope", "parameters are not bound in the invocation's own scope")
	}
	r.Floor("C04.R4", n, 1)
}

// bindingOf finds the value bound to free variable fv when the closure fn is made.
func bindingOf(fn *ssa.Function, fv *ssa.FreeVar) ssa.Value {
	idx := -1
	for i, v := range fn.FreeVars {
		if v == fv {
			idx = i
		}
	}
	if idx < 0 || fn.Parent() == nil {
		return nil
	}
	for _, b := range fn.Parent().Blocks {
		for _, in := range b.Instrs {
			if mc, ok := in.(*ssa.MakeClosure); ok && mc.Fn == ssa.Value(fn) && idx < len(mc.Bindings) {
				return mc.Bindings[idx]
			}
		}
	}
	return nil
}

// exitKey names a return by the condition edge that leads to it and the last call made before that test
// (stable under edits elsewhere in the function; no line numbers or block numbers).
func exitKey(ret *ssa.Return) string {
	b := ret.Block()
	if len(b.Preds) != 1 {
		return "end"
	}
	pr := b.Preds[0]
	iff, ok := pr.Instrs[len(pr.Instrs)-1].(*ssa.If)
	if !ok {
		return "end"
	}
	side := "true"
	if pr.Succs[1] == b {
		side = "false"
	}
	last := ""
	for d := pr; d != nil && last == ""; d = d.Idom() {
		for i := len(d.Instrs) - 1; i >= 0; i-- {
			if c, ok := d.Instrs[i].(*ssa.Call); ok {
				if callee := staticCallee(c); callee != nil {
					last = callee.Name()
					break
				}
			}
		}
	}
	return condString(iff.Cond) + " is " + side + " after " + last
}

// childOfReceiver: every *Env the method returns is allocated in the call with its parent link set to the receiver (or comes
// from another such method called on the receiver); "" when so, else what was found.
func childOfReceiver(fn *ssa.Function, seen map[*ssa.Function]bool) string {
	if seen[fn] {
		return ""
	}
	seen[fn] = true
	if len(fn.Params) == 0 || len(fn.Blocks) == 0 {
		return "it has no body to inspect"
	}
	recv := fn.Params[0]
	parentField := func(t types.Type) int {
		pt, ok := t.Underlying().(*types.Pointer)
		if !ok {
			return -1
		}
		st, ok := pt.Elem().Underlying().(*types.Struct)
		if !ok {
			return -1
		}
		for i := 0; i < st.NumFields(); i++ {
			if types.Identical(st.Field(i).Type(), t) {
				return i
			}
		}
		return -1
	}
	pf := parentField(recv.Type())
	if pf < 0 {
		return "the scope type has no parent link"
	}
	var check func(v ssa.Value, vs map[ssa.Value]bool) string
	check = func(v ssa.Value, vs map[ssa.Value]bool) string {
		if vs[v] {
			return ""
		}
		vs[v] = true
		switch x := v.(type) {
		case *ssa.Const:
			if x.IsNil() {
				return ""
			}
		case *ssa.Phi:
			for _, e := range x.Edges {
				if w := check(e, vs); w != "" {
					return w
				}
			}
			return ""
		case *ssa.Alloc:
			n := 0
			for _, ref := range *x.Referrers() {
				fa, ok := ref.(*ssa.FieldAddr)
				if !ok || fa.Field != pf {
					continue
				}
				for _, r2 := range *fa.Referrers() {
					if st, ok := r2.(*ssa.Store); ok && st.Addr == ssa.Value(fa) {
						n++
						if st.Val != ssa.Value(recv) {
							return "the new scope's parent link is set to a scope other than the receiver"
						}
					}
				}
			}
			if n == 0 {
				return "the new scope's parent link is never set"
			}
			return ""
		case *ssa.Extract:
			if c, ok := x.Tuple.(*ssa.Call); ok && x.Index == 0 {
				return check(c, vs)
			}
		case *ssa.Call:
			if g := staticCallee(x); g != nil && len(x.Call.Args) > 0 && x.Call.Args[0] == ssa.Value(recv) && g.Signature.Recv() != nil && types.Identical(g.Signature.Recv().Type(), recv.Type()) {
				return childOfReceiver(g, seen)
			}
		}
		return "it returns a scope that is not allocated in the call"
	}
	for _, b := range fn.Blocks {
		ret, ok := b.Instrs[len(b.Instrs)-1].(*ssa.Return)
		if !ok || len(ret.Results) == 0 {
			continue
		}
		if w := check(ret.Results[0], map[ssa.Value]bool{}); w != "" {
			return w
		}
	}
	return ""
}

// c04Scratch (R6): evaluation is re-entrant on one record: while a handler evaluates an operand, the same handler can run again
// on the same record (a call inside an argument). Whatever a handler has computed before an evaluation and needs after it
// therefore lives in locals. Storage reached through a field of the record that is not one of the protocol cells (a scratch
// buffer kept on the record) and used both before and after an evaluation is overwritten by the nested run: an outer call's
// already-evaluated arguments are replaced by the inner call's.
func c04Scratch(p *Program, r *Report, m *vmModel, va *evalAnalysis) {
	n := 0
	for _, fn := range m.funcsOnRecord() {
		base := m.baseOf(fn)
		if _, isParam := base.(*ssa.Parameter); !isParam {
			continue
		}
		// values that alias storage behind a non-cell field of the record
		derived := map[ssa.Value]int{}
		for _, b := range fn.Blocks {
			for _, in := range b.Instrs {
				if fa, ok := in.(*ssa.FieldAddr); ok && sameBase(fa.X, base) && m.cell[fa.Field] == "" {
					derived[fa] = fa.Field
				}
			}
		}
		if len(derived) == 0 {
			continue
		}
		for changed := true; changed; {
			changed = false
			for _, b := range fn.Blocks {
				for _, in := range b.Instrs {
					v, ok := in.(ssa.Value)
					if !ok {
						continue
					}
					if _, done := derived[v]; done {
						continue
					}
					f, from := -1, false
					add := func(x ssa.Value) {
						if ff, ok := derived[x]; ok {
							f, from = ff, true
						}
					}
					switch x := in.(type) {
					case *ssa.Slice:
						add(x.X)
					case *ssa.IndexAddr:
						add(x.X)
					case *ssa.Phi:
						for _, e := range x.Edges {
							add(e)
						}
					case *ssa.Call:
						if bi, ok := x.Call.Value.(*ssa.Builtin); ok && bi.Name() == "append" && len(x.Call.Args) > 0 {
							add(x.Call.Args[0])
						}
					case *ssa.UnOp:
						// a local that lives in memory (captured by a function literal): what was stored into it
						if al, ok := x.X.(*ssa.Alloc); ok && x.Op == token.MUL {
							for _, ref := range *al.Referrers() {
								if st, ok := ref.(*ssa.Store); ok && st.Addr == ssa.Value(al) {
									add(st.Val)
								}
							}
						}
					}
					if from {
						derived[v] = f
						changed = true
					}
				}
			}
		}
		// uses: instructions with a derived operand
		type use struct {
			in ssa.Instruction
			f  int
		}
		var uses []use
		for _, b := range fn.Blocks {
			for _, in := range b.Instrs {
				for _, op := range in.Operands(nil) {
					if op == nil || *op == nil {
						continue
					}
					if f, ok := derived[*op]; ok {
						uses = append(uses, use{in, f})
						break
					}
				}
			}
		}
		reachesInstr := func(a, b ssa.Instruction) bool { // a executes before b on some path
			if a.Block() == b.Block() && instrIndex(a) < instrIndex(b) {
				return true
			}
			for _, s := range a.Block().Succs {
				if s == b.Block() || reachable(s, nil)[b.Block()] {
					return true
				}
			}
			return false
		}
		if os.Getenv("ANKO_DBG") != "" {
			for _, u := range uses {
				fmt.Fprintln(os.Stderr, "DBGUSE", funcName(fn), u.f, u.in, p.Pos(instrPos(u.in)))
			}
		}
		fields := map[int]bool{}
		for _, u := range uses {
			fields[u.f] = true
		}
		for f := range fields {
			n++
			bad := ""
			for _, e := range va.events[fn] {
				var before, after ssa.Instruction
				for _, u := range uses {
					if u.f != f {
						continue
					}
					if before == nil && reachesInstr(u.in, e.call) {
						before = u.in
					}
					if after == nil && reachesInstr(e.call, u.in) {
						after = u.in
					}
				}
				if before != nil && after != nil {
					bad = fmt.Sprintf("storage behind record field #%d is used at %s, an operand is evaluated at %s, and it is used again at %s", f, p.Pos(instrPos(before)), p.Pos(e.call.Pos()), p.Pos(instrPos(after)))
					break
				}
			}
			r.Check(bad == "", "C04.R6", fmt.Sprintf("%s|record field #%d not live across an evaluation", funcName(fn), f), p.Pos(fn.Pos()), "not used on both sides of an evaluation",
				bad+": the evaluation can re-enter this handler on the same record and overwrite it (a call nested in an argument replaces the outer call's already-evaluated arguments)")
		}
	}
	if n == 0 {
		r.OK("C04.R6", "record|protocol cells only", "vm", "the handlers keep nothing on the record besides the protocol cells (statement, expression, operator, value, error, scope, context, options, deferred calls)")
	}
}
