package main

import (
	"fmt"
	"go/ast"
	"go/token"
	"go/types"
	"os"
	"path/filepath"
	"sort"
	"strings"

	"golang.org/x/tools/go/packages"
	"golang.org/x/tools/go/ssa"
	"golang.org/x/tools/go/ssa/ssautil"
)

const modPath = "github.com/mattn/anko"

// Program is the loaded, type-checked and SSA-built source tree under analysis.
type Program struct {
	Root    string
	Fset    *token.FileSet
	Pkgs    map[string]*packages.Package // by import path (module packages only)
	All     []*packages.Package          // module packages, sorted
	SSA     *ssa.Program
	SSAPkgs map[string]*ssa.Package
	Config  string // description of build configuration
}

// LoadOptions selects a build configuration.
type LoadOptions struct {
	Root string
	Tags []string
	Env  []string // extra GOOS/GOARCH settings
	// Overlay replaces the content of source files (absolute name -> content): the helper-expanded program of expand.go
	Overlay map[string][]byte
}

func baseEnv() []string {
	env := []string{}
	for _, kv := range os.Environ() {
		k := kv
		if i := strings.IndexByte(kv, '='); i >= 0 {
			k = kv[:i]
		}
		switch k {
		case "GOFLAGS", "GOPROXY", "GOSUMDB", "GOTOOLCHAIN", "GOWORK", "GOOS", "GOARCH":
			continue
		}
		env = append(env, kv)
	}
	env = append(env, "GOFLAGS=-mod=mod", "GOPROXY=off", "GOSUMDB=off", "GOTOOLCHAIN=local", "GOWORK=off")
	return env
}

// Load loads every package of the module rooted at opt.Root (tests excluded),
// type-checks it and builds SSA. Any load or type error is an error.
func Load(opt LoadOptions) (*Program, error) {
	fset := token.NewFileSet()
	cfg := &packages.Config{
		Mode:  packages.LoadAllSyntax,
		Dir:   opt.Root,
		Fset:  fset,
		Env:   append(baseEnv(), opt.Env...),
		Tests: false,
	}
	if len(opt.Overlay) > 0 {
		cfg.Overlay = opt.Overlay
	}
	if len(opt.Tags) > 0 {
		cfg.BuildFlags = []string{"-tags=" + strings.Join(opt.Tags, ",")}
	}
	pkgs, err := packages.Load(cfg, "./...")
	if err != nil {
		return nil, fmt.Errorf("packages.Load: %v", err)
	}
	if len(pkgs) == 0 {
		return nil, fmt.Errorf("no packages loaded from %s", opt.Root)
	}
	p := &Program{Root: opt.Root, Fset: fset, Pkgs: map[string]*packages.Package{}, SSAPkgs: map[string]*ssa.Package{}}
	p.Config = fmt.Sprintf("root=%s tags=%v env=%v", opt.Root, opt.Tags, opt.Env)
	if len(opt.Overlay) > 0 {
		p.Config += fmt.Sprintf(" helper-expanded(%d files)", len(opt.Overlay))
	}
	var errs []string
	packages.Visit(pkgs, nil, func(pk *packages.Package) {
		for _, e := range pk.Errors {
			errs = append(errs, fmt.Sprintf("%s: %v", pk.PkgPath, e))
		}
	})
	if len(errs) > 0 {
		sort.Strings(errs)
		if len(errs) > 10 {
			errs = errs[:10]
		}
		return nil, fmt.Errorf("load/type errors: %s", strings.Join(errs, "; "))
	}
	for _, pk := range pkgs {
		if pk.PkgPath == modPath || strings.HasPrefix(pk.PkgPath, modPath+"/") {
			p.Pkgs[pk.PkgPath] = pk
			p.All = append(p.All, pk)
		}
	}
	sort.Slice(p.All, func(i, j int) bool { return p.All[i].PkgPath < p.All[j].PkgPath })
	if len(p.All) == 0 {
		return nil, fmt.Errorf("no %s packages among %d loaded", modPath, len(pkgs))
	}
	prog, spkgs := ssautil.AllPackages(pkgs, ssa.BuilderMode(0))
	prog.Build()
	p.SSA = prog
	normaliseComparisons(prog)
	for i, pk := range pkgs {
		if spkgs[i] != nil {
			if _, ok := p.Pkgs[pk.PkgPath]; ok {
				p.SSAPkgs[pk.PkgPath] = spkgs[i]
			}
		}
	}
	return p, nil
}

// Pkg returns the module package with the given path suffix ("vm", "env", "" for root).
func (p *Program) Pkg(suffix string) *packages.Package {
	if suffix == "" {
		return p.Pkgs[modPath]
	}
	return p.Pkgs[modPath+"/"+suffix]
}

func (p *Program) SSAPkg(suffix string) *ssa.Package {
	if suffix == "" {
		return p.SSAPkgs[modPath]
	}
	return p.SSAPkgs[modPath+"/"+suffix]
}

// Pos renders a position relative to the root.
func (p *Program) Pos(pos token.Pos) string {
	if !pos.IsValid() {
		return "?"
	}
	ps := p.Fset.Position(pos)
	rel, err := filepath.Rel(p.Root, ps.Filename)
	if err != nil {
		rel = ps.Filename
	}
	return fmt.Sprintf("%s:%d", rel, ps.Line)
}

// File renders only the file (relative) of a position.
func (p *Program) File(pos token.Pos) string {
	if !pos.IsValid() {
		return "?"
	}
	ps := p.Fset.Position(pos)
	rel, err := filepath.Rel(p.Root, ps.Filename)
	if err != nil {
		rel = ps.Filename
	}
	return rel
}

// FuncDecls returns all function declarations of a package, keyed by types.Func.
func FuncDecls(pk *packages.Package) map[*types.Func]*ast.FuncDecl {
	m := map[*types.Func]*ast.FuncDecl{}
	for _, f := range pk.Syntax {
		for _, d := range f.Decls {
			if fd, ok := d.(*ast.FuncDecl); ok {
				if obj, ok := pk.TypesInfo.Defs[fd.Name].(*types.Func); ok {
					m[obj] = fd
				}
			}
		}
	}
	return m
}

// SrcFuncs lists every SSA function (including anonymous ones) with source in pkg.
func SrcFuncs(sp *ssa.Package) []*ssa.Function {
	var out []*ssa.Function
	seen := map[*ssa.Function]bool{}
	var add func(f *ssa.Function)
	add = func(f *ssa.Function) {
		if f == nil || seen[f] {
			return
		}
		seen[f] = true
		if f.Blocks != nil {
			out = append(out, f)
		}
		for _, a := range f.AnonFuncs {
			add(a)
		}
	}
	for _, m := range sp.Members {
		switch m := m.(type) {
		case *ssa.Function:
			add(m)
		case *ssa.Type:
			for _, t := range []types.Type{m.Type(), types.NewPointer(m.Type())} {
				ms := sp.Prog.MethodSets.MethodSet(t)
				for i := 0; i < ms.Len(); i++ {
					fn := sp.Prog.MethodValue(ms.At(i))
					if fn != nil && fn.Pkg == sp && fn.Synthetic == "" {
						add(fn)
					}
				}
			}
		}
	}
	sort.Slice(out, func(i, j int) bool {
		if out[i].Pos() != out[j].Pos() {
			return out[i].Pos() < out[j].Pos()
		}
		return out[i].String() < out[j].String()
	})
	return out
}

// funcName gives a stable, line-free name for an SSA function (closures get parent$N).
func funcName(f *ssa.Function) string {
	if f == nil {
		return "?"
	}
	return f.RelString(f.Pkg.Pkg)
}

// RealFile returns the file a position is really in (ignoring //line directives), relative to the root.
func (p *Program) RealFile(pos token.Pos) string {
	if !pos.IsValid() {
		return "?"
	}
	ps := p.Fset.PositionFor(pos, false)
	rel, err := filepath.Rel(p.Root, ps.Filename)
	if err != nil {
		rel = ps.Filename
	}
	return rel
}

// normaliseComparisons puts every comparison with exactly one constant operand into the form "value OP constant"
// (nil != err becomes err != nil, 0 < n becomes n > 0), and a comparison of a length with a non-length into "value OP len(a)"
// (len(a) > i becomes i < len(a)): the rules read comparisons in that one form, and the operand order of a comparison
// carries no meaning.
func normaliseComparisons(prog *ssa.Program) {
	flip := map[token.Token]token.Token{token.EQL: token.EQL, token.NEQ: token.NEQ, token.LSS: token.GTR, token.GTR: token.LSS, token.LEQ: token.GEQ, token.GEQ: token.LEQ}
	for fn := range ssautil.AllFunctions(prog) {
		if fn.Pkg == nil || !(fn.Pkg.Pkg.Path() == modPath || strings.HasPrefix(fn.Pkg.Pkg.Path(), modPath+"/")) {
			continue
		}
		for _, b := range fn.Blocks {
			for _, in := range b.Instrs {
				bo, ok := in.(*ssa.BinOp)
				if !ok {
					continue
				}
				op, ok := flip[bo.Op]
				if !ok {
					continue
				}
				_, cx := bo.X.(*ssa.Const)
				_, cy := bo.Y.(*ssa.Const)
				if cx && !cy {
					bo.X, bo.Y, bo.Op = bo.Y, bo.X, op
					continue
				}
				// a length on the right: len(a) > i becomes i < len(a)
				isLen := func(v ssa.Value) bool {
					c, ok := v.(*ssa.Call)
					if !ok {
						return false
					}
					bi, ok := c.Call.Value.(*ssa.Builtin)
					return ok && (bi.Name() == "len" || bi.Name() == "cap")
				}
				if isLen(bo.X) && !isLen(bo.Y) && !cy {
					bo.X, bo.Y, bo.Op = bo.Y, bo.X, op
					continue
				}
				// a package-level variable (a sentinel error, a type value) on the left: `ErrReturn == runInfo.err` becomes
				// `runInfo.err == ErrReturn`
				isGlobalLoad := func(v ssa.Value) bool {
					u, ok := v.(*ssa.UnOp)
					if !ok || u.Op != token.MUL {
						return false
					}
					_, ok = u.X.(*ssa.Global)
					return ok
				}
				if isGlobalLoad(bo.X) && !isGlobalLoad(bo.Y) && !cy {
					bo.X, bo.Y, bo.Op = bo.Y, bo.X, op
					continue
				}
				// a loop variable on the right of a call result: `rt.NumIn() > i` becomes `i < rt.NumIn()`
				if _, isCall := bo.X.(*ssa.Call); isCall {
					if _, isPhi := bo.Y.(*ssa.Phi); isPhi {
						bo.X, bo.Y, bo.Op = bo.Y, bo.X, op
					}
				}
			}
		}
	}
}
