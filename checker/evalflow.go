package main

import (
	"sort"
	"strings"

	"golang.org/x/tools/go/ssa"
)

// evalEvent is one call of an evaluator (invokeExpr / invokeLetExpr / runSingleStmt / invokeOperator) on the function's record.
type evalEvent struct {
	call     *ssa.Call
	role     string          // expr | let | stmt | op
	operands []string        // possible operand paths held by the cell at the call
	done     map[string]bool // may-set of operands evaluated before this event on some path
	index    map[string]ssa.Value
}

type evState struct {
	cells map[string]map[string]bool // expr/stmt/operator -> possible operand paths
	done  map[string]bool
}

type evalAnalysis struct {
	m        *vmModel
	events   map[*ssa.Function][]*evalEvent
	before   map[*ssa.Function]map[ssa.Instruction]*evState
	idxVals  map[*ssa.Function]map[string]ssa.Value // per function: index value names seen in operand paths
	mayWrite map[*ssa.Function]bool
	// whole-node hand-offs: a function passes the node it works on to another function of the interpreter, which goes on
	// evaluating the same node's operands
	handoffs  map[*ssa.Function][]*handoff
	evalSet   map[*ssa.Function]map[string]bool   // role:path of node operands the function (or a function it hands the node to) may evaluate
	inherited map[*ssa.Function]map[string]string // role:path already evaluated by some caller before it handed the node over -> where
	must      map[*ssa.Function]map[string]bool   // the same, on every hand-off that reaches the function
	second    bool
}

type handoff struct {
	call   *ssa.Call
	callee *ssa.Function
}

type evFlow struct {
	a    *evalAnalysis
	fn   *ssa.Function
	base ssa.Value
	rec  map[*ssa.Call]*evalEvent
}

func (f *evFlow) Entry() *evState {
	return &evState{cells: map[string]map[string]bool{"expr": {"?": true}, "stmt": {"?": true}, "operator": {"?": true}}, done: map[string]bool{}}
}
func (f *evFlow) Copy(s *evState) *evState {
	o := &evState{cells: map[string]map[string]bool{}, done: make(map[string]bool, len(s.done))}
	for c, set := range s.cells {
		n := make(map[string]bool, len(set))
		for k := range set {
			n[k] = true
		}
		o.cells[c] = n
	}
	for k := range s.done {
		o.done[k] = true
	}
	return o
}
func (f *evFlow) Join(x, y *evState) (*evState, bool) {
	changed := false
	for c, set := range y.cells {
		if x.cells[c] == nil {
			x.cells[c] = map[string]bool{}
		}
		for k := range set {
			if !x.cells[c][k] {
				x.cells[c][k] = true
				changed = true
			}
		}
	}
	for k := range y.done {
		if !x.done[k] {
			x.done[k] = true
			changed = true
		}
	}
	return x, changed
}

func (f *evFlow) recordIdx(v ssa.Value) {
	// remember index values that occur in paths so back edges can retire them
	var walk func(v ssa.Value, d int)
	walk = func(v ssa.Value, d int) {
		if d > 12 {
			return
		}
		switch x := v.(type) {
		case *ssa.UnOp:
			switch a := x.X.(type) {
			case *ssa.IndexAddr:
				f.a.idx(f.fn)[idxName(a.Index)] = a.Index
				walk(a.X, d+1)
			case *ssa.FieldAddr:
				walk(a.X, d+1)
			}
		case *ssa.MakeInterface:
			walk(x.X, d+1)
		case *ssa.TypeAssert:
			walk(x.X, d+1)
		case *ssa.Extract:
			if ta, ok := x.Tuple.(*ssa.TypeAssert); ok {
				walk(ta, d+1)
			}
		}
	}
	walk(v, 0)
}

func (f *evFlow) Instr(in ssa.Instruction, s *evState) *evState {
	switch x := in.(type) {
	case *ssa.Store:
		c := f.a.m.cellAddr(x.Addr, f.base)
		if c == "expr" || c == "stmt" || c == "operator" {
			f.recordIdx(x.Val)
			s.cells[c] = map[string]bool{f.a.m.opPath(x.Val, 0): true}
		}
	case *ssa.Call:
		role := f.a.m.evalRole(x, f.base)
		if role != "" {
			cell := map[string]string{"expr": "expr", "let": "expr", "stmt": "stmt", "op": "operator"}[role]
			ev := f.rec[x]
			if ev == nil {
				ev = &evalEvent{call: x, role: role, done: map[string]bool{}}
				f.rec[x] = ev
			}
			ops := map[string]bool{}
			for _, o := range ev.operands {
				ops[o] = true
			}
			for p := range s.cells[cell] {
				ops[p] = true
			}
			ev.operands = ev.operands[:0]
			for o := range ops {
				ev.operands = append(ev.operands, o)
			}
			sort.Strings(ev.operands)
			for k := range s.done {
				ev.done[k] = true
			}
			for p := range s.cells[cell] {
				s.done[role+":"+p] = true
			}
			for _, c := range []string{"expr", "stmt", "operator"} {
				s.cells[c] = map[string]bool{"?": true}
			}
		} else if callee := f.a.m.calleeOnBase(x, f.base); callee != nil && f.a.mayWrite[callee] {
			for _, c := range []string{"expr", "stmt", "operator"} {
				s.cells[c] = map[string]bool{"?": true}
			}
			if f.a.second && f.a.isHandoff(f.fn, x) {
				for k := range f.a.evalSet[callee] {
					s.done[k] = true
				}
			}
		}
	}
	return s
}

func (f *evFlow) Edge(from *ssa.BasicBlock, succ int, s *evState) (*evState, bool) {
	to := from.Succs[succ]
	if to.Dominates(from) {
		// back edge: operands indexed by values defined inside the loop belong to the finished iteration
		body := loopBody(from, to)
		// a loop that runs a statement operand which is not an element of a list is a script-level loop:
		// its operands are evaluated once per iteration, so what this iteration evaluated is retired
		script := false
		inLoop := map[string]bool{}
		for b := range body {
			for _, in := range b.Instrs {
				if c, ok := in.(*ssa.Call); ok {
					if ev := f.rec[c]; ev != nil {
						for _, o := range ev.operands {
							inLoop[ev.role+":"+o] = true
							if ev.role == "stmt" && !strings.Contains(o, "[") {
								script = true
							}
						}
					}
				}
			}
		}
		if script {
			for k := range s.done {
				if inLoop[k] {
					delete(s.done, k)
				}
			}
		}
		for k := range s.done {
			i := strings.Index(k, "[")
			for i >= 0 {
				j := strings.Index(k[i:], "]")
				if j < 0 {
					break
				}
				name := k[i+1 : i+j]
				if v, ok := f.a.idx(f.fn)[name]; ok {
					if ins, ok := v.(ssa.Instruction); ok && body[ins.Block()] {
						delete(s.done, k)
						break
					}
				}
				nx := strings.Index(k[i+j:], "[")
				if nx < 0 {
					break
				}
				i = i + j + nx
			}
		}
	}
	return s, true
}

func buildEvalAnalysis(m *vmModel) *evalAnalysis {
	a := &evalAnalysis{m: m, events: map[*ssa.Function][]*evalEvent{}, before: map[*ssa.Function]map[ssa.Instruction]*evState{},
		idxVals: map[*ssa.Function]map[string]ssa.Value{}, mayWrite: map[*ssa.Function]bool{}}
	fns := m.funcsOnRecord()
	// mayWrite: function (transitively) stores to expr/stmt/operator or calls an evaluator
	for changed := true; changed; {
		changed = false
		for _, fn := range fns {
			if a.mayWrite[fn] {
				continue
			}
			base := m.baseOf(fn)
			for _, b := range fn.Blocks {
				for _, in := range b.Instrs {
					switch x := in.(type) {
					case *ssa.Store:
						if c := m.cellAddr(x.Addr, base); c == "expr" || c == "stmt" || c == "operator" {
							a.mayWrite[fn] = true
						}
					case *ssa.Call:
						if callee := m.calleeOnBase(x, base); callee != nil && (a.mayWrite[callee] || m.evalRole(x, base) != "") {
							a.mayWrite[fn] = true
						}
					}
				}
			}
			if a.mayWrite[fn] {
				changed = true
			}
		}
	}
	pass := func() {
		for _, fn := range fns {
			fl := &evFlow{a: a, fn: fn, base: m.baseOf(fn), rec: map[*ssa.Call]*evalEvent{}}
			before, _ := runForward[*evState](fn, fl)
			a.before[fn] = before
			var evs []*evalEvent
			for _, e := range fl.rec {
				evs = append(evs, e)
			}
			sort.Slice(evs, func(i, j int) bool { return evs[i].call.Pos() < evs[j].call.Pos() })
			a.events[fn] = evs
		}
	}
	pass()
	// hand-offs of the whole node, and what the receiving function evaluates of it
	a.handoffs = map[*ssa.Function][]*handoff{}
	a.evalSet = map[*ssa.Function]map[string]bool{}
	a.inherited = map[*ssa.Function]map[string]string{}
	onRecord := map[*ssa.Function]bool{}
	for _, fn := range fns {
		onRecord[fn] = true
	}
	for _, fn := range fns {
		a.evalSet[fn] = map[string]bool{}
		a.inherited[fn] = map[string]string{}
		for _, e := range a.events[fn] {
			for _, o := range e.operands {
				if nodeOperand(o) {
					a.evalSet[fn][e.role+":"+o] = true
				}
			}
		}
		base := m.baseOf(fn)
		for _, b := range fn.Blocks {
			for _, in := range b.Instrs {
				c, ok := in.(*ssa.Call)
				if !ok || m.evalRole(c, base) != "" {
					continue
				}
				callee := m.calleeOnBase(c, base)
				if callee == nil || !onRecord[callee] || callee == fn {
					continue
				}
				for i, arg := range c.Call.Args {
					if i >= len(callee.Params) || m.nm.nodeKind(callee.Params[i].Type()) == "" {
						continue
					}
					if m.opPath(arg, 0) == "node" {
						a.handoffs[fn] = append(a.handoffs[fn], &handoff{c, callee})
						break
					}
				}
			}
		}
	}
	for changed := true; changed; {
		changed = false
		for _, fn := range fns {
			for _, h := range a.handoffs[fn] {
				for k := range a.evalSet[h.callee] {
					if !a.evalSet[fn][k] {
						a.evalSet[fn][k] = true
						changed = true
					}
				}
			}
		}
	}
	a.second = true
	pass()
	for changed := true; changed; {
		changed = false
		for _, fn := range fns {
			for _, h := range a.handoffs[fn] {
				st := a.before[fn][h.call]
				if st == nil {
					continue
				}
				inh := a.inherited[h.callee]
				for k := range st.done {
					if nodeOperand(k[strings.Index(k, ":")+1:]) && inh[k] == "" {
						inh[k] = funcName(fn)
						changed = true
					}
				}
				for k, w := range a.inherited[fn] {
					if inh[k] == "" {
						inh[k] = w
						changed = true
					}
				}
			}
		}
	}
	// must-inherited: greatest fixpoint of the intersection over all hand-off sites
	a.must = map[*ssa.Function]map[string]bool{}
	sites := map[*ssa.Function][]struct {
		from *ssa.Function
		h    *handoff
	}{}
	for _, fn := range fns {
		for _, h := range a.handoffs[fn] {
			sites[h.callee] = append(sites[h.callee], struct {
				from *ssa.Function
				h    *handoff
			}{fn, h})
		}
	}
	for _, fn := range fns {
		a.must[fn] = map[string]bool{}
		if len(sites[fn]) > 0 {
			for k := range a.inherited[fn] {
				a.must[fn][k] = true
			}
		}
	}
	for changed := true; changed; {
		changed = false
		for _, fn := range fns {
			for k := range a.must[fn] {
				for _, s := range sites[fn] {
					st := a.before[s.from][s.h.call]
					if st == nil || !(st.done[k] || a.must[s.from][k]) {
						delete(a.must[fn], k)
						changed = true
						break
					}
				}
			}
		}
	}
	return a
}

// nodeOperand: the path names an operand field of the function's own node, with no list index (index names are local to a
// function and cannot be compared across a call).
func nodeOperand(path string) bool {
	return strings.HasPrefix(path, "node.") && !strings.Contains(path, "[") && !strings.Contains(path, "?")
}

func (a *evalAnalysis) isHandoff(fn *ssa.Function, c *ssa.Call) bool {
	for _, h := range a.handoffs[fn] {
		if h.call == c {
			return true
		}
	}
	return false
}

func (a *evalAnalysis) idx(fn *ssa.Function) map[string]ssa.Value {
	m := a.idxVals[fn]
	if m == nil {
		m = map[string]ssa.Value{}
		a.idxVals[fn] = m
	}
	return m
}
