package main

import (
	"bufio"
	"encoding/json"
	"fmt"
	"os"
	"path/filepath"
	"sort"
	"strings"
	"time"
)

// Obligation is one decided instance of a rule.
type Obligation struct {
	Rule     string `json:"rule"`
	Instance string `json:"instance"` // stable key: function|construct (no line numbers)
	Site     string `json:"site"`     // file:line for the reader
	Verdict  string `json:"verdict"`  // ok | violation | known-finding | exception | undecided
	By       string `json:"by"`       // how it was discharged / what is wrong
}

// KnownFinding is one line of known_findings.jsonl.
type KnownFinding struct {
	Status   string `json:"status"` // known | fixed
	Property string `json:"property"`
	Rule     string `json:"rule"`
	Key      string `json:"key"`
	What     string `json:"what"`
	Input    string `json:"input,omitempty"`
	Commit   string `json:"commit,omitempty"`
}

type floorRec struct {
	Got  int `json:"instances"`
	Want int `json:"floor"`
}

// Report accumulates the obligations of one property run.
type Report struct {
	Prop        string
	Tier        string
	Title       string
	Explanation []string
	Obls        []Obligation
	Floors      map[string]floorRec
	Advisory    []string
	Secondary   bool // a run under a secondary build configuration: instance floors (confirmed for the primary one) do not apply
	Assumptions []string
	Analysed    map[string]interface{}
	Exhaustive  bool
	Configs     []string
	start       time.Time
	exceptions  map[string]string
	usedExc     map[string]string
}

func NewReport(prop, tier string) *Report {
	return &Report{Prop: prop, Tier: tier, Floors: map[string]floorRec{}, Analysed: map[string]interface{}{},
		start: time.Now(), exceptions: loadExceptions(), usedExc: map[string]string{}}
}

func (r *Report) Explain(s string)             { r.Explanation = append(r.Explanation, s) }
func (r *Report) Assume(s string)              { r.Assumptions = append(r.Assumptions, s) }
func (r *Report) Advise(s string)              { r.Advisory = append(r.Advisory, s) }
func (r *Report) Note(k string, v interface{}) { r.Analysed[k] = v }

func (r *Report) add(rule, inst, site, verdict, by string) {
	r.Obls = append(r.Obls, Obligation{Rule: rule, Instance: inst, Site: site, Verdict: verdict, By: by})
}

// OK records a discharged obligation.
func (r *Report) OK(rule, inst, site, by string) { r.add(rule, inst, site, "ok", by) }

// Fail records a violated obligation unless a reasoned single-construct exception exists.
func (r *Report) Fail(rule, inst, site, detail string) {
	key := rule + "|" + inst
	if reason, ok := r.exceptions[key]; ok {
		r.usedExc[key] = reason
		r.add(rule, inst, site, "exception", detail+" — excepted: "+reason)
		return
	}
	r.add(rule, inst, site, "violation", detail)
}

// Undecided records an obligation the analysis could not decide; it counts as a failure.
func (r *Report) Undecided(rule, inst, site, detail string) {
	r.add(rule, inst, site, "undecided", detail)
}

// Check is OK/Fail on a condition.
func (r *Report) Check(cond bool, rule, inst, site, okBy, failDetail string) bool {
	if cond {
		r.OK(rule, inst, site, okBy)
	} else {
		r.Fail(rule, inst, site, failDetail)
	}
	return cond
}

// Floor demands that a rule matched at least want instances.
func (r *Report) Floor(rule string, got, want int) {
	r.Floors[rule] = floorRec{got, want}
	if r.Secondary {
		// the confirmed counts belong to the primary configuration (files excluded by build constraints change them); a rule that
		// matches nothing at all is still suspicious
		if got == 0 && want > 0 {
			r.add(rule, "floor", "-", "undecided", "rule matched no instance under this build configuration")
		}
		return
	}
	// the floor guards against a rule that silently stops matching (anchors no longer resolve), not against a maintainer who
	// merges two or three duplicated code sites into one: for counts of four and more a quarter of the confirmed instances may
	// go before the rule is called undecided
	need := want
	if want >= 4 {
		need = (want*3 + 3) / 4
	}
	if got < need {
		r.add(rule, "floor", "-", "undecided", fmt.Sprintf("rule matched %d instances, fewer than the %d needed (%d confirmed by hand): anchors no longer resolve", got, need, want))
	}
}

// failingRules: rules with a violated or undecided obligation that the known-findings file does not list.
func (r *Report) failingRules() map[string]bool {
	known := loadKnown()
	out := map[string]bool{}
	for _, o := range r.Obls {
		if o.Verdict != "violation" && o.Verdict != "undecided" {
			continue
		}
		listed := false
		for _, k := range known {
			if o.Verdict == "violation" && k.Status == "known" && k.Property == r.Prop && k.Rule == o.Rule && k.Key == o.Instance {
				listed = true
			}
		}
		if !listed {
			out[o.Rule] = true
		}
	}
	return out
}

func verifDir() string {
	if d := os.Getenv("VERIF_DIR"); d != "" {
		return d
	}
	exe, err := os.Executable()
	if err == nil {
		d := filepath.Dir(filepath.Dir(exe))
		if _, err := os.Stat(filepath.Join(d, "properties.jsonl")); err == nil {
			return d
		}
	}
	return "/verif"
}

func loadExceptions() map[string]string {
	m := map[string]string{}
	b, err := os.ReadFile(filepath.Join(verifDir(), "exceptions.json"))
	if err != nil {
		return m
	}
	var list []struct{ Key, Reason string }
	if json.Unmarshal(b, &list) == nil {
		for _, e := range list {
			m[e.Key] = e.Reason
		}
	}
	return m
}

func loadKnown() []KnownFinding {
	var out []KnownFinding
	f, err := os.Open(filepath.Join(verifDir(), "known_findings.jsonl"))
	if err != nil {
		return out
	}
	defer f.Close()
	sc := bufio.NewScanner(f)
	sc.Buffer(make([]byte, 1<<20), 1<<20)
	for sc.Scan() {
		line := strings.TrimSpace(sc.Text())
		if line == "" || strings.HasPrefix(line, "#") {
			continue
		}
		var k KnownFinding
		if json.Unmarshal([]byte(line), &k) == nil {
			out = append(out, k)
		}
	}
	return out
}

// Finish matches failures against the known-findings file, writes the evidence
// file and replay files, prints the verdict lines and returns the exit code.
func (r *Report) Finish() int {
	known := loadKnown()
	nviol := 0
	evdir := filepath.Join(verifDir(), "evidence")
	os.MkdirAll(evdir, 0o755)
	// remove stale replay files of this property
	old, _ := filepath.Glob(filepath.Join(evdir, r.Prop+".violation.*.json"))
	for _, f := range old {
		os.Remove(f)
	}
	var lines []string
	for i := range r.Obls {
		o := &r.Obls[i]
		if o.Verdict != "violation" {
			continue
		}
		for _, k := range known {
			if k.Status == "known" && k.Property == r.Prop && k.Rule == o.Rule && k.Key == o.Instance {
				o.Verdict = "known-finding"
				lines = append(lines, fmt.Sprintf("KNOWN-FINDING: property=%s rule=%s %s at %s: %s", r.Prop, o.Rule, o.Instance, o.Site, k.What))
				break
			}
		}
	}
	disch := 0
	for i := range r.Obls {
		o := &r.Obls[i]
		switch o.Verdict {
		case "ok", "exception":
			disch++
		case "violation", "undecided":
			nviol++
			path := filepath.Join(evdir, fmt.Sprintf("%s.violation.%d.json", r.Prop, nviol))
			b, _ := json.MarshalIndent(map[string]interface{}{
				"property": r.Prop, "rule": o.Rule, "instance": o.Instance, "site": o.Site,
				"reason": o.Verdict, "detail": o.By, "configs": r.Configs,
			}, "", " ")
			os.WriteFile(path, b, 0o644)
			extra := ""
			if o.Verdict == "undecided" {
				extra = " reason=undecided"
			}
			lines = append(lines, fmt.Sprintf("VIOLATION property=%s replay=%s%s", r.Prop, path, extra))
			lines = append(lines, fmt.Sprintf("  %s [%s] %s at %s: %s", r.Prop, o.Rule, o.Instance, o.Site, o.By))
		}
	}
	// evidence
	samples := []Obligation{}
	perRule := map[string]int{}
	for _, o := range r.Obls {
		if o.Verdict != "ok" || perRule[o.Rule] < 3 {
			if len(samples) < 400 {
				samples = append(samples, o)
			}
		}
		perRule[o.Rule]++
	}
	rules := map[string]interface{}{}
	for rule, n := range perRule {
		rec := map[string]interface{}{"obligations": n}
		if f, ok := r.Floors[rule]; ok {
			rec["instances"] = f.Got
			rec["floor"] = f.Want
		}
		rules[rule] = rec
	}
	for rule, f := range r.Floors {
		if _, ok := rules[rule]; !ok {
			rules[rule] = map[string]interface{}{"instances": f.Got, "floor": f.Want}
		}
	}
	var kf []string
	for _, l := range lines {
		if strings.HasPrefix(l, "KNOWN-FINDING") {
			kf = append(kf, l)
		}
	}
	excs := []string{}
	for k, v := range r.usedExc {
		excs = append(excs, k+": "+v)
	}
	sort.Strings(excs)
	seed := 0
	fmt.Sscan(os.Getenv("VERIF_SEED"), &seed)
	cov := map[string]interface{}{
		"explanation":         strings.Join(r.Explanation, "\n"),
		"obligations":         len(r.Obls),
		"discharged":          disch,
		"exhaustive":          r.Exhaustive,
		"samples":             samples,
		"rules":               rules,
		"analysed":            r.Analysed,
		"exceptions_used":     excs,
		"known_findings":      kf,
		"advisory":            r.Advisory,
		"build_configs":       r.Configs,
		"checker_cmd":         "bin/ankocheck " + r.Prop + " --tier " + r.Tier,
		"evaluations":         len(r.Obls),
		"distinct_nontrivial": len(distinctInstances(r.Obls)),
		"rule":                "one evaluation = one obligation (rule instance at a resolved construct); distinct = distinct rule|instance keys",
	}
	if r.Assumptions == nil {
		r.Assumptions = []string{}
	}
	if kf == nil {
		kf = []string{}
	}
	if r.Advisory == nil {
		r.Advisory = []string{}
	}
	cov["known_findings"] = kf
	cov["advisory"] = r.Advisory
	ev := map[string]interface{}{
		"property_id": r.Prop, "tier": r.Tier, "seed": seed, "level": "other",
		"coverage": cov, "assumptions": r.Assumptions,
		"wall_s": time.Since(r.start).Seconds(), "violations": nviol,
	}
	b, _ := json.MarshalIndent(ev, "", " ")
	if err := os.WriteFile(filepath.Join(evdir, r.Prop+".json"), b, 0o644); err != nil {
		fmt.Fprintln(os.Stderr, "cannot write evidence:", err)
		return 2
	}
	// summary
	fmt.Printf("%s [%s]: %d obligations, %d discharged, %d known findings, %d violations (%.1fs)\n",
		r.Prop, r.Tier, len(r.Obls), disch, len(kf), nviol, time.Since(r.start).Seconds())
	var rs []string
	for rule := range perRule {
		rs = append(rs, rule)
	}
	sort.Strings(rs)
	for _, rule := range rs {
		fl := ""
		if f, ok := r.Floors[rule]; ok {
			fl = fmt.Sprintf(" (instances %d, floor %d)", f.Got, f.Want)
		}
		fmt.Printf("  rule %-10s %4d obligations%s\n", rule, perRule[rule], fl)
	}
	if os.Getenv("ANKO_LIST") != "" {
		for _, o := range r.Obls {
			fmt.Printf("    %-9s %s %s @%s: %s\n", o.Verdict, o.Rule, o.Instance, o.Site, o.By)
		}
	}
	for _, l := range lines {
		fmt.Println(l)
	}
	if nviol > 0 {
		return 1
	}
	return 0
}

func distinctInstances(obls []Obligation) map[string]bool {
	m := map[string]bool{}
	for _, o := range obls {
		m[o.Rule+"|"+o.Instance] = true
	}
	return m
}
