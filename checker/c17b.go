package main

import (
	"fmt"
	"go/ast"
	"go/constant"
	"go/token"
	"go/types"
	"sort"

	"golang.org/x/tools/go/ssa"
)

// C17.R6 — child positions the parser can leave empty.
//
// "returns no error unless the callback does": a child field that the grammar actions can leave nil (the field is left out of
// the node literal, given as nil, or fed from a grammar symbol one of whose rules yields nil — an empty block) reaches the
// walk functions as a nil interface. No clause of the kind switch matches nil, so a walk function that does not answer nil
// for a nil node up front turns `func() {}` into an "unknown statement" error the callback never returned. Every walk of
// such a field must therefore be nil-safe: the callee answers nil for a nil node before it looks at it (directly or by
// forwarding to one that does), or the call stands under a test that the field is not nil.
//
// Nilability is under-approximated (only what the actions certainly produce): a rule whose whole action is `$$ = nil`, a
// rule that only passes a nilable symbol on, a field left out of a literal in an action that never assigns that field
// afterwards, a field given as the identifier nil.
func c17NilChildren(p *Program, r *Report, g *LALR, m *NodeModel, walkers map[*ssa.Function]*walker, sw []*walker) {
	sp := p.SSAPkg("ast/astutil")
	if sp == nil {
		return
	}
	info := g.Info
	isYYVAL := func(e ast.Expr) (string, bool) { // yyVAL.F
		sel, ok := e.(*ast.SelectorExpr)
		if !ok {
			return "", false
		}
		id, ok := sel.X.(*ast.Ident)
		if !ok || id.Name != "yyVAL" {
			return "", false
		}
		return sel.Sel.Name, true
	}
	dollar := func(e ast.Expr) (int, bool) { // yyDollar[k].F -> k
		sel, ok := e.(*ast.SelectorExpr)
		if !ok {
			return 0, false
		}
		ix, ok := sel.X.(*ast.IndexExpr)
		if !ok {
			return 0, false
		}
		if id, ok := ix.X.(*ast.Ident); !ok || id.Name != "yyDollar" {
			return 0, false
		}
		if tv, ok := info.Types[ix.Index]; ok && tv.Value != nil {
			if k, ok := constant.Int64Val(tv.Value); ok {
				return int(k), true
			}
		}
		return 0, false
	}
	isNilIdent := func(e ast.Expr) bool {
		id, ok := e.(*ast.Ident)
		if !ok || id.Name != "nil" {
			return false
		}
		_, isNil := info.Uses[id].(*types.Nil)
		return isNil
	}
	nilNT := map[int]bool{} // nonterminal (positive number) certainly yields nil in some parse
	for changed := true; changed; {
		changed = false
		for rule, cl := range g.Clauses {
			if rule <= 0 || rule >= len(g.R1) || nilNT[g.R1[rule]] {
				continue
			}
			body := actionBody(cl)
			if len(body) != 1 {
				continue
			}
			as, ok := body[0].(*ast.AssignStmt)
			if !ok || len(as.Lhs) != 1 || len(as.Rhs) != 1 {
				continue
			}
			if _, ok := isYYVAL(as.Lhs[0]); !ok {
				continue
			}
			yes := isNilIdent(as.Rhs[0])
			if k, ok := dollar(as.Rhs[0]); ok && k >= 1 && k <= len(g.RHS[rule]) {
				if s := g.RHS[rule][k-1]; s < 0 && nilNT[-s] {
					yes = true
				}
			}
			if yes {
				nilNT[g.R1[rule]] = true
				changed = true
			}
		}
	}
	// nilable child fields
	type kf struct{ kind, field string }
	nilable := map[kf]string{}
	for _, pr := range m.Producers {
		cl := g.Clauses[pr.Rule]
		if cl == nil {
			continue
		}
		var lit *ast.CompositeLit
		assigned := map[string]bool{} // fields assigned through a selector somewhere in the action
		for _, st := range cl.Body {
			ast.Inspect(st, func(n ast.Node) bool {
				switch x := n.(type) {
				case *ast.CompositeLit:
					if x.Pos() == pr.Pos || (x.Type != nil && x.Type.Pos() == pr.Pos) || x.Lbrace == pr.Pos {
						lit = x
					}
				case *ast.UnaryExpr:
					if cl2, ok := x.X.(*ast.CompositeLit); ok && x.Pos() == pr.Pos {
						lit = cl2
					}
				case *ast.AssignStmt:
					for _, l := range x.Lhs {
						if sel, ok := l.(*ast.SelectorExpr); ok {
							if _, isV := isYYVAL(l); !isV {
								assigned[sel.Sel.Name] = true
							}
						}
					}
				}
				return true
			})
		}
		if lit == nil {
			continue
		}
		given := map[string]ast.Expr{}
		keyed := true
		for _, el := range lit.Elts {
			kv, ok := el.(*ast.KeyValueExpr)
			if !ok {
				keyed = false
				break
			}
			if id, ok := kv.Key.(*ast.Ident); ok {
				given[id.Name] = kv.Value
			}
		}
		if !keyed {
			continue
		}
		for _, cf := range m.Children[pr.Kind] {
			if cf.Slice {
				continue
			}
			v, has := given[cf.Name]
			why := ""
			switch {
			case !has && !assigned[cf.Name]:
				why = "left out of the literal in rule " + g.RuleString(pr.Rule)
			case has && isNilIdent(v):
				why = "given as nil in rule " + g.RuleString(pr.Rule)
			case has:
				if k, ok := dollar(v); ok && k >= 1 && k <= len(g.RHS[pr.Rule]) {
					if s := g.RHS[pr.Rule][k-1]; s < 0 && nilNT[-s] {
						why = "fed from " + g.SymName(s) + ", which is nil for an empty block, in rule " + g.RuleString(pr.Rule)
					}
				}
			}
			if why != "" {
				if _, seen := nilable[kf{pr.Kind, cf.Name}]; !seen {
					nilable[kf{pr.Kind, cf.Name}] = why
				}
			}
		}
	}
	// nil-tolerant walk functions
	tolerant := map[*ssa.Function]bool{}
	entryNilExit := func(fn *ssa.Function) bool {
		if len(fn.Blocks) == 0 || len(fn.Params) == 0 {
			return false
		}
		b := fn.Blocks[0]
		iff, ok := b.Instrs[len(b.Instrs)-1].(*ssa.If)
		if !ok {
			return false
		}
		bo, ok := iff.Cond.(*ssa.BinOp)
		if !ok || !isNilConst(bo.Y) || bo.X != ssa.Value(fn.Params[0]) {
			return false
		}
		var exit *ssa.BasicBlock
		switch bo.Op {
		case token.EQL:
			exit = b.Succs[0]
		case token.NEQ:
			exit = b.Succs[1]
		default:
			return false
		}
		for _, in := range b.Instrs[:len(b.Instrs)-1] {
			if in != ssa.Instruction(bo) {
				if _, isDbg := in.(*ssa.DebugRef); !isDbg {
					return false
				}
			}
		}
		ret, ok := exit.Instrs[len(exit.Instrs)-1].(*ssa.Return)
		if !ok {
			return false
		}
		for _, in := range exit.Instrs[:len(exit.Instrs)-1] {
			if _, isDbg := in.(*ssa.DebugRef); !isDbg {
				return false
			}
		}
		for _, res := range ret.Results {
			if !isNilConst(res) {
				return false
			}
		}
		return true
	}
	for fn := range walkers {
		if entryNilExit(fn) {
			tolerant[fn] = true
		}
	}
	for changed := true; changed; { // forwarders: the node is only ever handed on to tolerant functions
		changed = false
		for fn := range walkers {
			if tolerant[fn] || len(fn.Params) == 0 {
				continue
			}
			refs := fn.Params[0].Referrers()
			if refs == nil || len(*refs) == 0 {
				continue
			}
			all := true
			for _, ref := range *refs {
				if _, isDbg := ref.(*ssa.DebugRef); isDbg {
					continue
				}
				c, ok := ref.(*ssa.Call)
				if !ok || staticCallee(c) == nil || !tolerant[staticCallee(c)] || len(c.Call.Args) == 0 || c.Call.Args[0] != ssa.Value(fn.Params[0]) {
					all = false
				}
			}
			if all {
				tolerant[fn] = true
				changed = true
			}
		}
	}
	// the obligations
	n := 0
	var keys []kf
	for k := range nilable {
		keys = append(keys, k)
	}
	sort.Slice(keys, func(i, j int) bool { return keys[i].kind+"."+keys[i].field < keys[j].kind+"."+keys[j].field })
	r.Note("C17.R6 fields the parser can leave nil", len(keys))
	// paramSafe: inside helper g, every walk of parameter j is nil-safe (the walk function answers nil for nil, or the call
	// stands under a non-nil test of the parameter)
	var paramSafe func(g *ssa.Function, j int, depth int) (bool, string)
	paramSafe = func(g *ssa.Function, j int, depth int) (bool, string) {
		if depth > 3 || j >= len(g.Params) {
			return false, "helper too deep"
		}
		prm := g.Params[j]
		for _, b := range g.Blocks {
			for _, in := range b.Instrs {
				c, ok := in.(*ssa.Call)
				if !ok || staticCallee(c) == nil {
					continue
				}
				callee := staticCallee(c)
				for i, a := range c.Call.Args {
					if a != ssa.Value(prm) || callee.Pkg != g.Pkg {
						continue
					}
					if cat, sl := m.catOf(callee.Params[i].Type()); cat == "" || sl {
						continue
					}
					okHere := false
					if i == 0 && walkers[callee] != nil && !multiChildHelper(m, callee) {
						okHere = tolerant[callee]
					} else {
						okHere, _ = paramSafe(callee, i, depth+1)
					}
					if !okHere && !valueNilGuarded(c, prm) {
						return false, funcName(callee) + " (called in " + funcName(g) + ") does not answer nil for a nil node"
					}
				}
			}
		}
		return true, ""
	}
	for _, fn := range SrcFuncs(sp) {
		for _, b := range fn.Blocks {
			for _, in := range b.Instrs {
				c, ok := in.(*ssa.Call)
				if !ok || staticCallee(c) == nil || len(c.Call.Args) == 0 {
					continue
				}
				callee := staticCallee(c)
				if callee.Pkg != fn.Pkg {
					continue
				}
				for i, a := range c.Call.Args {
					if i >= len(callee.Params) {
						continue
					}
					if cat, sl := m.catOf(callee.Params[i].Type()); cat == "" || sl {
						continue
					}
					base, fidx, ok := fieldLoad(a)
					if !ok {
						continue
					}
					kind := m.nodeKind(base.Type())
					if kind == "" {
						continue
					}
					st, ok := derefType(base.Type()).Underlying().(*types.Struct)
					if !ok || fidx >= st.NumFields() {
						continue
					}
					fname := st.Field(fidx).Name()
					why, isNilable := nilable[kf{kind, fname}]
					if !isNilable {
						continue
					}
					n++
					inst := fmt.Sprintf("%s|%s.%s walked nil-safely", funcName(fn), kind, fname)
					okHere, by, bad := false, "", ""
					if i == 0 && walkers[callee] != nil && !multiChildHelper(m, callee) {
						okHere = tolerant[callee]
						by = funcName(callee) + " answers nil for a nil node before it looks at it"
						bad = funcName(callee) + " does not answer nil for a nil node"
					} else {
						okHere, bad = paramSafe(callee, i, 0)
						by = "the helper " + funcName(callee) + " walks the child nil-safely"
					}
					if !okHere && fieldNilGuarded(c, base, fidx) {
						okHere = true
						by = "the call stands under a test that the field is not nil"
					}
					r.Check(okHere, "C17.R6", inst, p.Pos(c.Pos()), by,
						"the parser can leave "+kind+"."+fname+" nil ("+why+") and "+bad+": the walk of such a program fails with an error the callback never returned")
				}
			}
		}
	}
	r.Floor("C17.R6", n, 20)
}

// valueNilGuarded: the call is dominated by the non-nil edge of a test of v itself.
func valueNilGuarded(c *ssa.Call, v ssa.Value) bool {
	if v.Referrers() == nil {
		return false
	}
	for _, ref := range *v.Referrers() {
		bo, ok := ref.(*ssa.BinOp)
		if !ok || bo.X != v || !isNilConst(bo.Y) {
			continue
		}
		for _, r2 := range *bo.Referrers() {
			iff, ok := r2.(*ssa.If)
			if !ok {
				continue
			}
			side := -1
			switch bo.Op {
			case token.NEQ:
				side = 0
			case token.EQL:
				side = 1
			}
			if side >= 0 && edgeOnly(iff.Block(), side, c.Block()) {
				return true
			}
		}
	}
	return false
}

// actionBody: the statements of a grammar action as written (goyacc puts `yyDollar = yyS[...]` in front and braces around).
func actionBody(cl *ast.CaseClause) []ast.Stmt {
	var body []ast.Stmt
	for _, st := range cl.Body {
		if as, ok := st.(*ast.AssignStmt); ok && len(as.Lhs) == 1 {
			if id, ok := as.Lhs[0].(*ast.Ident); ok && id.Name == "yyDollar" {
				continue
			}
		}
		body = append(body, st)
	}
	for len(body) == 1 {
		b, ok := body[0].(*ast.BlockStmt)
		if !ok {
			break
		}
		body = b.List
	}
	return body
}

// fieldNilGuarded: the call is dominated by the non-nil edge of a test of (a load of) the same field.
func fieldNilGuarded(c *ssa.Call, base ssa.Value, fidx int) bool {
	for _, b := range c.Parent().Blocks {
		iff, ok := b.Instrs[len(b.Instrs)-1].(*ssa.If)
		if !ok {
			continue
		}
		bo, ok := iff.Cond.(*ssa.BinOp)
		if !ok || !isNilConst(bo.Y) {
			continue
		}
		b2, f2, ok := fieldLoad(bo.X)
		if !ok || b2 != base || f2 != fidx {
			continue
		}
		side := -1
		switch bo.Op {
		case token.NEQ:
			side = 0
		case token.EQL:
			side = 1
		}
		if side >= 0 && edgeOnly(b, side, c.Block()) {
			return true
		}
	}
	return false
}
