package main

import (
	"fmt"
	"go/ast"
	"os"
	"sort"
	"strings"
)

// A checker decides the structural clauses of one property.
type checker struct {
	title string
	run   func(p *Program, r *Report)
}

var checkers = map[string]checker{}

// needs: packages (import-path suffix) a property's rules are anchored in; a secondary build configuration that excludes one
// of them by build constraint (anko.go and ast/astutil are `!appengine`) has nothing of that property to check.
var needs = map[string][]string{
	"C17": {"ast/astutil:Walk"},
	"C18": {"@main"},
}

func register(id, title string, run func(p *Program, r *Report)) {
	checkers[id] = checker{title, run}
}

func usage() {
	fmt.Fprintln(os.Stderr, "usage: ankocheck <Cnn>... | all [--tier quick|thorough] [--root DIR]")
	fmt.Fprintln(os.Stderr, "       ankocheck explain <replay.json>")
	os.Exit(2)
}

func main() {
	args := os.Args[1:]
	if len(args) == 0 {
		usage()
	}
	if args[0] == "explain" {
		if len(args) < 2 {
			usage()
		}
		b, err := os.ReadFile(args[1])
		if err != nil {
			fmt.Fprintln(os.Stderr, err)
			os.Exit(2)
		}
		os.Stdout.Write(b)
		fmt.Println()
		return
	}
	tier := os.Getenv("VERIF_TIER")
	if tier == "" {
		tier = "quick"
	}
	root := os.Getenv("ANKO_ROOT")
	if root == "" {
		root = "/repo"
	}
	var props []string
	for i := 0; i < len(args); i++ {
		switch {
		case args[i] == "--tier" && i+1 < len(args):
			tier = args[i+1]
			i++
		case args[i] == "--root" && i+1 < len(args):
			root = args[i+1]
			i++
		case args[i] == "all":
			for id := range checkers {
				props = append(props, id)
			}
		case strings.HasPrefix(args[i], "C"):
			props = append(props, args[i])
		default:
			usage()
		}
	}
	sort.Strings(props)
	uniq := props[:0]
	for i, id := range props {
		if i == 0 || id != props[i-1] {
			uniq = append(uniq, id)
		}
	}
	props = uniq
	if tier != "quick" && tier != "thorough" {
		usage()
	}
	exit := 0
	configs := []LoadOptions{{Root: root}}
	if tier == "thorough" {
		configs = append(configs,
			LoadOptions{Root: root, Env: []string{"GOARCH=386"}},
			LoadOptions{Root: root, Tags: []string{"appengine"}},
		)
	}
	reports := map[string]*Report{}
	for _, id := range props {
		if _, ok := checkers[id]; !ok {
			fmt.Fprintf(os.Stderr, "no checker for %s\n", id)
			os.Exit(2)
		}
		reports[id] = NewReport(id, tier)
	}
	for ci, opt := range configs {
		p, err := Load(opt)
		var expanded *expandedProgram
		for _, id := range props {
			r := reports[id]
			if err != nil {
				r.Undecided("load", "load", "-", fmt.Sprintf("%v (%v %v)", err, opt.Tags, opt.Env))
				continue
			}
			r.Configs = append(r.Configs, p.Config)
			if ci > 0 {
				// secondary configurations: run the same rules, tag the instances
				missing := ""
				for _, n := range needs[id] {
					if n == "@main" {
						if p.SSAPkg("") == nil || p.SSAPkg("").Func("main") == nil {
							missing = "package main"
						}
					} else if i := strings.Index(n, ":"); i >= 0 {
						if sp := p.SSAPkg(n[:i]); sp == nil || sp.Func(n[i+1:]) == nil {
							missing = n[:i] + "." + n[i+1:]
						}
					} else if p.SSAPkg(n) == nil {
						missing = n
					}
				}
				if missing != "" {
					r.Note(fmt.Sprintf("secondary_config_skipped [%s]", strings.TrimSpace(strings.Join(append(opt.Tags, opt.Env...), " "))), missing+" is excluded from this build configuration by a build constraint: nothing of this property to check there")
					continue
				}
				sub := NewReport(id, tier)
				sub.Secondary = true
				runChecker(id, p, sub)
				suffix := fmt.Sprintf(" [%s]", strings.TrimSpace(strings.Join(append(opt.Tags, opt.Env...), " ")))
				primary := map[string]bool{}
				for _, o := range r.Obls {
					primary[o.Rule+"|"+o.Instance+"|"+o.Site] = true
				}
				for _, o := range sub.Obls {
					if o.Verdict == "ok" {
						continue // keep evidence small: only deviations of secondary configs are listed
					}
					if primary[o.Rule+"|"+o.Instance+"|"+o.Site] {
						continue // the same finding at the same site was already reported for the primary configuration
					}
					o.By += suffix
					r.Obls = append(r.Obls, o)
				}
				r.Note("secondary_config_obligations"+suffix, len(sub.Obls))
				continue
			}
			runChecker(id, p, r)
			secondOpinion(id, tier, opt, p, r, &expanded)
		}
	}
	for _, id := range props {
		if c := reports[id].Finish(); c > exit {
			exit = c
		}
	}
	os.Exit(exit)
}

func runChecker(id string, p *Program, r *Report) {
	defer func() {
		if e := recover(); e != nil {
			r.Undecided("panic", "analyser", "-", fmt.Sprintf("analyser panic: %v", e))
			if os.Getenv("ANKOCHECK_DEBUG") != "" {
				panic(e)
			}
		}
	}()
	checkers[id].run(p, r)
}

// expandedProgram: a helper-expanded form of one loaded configuration (expand.go).
type expandedProgram struct {
	p     *Program
	calls int
	err   error
}

func buildExpanded(opt LoadOptions, p *Program, only func(fd *ast.FuncDecl) bool) *expandedProgram {
	e := &expandedProgram{}
	overlay, n := expandHelpers(p, only)
	e.calls = n
	if n > 0 {
		o2 := opt
		o2.Overlay = overlay
		e.p, e.err = Load(o2)
	}
	return e
}

// secondOpinion: rules that fail on the program as written are decided again on helper-expanded forms of the program; a rule
// counts as violated only when it fails on every form tried (all forms compute the same thing by construction). Two forms:
// every expandable call expanded; and only the helpers that the failing obligations point at (so that predicates shared by the
// whole package, which some rules anchor on, stay in place).
func secondOpinion(id, tier string, opt LoadOptions, p *Program, r *Report, cache **expandedProgram) {
	if os.Getenv("ANKO_NOEXPAND") != "" {
		return
	}
	defer func() {
		// the second opinion can only discharge obligations: if it fails itself, the verdicts of the program as written stand
		if e := recover(); e != nil {
			r.Note("helper_expansion", fmt.Sprintf("the second opinion did not complete (%v): verdicts are those of the program as written", e))
		}
	}()
	bad := r.failingRules()
	if len(bad) == 0 {
		return
	}
	if *cache == nil {
		*cache = buildExpanded(opt, p, nil)
	}
	all := *cache
	if all.calls == 0 {
		r.Note("helper_expansion", "no call of an expression helper could be expanded: verdicts are those of the program as written")
		return
	}
	note := map[string]interface{}{"rules_failing_as_written": ruleKeys(bad)}
	still := bad
	try := func(label string, e *expandedProgram) {
		if e.calls == 0 || len(still) == 0 {
			return
		}
		if e.err != nil || e.p == nil {
			note[label] = fmt.Sprintf("does not load (%v)", e.err)
			return
		}
		r2 := NewReport(id, tier)
		r2.Secondary = r.Secondary
		runChecker(id, e.p, r2)
		bad2 := r2.failingRules()
		var cleared []string
		next := map[string]bool{}
		for rule := range still {
			if bad2[rule] {
				next[rule] = true
			}
		}
		for i := range r.Obls {
			o := &r.Obls[i]
			if (o.Verdict == "violation" || o.Verdict == "undecided") && still[o.Rule] && !bad2[o.Rule] {
				o.Verdict = "ok"
				o.By = "holds on the helper-expanded program (" + label + ", " + fmt.Sprint(e.calls) + " calls of expression helpers replaced by their bodies); as written: " + o.By
				cleared = append(cleared, o.Rule+"|"+o.Instance)
			}
		}
		sort.Strings(cleared)
		note[label] = map[string]interface{}{"calls_expanded": e.calls, "rules_still_failing": ruleKeys(bad2), "obligations_discharged": cleared}
		still = next
	}
	try("all helpers", all)
	if len(still) > 0 {
		// the functions the remaining failures point at: by site (file:line) and by name at the head of the instance
		type span struct {
			file       string
			from, to   int
			name, recv string
		}
		blamed := map[*ast.FuncDecl]bool{}
		for _, pk := range p.All {
			for _, f := range pk.Syntax {
				for _, d := range f.Decls {
					fd, ok := d.(*ast.FuncDecl)
					if !ok {
						continue
					}
					from, to := p.Fset.Position(fd.Pos()), p.Fset.Position(fd.End())
					file := p.Pos(fd.Pos())
					if i := strings.LastIndex(file, ":"); i >= 0 {
						file = file[:i]
					}
					for _, o := range r.Obls {
						if (o.Verdict != "violation" && o.Verdict != "undecided") || !still[o.Rule] {
							continue
						}
						if i := strings.LastIndex(o.Site, ":"); i >= 0 && o.Site[:i] == file {
							line := 0
							fmt.Sscan(o.Site[i+1:], &line)
							if line >= from.Line && line <= to.Line {
								blamed[fd] = true
							}
						}
						head := o.Instance
						if i := strings.Index(head, "|"); i >= 0 {
							head = head[:i]
						}
						if head == fd.Name.Name || strings.HasSuffix(head, ")."+fd.Name.Name) || strings.HasSuffix(head, "."+fd.Name.Name) {
							blamed[fd] = true
						}
					}
				}
			}
		}
		if len(blamed) > 0 {
			try("helpers used only by the blamed functions", buildExpanded(opt, p, func(fd *ast.FuncDecl) bool { return blamed[fd] }))
		}
	}
	r.Note("helper_expansion", note)
}

func ruleKeys(m map[string]bool) []string {
	out := []string{}
	for k := range m {
		out = append(out, k)
	}
	sort.Strings(out)
	return out
}
