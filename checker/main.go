package main

import (
	"fmt"
	"os"
	"sort"
	"strings"
)

// A checker decides the structural clauses of one property.
type checker struct {
	title string
	run   func(p *Program, r *Report)
}

var checkers = map[string]checker{}

// needs: packages (import-path suffix) a property's rules are anchored in; a secondary build configuration that excludes one
// of them by build constraint (anko.go and ast/astutil are `!appengine`) has nothing of that property to check.
var needs = map[string][]string{
	"C17": {"ast/astutil:Walk"},
	"C18": {"@main"},
}

func register(id, title string, run func(p *Program, r *Report)) {
	checkers[id] = checker{title, run}
}

func usage() {
	fmt.Fprintln(os.Stderr, "usage: ankocheck <Cnn>... | all [--tier quick|thorough] [--root DIR]")
	fmt.Fprintln(os.Stderr, "       ankocheck explain <replay.json>")
	os.Exit(2)
}

func main() {
	args := os.Args[1:]
	if len(args) == 0 {
		usage()
	}
	if args[0] == "explain" {
		if len(args) < 2 {
			usage()
		}
		b, err := os.ReadFile(args[1])
		if err != nil {
			fmt.Fprintln(os.Stderr, err)
			os.Exit(2)
		}
		os.Stdout.Write(b)
		fmt.Println()
		return
	}
	tier := os.Getenv("VERIF_TIER")
	if tier == "" {
		tier = "quick"
	}
	root := os.Getenv("ANKO_ROOT")
	if root == "" {
		root = "/repo"
	}
	var props []string
	for i := 0; i < len(args); i++ {
		switch {
		case args[i] == "--tier" && i+1 < len(args):
			tier = args[i+1]
			i++
		case args[i] == "--root" && i+1 < len(args):
			root = args[i+1]
			i++
		case args[i] == "all":
			for id := range checkers {
				props = append(props, id)
			}
		case strings.HasPrefix(args[i], "C"):
			props = append(props, args[i])
		default:
			usage()
		}
	}
	sort.Strings(props)
	if tier != "quick" && tier != "thorough" {
		usage()
	}
	exit := 0
	configs := []LoadOptions{{Root: root}}
	if tier == "thorough" {
		configs = append(configs,
			LoadOptions{Root: root, Env: []string{"GOARCH=386"}},
			LoadOptions{Root: root, Tags: []string{"appengine"}},
		)
	}
	reports := map[string]*Report{}
	for _, id := range props {
		if _, ok := checkers[id]; !ok {
			fmt.Fprintf(os.Stderr, "no checker for %s\n", id)
			os.Exit(2)
		}
		reports[id] = NewReport(id, tier)
	}
	for ci, opt := range configs {
		p, err := Load(opt)
		for _, id := range props {
			r := reports[id]
			if err != nil {
				r.Undecided("load", "load", "-", fmt.Sprintf("%v (%v %v)", err, opt.Tags, opt.Env))
				continue
			}
			r.Configs = append(r.Configs, p.Config)
			if ci > 0 {
				// secondary configurations: run the same rules, tag the instances
				missing := ""
				for _, n := range needs[id] {
					if n == "@main" {
						if p.SSAPkg("") == nil || p.SSAPkg("").Func("main") == nil {
							missing = "package main"
						}
					} else if i := strings.Index(n, ":"); i >= 0 {
						if sp := p.SSAPkg(n[:i]); sp == nil || sp.Func(n[i+1:]) == nil {
							missing = n[:i] + "." + n[i+1:]
						}
					} else if p.SSAPkg(n) == nil {
						missing = n
					}
				}
				if missing != "" {
					r.Note(fmt.Sprintf("secondary_config_skipped [%s]", strings.TrimSpace(strings.Join(append(opt.Tags, opt.Env...), " "))), missing+" is excluded from this build configuration by a build constraint: nothing of this property to check there")
					continue
				}
				sub := NewReport(id, tier)
				sub.Secondary = true
				runChecker(id, p, sub)
				suffix := fmt.Sprintf(" [%s]", strings.TrimSpace(strings.Join(append(opt.Tags, opt.Env...), " ")))
				primary := map[string]bool{}
				for _, o := range r.Obls {
					primary[o.Rule+"|"+o.Instance+"|"+o.Site] = true
				}
				for _, o := range sub.Obls {
					if o.Verdict == "ok" {
						continue // keep evidence small: only deviations of secondary configs are listed
					}
					if primary[o.Rule+"|"+o.Instance+"|"+o.Site] {
						continue // the same finding at the same site was already reported for the primary configuration
					}
					o.By += suffix
					r.Obls = append(r.Obls, o)
				}
				r.Note("secondary_config_obligations"+suffix, len(sub.Obls))
				continue
			}
			runChecker(id, p, r)
		}
	}
	for _, id := range props {
		if c := reports[id].Finish(); c > exit {
			exit = c
		}
	}
	os.Exit(exit)
}

func runChecker(id string, p *Program, r *Report) {
	defer func() {
		if e := recover(); e != nil {
			r.Undecided("panic", "analyser", "-", fmt.Sprintf("analyser panic: %v", e))
			if os.Getenv("ANKOCHECK_DEBUG") != "" {
				panic(e)
			}
		}
	}()
	checkers[id].run(p, r)
}
