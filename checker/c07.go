package main

import (
	"fmt"
	"go/token"
	"sort"
	"strings"

	"golang.org/x/tools/go/ssa"
)

func init() {
	register("C07", "operands are evaluated exactly once, left to right; skipped operands never run", func(p *Program, r *Report) {
		checkC07(p, r)
		if m, err := buildVMModel(p); err == nil {
			c07NoSilentSkip(p, r, m, buildEvalAnalysis(m))
		}
	})
}

// node kinds whose fields are deliberately not evaluated in source order, with the reason (not listed by the property).
var c07OrderExempt = map[string]string{
	"ChanExpr":       "channel send evaluates the value before the channel (not among the forms the property lists)",
	"LetsStmt":       "assignment: right-hand sides are evaluated before the targets are assigned",
	"LetsExpr":       "assignment: right-hand sides are evaluated before the targets are assigned",
	"LetMapItemStmt": "assignment: right-hand side is evaluated before the targets are assigned",
	"ChanStmt":       "receive statement: the channel operand is evaluated before the targets are assigned",
}

// kindOfHandler maps a handler function to the node kind of its node parameter.
func (m *vmModel) nodeKindOfFunc(fn *ssa.Function) string {
	for _, p := range fn.Params {
		if k := m.nm.nodeKind(p.Type()); k != "" {
			return k
		}
	}
	// handlers that re-read the cell and assert its kind (callExpr, anonCallExpr, funcExpr)
	for role, hs := range m.handlers {
		_ = role
		for k, h := range hs {
			if h == fn {
				return k
			}
		}
	}
	return ""
}

func checkC07(p *Program, r *Report) {
	r.Explain("C07: path properties of the handlers, decided on evaluation events (calls of invokeExpr / invokeLetExpr / runSingleStmt / invokeOperator on the current record, each tagged with the operand path the expr/stmt cell holds, e.g. node.SubExprs[i]). " +
		"R1 at most once: no path evaluates the same operand twice (may-set dataflow; list elements are retired at the back edge of their index loop, whose index must advance by >= 1 per iteration; operands of script-level loops are retired per iteration). " +
		"R2 left to right: an operand fed by an earlier grammar symbol ($n from the producing production) is never evaluated after a later one; list elements are visited by an ascending induction variable. " +
		"R3 an error stops the operand list: at every evaluation event the err cell is provably nil (abstract error-cell analysis with callee summaries). " +
		"R4 skipped operands: ?: evaluates one branch; || and && return without the right operand on the toBool-true / toBool-false edge with true / false; ?? evaluates the right side only on error or nil. " +
		"R5 the direct-call fast path has evaluated nothing and left the error cell untouched when it reports 'not handled'. " +
		"R6 deferred and go calls evaluate callee and arguments at the statement: the functions that run later contain no evaluation event. " +
		"R7 no silent skip: outside ?:, &&, ||, ?? a handler that evaluates a scalar operand of its node does so on every path to a successful return (operands the grammar may leave out, tested against nil, excepted).")
	r.Explain("R2 also: list fields that one grammar action appends to pairwise (a map literal's keys and values) are evaluated pairwise: the value's list index is the very index of a key evaluation that dominates it.")
	r.Assume("x op= e / x++ evaluate the operands of x twice by construction of the parser (documented exception); order inside host Go functions is not decided")
	m, err := buildVMModel(p)
	if err != nil {
		r.Undecided("C07.R1", "model", "vm", err.Error())
		return
	}
	ea := buildErrAnalysis(m)
	va := buildEvalAnalysis(m)
	r.Explain("R8 in the binary operator handlers the first operand is taken out of its interface before the second operand is evaluated (an operand read from a list slot is that slot until Elem() copies it out: unwrapped later, a second operand that assigns to the slot changes the first after the fact).")
	leftValueFixedBeforeRight(p, r, m, va, "C07.R8")
	nEvents, nHandoffs := 0, 0
	var evList []string
	for _, fn := range m.funcsOnRecord() {
		fname := funcName(fn)
		kind := m.nodeKindOfFunc(fn)
		cnt := map[string]int{}
		storesCells := false
		base := m.baseOf(fn)
		for _, b := range fn.Blocks {
			for _, in := range b.Instrs {
				if st, ok := in.(*ssa.Store); ok {
					if c := m.cellAddr(st.Addr, base); c == "expr" || c == "stmt" || c == "operator" {
						storesCells = true
					}
				}
			}
		}
		hcnt := map[string]int{}
		for _, h := range va.handoffs[fn] {
			st := va.before[fn][h.call]
			if st == nil {
				continue
			}
			key := fmt.Sprintf("%s|hands its node to %s", fname, h.callee.Name())
			hcnt[key]++
			inst := key
			if hcnt[key] > 1 {
				inst = fmt.Sprintf("%s #%d", key, hcnt[key])
			}
			nHandoffs++
			dup := ""
			var ks []string
			for k := range va.evalSet[h.callee] {
				ks = append(ks, k)
			}
			sort.Strings(ks)
			for _, k := range ks {
				role, o := k[:strings.Index(k, ":")], k[strings.Index(k, ":")+1:]
				for _, r2 := range []string{"expr", "let", "stmt", "op"} {
					seen := st.done[r2+":"+o] || va.inherited[fn][r2+":"+o] != ""
					if !seen || va.must[h.callee][r2+":"+o] {
						continue // when every hand-off brings it, the evaluation inside the receiving function is reported
					}
					if r2 == role {
						dup = o
					} else if (role == "expr" || role == "let") && (r2 == "expr" || r2 == "let") && !strings.HasSuffix(o, ".(IdentExpr)") {
						dup = o + " (once as a value, once as an assignment target)"
					}
				}
			}
			r.Check(dup == "", "C07.R1", inst, p.Pos(h.call.Pos()), "the receiving function evaluates no operand that was evaluated before the hand-off",
				"operand "+dup+" was already evaluated when the node is handed to "+h.callee.Name()+", which evaluates it again")
		}
		for _, e := range va.events[fn] {
			nEvents++
			opnd := strings.Join(e.operands, "|")
			key := fmt.Sprintf("%s|%s %s", fname, e.role, normIdx(opnd))
			cnt[key]++
			inst := key
			if cnt[key] > 1 {
				inst = fmt.Sprintf("%s #%d", key, cnt[key])
			}
			site := p.Pos(e.call.Pos())
			if len(evList) < 200 {
				evList = append(evList, inst)
			}
			// operand must be identified (pure forwarders that never store the cell are exempt)
			unknown := false
			for _, o := range e.operands {
				if o == "?" || strings.Contains(o, "?") {
					unknown = true
				}
			}
			if unknown && storesCells {
				r.Undecided("C07.R1", inst, site, "cannot identify which operand is evaluated here")
				continue
			}
			// R1
			dup := ""
			for _, o := range e.operands {
				if e.done[e.role+":"+o] {
					dup = o
				}
				// assigning to an operand that was also evaluated (or the other way round) runs the operand's own operands twice,
				// unless it is a plain identifier, which has none
				if !strings.HasSuffix(o, ".(IdentExpr)") {
					for _, role := range []string{"expr", "let"} {
						if role != e.role && (e.role == "expr" || e.role == "let") && e.done[role+":"+o] {
							dup = o + " (once as a value, once as an assignment target)"
						}
					}
				}
			}
			// ... nor by the function that handed the node over
			for _, o := range e.operands {
				if !nodeOperand(o) {
					continue
				}
				for _, role := range []string{"expr", "let", "stmt", "op"} {
					w := va.inherited[fn][role+":"+o]
					if w == "" || !va.must[fn][role+":"+o] {
						continue // reported at the hand-off that brings it, when not every hand-off does
					}
					if role == e.role {
						dup = o + " (already evaluated by " + w + " before it handed the node over)"
					} else if (role == "expr" || role == "let") && (e.role == "expr" || e.role == "let") && !strings.HasSuffix(o, ".(IdentExpr)") {
						dup = o + " (once as a value in " + w + ", once as an assignment target here)"
					}
				}
			}
			r.Check(dup == "", "C07.R1", inst, site, "operand not evaluated before on any path to this event", "operand "+dup+" can be evaluated a second time on a path reaching this call")
			// R3
			st := ea.before[fn][e.call]
			if st != nil {
				okNil := st.cell&^eNil == 0
				if !okNil && strings.HasSuffix(opnd, ".(IdentExpr)") && e.role == "let" {
					r.OK("C07.R3", inst, site, "write-back to a plain identifier after a Go call: assignment to an identifier cannot fail and is not an operand evaluation")
				} else {
					r.Check(okNil, "C07.R3", inst, site, "err cell is nil here", "an evaluation can start while the run already failed with "+ea.bitName(st.cell&^eNil)+": operands after a failing one still run (and may overwrite the error)")
				}
			}
			// R2 order among operand fields of the same node
			if kind != "" && e.role != "let" {
				if _, ex := c07OrderExempt[kind]; !ex {
					for _, o := range e.operands {
						f, _, _ := fieldOfPath(o)
						if f == "" {
							continue
						}
						for d := range e.done {
							parts := strings.SplitN(d, ":", 2)
							if len(parts) != 2 || parts[0] == "let" {
								continue
							}
							g, _, _ := fieldOfPath(parts[1])
							if g == "" || g == f {
								continue
							}
							if !m.bothExprFields(kind, f, g) {
								continue
							}
							if before, ok := m.nm.Before(kind, f, g); ok && before {
								r.Fail("C07.R2", inst+"|after "+g, site, fmt.Sprintf("%s.%s is written before %s.%s in the source but can be evaluated after it", kind, f, kind, g))
							}
						}
					}
				}
			}
			// ascending index for list operands
			for _, o := range e.operands {
				if i := strings.Index(o, "["); i >= 0 {
					j := strings.Index(o[i:], "]")
					name := o[i+1 : i+j]
					if v, ok := va.idx(fn)[name]; ok {
						if _, isConst := v.(*ssa.Const); isConst {
							continue
						}
						asc, why := ascendingIndex(v)
						r.Check(asc, "C07.R2", inst+"|index", site, "list index is an induction variable that starts at the front and advances by one per evaluation", "list elements are not visited front to back one at a time: "+why)
					}
				}
			}
		}
		// entries written pairwise in the source (k1: v1, k2: v2) are evaluated pairwise: the value's list index is the very index
		// of a key evaluation that precedes it in the same iteration
		if kind != "" {
			idxOf := func(o string) (string, ssa.Value) {
				f, _, _ := fieldOfPath(o)
				if i := strings.Index(o, "["); i >= 0 && f != "" {
					if j := strings.Index(o[i:], "]"); j > 0 {
						return f, va.idx(fn)[o[i+1:i+j]]
					}
				}
				return "", nil
			}
			for _, eg := range va.events[fn] {
				if eg.role == "let" || len(eg.operands) != 1 {
					continue
				}
				g, gi := idxOf(eg.operands[0])
				if g == "" || gi == nil {
					continue
				}
				for _, cf := range m.nm.Children[kind] {
					if !m.nm.Paired(kind, cf.Name, g) {
						continue
					}
					okPair := false
					for _, ef := range va.events[fn] {
						if ef.role == "let" || len(ef.operands) != 1 {
							continue
						}
						if f, fi := idxOf(ef.operands[0]); f == cf.Name && fi == gi && instrDominates(ef.call, eg.call) {
							okPair = true
						}
					}
					inst := fmt.Sprintf("%s|%s %s pairwise with %s", fname, eg.role, normIdx(eg.operands[0]), cf.Name)
					cnt["pair:"+inst]++
					if cnt["pair:"+inst] > 1 {
						inst = fmt.Sprintf("%s #%d", inst, cnt["pair:"+inst])
					}
					r.Check(okPair, "C07.R2", inst, p.Pos(eg.call.Pos()), "evaluated right after the "+cf.Name+" element of the same entry (same index, same iteration)",
						fmt.Sprintf("the %s elements are not evaluated entry by entry with the %s elements they are written next to: all of one list runs before the other, so `k1: v1, k2: v2` evaluates k2 before v1", g, cf.Name))
				}
			}
		}
		if len(va.events[fn]) > 0 && kind != "" {
			if _, ex := c07OrderExempt[kind]; ex {
				r.OK("C07.R2", fname+"|order-exempt", p.Pos(fn.Pos()), "order of the two sides not constrained: "+c07OrderExempt[kind])
			} else {
				r.OK("C07.R2", fname+"|order", p.Pos(fn.Pos()), "no operand field evaluated after a field that follows it in the grammar")
			}
		}
	}
	r.Floor("C07.R1", nEvents, 95)
	r.Note("node_handoffs", nHandoffs)
	r.Note("evaluation_events", nEvents)
	r.Note("events", evList)

	c07ShortCircuit(p, r, m, va)
	wrapperKindsAgree(p, r, m, "C07.R4")
	c07FastPath(p, r, m, va, ea)
	c07Deferred(p, r, m, va)
}

func normIdx(s string) string {
	// SSA register names are not stable across edits: t17 -> i
	var b strings.Builder
	for i := 0; i < len(s); i++ {
		if s[i] == '[' {
			j := strings.IndexByte(s[i:], ']')
			if j > 0 {
				inner := s[i+1 : i+j]
				if len(inner) > 0 && inner[0] == 't' {
					b.WriteString("[i]")
				} else {
					b.WriteString("[" + inner + "]")
				}
				i += j
				continue
			}
		}
		b.WriteByte(s[i])
	}
	return b.String()
}

// ascendingIndex: v is a loop induction variable starting at 0 (or the lowered range form) and stepping by +1.
func ascendingIndex(v ssa.Value) (bool, string) {
	// lowered range: v = phi + 1 with phi = phi(-1, v)
	if bo, ok := v.(*ssa.BinOp); ok && bo.Op == token.ADD {
		if phi, ok := bo.X.(*ssa.Phi); ok {
			if c, ok := bo.Y.(*ssa.Const); ok && c.Int64() == 1 {
				init, step := false, false
				for _, e := range phi.Edges {
					if c, ok := e.(*ssa.Const); ok && c.Int64() == -1 {
						init = true
					}
					if e == ssa.Value(bo) {
						step = true
					}
				}
				if init && step {
					return true, ""
				}
			}
		}
	}
	if phi, ok := v.(*ssa.Phi); ok {
		init, step := false, true
		nStep := 0
		for _, e := range phi.Edges {
			if c, ok := e.(*ssa.Const); ok {
				if c.Int64() == 0 {
					init = true
				} else {
					return false, "index does not start at 0"
				}
				continue
			}
			if other, ok := e.(*ssa.Phi); ok && other != phi && !other.Block().Dominates(phi.Block()) == false && other.Block() != phi.Block() {
				// continues where an earlier ascending index stopped
				if asc, _ := ascendingIndex(other); asc {
					init = true
					continue
				}
			}
			if !stepsUp(e, phi, 0) {
				step = false
			} else {
				nStep++
			}
		}
		if init && step && nStep > 0 {
			return true, ""
		}
		return false, "index is not advanced by exactly one between evaluations"
	}
	return false, "index is not an induction variable"
}

// stepsUp: e is phi+1, or a phi/merge of such values, or (for loops with several exits) phi itself is not allowed.
func stepsUp(e ssa.Value, phi *ssa.Phi, depth int) bool {
	if depth > 4 {
		return false
	}
	switch x := e.(type) {
	case *ssa.BinOp:
		if x.Op == token.ADD && x.X == ssa.Value(phi) {
			if c, ok := x.Y.(*ssa.Const); ok && c.Int64() == 1 {
				return true
			}
		}
	case *ssa.Phi:
		for _, e2 := range x.Edges {
			if !stepsUp(e2, phi, depth+1) {
				return false
			}
		}
		return true
	}
	return false
}

// pathsFrom: can a Return be reached from block b without executing any of the avoid instructions?
func returnReachableAvoiding(start *ssa.BasicBlock, avoid map[ssa.Instruction]bool) bool {
	blocked := map[*ssa.BasicBlock]bool{}
	for in := range avoid {
		blocked[in.Block()] = true
	}
	reach := reachable(start, func(b *ssa.BasicBlock) bool { return blocked[b] })
	for b := range reach {
		if _, ok := b.Instrs[len(b.Instrs)-1].(*ssa.Return); ok {
			return true
		}
	}
	return false
}

// isCallTo reports whether v is a call of the package-vm function named by the predicate on its signature shape.
func vmCallee(v ssa.Value, m *vmModel) *ssa.Function {
	c, ok := v.(*ssa.Call)
	if !ok {
		return nil
	}
	callee := staticCallee(c)
	if callee == nil || callee.Pkg != m.sp {
		return nil
	}
	return callee
}

// toBoolFunc finds the truthiness function: func(reflect.Value) bool used as the condition of the if/loop handlers.
func (m *vmModel) toBoolFunc() *ssa.Function {
	votes := map[*ssa.Function]int{}
	for _, k := range []string{"IfStmt", "LoopStmt", "CForStmt", "TernaryOpExpr"} {
		var h *ssa.Function
		if x := m.handlers["stmt"][k]; x != nil {
			h = x
		} else if x := m.handlers["expr"][k]; x != nil {
			h = x
		}
		if h == nil {
			continue
		}
		for _, b := range h.Blocks {
			if iff, ok := b.Instrs[len(b.Instrs)-1].(*ssa.If); ok {
				if callee := vmCallee(iff.Cond, m); callee != nil && callee.Signature.Params().Len() == 1 && isNamed(callee.Signature.Params().At(0).Type(), "reflect", "Value") {
					votes[callee]++
				}
			}
		}
	}
	var best *ssa.Function
	for f, n := range votes {
		if best == nil || n > votes[best] {
			best = f
		}
	}
	return best
}

func c07ShortCircuit(p *Program, r *Report, m *vmModel, va *evalAnalysis) {
	c07ShortCircuitAs(p, r, m, va, "C07.R4", false)
}

func c07ShortCircuitAs(p *Program, r *Report, m *vmModel, va *evalAnalysis, rule string, ternaryOnly bool) {
	toBool := m.toBoolFunc()
	if toBool == nil {
		r.Undecided("C07.R4", "toBool", "vm", "truthiness function not found")
		return
	}
	eventsOf := func(fn *ssa.Function, field string) map[ssa.Instruction]bool {
		out := map[ssa.Instruction]bool{}
		for _, e := range va.events[fn] {
			for _, o := range e.operands {
				if o == "node."+field {
					out[e.call] = true
				}
			}
		}
		return out
	}
	// ternary
	if h := m.handlers["expr"]["TernaryOpExpr"]; h != nil {
		site := p.Pos(h.Pos())
		bad := ""
		for _, e := range va.events[h] {
			hasL, hasR := false, false
			for _, o := range e.operands {
				hasL = hasL || o == "node.LHS"
				hasR = hasR || o == "node.RHS"
			}
			if (hasL && e.done["expr:node.RHS"] && !hasR) || (hasR && e.done["expr:node.LHS"] && !hasL) {
				bad = "both branches can be evaluated on one path"
			}
		}
		// the choice of the branch operand is controlled by toBool of the condition
		controlled := false
		base := m.baseOf(h)
		for _, b := range h.Blocks {
			for _, in := range b.Instrs {
				st, ok := in.(*ssa.Store)
				if !ok || m.cellAddr(st.Addr, base) != "expr" {
					continue
				}
				pth := m.opPath(st.Val, 0)
				if pth != "node.LHS" && pth != "node.RHS" {
					continue
				}
				if len(b.Preds) == 1 {
					if iff, ok := b.Preds[0].Instrs[len(b.Preds[0].Instrs)-1].(*ssa.If); ok && vmCallee(iff.Cond, m) == toBool {
						// the branch written first in the source (smaller $n in the production) is the one taken when the condition is true
						thenField := "LHS"
						if before, ok := m.nm.Before("TernaryOpExpr", "RHS", "LHS"); ok && before {
							thenField = "RHS"
						}
						wantTrue := pth == "node."+thenField
						onTrue := b.Preds[0].Succs[0] == b
						if wantTrue == onTrue {
							controlled = true
						} else {
							bad = "branches are swapped: " + pth + " is selected on the wrong truth value"
						}
					}
				}
			}
		}
		if !controlled && bad == "" {
			bad = "the evaluated branch is not selected by the truth value of the condition"
		}
		r.Check(bad == "", rule, "TernaryOpExpr|one-branch", site, "exactly one of LHS/RHS is evaluated, selected by toBool(condition)", bad)
	} else {
		r.Undecided(rule, "TernaryOpExpr", "vm", "handler not found")
	}
	if ternaryOnly {
		return
	}
	// || and &&
	if h := m.handlers["op"]["BinaryOperator"]; h != nil {
		rhs := eventsOf(h, "RHS")
		for _, opname := range []string{"||", "&&"} {
			inst := "BinaryOperator|" + opname
			found := false
			okShape := false
			why := "no short-circuit exit found"
			for _, b := range h.Blocks {
				iff, ok := b.Instrs[len(b.Instrs)-1].(*ssa.If)
				if !ok || vmCallee(iff.Cond, m) != toBool {
					continue
				}
				if !underOperatorCase(b, opname) {
					continue
				}
				found = true
				// which edge leaves without evaluating RHS?
				tShort := returnReachableAvoiding(b.Succs[0], rhs) && !reachesAny(b.Succs[0], rhs)
				fShort := returnReachableAvoiding(b.Succs[1], rhs) && !reachesAny(b.Succs[1], rhs)
				wantTrueEdge := opname == "||"
				switch {
				case tShort && fShort:
					why = "the right operand is never evaluated"
				case !tShort && !fShort:
					why = "the right operand is evaluated whatever the left operand is"
				case tShort != wantTrueEdge:
					why = "short-circuits on the wrong truth value of the left operand"
				default:
					// value stored on the short edge
					short := b.Succs[0]
					if !wantTrueEdge {
						short = b.Succs[1]
					}
					wantGlobal := "trueValue"
					if opname == "&&" {
						wantGlobal = "falseValue"
					}
					if storesGlobalToRV(m, h, short, wantGlobal) {
						okShape = true
					} else {
						why = "the short-circuit exit does not yield " + wantGlobal
					}
				}
			}
			if !found {
				why = "no truth test of the left operand under case \"" + opname + "\""
			}
			r.Check(okShape, "C07.R4", inst, p.Pos(h.Pos()), "right operand skipped exactly when the left operand decides the result", why)
		}
	} else {
		r.Undecided("C07.R4", "BinaryOperator", "vm", "handler not found")
	}
	// ??
	if h := m.handlers["expr"]["NilCoalescingOpExpr"]; h != nil {
		rhs := eventsOf(h, "RHS")
		lhs := eventsOf(h, "LHS")
		okShape := false
		why := "no exit that skips the right operand"
		for l := range lhs {
			// after LHS: exists a return avoiding RHS, and it is taken only when err == nil and the value is not nil
			for _, b := range h.Blocks {
				ret, ok := b.Instrs[len(b.Instrs)-1].(*ssa.Return)
				if !ok || reachesAny(b, rhs) {
					continue
				}
				_ = ret
				if !l.Block().Dominates(b) {
					continue
				}
				// b must be dominated by the nil edge of an err test and the false edge of an isNil-style test
				errNil, notNil := false, false
				for d := b; d != nil && d != l.Block(); d = d.Idom() {
					id := d.Idom()
					if id == nil {
						break
					}
					iff, ok := id.Instrs[len(id.Instrs)-1].(*ssa.If)
					if !ok {
						continue
					}
					onTrue := edgeOnly(id, 0, d)
					onFalse := edgeOnly(id, 1, d)
					if bo, ok := iff.Cond.(*ssa.BinOp); ok && isErrorType(bo.X.Type()) && isNilConst(bo.Y) {
						if (bo.Op == token.EQL && onTrue) || (bo.Op == token.NEQ && onFalse) {
							errNil = true
						}
					}
					if callee := vmCallee(iff.Cond, m); callee != nil && callee.Signature.Results().Len() == 1 && onFalse {
						notNil = true
					}
				}
				if errNil && notNil {
					okShape = true
				} else {
					why = "the exit that skips the right operand is not guarded by both 'no error' and 'left value is not nil'"
				}
			}
		}
		r.Check(okShape, "C07.R4", "NilCoalescingOpExpr|skip", p.Pos(h.Pos()), "right operand evaluated only when the left one failed or is nil", why)
	} else {
		r.Undecided("C07.R4", "NilCoalescingOpExpr", "vm", "handler not found")
	}
}

func reachesAny(start *ssa.BasicBlock, ins map[ssa.Instruction]bool) bool {
	reach := reachable(start, nil)
	for in := range ins {
		if reach[in.Block()] {
			return true
		}
	}
	return false
}

// underOperatorCase: block b is dominated by the true edge of `node.Operator == "<op>"`.
func underOperatorCase(b *ssa.BasicBlock, op string) bool {
	for d := b; d != nil; d = d.Idom() {
		id := d.Idom()
		if id == nil {
			return false
		}
		iff, ok := id.Instrs[len(id.Instrs)-1].(*ssa.If)
		if !ok {
			continue
		}
		bo, ok := iff.Cond.(*ssa.BinOp)
		if !ok || bo.Op != token.EQL {
			continue
		}
		c, ok := bo.Y.(*ssa.Const)
		if !ok || c.Value == nil || c.Value.ExactString() != fmt.Sprintf("%q", op) {
			continue
		}
		if id.Succs[0] == d || id.Succs[0].Dominates(d) {
			return true
		}
	}
	return false
}

// storesGlobalToRV: on every path from start to a return the last store to rv is a load of the named package variable.
func storesGlobalToRV(m *vmModel, fn *ssa.Function, start *ssa.BasicBlock, global string) bool {
	base := m.baseOf(fn)
	reach := reachable(start, nil)
	found := false
	for b := range reach {
		for _, in := range b.Instrs {
			if st, ok := in.(*ssa.Store); ok && m.cellAddr(st.Addr, base) == "rv" {
				if u, ok := st.Val.(*ssa.UnOp); ok {
					if g, ok := u.X.(*ssa.Global); ok && g.Name() == global {
						found = true
						continue
					}
				}
				return false
			}
		}
	}
	return found
}

func c07FastPath(p *Program, r *Report, m *vmModel, va *evalAnalysis, ea *errAnalysis) {
	// functions on the record that return a boolean "handled" and contain events: when they report false nothing was evaluated
	n := 0
	for _, fn := range m.funcsOnRecord() {
		if len(va.events[fn]) == 0 || fn.Signature.Results().Len() != 1 {
			continue
		}
		if b, ok := fn.Signature.Results().At(0).Type().(interface{ Kind() int }); ok {
			_ = b
		}
		sm := ea.sum[fn]
		if !sm.hasBool {
			continue
		}
		n++
		fname := funcName(fn)
		bad := ""
		for _, b := range fn.Blocks {
			ret, ok := b.Instrs[len(b.Instrs)-1].(*ssa.Return)
			if !ok || b == fn.Recover || constBoolResult(ret) != 0 {
				continue
			}
			if st := va.before[fn][ret]; st != nil && len(st.done) > 0 {
				var ks []string
				for k := range st.done {
					ks = append(ks, k)
				}
				sort.Strings(ks)
				bad = "reports 'not handled' after having evaluated " + strings.Join(ks, ", ") + ": the fallback path evaluates them again"
			}
		}
		if bad == "" && (sm.fGen != 0) {
			bad = "can change the error cell before reporting 'not handled'"
		}
		r.Check(bad == "", "C07.R5", fname+"|not-handled", p.Pos(fn.Pos()), "a 'not handled' result is decided before any argument is evaluated", bad)
		// callers: the general path is entered only on the false edge
		for _, caller := range m.funcsOnRecord() {
			for _, b := range caller.Blocks {
				for _, in := range b.Instrs {
					c, ok := in.(*ssa.Call)
					if !ok || staticCallee(c) != fn {
						continue
					}
					iff, ok := b.Instrs[len(b.Instrs)-1].(*ssa.If)
					okUse := ok && iff.Cond == ssa.Value(c)
					if okUse {
						// true edge must return without further events
						t := b.Succs[0]
						for tb := range reachable(t, nil) {
							for _, e := range va.events[caller] {
								if e.call.Block() == tb && !b.Succs[1].Dominates(tb) {
									okUse = false
								}
							}
						}
					}
					r.Check(okUse, "C07.R5", funcName(caller)+"|uses "+fname, p.Pos(c.Pos()), "arguments are evaluated by the general path only when the fast path reported 'not handled'", "the result of the fast path does not gate the general argument evaluation: arguments can be evaluated twice")
				}
			}
		}
	}
	r.Floor("C07.R5", n, 1)
}

func c07Deferred(p *Program, r *Report, m *vmModel, va *evalAnalysis) {
	// functions that run later (deferred runner, goroutine bodies) contain no evaluation event
	n := 0
	for _, fn := range m.fns {
		later := false
		what := ""
		// closures started by go, and functions taking a capturedFunc-like argument (struct with fn reflect.Value + args)
		if fn.Parent() != nil {
			for _, ref := range *referrersOfFunc(fn) {
				if _, ok := ref.(*ssa.Go); ok {
					later, what = true, "goroutine body"
				}
				if c, ok := ref.(*ssa.Call); ok {
					if callee := staticCallee(c); callee != nil && startsGoroutineWith(callee) {
						later, what = true, "function handed to the goroutine starter"
					}
				}
			}
		}
		for _, prm := range fn.Params {
			if st, ok := prm.Type().Underlying().(interface{ NumFields() int }); ok && st.NumFields() == 3 && strings.Contains(prm.Type().String(), "capturedFunc") {
				later, what = true, "runs a deferred call"
			}
		}
		if !later {
			continue
		}
		n++
		has := len(va.events[fn]) > 0
		for _, a := range fn.AnonFuncs {
			if len(va.events[a]) > 0 {
				has = true
			}
		}
		r.Check(!has, "C07.R6", funcName(fn)+"|no-evaluation", p.Pos(fn.Pos()), what+": contains no evaluation event (arguments were evaluated at the statement)", what+" evaluates script expressions when it runs, not at the go/defer statement")
	}
	r.Floor("C07.R6", n, 7)
	// the defer handler evaluates everything before it registers the call
	if h := m.handlers["stmt"]["DeferStmt"]; h != nil {
		base := m.baseOf(h)
		okOrder := true
		for _, b := range h.Blocks {
			for _, in := range b.Instrs {
				st, ok := in.(*ssa.Store)
				if !ok || m.cellAddr(st.Addr, base) != "defers" {
					continue
				}
				reach := reachable(b, nil)
				for _, e := range va.events[h] {
					if reach[e.call.Block()] && (e.call.Block() != b || instrIndex(e.call) > instrIndex(st)) {
						okOrder = false
					}
				}
				for tb := range reach {
					for _, in2 := range tb.Instrs {
						if c, ok := in2.(*ssa.Call); ok && (tb != b || instrIndex(c) > instrIndex(st)) {
							if callee := m.calleeOnBase(c, base); callee != nil && va.mayWrite[callee] {
								okOrder = false
							}
						}
					}
				}
			}
		}
		r.Check(okOrder, "C07.R6", "DeferStmt|evaluate-then-register", p.Pos(h.Pos()), "callee and arguments are evaluated before the call is registered", "the deferred call is registered before its callee/arguments are evaluated")
	}
}

func referrersOfFunc(fn *ssa.Function) *[]ssa.Instruction {
	var out []ssa.Instruction
	if fn.Parent() == nil {
		return &out
	}
	for _, b := range fn.Parent().Blocks {
		for _, in := range b.Instrs {
			if mc, ok := in.(*ssa.MakeClosure); ok && mc.Fn == ssa.Value(fn) {
				for _, r := range *mc.Referrers() {
					out = append(out, r)
				}
			}
			if c, ok := in.(ssa.CallInstruction); ok {
				for _, a := range c.Common().Args {
					if a == ssa.Value(fn) {
						out = append(out, in)
					}
				}
				if c.Common().Value == ssa.Value(fn) {
					out = append(out, in)
				}
			}
		}
	}
	return &out
}

// startsGoroutineWith: callee starts a goroutine that calls its func parameter.
func startsGoroutineWith(fn *ssa.Function) bool {
	var fparam *ssa.Parameter
	for _, p := range fn.Params {
		if _, ok := p.Type().Underlying().(interface{ Variadic() bool }); ok {
			fparam = p
		}
	}
	if fparam == nil {
		return false
	}
	for _, b := range fn.Blocks {
		for _, in := range b.Instrs {
			g, ok := in.(*ssa.Go)
			if !ok {
				continue
			}
			if mc, ok := g.Call.Value.(*ssa.MakeClosure); ok {
				for _, bnd := range mc.Bindings {
					if bnd == ssa.Value(fparam) {
						return true
					}
					if al, ok := bnd.(*ssa.Alloc); ok {
						for _, ref := range *al.Referrers() {
							if st, ok := ref.(*ssa.Store); ok && st.Val == ssa.Value(fparam) {
								return true
							}
						}
					}
				}
			}
			if g.Call.Value == ssa.Value(fparam) {
				return true
			}
		}
	}
	return false
}

// bothExprFields: f and g are both expression-valued child fields of kind (operand lists, not statement bodies).
func (m *vmModel) bothExprFields(kind, f, g string) bool {
	n := 0
	for _, cf := range m.nm.Children[kind] {
		if (cf.Name == f || cf.Name == g) && cf.Cat == "Expr" {
			n++
		}
	}
	return n == 2
}

// c07NoSilentSkip (R7): outside the short-circuit constructs, a handler that evaluates a scalar operand of its node evaluates
// it on every path to a successful return (optional operands, tested against nil, excepted).
func c07NoSilentSkip(p *Program, r *Report, m *vmModel, va *evalAnalysis) {
	exempt := map[string]bool{"TernaryOpExpr": true, "NilCoalescingOpExpr": true, "BinaryOperator": true}
	n := 0
	for _, role := range []string{"expr", "op", "let"} {
		var kinds []string
		for k := range m.handlers[role] {
			kinds = append(kinds, k)
		}
		sort.Strings(kinds)
		for _, kind := range kinds {
			h := m.handlers[role][kind]
			if exempt[kind] || h == nil || len(h.Blocks) == 0 {
				continue
			}
			tt := newTypeTerms(m, h, nil)
			// scalar operands evaluated by this handler
			evalBlocks := map[string]map[*ssa.BasicBlock]bool{}
			for _, e := range va.events[h] {
				if e.role != "expr" && e.role != "op" {
					continue
				}
				for _, o := range e.operands {
					f, indexed, direct := fieldOfPath(o)
					if f == "" || indexed || !direct {
						continue
					}
					if evalBlocks[f] == nil {
						evalBlocks[f] = map[*ssa.BasicBlock]bool{}
					}
					evalBlocks[f][e.call.Block()] = true
				}
			}
			var fields []string
			for f := range evalBlocks {
				fields = append(fields, f)
			}
			sort.Strings(fields)
			for _, f := range fields {
				if c07Optional(h, f) {
					continue
				}
				n++
				stop := func(b *ssa.BasicBlock) bool { return evalBlocks[f][b] || c10ErrorBlock(m, tt, b) }
				esc := ""
				if !stop(h.Blocks[0]) {
					for b := range reachable(h.Blocks[0], stop) {
						if stop(b) || b == h.Recover {
							continue
						}
						if ret, ok := b.Instrs[len(b.Instrs)-1].(*ssa.Return); ok {
							esc = p.Pos(instrPos(ret))
						}
					}
				}
				r.Check(esc == "", "C07.R7", fmt.Sprintf("%s|operand %s is evaluated on every successful path", h.Name(), f), p.Pos(h.Pos()), "no successful return before its evaluation",
					"the handler can return successfully (at "+esc+") without having evaluated operand "+f+": its side effects and errors are silently skipped although the construct does not short-circuit")
			}
		}
	}
	r.Floor("C07.R7", n, 20)
}

// c07Optional: the handler tests node.<f> against nil (an operand the grammar may leave out).
func c07Optional(h *ssa.Function, f string) bool {
	for _, b := range h.Blocks {
		for _, in := range b.Instrs {
			bo, ok := in.(*ssa.BinOp)
			if !ok || (bo.Op != token.EQL && bo.Op != token.NEQ) || !isNilConst(bo.Y) {
				continue
			}
			if u, ok := bo.X.(*ssa.UnOp); ok {
				if fa, ok := u.X.(*ssa.FieldAddr); ok && fieldOfAddr(fa).Name() == f {
					return true
				}
			}
		}
	}
	return false
}
