package main

import (
	"fmt"
	"go/ast"
	"go/constant"
	"go/token"
	"go/types"
	"sort"
	"strings"
)

// ChildField is a field of an ast node that holds child nodes.
type ChildField struct {
	Name  string
	Index int
	Cat   string // Stmt | Expr | Operator
	Slice bool
}

// NodeModel is E0: the node kinds of package ast and where the parser can put them.
type NodeModel struct {
	AstPkg    *types.Package
	Nodes     map[string]*types.Named
	NodeNames []string
	Iface     map[string]*types.Named // Stmt, Expr, Operator
	Children  map[string][]ChildField
	// kinds producible by the parser, computed by a flow analysis over parser.go
	Loc      map[string]map[string]bool // abstract location -> node kinds ("union:F", "field:T.f", "cat:Stmt", "root")
	Literals map[string][]token.Pos     // node kind -> positions of &ast.T{} literals in package parser
	// Ranks[kind][field] = the $n positions (right-hand-side index) that feed the field, one per producing literal
	Ranks map[string]map[string][]int
	// Producers lists every node literal in a grammar action with the rule it belongs to
	Producers []Producer
	// Appends lists the one-element appends x.F = append(x.F, $n) to list fields of nodes in grammar actions
	Appends []FieldAppend
}

// FieldAppend is one `x.F = append(x.F, $n)` in the action of a grammar rule.
type FieldAppend struct {
	Rule        int
	Kind, Field string
	N           int
}

// Producer is one &ast.T{...} literal inside the action of a grammar rule.
type Producer struct {
	Kind   string
	Rule   int
	Fields map[string]int // field -> $n feeding it (0 when not fed by a right-hand-side symbol)
	Pos    token.Pos
	Parent string // kind of the enclosing node literal, "" at top level
	PField string // field of the enclosing literal that holds this one
	// OneElem[field]: the field is given as a one-element list literal ([]T{$n}): the production contributes exactly one element
	OneElem map[string]bool
	// True[field]: the field is given as the constant true
	True map[string]bool
}

func (m *NodeModel) catOf(t types.Type) (cat string, slice bool) {
	if s, ok := t.Underlying().(*types.Slice); ok {
		if _, isNamed := t.(*types.Named); !isNamed {
			c, _ := m.catOf(s.Elem())
			return c, c != ""
		}
	}
	n, ok := t.(*types.Named)
	if !ok {
		return "", false
	}
	for c, it := range m.Iface {
		if n.Obj() == it.Obj() {
			return c, false
		}
	}
	return "", false
}

// nodeKind returns T when t is *ast.T for a node type T.
func (m *NodeModel) nodeKind(t types.Type) string {
	p, ok := t.(*types.Pointer)
	if !ok {
		return ""
	}
	n, ok := p.Elem().(*types.Named)
	if !ok || n.Obj().Pkg() != m.AstPkg {
		return ""
	}
	if _, ok := m.Nodes[n.Obj().Name()]; ok {
		return n.Obj().Name()
	}
	return ""
}

func embedsPosImpl(t types.Type, astPkg *types.Package, depth int) bool {
	st, ok := t.Underlying().(*types.Struct)
	if !ok || depth > 4 {
		return false
	}
	for i := 0; i < st.NumFields(); i++ {
		f := st.Field(i)
		if !f.Embedded() {
			continue
		}
		if n, ok := f.Type().(*types.Named); ok && n.Obj().Pkg() == astPkg {
			if n.Obj().Name() == "PosImpl" || embedsPosImpl(n, astPkg, depth+1) {
				return true
			}
		}
	}
	return false
}

// BuildNodeModel constructs E0 from the ast and parser packages.
func BuildNodeModel(p *Program, g *LALR) (*NodeModel, error) {
	apk := p.Pkg("ast")
	ppk := p.Pkg("parser")
	if apk == nil || ppk == nil {
		return nil, fmt.Errorf("packages ast/parser not loaded")
	}
	m := &NodeModel{AstPkg: apk.Types, Nodes: map[string]*types.Named{}, Iface: map[string]*types.Named{},
		Children: map[string][]ChildField{}, Loc: map[string]map[string]bool{}, Literals: map[string][]token.Pos{}}
	scope := apk.Types.Scope()
	for _, c := range []string{"Stmt", "Expr", "Operator"} {
		o, ok := scope.Lookup(c).(*types.TypeName)
		if !ok {
			return nil, fmt.Errorf("ast.%s not found", c)
		}
		n, ok := o.Type().(*types.Named)
		if !ok || !types.IsInterface(n) {
			return nil, fmt.Errorf("ast.%s is not a named interface", c)
		}
		m.Iface[c] = n
	}
	helper := map[string]bool{"PosImpl": true, "StmtImpl": true, "ExprImpl": true, "OperatorImpl": true, "Token": true}
	for _, name := range scope.Names() {
		tn, ok := scope.Lookup(name).(*types.TypeName)
		if !ok || helper[name] {
			continue
		}
		n, ok := tn.Type().(*types.Named)
		if !ok {
			continue
		}
		st, ok := n.Underlying().(*types.Struct)
		if !ok || !embedsPosImpl(n, apk.Types, 0) {
			continue
		}
		m.Nodes[name] = n
		m.NodeNames = append(m.NodeNames, name)
		for i := 0; i < st.NumFields(); i++ {
			f := st.Field(i)
			if f.Embedded() {
				continue
			}
			if c, sl := m.catOf(f.Type()); c != "" {
				m.Children[name] = append(m.Children[name], ChildField{Name: f.Name(), Index: i, Cat: c, Slice: sl})
			}
		}
	}
	sort.Strings(m.NodeNames)
	if len(m.NodeNames) < 20 {
		return nil, fmt.Errorf("only %d node types found in package ast", len(m.NodeNames))
	}
	m.flow(p, g)
	m.computeRanks()
	return m, nil
}

func (m *NodeModel) addLoc(loc, kind string) bool {
	s := m.Loc[loc]
	if s == nil {
		s = map[string]bool{}
		m.Loc[loc] = s
	}
	if s[kind] {
		return false
	}
	s[kind] = true
	return true
}

func (m *NodeModel) Kinds(loc string) []string {
	var out []string
	for k := range m.Loc[loc] {
		out = append(out, k)
	}
	sort.Strings(out)
	return out
}

// flow runs the producer analysis over all files of package parser.
func (m *NodeModel) flow(p *Program, g *LALR) {
	ppk := p.Pkg("parser")
	info := ppk.TypesInfo
	isUnion := func(t types.Type) bool {
		n := namedOf(t)
		return n != nil && n.Obj().Pkg() == ppk.Types && n.Obj().Name() == "yySymType"
	}
	curRule := 0
	// location of an addressable expression, "" if not tracked
	var locOf func(e ast.Expr) string
	locOf = func(e ast.Expr) string {
		switch e := e.(type) {
		case *ast.ParenExpr:
			return locOf(e.X)
		case *ast.Ident:
			if o := info.ObjectOf(e); o != nil {
				if v, ok := o.(*types.Var); ok && !v.IsField() {
					return fmt.Sprintf("var:%s@%d", v.Name(), v.Pos())
				}
			}
		case *ast.SelectorExpr:
			xt := info.TypeOf(e.X)
			if xt == nil {
				return ""
			}
			if isUnion(xt) {
				// yyVAL.F / yyDollar[k].F inside the action of rule curRule: keyed by grammar symbol
				if curRule > 0 {
					if id, ok := e.X.(*ast.Ident); ok && id.Name == "yyVAL" {
						return fmt.Sprintf("nt:%d.%s", g.R1[curRule], e.Sel.Name)
					}
					if ix, ok := e.X.(*ast.IndexExpr); ok {
						if id, ok := ix.X.(*ast.Ident); ok && id.Name == "yyDollar" {
							if tv := info.Types[ix.Index]; tv.Value != nil {
								if k, ok := constant.Int64Val(tv.Value); ok && k >= 1 && int(k) <= len(g.RHS[curRule]) {
									sym := g.RHS[curRule][k-1]
									if sym < 0 {
										return fmt.Sprintf("nt:%d.%s", -sym, e.Sel.Name)
									}
									return "" // token value
								}
							}
						}
					}
				}
				return "union:" + e.Sel.Name
			}
			if k := m.nodeKind(xt); k != "" {
				return "field:" + k + "." + e.Sel.Name
			}
			if n := namedOf(xt); n != nil && n.Obj().Pkg() == ppk.Types {
				return "field:" + n.Obj().Name() + "." + e.Sel.Name
			}
		case *ast.IndexExpr:
			return locOf(e.X) // slices conflate their elements
		}
		return ""
	}
	var kindsOf func(e ast.Expr) map[string]bool
	kindsOf = func(e ast.Expr) map[string]bool {
		out := map[string]bool{}
		if e == nil {
			return out
		}
		if t := info.TypeOf(e); t != nil {
			if k := m.nodeKind(t); k != "" {
				out[k] = true
				return out
			}
		}
		switch e := e.(type) {
		case *ast.ParenExpr:
			return kindsOf(e.X)
		case *ast.TypeAssertExpr:
			return kindsOf(e.X)
		case *ast.CompositeLit:
			for _, el := range e.Elts {
				if kv, ok := el.(*ast.KeyValueExpr); ok {
					el = kv.Value
				}
				for k := range kindsOf(el) {
					out[k] = true
				}
			}
		case *ast.CallExpr:
			if id, ok := e.Fun.(*ast.Ident); ok && id.Name == "append" {
				for _, a := range e.Args {
					for k := range kindsOf(a) {
						out[k] = true
					}
				}
			}
		case *ast.SliceExpr:
			return kindsOf(e.X)
		default:
			if l := locOf(e); l != "" {
				for k := range m.Loc[l] {
					out[k] = true
				}
			}
		}
		return out
	}
	changed := true
	assign := func(lhsLoc string, lhsType types.Type, rhs ast.Expr) {
		ks := kindsOf(rhs)
		if lhsLoc != "" {
			for k := range ks {
				if m.addLoc(lhsLoc, k) {
					changed = true
				}
			}
		}
		if lhsType != nil {
			if c, _ := m.catOf(lhsType); c != "" {
				for k := range ks {
					if m.addLoc("cat:"+c, k) {
						changed = true
					}
				}
			}
		}
	}
	for iter := 0; changed && iter < 50; iter++ {
		changed = false
		visit := func(root ast.Node) {
			ast.Inspect(root, func(n ast.Node) bool {
				if n == ast.Node(g.Switch) && curRule == 0 {
					return false // clauses are visited per rule below
				}
				switch n := n.(type) {
				case *ast.AssignStmt:
					if len(n.Lhs) == len(n.Rhs) {
						for i := range n.Lhs {
							assign(locOf(n.Lhs[i]), info.TypeOf(n.Lhs[i]), n.Rhs[i])
						}
					}
					if iter == 0 && curRule > 0 && len(n.Lhs) == 1 && len(n.Rhs) == 1 {
						if sel, ok := n.Lhs[0].(*ast.SelectorExpr); ok {
							if call, ok := n.Rhs[0].(*ast.CallExpr); ok && len(call.Args) == 2 && !call.Ellipsis.IsValid() {
								if id, ok := call.Fun.(*ast.Ident); ok && id.Name == "append" {
									if k := m.nodeKind(info.TypeOf(sel.X)); k != "" {
										if d := firstDollar(info, call.Args[1]); d > 0 {
											m.Appends = append(m.Appends, FieldAppend{curRule, k, sel.Sel.Name, d})
										}
									}
								}
							}
						}
					}
				case *ast.ValueSpec:
					for i, name := range n.Names {
						if i < len(n.Values) {
							assign(locOf(name), info.TypeOf(name), n.Values[i])
						}
					}
				case *ast.CompositeLit:
					t := info.TypeOf(n)
					if t == nil {
						return true
					}
					if nn, ok := t.(*types.Named); ok && nn.Obj().Pkg() == m.AstPkg {
						if _, isNode := m.Nodes[nn.Obj().Name()]; isNode {
							if iter == 0 {
								m.Literals[nn.Obj().Name()] = append(m.Literals[nn.Obj().Name()], n.Pos())
								if curRule > 0 {
									pr := Producer{Kind: nn.Obj().Name(), Rule: curRule, Fields: map[string]int{}, Pos: n.Pos(), OneElem: map[string]bool{}, True: map[string]bool{}}
									for _, el := range n.Elts {
										if kv, ok := el.(*ast.KeyValueExpr); ok {
											if key, ok := kv.Key.(*ast.Ident); ok {
												pr.Fields[key.Name] = firstDollar(info, kv.Value)
												if id, ok := kv.Value.(*ast.Ident); ok && id.Name == "true" {
													pr.True[key.Name] = true
												}
												if cl, ok := kv.Value.(*ast.CompositeLit); ok && len(cl.Elts) == 1 {
													if _, isSlice := info.TypeOf(cl).Underlying().(*types.Slice); isSlice {
														pr.OneElem[key.Name] = true
													}
												}
											}
										}
									}
									m.Producers = append(m.Producers, pr)
								}
							}
							st := nn.Underlying().(*types.Struct)
							for _, el := range n.Elts {
								kv, ok := el.(*ast.KeyValueExpr)
								if !ok {
									continue
								}
								key, ok := kv.Key.(*ast.Ident)
								if !ok {
									continue
								}
								for i := 0; i < st.NumFields(); i++ {
									if st.Field(i).Name() == key.Name {
										assign("field:"+nn.Obj().Name()+"."+key.Name, st.Field(i).Type(), kv.Value)
									}
								}
							}
						}
					} else if sl, ok := t.Underlying().(*types.Slice); ok {
						// []ast.Expr{...}: record category flow of the elements
						for _, el := range n.Elts {
							assign("", sl.Elem(), el)
						}
					}
				case *ast.CallExpr:
					if id, ok := n.Fun.(*ast.Ident); ok && id.Name == "append" && len(n.Args) > 0 {
						if t := info.TypeOf(n.Args[0]); t != nil {
							if sl, ok := t.Underlying().(*types.Slice); ok {
								for _, a := range n.Args[1:] {
									assign("", sl.Elem(), a)
								}
							}
						}
					}
				}
				return true
			})
		}
		curRule = 0
		for _, f := range ppk.Syntax {
			visit(f)
		}
		var rules []int
		for r := range g.Clauses {
			rules = append(rules, r)
		}
		sort.Ints(rules)
		for _, r := range rules {
			if r <= 0 || r >= len(g.R1) {
				continue
			}
			curRule = r
			for _, st := range g.Clauses[r].Body {
				visit(st)
			}
		}
		curRule = 0
		// default action yyVAL = $1: every field of the first right-hand symbol flows to the left-hand symbol
		for r := 1; r < len(g.R1); r++ {
			rhs := g.RHS[r]
			if len(rhs) == 0 || rhs[0] >= 0 {
				continue
			}
			prefix := fmt.Sprintf("nt:%d.", -rhs[0])
			for loc, ks := range m.Loc {
				if strings.HasPrefix(loc, prefix) {
					dst := fmt.Sprintf("nt:%d.%s", g.R1[r], strings.TrimPrefix(loc, prefix))
					if !m.assignsField(g, r, strings.TrimPrefix(loc, prefix)) {
						for k := range ks {
							if m.addLoc(dst, k) {
								changed = true
							}
						}
					}
				}
			}
		}
	}
	// root: what Parse returns (Lexer.stmt)
	for k := range m.Loc["field:Lexer.stmt"] {
		m.addLoc("root", k)
	}
}

func (m *NodeModel) describe() map[string]interface{} {
	out := map[string]interface{}{}
	var locs []string
	for l := range m.Loc {
		if strings.HasPrefix(l, "var:") {
			continue
		}
		locs = append(locs, l)
	}
	sort.Strings(locs)
	for _, l := range locs {
		out[l] = m.Kinds(l)
	}
	return out
}

// assignsField reports whether the action of rule r unconditionally assigns yyVAL.<field> as a top-level statement.
func (m *NodeModel) assignsField(g *LALR, r int, field string) bool {
	cc := g.Clauses[r]
	if cc == nil {
		return false
	}
	var top []ast.Stmt
	for _, st := range cc.Body {
		if b, ok := st.(*ast.BlockStmt); ok {
			top = append(top, b.List...)
		} else {
			top = append(top, st)
		}
	}
	for _, st := range top {
		if as, ok := st.(*ast.AssignStmt); ok {
			for _, l := range as.Lhs {
				if se, ok := l.(*ast.SelectorExpr); ok && se.Sel.Name == field {
					if id, ok := se.X.(*ast.Ident); ok && id.Name == "yyVAL" {
						return true
					}
				}
			}
		}
	}
	return false
}

// firstDollar returns the smallest n such that yyDollar[n] occurs in e (0 if none).
func firstDollar(info *types.Info, e ast.Expr) int {
	best := 0
	ast.Inspect(e, func(n ast.Node) bool {
		if _, isLit := n.(*ast.CompositeLit); isLit {
			if t := info.TypeOf(n.(ast.Expr)); t != nil {
				if nn, ok := t.(*types.Named); ok && nn.Obj().Pkg() != nil && nn.Obj().Pkg().Name() == "ast" {
					return false // nested node literal: its operands belong to the nested node
				}
			}
		}
		ix, ok := n.(*ast.IndexExpr)
		if !ok {
			return true
		}
		id, ok := ix.X.(*ast.Ident)
		if !ok || id.Name != "yyDollar" {
			return true
		}
		if tv := info.Types[ix.Index]; tv.Value != nil {
			if k, ok := constant.Int64Val(tv.Value); ok && (best == 0 || int(k) < best) {
				best = int(k)
			}
		}
		return true
	})
	return best
}

// computeRanks fills Ranks from Producers and later field assignments (x.F = $n / append(x.F, $n)) in the actions.
func (m *NodeModel) computeRanks() {
	m.Ranks = map[string]map[string][]int{}
	for _, pr := range m.Producers {
		for f, n := range pr.Fields {
			if n == 0 {
				continue
			}
			if m.Ranks[pr.Kind] == nil {
				m.Ranks[pr.Kind] = map[string][]int{}
			}
			m.Ranks[pr.Kind][f] = append(m.Ranks[pr.Kind][f], n)
		}
	}
}

// Before reports whether field f is fed by an earlier right-hand-side symbol than field g in every production building kind
// where both are set (ok=false when they never occur together or the productions disagree).
func (m *NodeModel) Before(kind, f, g string) (before bool, ok bool) {
	seen := false
	res := true
	for _, pr := range m.Producers {
		if pr.Kind != kind {
			continue
		}
		nf, nf2 := pr.Fields[f], pr.Fields[g]
		if nf == 0 || nf2 == 0 {
			continue
		}
		b := nf < nf2
		if !seen {
			seen, res = true, b
		} else if b != res {
			return false, false
		}
	}
	return res, seen
}

// Paired reports whether list fields f and g of kind grow in lock step: one grammar action appends one element to each of them,
// f's element written before g's (a map literal's `key: value` entries). Element i of g then stands between elements i and
// i+1 of f in the source.
func (m *NodeModel) Paired(kind, f, g string) bool {
	for _, a := range m.Appends {
		for _, b := range m.Appends {
			if a.Rule == b.Rule && a.Kind == kind && b.Kind == kind && a.Field == f && b.Field == g && a.N < b.N {
				return true
			}
		}
	}
	return false
}
