package main

import (
	"fmt"
	"go/token"
	"go/types"
	"sort"
	"strings"

	"golang.org/x/tools/go/ssa"
)

// The "wrapped world" simulation behind C20 (and the unwrap part of C10):
// a reflect.Value that travelled through an interface{} slot has Kind Interface and is non-nil ("wrapped").
// Every source of operand values is assumed wrapped (wYes); tests on a wrapped value are folded
// (Kind()==K is false for K != Interface, IsNil() is false), infeasible edges are pruned, and the analysis reports
//   - a kind-sensitive reflect operation applied to a still-wrapped value,
//   - a still-wrapped value handed to a helper parameter that was found to discriminate,
//   - an outcome (return, store to the result/error cell) reached after a test was decided by the wrapper
//     while the value was never unwrapped (the wrapped operand took the "not that kind" branch).
// Unwrapping (Elem on a wrapped value) forgives earlier tests on it: that is the repository's idiom in all its spellings.

type wrapState uint8

const (
	wNo  wrapState = iota // not wrapped in this world
	wYes                  // wrapped
	wMay                  // unknown (joins)
)

func joinW(a, b wrapState) wrapState {
	if a == b {
		return a
	}
	return wMay
}

type kindFinding struct {
	in   ssa.Instruction
	what string
	val  ssa.Value
}

type kindState struct {
	rv      wrapState
	vals    map[ssa.Value]wrapState
	decided map[ssa.Value]string // wrapped value -> the test that was decided by its wrapper
}

type kindAnalysis struct {
	retW   map[*ssa.Function]map[[2]int]wrapState // (parameter assumed wrapped, result) -> wrap state of that result
	ifaceT map[*ssa.Global]bool
	fieldW map[string]wrapState // "Struct.field" -> wrap state of what is stored there (vm-local structs)
	m      *vmModel
	discr  map[*ssa.Function]map[int]string // helper -> parameter index -> why it discriminates
	finds  map[*ssa.Function][]kindFinding  // findings inside functions working on a record (operands = rv)
}

type kindFlow struct {
	reporting bool                        // findings are recorded only in the pass over the fixpoint states
	feas      map[[2]*ssa.BasicBlock]bool // CFG edges found feasible in the wrapped world
	a         *kindAnalysis
	fn        *ssa.Function
	base      ssa.Value
	wrapP     int // index of the parameter assumed wrapped (-1: none, operands come from the rv cell)
	finds     map[string]kindFinding
	pdiscr    string // why the wrapped parameter is discriminated (helper mode)
}

func isReflectValue(t types.Type) bool {
	_, isPtr := t.(*types.Pointer)
	return !isPtr && isNamed(t, "reflect", "Value")
}

func (f *kindFlow) Entry() *kindState {
	return &kindState{rv: wYes, vals: map[ssa.Value]wrapState{}, decided: map[ssa.Value]string{}}
}
func (f *kindFlow) Copy(s *kindState) *kindState {
	o := &kindState{rv: s.rv, vals: make(map[ssa.Value]wrapState, len(s.vals)), decided: make(map[ssa.Value]string, len(s.decided))}
	for k, v := range s.vals {
		o.vals[k] = v
	}
	for k, v := range s.decided {
		o.decided[k] = v
	}
	return o
}
func (f *kindFlow) Join(x, y *kindState) (*kindState, bool) {
	changed := false
	if j := joinW(x.rv, y.rv); j != x.rv {
		x.rv = j
		changed = true
	}
	for k, v := range y.vals {
		old, ok := x.vals[k]
		if !ok {
			x.vals[k] = v
			changed = true
		} else if j := joinW(old, v); j != old {
			x.vals[k] = j
			changed = true
		}
	}
	for k, v := range y.decided {
		if _, ok := x.decided[k]; !ok {
			x.decided[k] = v
			changed = true
		}
	}
	return x, changed
}

func reflectMethod(c *ssa.Call) string {
	o := calleeObj(c)
	if o == nil || o.Pkg() == nil || o.Pkg().Path() != "reflect" {
		return ""
	}
	sig := o.Type().(*types.Signature)
	if sig.Recv() == nil || !isNamed(sig.Recv().Type(), "reflect", "Value") {
		return ""
	}
	return o.Name()
}

// wrapOf: wrap state of a reflect.Value in the wrapped world.
func (f *kindFlow) wrapOf(v ssa.Value, s *kindState, depth int) wrapState {
	if w, ok := s.vals[v]; ok {
		return w
	}
	if depth > 10 {
		return wMay
	}
	switch x := v.(type) {
	case *ssa.UnOp:
		if f.base != nil && f.a.m.cellAddr(x.X, f.base) == "rv" {
			return s.rv
		}
		if _, ok := x.X.(*ssa.Global); ok {
			return wNo
		}
		if _, ok := x.X.(*ssa.FreeVar); ok {
			return wNo // captured variable: examined where the enclosing function computed it
		}
		if al, ok := x.X.(*ssa.Alloc); ok {
			if w, ok := s.vals[al]; ok {
				return w
			}
			res, n := wNo, 0
			for _, ref := range *al.Referrers() {
				if st, ok := ref.(*ssa.Store); ok && st.Addr == ssa.Value(al) {
					w := f.wrapOf(st.Val, s, depth+1)
					if n == 0 {
						res = w
					} else {
						res = joinW(res, w)
					}
					n++
				}
			}
			if n > 0 {
				return res
			}
			return wNo
		}
		if fa, ok := x.X.(*ssa.FieldAddr); ok {
			// a field of an object this function allocated (a node it builds): what the function stored there
			if w, ok := f.fieldOfFresh(fa, s, depth); ok {
				return w
			}
			if n := namedOf(fa.X.Type()); n != nil && n.Obj().Pkg() == f.a.m.sp.Pkg {
				if w, ok := f.a.fieldW[n.Obj().Name()+"."+fieldOfAddr(fa).Name()]; ok {
					return w
				}
			}
		}
		return wYes // element of a []reflect.Value, struct field holding a Value: a source
	case *ssa.Phi:
		// only the edges that are feasible in this world count
		res, n := wNo, 0
		var yes, no []ssa.Value
		for i, e := range x.Edges {
			if f.feas != nil && !f.feas[[2]*ssa.BasicBlock{x.Block().Preds[i], x.Block()}] {
				continue
			}
			if _, isPhi := e.(*ssa.Phi); isPhi && depth > 4 {
				continue
			}
			w := f.wrapOf(e, s, depth+1)
			if w == wYes {
				yes = append(yes, e)
			} else if w == wNo {
				no = append(no, e)
			}
			if n == 0 {
				res = w
			} else {
				res = joinW(res, w)
			}
			n++
		}
		if res == wMay {
			// unwrapped on some paths only: one feasible input is the wrapped value itself, another is its unwrapped form
			for _, y := range yes {
				for _, u := range no {
					if unwrappedFormOf(u, y, 0) {
						return wYes
					}
				}
			}
		}
		return res
	case *ssa.Field:
		if n := namedOf(x.X.Type()); n != nil && n.Obj().Pkg() == f.a.m.sp.Pkg {
			if w, ok := f.a.fieldW[n.Obj().Name()+"."+fieldOfVal(x).Name()]; ok {
				return w
			}
		}
		return wYes
	case *ssa.Parameter:
		for i, p := range f.fn.Params {
			if p == x && i == f.wrapP {
				return wYes
			}
		}
		return wNo // the other parameters are taken unwrapped in this run
	case *ssa.FreeVar:
		return wNo
	case *ssa.MakeClosure:
		return wNo
	case *ssa.Extract:
		if c, ok := x.Tuple.(*ssa.Call); ok {
			if callee := staticCallee(c); callee != nil && callee.Pkg == f.a.m.sp && isReflectValue(x.Type()) {
				if w, ok := f.resultByParams(c, callee, x.Index, s, depth); ok {
					return w
				}
			}
			if callee := staticCallee(c); callee != nil && callee.Pkg == f.a.m.sp && x.Index == 0 && len(c.Call.Args) >= 1 && isReflectValue(c.Call.Args[0].Type()) {
				return f.wrapOf(c.Call.Args[0], s, depth+1) // conversion helpers can hand their argument back
			}
			if o := calleeObj(c); o != nil && o.Pkg() != nil && (o.Pkg().Path() == "reflect" || o.Pkg().Path() == modPath+"/env") {
				return wYes // received from a channel / read from a scope: sources
			}
			if callee := staticCallee(c); callee != nil && callee.Pkg == f.a.m.sp && x.Index == 0 && isReflectValue(x.Type()) && f.a.returnsElement(callee) {
				return wYes // (value, error) helper handing back an element or an unboxed value: as it was produced elsewhere
			}
		}
		return wNo
	case *ssa.Call:
		switch reflectMethod(x) {
		case "Elem":
			if f.wrapOf(x.Call.Args[0], s, depth+1) == wYes {
				return wNo // the dynamic value inside an interface is never itself an interface
			}
			if freshValue(x.Call.Args[0], 0) {
				return wNo // reflect.New(t).Elem(): a zero value is never a non-nil interface
			}
			return wYes // the pointee of a pointer may be an interface variable
		case "Index", "MapIndex", "Field", "FieldByIndex", "FieldByName", "Recv", "Key", "Value":
			if freshValue(x.Call.Args[0], 0) {
				return wNo // element of a container built here from typed parts
			}
			return wYes
		case "":
		default:
			return wNo
		}
		if o := calleeObj(x); o != nil && o.Pkg() != nil && o.Pkg().Path() == "reflect" {
			return wNo // ValueOf, Zero, New, Make*, Append*
		}
		if callee := staticCallee(x); callee != nil && callee.Pkg == f.a.m.sp && callee.Signature.Results().Len() == 1 {
			if w, ok := f.resultByParams(x, callee, 0, s, depth); ok {
				return w
			}
		}
		if callee := staticCallee(x); callee != nil && callee.Pkg == f.a.m.sp && callee.Signature.Results().Len() >= 1 && isReflectValue(callee.Signature.Results().At(0).Type()) {
			// helper returning a Value: wrapped only if it can return one of its Value arguments unchanged or an element read
			for _, a := range x.Call.Args {
				if isReflectValue(a.Type()) && f.wrapOf(a, s, depth+1) == wYes && f.a.mayReturnArg(callee) {
					return wYes
				}
			}
			if f.a.returnsElement(callee) {
				return wYes
			}
			return wNo
		}
		return wNo
	}
	return wNo
}

// fieldOfFresh: fa addresses a field of an object allocated in this function (directly, or through a merge of such objects):
// the join of everything the function stores into that field of those objects; ok=false when the object is not fresh or a store
// cannot be seen.
func (f *kindFlow) fieldOfFresh(fa *ssa.FieldAddr, s *kindState, depth int) (wrapState, bool) {
	var allocs []*ssa.Alloc
	var collect func(v ssa.Value, d int) bool
	collect = func(v ssa.Value, d int) bool {
		if d > 4 {
			return false
		}
		switch x := v.(type) {
		case *ssa.Alloc:
			allocs = append(allocs, x)
			return true
		case *ssa.Phi:
			for _, e := range x.Edges {
				if !collect(e, d+1) {
					return false
				}
			}
			return true
		}
		return false
	}
	if !collect(fa.X, 0) || len(allocs) == 0 {
		return wNo, false
	}
	res, n := wNo, 0
	for _, al := range allocs {
		for _, ref := range *al.Referrers() {
			fa2, ok := ref.(*ssa.FieldAddr)
			if !ok {
				if _, isPhi := ref.(*ssa.Phi); isPhi {
					continue
				}
				if c, isCall := ref.(*ssa.Call); isCall && c.Call.IsInvoke() {
					continue // SetPosition and the like on the node
				}
				if _, isMI := ref.(*ssa.MakeInterface); isMI {
					continue
				}
				if _, isSt := ref.(*ssa.Store); isSt {
					continue // the node itself stored somewhere: its fields are not rewritten through that in this function
				}
				continue
			}
			if fa2.Field != fa.Field {
				continue
			}
			for _, r2 := range *fa2.Referrers() {
				if st, ok := r2.(*ssa.Store); ok && st.Addr == ssa.Value(fa2) {
					w := f.wrapOf(st.Val, s, depth+1)
					if u, isLoad := st.Val.(*ssa.UnOp); isLoad && f.base != nil && f.a.m.cellAddr(u.X, f.base) == "rv" {
						if _, known := s.vals[st.Val]; !known {
							w = wYes // the result cell as it was at the store, not as it is here: an evaluation result, taken as wrapped
						}
					}
					if n == 0 {
						res = w
					} else {
						res = joinW(res, w)
					}
					n++
				}
			}
		}
	}
	if n == 0 {
		return wNo, false
	}
	return res, true
}

// resultByParams: result #k of a call of a helper of vm, from the helper's return summaries: wrapped when some argument that
// arrives wrapped can come back wrapped, or the helper hands back an element it read; ok=false when the helper has no
// summary for one of its wrapped arguments (the older, coarser reasoning applies then).
func (f *kindFlow) resultByParams(c *ssa.Call, callee *ssa.Function, k int, s *kindState, depth int) (wrapState, bool) {
	if f.a.retW[callee] == nil || f.a.returnsElement(callee) || len(c.Call.Args) != len(callee.Params) {
		return wNo, false
	}
	if k >= callee.Signature.Results().Len() || !isReflectValue(callee.Signature.Results().At(k).Type()) {
		return wNo, false
	}
	res, ok0 := f.a.retW[callee][[2]int{-1, k}]
	if !ok0 {
		return wNo, false
	}
	for i, a := range c.Call.Args {
		if !isReflectValue(a.Type()) || f.wrapOf(a, s, depth+1) == wNo {
			continue
		}
		w, ok := f.a.retW[callee][[2]int{i, k}]
		if !ok {
			return wNo, false
		}
		res = joinW(res, w)
	}
	return res, true
}

// mayReturnArg: the helper can return one of its reflect.Value parameters as is.
func (a *kindAnalysis) mayReturnArg(fn *ssa.Function) bool {
	for _, b := range fn.Blocks {
		if ret, ok := b.Instrs[len(b.Instrs)-1].(*ssa.Return); ok && len(ret.Results) > 0 {
			var rec func(v ssa.Value, d int) bool
			rec = func(v ssa.Value, d int) bool {
				if d > 4 {
					return false
				}
				switch x := v.(type) {
				case *ssa.Parameter:
					return true
				case *ssa.Phi:
					for _, e := range x.Edges {
						if rec(e, d+1) {
							return true
						}
					}
				}
				return false
			}
			if rec(ret.Results[0], 0) {
				return true
			}
		}
	}
	return false
}

// returnsElement: the helper returns an element read from a container (MapIndex/Index) without re-boxing it.
func (a *kindAnalysis) returnsElement(fn *ssa.Function) bool {
	for _, b := range fn.Blocks {
		if ret, ok := b.Instrs[len(b.Instrs)-1].(*ssa.Return); ok && len(ret.Results) > 0 {
			var rec func(v ssa.Value, d int) bool
			rec = func(v ssa.Value, d int) bool {
				if d > 4 {
					return false
				}
				switch x := v.(type) {
				case *ssa.Call:
					switch reflectMethod(x) {
					case "Index", "MapIndex", "Field", "FieldByIndex":
						if freshValue(x.Call.Args[0], 0) {
							return false // element of a container built here from typed parts
						}
						return true
					}
				case *ssa.UnOp:
					if x.Op == token.MUL {
						if ia, ok := x.X.(*ssa.IndexAddr); ok && isReflectValue(x.Type()) {
							if _, isPar := ia.X.(*ssa.Parameter); isPar {
								return true // an element of the []reflect.Value it was given (the results of a call)
							}
						}
					}
				case *ssa.TypeAssert:
					if isReflectValue(x.AssertedType) {
						return true // a reflect.Value unboxed from an interface (the VM function protocol): whatever the callee left
					}
				case *ssa.Phi:
					for _, e := range x.Edges {
						if rec(e, d+1) {
							return true
						}
					}
				}
				return false
			}
			if rec(ret.Results[0], 0) {
				return true
			}
		}
	}
	return false
}

var kindSensitive = map[string]bool{"Len": true, "Cap": true, "Index": true, "Int": true, "Uint": true, "Float": true, "Bool": true,
	"MapIndex": true, "MapKeys": true, "MapRange": true, "SetMapIndex": true, "Call": true, "CallSlice": true, "Close": true,
	"Slice": true, "Slice3": true, "Field": true, "FieldByName": true, "FieldByIndex": true, "NumField": true,
	"Send": true, "Recv": true, "TrySend": true, "TryRecv": true, "SetString": true, "SetLen": true, "NumMethod": true, "Method": true, "MethodByName": true}

func (f *kindFlow) report(in ssa.Instruction, v ssa.Value, what string) {
	if !f.reporting {
		return
	}
	key := fmt.Sprintf("%d|%s", in.Pos(), what)
	if _, ok := f.finds[key]; !ok {
		f.finds[key] = kindFinding{in: in, what: what, val: v}
	}
}

// outcome: an observable result is produced; any value whose wrapper decided a test and that is still wrapped is a finding.
func (f *kindFlow) outcome(in ssa.Instruction, s *kindState, what string) {
	for v, test := range s.decided {
		if f.wrapOf(v, s, 0) == wYes {
			f.report(in, v, fmt.Sprintf("%s decided by `%s` on a value that is still wrapped in an interface (an unwrapped value of that kind would take the other branch)", what, test))
		}
	}
}

func (f *kindFlow) Instr(in ssa.Instruction, s *kindState) *kindState {
	switch x := in.(type) {
	case *ssa.UnOp:
		if f.base != nil && f.a.m.cellAddr(x.X, f.base) == "rv" && isReflectValue(x.Type()) {
			s.vals[x] = s.rv // snapshot of the cell at the load
		}
		if al, ok := x.X.(*ssa.Alloc); ok && isReflectValue(x.Type()) {
			if w, ok := s.vals[al]; ok {
				s.vals[x] = w // snapshot of a local variable kept in memory
			}
		}
	case *ssa.Store:
		if al, ok := x.Addr.(*ssa.Alloc); ok && isReflectValue(x.Val.Type()) {
			s.vals[al] = f.wrapOf(x.Val, s, 0)
		}
		// the channel (or the value to send) of a reflect.SelectCase: reflect.Select needs the channel itself, not its wrapper
		if fa, ok := x.Addr.(*ssa.FieldAddr); ok && isReflectValue(x.Val.Type()) {
			if pt, ok := fa.X.Type().Underlying().(*types.Pointer); ok && pt.Elem().String() == "reflect.SelectCase" && fieldOfAddr(fa).Name() == "Chan" {
				if f.wrapOf(x.Val, s, 0) == wYes {
					f.report(x, x.Val, "a value that is still wrapped in an interface is given to reflect.Select as the channel of a case (reflect.Select fails on the wrapper: a channel read from a list or passed as a list element cannot be received from)")
				}
			}
		}
		if f.base != nil {
			switch f.a.m.cellAddr(x.Addr, f.base) {
			case "rv":
				f.outcome(x, s, "the result")
				s.rv = f.wrapOf(x.Val, s, 0)
			case "err":
				if !isNilConst(x.Val) {
					f.outcome(x, s, "an error")
				}
			}
		}
	case *ssa.Return:
		if f.wrapP >= 0 {
			f.outcome(x, s, "the helper's result")
		} else if f.base == nil {
			f.outcome(x, s, "the function's result")
		}
	case *ssa.Panic:
		if f.base == nil {
			f.outcome(x, s, "a failure")
		}
	case *ssa.Call:
		if f.base != nil {
			if role := f.a.m.evalRole(x, f.base); role == "expr" || role == "op" || role == "stmt" {
				s.rv = wYes // the next operand: assumed wrapped
				s.decided = map[ssa.Value]string{}
				return s
			}
			if callee := f.a.m.calleeOnBase(x, f.base); callee != nil && f.a.m.evalRole(x, f.base) == "" {
				// a helper working on the record: check its Value arguments, then it leaves something in rv
				for i, a := range x.Call.Args {
					if isReflectValue(a.Type()) && f.wrapOf(a, s, 0) == wYes {
						if why, ok := f.a.discr[callee][i]; ok {
							f.report(x, a, "passed still wrapped to "+callee.Name()+", which treats a wrapped value differently ("+why+")")
						}
					}
				}
				// the helper reads rv itself?  (helpers documented as "rv must hold the index value")
				if s.rv == wYes && f.a.discr[callee][-1] != "" {
					f.report(x, nil, "rv is still wrapped when "+callee.Name()+" reads it ("+f.a.discr[callee][-1]+")")
				}
				s.rv = wYes
				return s
			}
		}
		// a value whose kind test was decided by its wrapper is handed on (bound to a name, stored, passed) still wrapped
		if reflectMethod(x) == "" {
			for _, a := range x.Call.Args {
				if !isReflectValue(a.Type()) {
					continue
				}
				if test, ok := f.decidedFor(a, s, 0); ok && f.wrapOf(a, s, 0) == wYes {
					f.report(x, a, fmt.Sprintf("the value is handed on after `%s` was decided by its wrapper (an unwrapped value of that kind would have been treated by the other branch first)", test))
				}
			}
		}
		if meth := reflectMethod(x); meth != "" {
			recv := x.Call.Args[0]
			w := f.wrapOf(recv, s, 0)
			if meth == "Elem" && w == wYes {
				if why := f.sharedWithPointerStep(x); why != "" {
					f.report(x, recv, why)
				}
				// a pointer test made while the value was still wrapped (so: decided by the wrapper) and not repeated after the
				// unwrapping: a bare pointer is dereferenced, the same pointer inside an interface is not
				for v, test := range s.decided {
					if (v == recv || sameCellLoad(v, recv)) && strings.Contains(test, "Ptr") && !f.ptrTestAfter(x) {
						f.report(x, recv, "the value is examined for being a pointer (`"+test+"`) before it is taken out of its interface and not again afterwards: a pointer read from a container is not dereferenced where the same pointer in a variable is")
					}
				}
				delete(s.decided, recv) // unwrapping forgives earlier tests on this value
				for v := range s.decided {
					if sameCellLoad(v, recv) {
						delete(s.decided, v)
					}
				}
			}
			if kindSensitive[meth] && w == wYes {
				f.report(x, recv, "reflect.Value."+meth+" applied to a value that is still wrapped in an interface")
			}
			if meth == "Type" && w == wYes && !onlyForMessage(x) && !comparedWithInterfaceType(x) && !isAssignTarget(recv) {
				f.report(x, recv, "reflect.Value.Type of a value that is still wrapped (yields the interface type, not the value's own type)")
			}
			return s
		}
		if callee := staticCallee(x); callee != nil && callee.Pkg == f.a.m.sp {
			for i, a := range x.Call.Args {
				if !isReflectValue(a.Type()) || f.wrapOf(a, s, 0) != wYes {
					continue
				}
				if why, ok := f.a.discr[callee][i]; ok {
					f.report(x, a, "passed still wrapped to "+callee.Name()+", which treats a wrapped value differently ("+why+")")
				}
			}
		}
	}
	return s
}

func sameCellLoad(a, b ssa.Value) bool {
	ua, ok1 := a.(*ssa.UnOp)
	ub, ok2 := b.(*ssa.UnOp)
	if !ok1 || !ok2 {
		return false
	}
	fa, ok1 := ua.X.(*ssa.FieldAddr)
	fb, ok2 := ub.X.(*ssa.FieldAddr)
	return ok1 && ok2 && fa.X == fb.X && fa.Field == fb.Field
}

func kindName(k int64) string {
	names := []string{"Invalid", "Bool", "Int", "Int8", "Int16", "Int32", "Int64", "Uint", "Uint8", "Uint16", "Uint32", "Uint64", "Uintptr", "Float32", "Float64", "Complex64", "Complex128", "Array", "Chan", "Func", "Interface", "Map", "Ptr", "Slice", "String", "Struct", "UnsafePointer"}
	if k >= 0 && int(k) < len(names) {
		return names[k]
	}
	return fmt.Sprint(k)
}

func onlyForMessage(c *ssa.Call) bool {
	for _, ref := range *c.Referrers() {
		r2, ok := ref.(*ssa.Call)
		if !ok {
			if _, isDbg := ref.(*ssa.DebugRef); isDbg {
				continue
			}
			return false
		}
		if !r2.Call.IsInvoke() || r2.Call.Method.Name() != "String" {
			return false
		}
	}
	return true
}

// comparedWithInterfaceType: the Type() result is only compared with the package's interface type value (the tolerant tail
// `rv.Type() == interfaceType` of the conversion helper) or with another type for identity.
func comparedWithInterfaceType(c *ssa.Call) bool {
	for _, ref := range *c.Referrers() {
		switch x := ref.(type) {
		case *ssa.BinOp:
			if x.Op != token.EQL && x.Op != token.NEQ {
				return false
			}
		case *ssa.DebugRef:
		case *ssa.Call:
			// t.ConvertibleTo(rt) / t.String(): decisions about conversion, re-examined after unwrapping by the tolerant tail
			if !x.Call.IsInvoke() {
				return false
			}
			switch x.Call.Method.Name() {
			case "ConvertibleTo", "AssignableTo", "String", "Name":
			default:
				return false // Comparable(), Kind(), Elem() ... of the wrapper's type decide something else than the value's own type would
			}
		case *ssa.MakeInterface:
		default:
			return false
		}
	}
	return true
}

func (f *kindFlow) Edge(from *ssa.BasicBlock, succ int, s *kindState) (*kindState, bool) {
	st, ok := f.edge(from, succ, s)
	if ok {
		if f.feas == nil {
			f.feas = map[[2]*ssa.BasicBlock]bool{}
		}
		f.feas[[2]*ssa.BasicBlock{from, from.Succs[succ]}] = true
	}
	return st, ok
}

func (f *kindFlow) edge(from *ssa.BasicBlock, succ int, s *kindState) (*kindState, bool) {
	iff, ok := from.Instrs[len(from.Instrs)-1].(*ssa.If)
	if !ok {
		return s, true
	}
	cond := iff.Cond
	neg := false
	if u, ok := cond.(*ssa.UnOp); ok && u.Op == token.NOT {
		cond = u.X
		neg = true
	}
	onTrue := (succ == 0) != neg
	switch x := cond.(type) {
	case *ssa.BinOp:
		// v.Type() == interfaceType for a wrapped v (the wrapper is taken to be an interface{} slot)
		if tc, ok := x.X.(*ssa.Call); ok && reflectMethod(tc) == "Type" && (x.Op == token.EQL || x.Op == token.NEQ) {
			if f.a.isInterfaceTypeValue(x.Y) && f.wrapOf(tc.Call.Args[0], s, 0) == wYes {
				if (x.Op == token.EQL) != onTrue {
					return s, false
				}
				return s, true
			}
			// compared with some other type: "not that type" alone decides nothing yet (the conversion question follows)
			return s, true
		}
		// container.Type().Elem() == interfaceType: in the wrapped world the elements of every container are interface slots
		if (x.Op == token.EQL || x.Op == token.NEQ) && (f.a.isInterfaceTypeValue(x.Y) && isElemTypeOfValue(x.X) || f.a.isInterfaceTypeValue(x.X) && isElemTypeOfValue(x.Y)) {
			if (x.Op == token.EQL) != onTrue {
				return s, false
			}
			return s, true
		}
		kc, ok := x.X.(*ssa.Call)
		if !ok || reflectMethod(kc) != "Kind" || (x.Op != token.EQL && x.Op != token.NEQ) {
			return s, true
		}
		k, ok := x.Y.(*ssa.Const)
		if !ok {
			return s, true
		}
		v := kc.Call.Args[0]
		if f.wrapOf(v, s, 0) != wYes {
			return s, true
		}
		// wrapped: its kind is Interface
		isIface := k.Int64() == 20
		holds := (x.Op == token.EQL) == isIface
		if holds != onTrue {
			return s, false // infeasible in the wrapped world
		}
		if !isIface {
			s.decided[v] = fmt.Sprintf("Kind() %s %s", x.Op, kindName(k.Int64()))
		}
	case *ssa.Call:
		switch reflectMethod(x) {
		case "IsNil":
			if f.wrapOf(x.Call.Args[0], s, 0) == wYes && onTrue {
				return s, false // a wrapped value is a non-nil interface
			}
		}
		// v.Type().ConvertibleTo(t) / AssignableTo(t) answered "no" for a wrapped v: the wrapper's answer
		if x.Call.IsInvoke() && (x.Call.Method.Name() == "ConvertibleTo" || x.Call.Method.Name() == "AssignableTo") && !onTrue {
			if tc, ok := x.Call.Value.(*ssa.Call); ok && reflectMethod(tc) == "Type" {
				if v := tc.Call.Args[0]; f.wrapOf(v, s, 0) == wYes {
					if _, has := s.decided[v]; !has {
						s.decided[v] = "Type()." + x.Call.Method.Name() + "(wanted type) is false"
					}
				}
			}
		}
		// boolean helpers deciding on a wrapped argument (isIntKind(v), isNum(v) …): the helper's own summary reports the discrimination
	}
	return s, true
}

func buildKindAnalysis(m *vmModel) *kindAnalysis {
	a := &kindAnalysis{m: m, discr: map[*ssa.Function]map[int]string{}, finds: map[*ssa.Function][]kindFinding{}, retW: map[*ssa.Function]map[[2]int]wrapState{}}
	collect := func(fl *kindFlow) []kindFinding {
		var out []kindFinding
		for _, k := range fl.finds {
			out = append(out, k)
		}
		sort.Slice(out, func(i, j int) bool {
			if out[i].in.Pos() != out[j].in.Pos() {
				return out[i].in.Pos() < out[j].in.Pos()
			}
			return out[i].what < out[j].what
		})
		return out
	}
	// helper summaries: one run per reflect.Value parameter assumed wrapped
	for iter := 0; iter < 5; iter++ {
		changed := false
		for _, fn := range m.fns {
			if fn.Blocks == nil {
				continue
			}
			// what the function returns when none of its arguments is wrapped: values it reads itself (a field of the node, a
			// scope lookup) may be, unless it takes them out of the interface before it hands them back
			hasValueResult := false
			for k := 0; k < fn.Signature.Results().Len(); k++ {
				if isReflectValue(fn.Signature.Results().At(k).Type()) {
					hasValueResult = true
				}
			}
			if hasValueResult {
				fl := &kindFlow{a: a, fn: fn, base: m.baseOf(fn), wrapP: -1, finds: map[string]kindFinding{}}
				st0 := fl.Entry()
				st0.rv = wNo
				before := runForwardWith(fn, fl, st0)
				for _, b := range fn.Blocks {
					ret, ok := b.Instrs[len(b.Instrs)-1].(*ssa.Return)
					if !ok || b == fn.Recover {
						continue
					}
					stR, ok := before[ret]
					if !ok {
						continue
					}
					for k, rv := range ret.Results {
						if !isReflectValue(rv.Type()) {
							continue
						}
						w := fl.wrapOf(rv, stR, 0)
						if a.retW[fn] == nil {
							a.retW[fn] = map[[2]int]wrapState{}
						}
						key := [2]int{-1, k}
						if old, seen := a.retW[fn][key]; !seen {
							a.retW[fn][key] = w
						} else if j := joinW(old, w); j != old {
							a.retW[fn][key] = j
						}
					}
				}
			}
			for i, prm := range fn.Params {
				if !isReflectValue(prm.Type()) {
					continue
				}
				if _, ok := a.discr[fn][i]; ok {
					continue
				}
				fl := &kindFlow{a: a, fn: fn, base: m.baseOf(fn), wrapP: i, finds: map[string]kindFinding{}}
				st0 := fl.Entry()
				st0.rv = wNo
				before := runForwardWith(fn, fl, st0)
				// return summary: what the results are when this parameter arrives wrapped (a helper that takes its argument out of
				// the interface and hands it back returns an unwrapped value; one that hands it back as it came does not)
				for _, b := range fn.Blocks {
					ret, ok := b.Instrs[len(b.Instrs)-1].(*ssa.Return)
					if !ok || b == fn.Recover {
						continue
					}
					stR, ok := before[ret]
					if !ok {
						continue
					}
					for k, rv := range ret.Results {
						if !isReflectValue(rv.Type()) {
							continue
						}
						w := fl.wrapOf(rv, stR, 0)
						if a.retW[fn] == nil {
							a.retW[fn] = map[[2]int]wrapState{}
						}
						key := [2]int{i, k}
						if old, seen := a.retW[fn][key]; !seen {
							a.retW[fn][key] = w
						} else if j := joinW(old, w); j != old {
							a.retW[fn][key] = j
						}
					}
				}
				if fs := collect(fl); len(fs) > 0 {
					// only findings about the parameter itself
					for _, k := range fs {
						if a.discr[fn] == nil {
							a.discr[fn] = map[int]string{}
						}
						a.discr[fn][i] = k.what
						changed = true
						break
					}
				}
			}
			// helpers on a record that read rv before any evaluation: "rv must hold the index value"
			if base := m.baseOf(fn); base != nil {
				if _, isParam := base.(*ssa.Parameter); isParam && !a.evaluatesFirst(fn) {
					if _, ok := a.discr[fn][-1]; !ok {
						fl := &kindFlow{a: a, fn: fn, base: base, wrapP: -1, finds: map[string]kindFinding{}}
						runForwardWith(fn, fl, fl.Entry())
						for _, k := range collect(fl) {
							// only what happens before the first evaluation concerns the incoming rv
							if a.beforeFirstEval(fn, k.in) {
								if a.discr[fn] == nil {
									a.discr[fn] = map[int]string{}
								}
								a.discr[fn][-1] = k.what
								changed = true
								break
							}
						}
					}
				}
			}
		}
		if !changed {
			break
		}
	}
	a.computeFieldSummaries()
	// handlers: operands arrive in rv after each evaluation
	for _, fn := range m.funcsOnRecord() {
		fl := &kindFlow{a: a, fn: fn, base: m.baseOf(fn), wrapP: -1, finds: map[string]kindFinding{}}
		st0 := fl.Entry()
		st0.rv = wNo // whatever rv held on entry is not an operand of this function (helpers reading it are covered by the -1 summary)
		runForwardWith(fn, fl, st0)
		a.finds[fn] = collect(fl)
	}
	return a
}

// runForwardWith runs the dataflow with a given entry state.
func runForwardWith(fn *ssa.Function, fl *kindFlow, st *kindState) map[ssa.Instruction]*kindState {
	w := &kindFlowStart{kindFlow: fl, start: st}
	before, _ := runForward[*kindState](fn, w)
	defer func() { fl.reporting = false }()
	// findings come from the fixpoint states only
	fl.reporting = true
	for _, b := range fn.Blocks {
		for _, in := range b.Instrs {
			if s, ok := before[in]; ok {
				fl.Instr(in, fl.Copy(s))
			}
		}
	}
	fl.reporting = false
	return before
}

type kindFlowStart struct {
	*kindFlow
	start *kindState
}

func (k *kindFlowStart) Entry() *kindState { return k.kindFlow.Copy(k.start) }

// evaluatesFirst: the function evaluates an operand before it reads rv.
func (a *kindAnalysis) evaluatesFirst(fn *ssa.Function) bool {
	base := a.m.baseOf(fn)
	for _, in := range fn.Blocks[0].Instrs {
		switch x := in.(type) {
		case *ssa.Call:
			if a.m.evalRole(x, base) != "" {
				return true
			}
		case *ssa.UnOp:
			if a.m.cellAddr(x.X, base) == "rv" {
				// reading rv first: the assignment helpers save the value to assign; they evaluate afterwards
				for _, ref := range *x.Referrers() {
					if _, ok := ref.(*ssa.Call); ok {
						return false
					}
				}
			}
		}
	}
	return true
}

func (a *kindAnalysis) beforeFirstEval(fn *ssa.Function, in ssa.Instruction) bool {
	base := a.m.baseOf(fn)
	for _, b := range fn.Blocks {
		for _, i2 := range b.Instrs {
			if c, ok := i2.(*ssa.Call); ok && a.m.evalRole(c, base) != "" {
				if instrDominates(c, in) {
					return false
				}
			}
		}
	}
	return true
}

func (a *kindAnalysis) describe() []string {
	var out []string
	for fn, ps := range a.discr {
		for i, why := range ps {
			out = append(out, fmt.Sprintf("%s param %d: %s", funcName(fn), i, why))
		}
	}
	sort.Strings(out)
	return out
}

// isInterfaceTypeValue: v is a load of the package-level reflect.Type that denotes interface{}.
func (a *kindAnalysis) isInterfaceTypeValue(v ssa.Value) bool {
	u, ok := v.(*ssa.UnOp)
	if !ok {
		return false
	}
	g, ok := u.X.(*ssa.Global)
	if !ok {
		return false
	}
	if a.ifaceT == nil {
		a.ifaceT = map[*ssa.Global]bool{}
		// initialised as <Value of an element of a []interface{}>.Type() or TypeOf((*interface{})(nil)).Elem()
		for _, fn := range a.m.fns {
			if !strings.HasPrefix(fn.Name(), "init") {
				continue
			}
			for _, b := range fn.Blocks {
				for _, in := range b.Instrs {
					st, ok := in.(*ssa.Store)
					if !ok {
						continue
					}
					gg, ok := st.Addr.(*ssa.Global)
					if !ok {
						continue
					}
					if c, ok := st.Val.(*ssa.Call); ok && reflectMethod(c) == "Type" {
						if ic, ok := c.Call.Args[0].(*ssa.Call); ok && reflectMethod(ic) == "Index" {
							if vc, ok := ic.Call.Args[0].(*ssa.Call); ok && len(vc.Call.Args) == 1 {
								if sl, ok := stripConv(vc.Call.Args[0]).Type().Underlying().(*types.Slice); ok {
									if it, ok := sl.Elem().Underlying().(*types.Interface); ok && it.NumMethods() == 0 {
										a.ifaceT[gg] = true
									}
								}
							}
						}
					}
				}
			}
		}
	}
	return a.ifaceT[g]
}

// isAssignTarget: v is a location that is assigned with Set/SetMapIndex/SetString in the same function
// (the static type of a target is what a stored value must be converted to).
func isAssignTarget(v ssa.Value) bool {
	check := func(x ssa.Value) bool {
		for _, ref := range *x.Referrers() {
			if c, ok := ref.(*ssa.Call); ok {
				switch reflectMethod(c) {
				case "Set", "SetString", "SetMapIndex":
					if c.Call.Args[0] == x {
						return true
					}
				}
			}
		}
		return false
	}
	if check(v) {
		return true
	}
	// other loads of the same cell / other uses of the same phi
	if u, ok := v.(*ssa.UnOp); ok {
		if fa, ok := u.X.(*ssa.FieldAddr); ok {
			for _, b := range u.Parent().Blocks {
				for _, in := range b.Instrs {
					if u2, ok := in.(*ssa.UnOp); ok {
						if fa2, ok := u2.X.(*ssa.FieldAddr); ok && fa2.X == fa.X && fa2.Field == fa.Field && check(u2) {
							return true
						}
					}
				}
			}
		}
	}
	return false
}

// computeFieldSummaries: what the package stores into the reflect.Value fields of its own structs (other than the run record).
func (a *kindAnalysis) computeFieldSummaries() {
	a.fieldW = map[string]wrapState{}
	seen := map[string]bool{}
	for _, fn := range a.m.fns {
		fl := &kindFlow{a: a, fn: fn, base: a.m.baseOf(fn), wrapP: -1, finds: map[string]kindFinding{}}
		st0 := fl.Entry()
		st0.rv = wNo
		w := &kindFlowStart{kindFlow: fl, start: st0}
		before, _ := runForward[*kindState](fn, w)
		for _, b := range fn.Blocks {
			for _, in := range b.Instrs {
				st, ok := in.(*ssa.Store)
				if !ok || !isReflectValue(st.Val.Type()) {
					continue
				}
				fa, ok := st.Addr.(*ssa.FieldAddr)
				if !ok {
					continue
				}
				n := namedOf(fa.X.Type())
				if n == nil || n.Obj().Pkg() != a.m.sp.Pkg || n == a.m.riT {
					continue
				}
				key := n.Obj().Name() + "." + fieldOfAddr(fa).Name()
				s := before[st]
				if s == nil {
					continue
				}
				ws := fl.wrapOf(st.Val, s, 0)
				if !seen[key] {
					a.fieldW[key] = ws
					seen[key] = true
				} else {
					a.fieldW[key] = joinW(a.fieldW[key], ws)
				}
			}
		}
	}
	for k, v := range a.fieldW {
		if v == wMay {
			a.fieldW[k] = wYes
		}
	}
}

// freshValue: v was built here by a reflect constructor (New, Zero, MakeSlice, MakeMap, Append …), possibly through Elem/Index of such a value.
func freshValue(v ssa.Value, depth int) bool {
	if depth > 6 {
		return false
	}
	switch x := v.(type) {
	case *ssa.Call:
		if o := calleeObj(x); o != nil && o.Pkg() != nil && o.Pkg().Path() == "reflect" {
			if o.Type().(*types.Signature).Recv() == nil {
				switch o.Name() {
				case "New", "Zero", "MakeSlice", "MakeMap", "MakeMapWithSize", "MakeChan", "Append", "AppendSlice", "MakeFunc":
					return true
				}
				return false
			}
			switch o.Name() {
			case "Elem", "Index", "Field", "Slice", "Slice3":
				return freshValue(x.Call.Args[0], depth+1)
			}
		}
	case *ssa.Phi:
		for _, e := range x.Edges {
			if !freshValue(e, depth+1) {
				return false
			}
		}
		return len(x.Edges) > 0
	case *ssa.UnOp:
		if al, ok := x.X.(*ssa.Alloc); ok {
			n := 0
			for _, ref := range *al.Referrers() {
				if st, ok := ref.(*ssa.Store); ok && st.Addr == ssa.Value(al) {
					if !freshValue(st.Val, depth+1) {
						return false
					}
					n++
				}
			}
			return n > 0
		}
	}
	return false
}

// decidedFor: the value (or, for a merge, one of its feasible inputs) had a kind test decided by its wrapper.
func (f *kindFlow) decidedFor(v ssa.Value, s *kindState, depth int) (string, bool) {
	if t, ok := s.decided[v]; ok {
		return t, true
	}
	if depth > 4 {
		return "", false
	}
	if ph, ok := v.(*ssa.Phi); ok {
		for i, e := range ph.Edges {
			if f.feas != nil && !f.feas[[2]*ssa.BasicBlock{ph.Block().Preds[i], ph.Block()}] {
				continue
			}
			if t, ok := f.decidedFor(e, s, depth+1); ok {
				return t, true
			}
		}
	}
	return "", false
}

// unwrappedFormOf: u is v.Elem(), possibly merged with v itself under the unwrap idiom.
func unwrappedFormOf(u, v ssa.Value, depth int) bool {
	if depth > 4 {
		return false
	}
	switch x := u.(type) {
	case *ssa.Call:
		return reflectMethod(x) == "Elem" && (x.Call.Args[0] == v || sameCellLoad(x.Call.Args[0], v))
	case *ssa.Phi:
		for _, e := range x.Edges {
			if e != v && unwrappedFormOf(e, v, depth+1) {
				return true
			}
		}
	}
	return false
}

// isElemTypeOfValue: t is v.Type().Elem() for a reflect.Value v (the element type of a container).
func isElemTypeOfValue(t ssa.Value) bool {
	c, ok := t.(*ssa.Call)
	if !ok || !c.Call.IsInvoke() || c.Call.Method.Name() != "Elem" {
		return false
	}
	tc, ok := c.Call.Value.(*ssa.Call)
	return ok && reflectMethod(tc) == "Type"
}

// sharedWithPointerStep: the Elem() that takes a wrapped value out of its interface is the same step that dereferences a bare
// pointer (`if k == Ptr || k == Interface { v = v.Elem() }`), and what it yields is not tested for being a pointer again. A
// pointer that arrives inside an interface is then only unwrapped where the same pointer arriving bare is dereferenced: the
// two are treated differently.
func (f *kindFlow) sharedWithPointerStep(el *ssa.Call) string {
	recv := el.Call.Args[0]
	same := func(v ssa.Value) bool { return v == recv || sameCellLoad(v, recv) }
	shared := false
	for _, b := range f.fn.Blocks {
		iff, ok := b.Instrs[len(b.Instrs)-1].(*ssa.If)
		if !ok {
			continue
		}
		bo, ok := iff.Cond.(*ssa.BinOp)
		if !ok || (bo.Op != token.EQL && bo.Op != token.NEQ) {
			continue
		}
		kc, ok := bo.X.(*ssa.Call)
		k, ok2 := bo.Y.(*ssa.Const)
		if !ok || !ok2 || reflectMethod(kc) != "Kind" || k.Value == nil || k.Int64() != 22 || !same(kc.Call.Args[0]) {
			continue
		}
		succ := b.Succs[0]
		if bo.Op == token.NEQ {
			succ = b.Succs[1]
		}
		// the pointer edge reaches this Elem without another test in between (directly, or through the `||` join)
		if succ == el.Block() || (len(succ.Instrs) == 1 && len(succ.Succs) == 1 && succ.Succs[0] == el.Block()) {
			shared = true
		}
	}
	if !shared {
		return ""
	}
	// is the result examined for being a pointer afterwards?
	derived := map[ssa.Value]bool{el: true}
	for changed := true; changed; {
		changed = false
		for _, b := range f.fn.Blocks {
			for _, in := range b.Instrs {
				if ph, ok := in.(*ssa.Phi); ok && !derived[ph] {
					for _, e := range ph.Edges {
						if derived[e] {
							derived[ph] = true
							changed = true
						}
					}
				}
			}
		}
	}
	for _, b := range f.fn.Blocks {
		for _, in := range b.Instrs {
			bo, ok := in.(*ssa.BinOp)
			if !ok || (bo.Op != token.EQL && bo.Op != token.NEQ) {
				continue
			}
			kc, ok := bo.X.(*ssa.Call)
			k, ok2 := bo.Y.(*ssa.Const)
			if ok && ok2 && reflectMethod(kc) == "Kind" && k.Value != nil && k.Int64() == 22 && derived[kc.Call.Args[0]] && kc != nil {
				if el.Block() == kc.Block() && instrIndex(el) < instrIndex(kc) || el.Block() != kc.Block() && reachable(el.Block(), nil)[kc.Block()] {
					// only a test that comes after the step counts (in a loop the same test may precede it)
					if !(kc.Block().Dominates(el.Block()) && kc.Block() != el.Block()) {
						return ""
					}
				}
			}
		}
	}
	return "one Elem() both takes the value out of its interface and dereferences a bare pointer, and the result is not examined for being a pointer: a pointer read from a container is only unwrapped where the same pointer in a variable is dereferenced"
}

// ptrTestAfter: after the Elem() call el, its result (or the cell it is stored back to) is examined for being a pointer.
func (f *kindFlow) ptrTestAfter(el *ssa.Call) bool {
	derived := map[ssa.Value]bool{el: true}
	var cellStores []*ssa.Store
	for changed := true; changed; {
		changed = false
		for _, b := range f.fn.Blocks {
			for _, in := range b.Instrs {
				switch x := in.(type) {
				case *ssa.Phi:
					if !derived[x] {
						for _, e := range x.Edges {
							if derived[e] {
								derived[x] = true
								changed = true
							}
						}
					}
				case *ssa.Store:
					if derived[x.Val] {
						seen := false
						for _, cs := range cellStores {
							if cs == x {
								seen = true
							}
						}
						if !seen {
							cellStores = append(cellStores, x)
							changed = true
						}
					}
				case *ssa.UnOp:
					if x.Op == token.MUL && !derived[x] {
						for _, cs := range cellStores {
							if cs.Addr == x.X || sameAddr(cs.Addr, x.X) {
								derived[x] = true
								changed = true
							}
						}
					}
				}
			}
		}
	}
	after := reachable(el.Block(), nil)
	for _, b := range f.fn.Blocks {
		for _, in := range b.Instrs {
			bo, ok := in.(*ssa.BinOp)
			if !ok || (bo.Op != token.EQL && bo.Op != token.NEQ) {
				continue
			}
			kc, ok := bo.X.(*ssa.Call)
			k, ok2 := bo.Y.(*ssa.Const)
			if !ok || !ok2 || reflectMethod(kc) != "Kind" || k.Value == nil || k.Int64() != 22 || !derived[kc.Call.Args[0]] {
				continue
			}
			if kc.Block() == el.Block() && instrIndex(kc) > instrIndex(el) || kc.Block() != el.Block() && after[kc.Block()] {
				return true
			}
		}
	}
	return false
}

// sameAddr: two FieldAddr of the same field of the same base.
func sameAddr(a, b ssa.Value) bool {
	fa, ok1 := a.(*ssa.FieldAddr)
	fb, ok2 := b.(*ssa.FieldAddr)
	return ok1 && ok2 && fa.Field == fb.Field && (fa.X == fb.X || sameBase(fa.X, fb.X))
}
