package main

import (
	"fmt"
	"go/token"
	"go/types"
	"sort"
	"strings"

	"golang.org/x/tools/go/ssa"
)

// Type terms: a symbolic algebra over reflect.Type values and the dynamic types of reflect.Value values,
// computed per function on the SSA form. Two syntactically equal terms denote the same run-time type.
//
//	TypeOf(#t12)      the type of an otherwise unknown reflect.Value (keyed by its defining instruction)
//	p:name            a reflect.Type parameter
//	g:name            a package-level reflect.Type variable
//	go:T              reflect.TypeOf of a Go value of static type T
//	Elem(T) Key(T) In(T,i) Out(T,i) FieldT(T,i) Ptr(T) Slice(T) Map(K,E)
//
// with Elem(Ptr(T)) = Elem(Slice(T)) = T, Elem(Map(K,E)) = E, Key(Map(K,E)) = K.
//
// Loads of the per-run record's value cell are resolved through reaching definitions: a load that is reached
// by exactly one store denotes the stored value.

type cellDefs map[string]map[ssa.Instruction]bool // cell -> reaching definitions (nil instruction = function entry)

type reachFlow struct {
	m    *vmModel
	base ssa.Value
}

var entryDef ssa.Instruction = nil

func (f *reachFlow) Entry() cellDefs {
	return cellDefs{"rv": {entryDef: true}, "err": {entryDef: true}}
}
func (f *reachFlow) Copy(s cellDefs) cellDefs {
	o := cellDefs{}
	for c, ds := range s {
		o[c] = make(map[ssa.Instruction]bool, len(ds))
		for d := range ds {
			o[c][d] = true
		}
	}
	return o
}
func (f *reachFlow) Join(a, b cellDefs) (cellDefs, bool) {
	changed := false
	for c, ds := range b {
		if a[c] == nil {
			a[c] = map[ssa.Instruction]bool{}
		}
		for d := range ds {
			if !a[c][d] {
				a[c][d] = true
				changed = true
			}
		}
	}
	return a, changed
}
func (f *reachFlow) Instr(in ssa.Instruction, s cellDefs) cellDefs {
	switch x := in.(type) {
	case *ssa.Store:
		if c := f.m.cellAddr(x.Addr, f.base); c == "rv" || c == "err" {
			s[c] = map[ssa.Instruction]bool{in: true}
		}
	case ssa.CallInstruction:
		// a call that can reach the record may rewrite both cells
		touches := false
		for _, a := range x.Common().Args {
			if a == f.base {
				touches = true
			}
		}
		if x.Common().IsInvoke() && x.Common().Value == f.base {
			touches = true
		}
		if cl, ok := x.Common().Value.(*ssa.MakeClosure); ok {
			for _, b := range cl.Bindings {
				if b == f.base {
					touches = true
				}
			}
		}
		if touches {
			s["rv"] = map[ssa.Instruction]bool{in: true}
			s["err"] = map[ssa.Instruction]bool{in: true}
		}
	}
	return s
}
func (f *reachFlow) Edge(from *ssa.BasicBlock, succ int, s cellDefs) (cellDefs, bool) { return s, true }

type typeTerms struct {
	globals map[string]string // package-level reflect.Type variables resolved from the package initialiser
	m       *vmModel
	fn      *ssa.Function
	base    ssa.Value
	before  map[ssa.Instruction]cellDefs
	busy    map[ssa.Value]bool
	memoV   map[ssa.Value]string
	memoT   map[ssa.Value]string
	// summaries: result 0 of these functions has the type given by parameter i (a reflect.Type) / the type of parameter i (a reflect.Value)
	resTypeParam map[*ssa.Function]int
	resLikeParam map[*ssa.Function]int
}

func goTerm(t types.Type) string {
	if b, ok := t.Underlying().(*types.Basic); ok && t == types.Type(b) {
		return "go:" + types.Typ[b.Kind()].Name()
	}
	if i, ok := t.(*types.Interface); ok && i.NumMethods() == 0 {
		return "go:interface{}"
	}
	return "go:" + t.String()
}

func newTypeTerms(m *vmModel, fn *ssa.Function, sums *typeSummaries) *typeTerms {
	tt := &typeTerms{m: m, fn: fn, base: m.baseOf(fn), busy: map[ssa.Value]bool{}, memoV: map[ssa.Value]string{}, memoT: map[ssa.Value]string{}}
	if sums != nil {
		tt.resTypeParam, tt.resLikeParam, tt.globals = sums.typeParam, sums.likeParam, sums.globals
	}
	if tt.base != nil {
		tt.before, _ = runForward[cellDefs](fn, &reachFlow{m: m, base: tt.base})
	}
	return tt
}

// resolveLoad: a load of the record's rv/err cell reached by exactly one store denotes the stored value.
func (tt *typeTerms) resolveLoad(v ssa.Value) (ssa.Value, string) {
	u, ok := v.(*ssa.UnOp)
	if !ok || u.Op != token.MUL || tt.base == nil {
		return nil, ""
	}
	c := tt.m.cellAddr(u.X, tt.base)
	if c != "rv" && c != "err" {
		return nil, ""
	}
	defs := tt.before[u][c]
	if len(defs) == 1 {
		for d := range defs {
			if st, ok := d.(*ssa.Store); ok {
				return st.Val, c
			}
			if d == nil {
				return nil, c + "@entry"
			}
			return nil, fmt.Sprintf("%s@%s", c, instrName(d))
		}
	}
	// several definitions: the same term only for loads with the same definition set and no way to tell more
	var ks []string
	for d := range defs {
		if d == nil {
			ks = append(ks, "entry")
		} else {
			ks = append(ks, instrName(d))
		}
	}
	sort.Strings(ks)
	return nil, c + "@{" + strings.Join(ks, ",") + "}"
}

func instrName(in ssa.Instruction) string {
	if v, ok := in.(ssa.Value); ok && v.Name() != "" {
		return v.Name()
	}
	return fmt.Sprintf("b%d.%d", in.Block().Index, instrIndex(in))
}

func tElem(t string) string {
	switch {
	case strings.HasPrefix(t, "go:[]"):
		e := t[len("go:[]"):]
		if e == "any" {
			e = "interface{}"
		}
		return "go:" + e
	case strings.HasPrefix(t, "Ptr(") || strings.HasPrefix(t, "Slice("):
		return t[strings.Index(t, "(")+1 : len(t)-1]
	case strings.HasPrefix(t, "Map("):
		if _, e, ok := splitPair(t[4 : len(t)-1]); ok {
			return e
		}
	}
	return "Elem(" + t + ")"
}
func tKey(t string) string {
	if strings.HasPrefix(t, "Map(") {
		if k, _, ok := splitPair(t[4 : len(t)-1]); ok {
			return k
		}
	}
	return "Key(" + t + ")"
}

// splitPair splits "A,B" at the top-level comma.
func splitPair(s string) (string, string, bool) {
	depth := 0
	for i, c := range s {
		switch c {
		case '(':
			depth++
		case ')':
			depth--
		case ',':
			if depth == 0 {
				return s[:i], s[i+1:], true
			}
		}
	}
	return "", "", false
}

const selfTerm = "<self>"

// vtype: the type term of the dynamic type of reflect.Value v.
func (tt *typeTerms) vtype(v ssa.Value) string {
	if t, ok := tt.memoV[v]; ok {
		return t
	}
	if tt.busy[v] {
		return selfTerm
	}
	tt.busy[v] = true
	t := tt.vtype1(v)
	delete(tt.busy, v)
	if !strings.Contains(t, selfTerm) {
		tt.memoV[v] = t
	}
	return t
}

func (tt *typeTerms) vtype1(v ssa.Value) string {
	if sv := spilledValue(v); sv != nil {
		return tt.vtype(sv)
	}
	if sv, what := tt.resolveLoad(v); sv != nil {
		return tt.vtype(sv)
	} else if what != "" {
		return "TypeOf(" + what + ")"
	}
	switch x := v.(type) {
	case *ssa.Phi:
		return tt.phiTerm(x, tt.vtype, "TypeOf")
	case *ssa.Extract:
		if c, ok := x.Tuple.(*ssa.Call); ok && x.Index == 0 {
			if t, ok := tt.callResultType(c); ok {
				return t
			}
		}
	case *ssa.Call:
		if t, ok := tt.callResultType(x); ok {
			return t
		}
	case *ssa.UnOp:
		if g, ok := x.X.(*ssa.Global); ok && x.Op == token.MUL {
			return "TypeOf(g:" + g.Name() + ")"
		}
	case *ssa.Parameter:
		return "TypeOf(p:" + x.Name() + ")"
	}
	return "TypeOf(#" + v.Name() + ")"
}

func (tt *typeTerms) phiTerm(x *ssa.Phi, f func(ssa.Value) string, wrap string) string {
	res := ""
	for _, e := range x.Edges {
		t := f(e)
		if t == selfTerm {
			continue
		}
		if strings.Contains(t, selfTerm) {
			return wrap + "(#" + x.Name() + ")"
		}
		if res == "" {
			res = t
		} else if res != t {
			return wrap + "(#" + x.Name() + ")"
		}
	}
	if res == "" {
		return selfTerm
	}
	return res
}

// callResultType: the type of (result 0 of) a call that builds or converts a reflect.Value.
func (tt *typeTerms) callResultType(c *ssa.Call) (string, bool) {
	args := c.Call.Args
	if m := reflectMethod(c); m != "" {
		recv := args[0]
		switch m {
		case "Convert":
			return tt.tyterm(args[1]), true
		case "Elem":
			rt := tt.vtype(recv)
			if strings.HasPrefix(rt, "Ptr(") || tt.kindKnown(rt, 22, c.Block()) {
				return tElem(rt), true
			}
			return "TypeOf(#" + c.Name() + ")", true
		case "Index":
			return tElem(tt.vtype(recv)), true
		case "MapIndex":
			return tElem(tt.vtype(recv)), true
		case "Slice", "Slice3":
			return tt.vtype(recv), true
		case "Field":
			return "FieldT(" + tt.vtype(recv) + "," + tt.scalar(args[1]) + ")", true
		case "FieldByIndex":
			return "FieldByIndexT(" + tt.vtype(recv) + "," + tt.scalar(args[1]) + ")", true
		case "Addr":
			return "Ptr(" + tt.vtype(recv) + ")", true
		}
		return "", false
	}
	o := calleeObj(c)
	if o != nil && o.Pkg() != nil && o.Pkg().Path() == "reflect" {
		switch o.Name() {
		case "MakeMap", "MakeMapWithSize", "MakeSlice", "Zero", "MakeChan", "MakeFunc":
			return tt.tyterm(args[0]), true
		case "New":
			return "Ptr(" + tt.tyterm(args[0]) + ")", true
		case "Append", "AppendSlice":
			return tt.vtype(args[0]), true
		case "ValueOf":
			if mi, ok := args[0].(*ssa.MakeInterface); ok {
				return goTerm(mi.X.Type()), true
			}
			if ci, ok := args[0].(*ssa.ChangeInterface); ok {
				// the dynamic type of a value of static interface type I implements I
				return "dyn:" + ci.X.Type().String() + "#" + c.Name(), true
			}
			return "TypeOf(#" + c.Name() + ")", true
		case "Indirect":
			return tElem(tt.vtype(args[0])), true
		}
		return "", false
	}
	callee := staticCallee(c)
	if callee == nil {
		return "", false
	}
	if i, ok := tt.resTypeParam[callee]; ok && i < len(args) {
		return tt.tyterm(args[i]), true
	}
	if i, ok := tt.resLikeParam[callee]; ok && i < len(args) {
		return tt.vtype(args[i]), true
	}
	return "", false
}

// scalar: a stable rendering of an index-like operand.
func (tt *typeTerms) scalar(v ssa.Value) string {
	if c, ok := v.(*ssa.Const); ok && c.Value != nil {
		return c.Value.String()
	}
	return "#" + v.Name()
}

// tyterm: the type term of a reflect.Type value.
func (tt *typeTerms) tyterm(v ssa.Value) string {
	if t, ok := tt.memoT[v]; ok {
		return t
	}
	if tt.busy[v] {
		return selfTerm
	}
	tt.busy[v] = true
	t := tt.tyterm1(v)
	delete(tt.busy, v)
	if !strings.Contains(t, selfTerm) {
		tt.memoT[v] = t
	}
	return t
}

func (tt *typeTerms) tyterm1(v ssa.Value) string {
	if sv := spilledValue(v); sv != nil {
		return tt.tyterm(sv)
	}
	switch x := v.(type) {
	case *ssa.MakeInterface:
		return tt.tyterm(x.X)
	case *ssa.ChangeInterface:
		return tt.tyterm(x.X)
	case *ssa.ChangeType:
		return tt.tyterm(x.X)
	case *ssa.Phi:
		return tt.phiTerm(x, tt.tyterm, "T")
	case *ssa.Parameter:
		return "p:" + x.Name()
	case *ssa.FreeVar:
		return "fv:" + x.Name()
	case *ssa.UnOp:
		if g, ok := x.X.(*ssa.Global); ok && x.Op == token.MUL {
			if t, ok := tt.globals[g.Name()]; ok {
				return t
			}
			return "g:" + g.Name()
		}
	case *ssa.Field:
		// reflect.StructField.Type of t.Field(i)
		if c, ok := x.X.(*ssa.Call); ok && c.Call.IsInvoke() && c.Call.Method.Name() == "Field" && fieldOfVal(x) != nil && fieldOfVal(x).Name() == "Type" {
			return "FieldT(" + tt.tyterm(c.Call.Value) + "," + tt.scalar(c.Call.Args[0]) + ")"
		}
	case *ssa.Extract:
		if c, ok := x.Tuple.(*ssa.Call); ok {
			if callee := staticCallee(c); callee != nil {
				return "T(" + callee.Name() + "#" + c.Name() + fmt.Sprintf(".%d", x.Index) + ")"
			}
		}
	case *ssa.Call:
		if x.Call.IsInvoke() && x.Call.Value.Type().String() == "reflect.Type" {
			recv := tt.tyterm(x.Call.Value)
			switch x.Call.Method.Name() {
			case "Elem":
				return tElem(recv)
			case "Key":
				return tKey(recv)
			case "In":
				return "In(" + recv + "," + tt.scalar(x.Call.Args[0]) + ")"
			case "Out":
				return "Out(" + recv + "," + tt.scalar(x.Call.Args[0]) + ")"
			}
			return "T(#" + x.Name() + ")"
		}
		if reflectMethod(x) == "Type" {
			return tt.vtype(x.Call.Args[0])
		}
		if o := calleeObj(x); o != nil && o.Pkg() != nil && o.Pkg().Path() == "reflect" {
			a := x.Call.Args
			switch o.Name() {
			case "TypeOf":
				if mi, ok := a[0].(*ssa.MakeInterface); ok {
					return goTerm(mi.X.Type())
				}
			case "PtrTo", "PointerTo":
				return "Ptr(" + tt.tyterm(a[0]) + ")"
			case "SliceOf":
				return "Slice(" + tt.tyterm(a[0]) + ")"
			case "MapOf":
				return "Map(" + tt.tyterm(a[0]) + "," + tt.tyterm(a[1]) + ")"
			}
		}
	}
	return "T(#" + v.Name() + ")"
}

// typeGuards: the pairs of type terms known equal in block b (true edges of t1 == t2 / false edges of t1 != t2 that dominate b).
func (tt *typeTerms) typeGuards(b *ssa.BasicBlock) [][2]string {
	var out [][2]string
	for d := b; d != nil && d.Idom() != nil; d = d.Idom() {
		id := d.Idom()
		iff, ok := id.Instrs[len(id.Instrs)-1].(*ssa.If)
		if !ok {
			continue
		}
		bo, ok := iff.Cond.(*ssa.BinOp)
		if !ok || (bo.Op != token.EQL && bo.Op != token.NEQ) || bo.X.Type().String() != "reflect.Type" {
			continue
		}
		edge := 0
		if bo.Op == token.NEQ {
			edge = 1
		}
		other := 1 - edge
		_ = other
		if edgeOnly(id, edge, d) {
			out = append(out, [2]string{tt.tyterm(bo.X), tt.tyterm(bo.Y)})
		}
	}
	return out
}

// sameType: terms a and b are equal, possibly through the equalities that hold in block at.
func (tt *typeTerms) sameType(a, b string, at *ssa.BasicBlock) bool {
	if a == b && !strings.Contains(a, selfTerm) {
		return true
	}
	for _, g := range tt.typeGuards(at) {
		if (g[0] == a && g[1] == b) || (g[0] == b && g[1] == a) {
			return true
		}
	}
	return false
}

// typeSummaries: which functions of the package return (as result 0) a value of the type named by one of their parameters.
type typeSummaries struct {
	typeParam map[*ssa.Function]int // on success, result 0 is assignable to the type given by reflect.Type parameter i
	likeParam map[*ssa.Function]int // on success, result 0 has the type of reflect.Value parameter i
	globals   map[string]string
}

// buildTypeSummaries iterates to a fixpoint: a function qualifies when every return whose error result is nil (or every return, if it has none)
// returns a value whose type term is the parameter's.
func buildTypeSummaries(m *vmModel) *typeSummaries {
	s := &typeSummaries{typeParam: map[*ssa.Function]int{}, likeParam: map[*ssa.Function]int{}, globals: map[string]string{}}
	if ini := m.sp.Func("init"); ini != nil {
		tt := newTypeTerms(m, ini, nil)
		for _, b := range ini.Blocks {
			for _, in := range b.Instrs {
				if st, ok := in.(*ssa.Store); ok {
					if g, ok := st.Addr.(*ssa.Global); ok && st.Val.Type().String() == "reflect.Type" {
						if t := tt.tyterm(st.Val); !strings.Contains(t, "#") {
							s.globals[g.Name()] = t
						}
					}
				}
			}
		}
	}
	for round := 0; round < 4; round++ {
		changed := false
		for _, fn := range m.fns {
			if len(fn.Blocks) == 0 || fn.Signature.Results().Len() == 0 || !isReflectValue(fn.Signature.Results().At(0).Type()) {
				continue
			}
			if _, ok := s.typeParam[fn]; ok {
				continue
			}
			if _, ok := s.likeParam[fn]; ok {
				continue
			}
			tt := newTypeTerms(m, fn, s)
			// optimistic assumption for self-recursion
			for i, p := range fn.Params {
				want := ""
				kind := 0
				if p.Type().String() == "reflect.Type" {
					want, kind = "p:"+p.Name(), 1
				} else if isReflectValue(p.Type()) {
					want, kind = "TypeOf(p:"+p.Name()+")", 2
				} else {
					continue
				}
				if kind == 1 {
					s.typeParam[fn] = i
				} else {
					s.likeParam[fn] = i
				}
				tt2 := newTypeTerms(m, fn, s)
				tt2.before = tt.before
				ok, n := true, 0
				for _, b := range fn.Blocks {
					ret, isRet := b.Instrs[len(b.Instrs)-1].(*ssa.Return)
					if !isRet {
						continue
					}
					if len(ret.Results) > 1 && isErrorType(ret.Results[len(ret.Results)-1].Type()) {
						ev := ret.Results[len(ret.Results)-1]
						if tt2.failureValue(ev, b) {
							continue // failure return: callers that test the error do not use the value
						}
						if ex, isEx := ev.(*ssa.Extract); isEx {
							// `return g(...)`: success of g is success of this function
							if vx, ok := ret.Results[0].(*ssa.Extract); !ok || vx.Tuple != ex.Tuple {
								ok = false
							}
						} else if !isNilConst(ev) {
							ok = false
						}
					}
					n++
					if !tt2.assignableAt(tt2.vtype(ret.Results[0]), want, b) {
						ok = false
					}
					if ex, isEx := ret.Results[0].(*ssa.Extract); !isEx || ex.Tuple != tupleOf(ret.Results[len(ret.Results)-1]) {
						if tt2.unchecked(ret.Results[0], b) != "" {
							ok = false
						}
					}
				}
				if ok && n > 0 {
					changed = true
					break
				}
				if kind == 1 {
					delete(s.typeParam, fn)
				} else {
					delete(s.likeParam, fn)
				}
			}
		}
		if !changed {
			break
		}
	}
	return s
}

func isValueNil(v ssa.Value) bool { // reflect.Value{} literal
	if c, ok := v.(*ssa.Const); ok && c.Value == nil {
		_, isStruct := c.Type().Underlying().(*types.Struct)
		return isStruct
	}
	return false
}

// failureValue: error value ev is certainly non-nil in block b (a load of a package-level error variable, a fresh error, or a value tested != nil on a dominating edge).
func (tt *typeTerms) failureValue(ev ssa.Value, b *ssa.BasicBlock) bool {
	switch x := ev.(type) {
	case *ssa.UnOp:
		if _, ok := x.X.(*ssa.Global); ok {
			return true
		}
	case *ssa.MakeInterface:
		return true
	case *ssa.Call:
		if callee := staticCallee(x); callee != nil && (strings.HasPrefix(callee.Name(), "new") || callee.Name() == "Errorf" || callee.Name() == "New") {
			return true
		}
	}
	for d := b; d != nil && d.Idom() != nil; d = d.Idom() {
		id := d.Idom()
		iff, ok := id.Instrs[len(id.Instrs)-1].(*ssa.If)
		if !ok {
			continue
		}
		bo, ok := iff.Cond.(*ssa.BinOp)
		if !ok || bo.Op != token.NEQ || !isNilConst(bo.Y) || !tt.sameErr(bo.X, ev) {
			continue
		}
		if edgeOnly(id, 0, d) {
			return true
		}
	}
	return false
}

// sameErr: two error values are the same value (directly, or a load of the err cell whose only reaching definition stores the other).
func (tt *typeTerms) sameErr(a, b ssa.Value) bool {
	if a == b {
		return true
	}
	if sv, _ := tt.resolveLoad(a); sv != nil && sv == b {
		return true
	}
	if sv, _ := tt.resolveLoad(b); sv != nil && sv == a {
		return true
	}
	sa, _ := tt.resolveLoad(a)
	sb, _ := tt.resolveLoad(b)
	return sa != nil && sa == sb
}

// edgeFacts: type equalities that hold when control passes from pred to its successor number i.
func (tt *typeTerms) edgeFacts(pred *ssa.BasicBlock, i int) [][2]string {
	out := tt.typeGuards(pred)
	if iff, ok := pred.Instrs[len(pred.Instrs)-1].(*ssa.If); ok {
		if bo, ok := iff.Cond.(*ssa.BinOp); ok && bo.X.Type().String() == "reflect.Type" {
			if (bo.Op == token.EQL && i == 0) || (bo.Op == token.NEQ && i == 1) {
				out = append(out, [2]string{tt.tyterm(bo.X), tt.tyterm(bo.Y)})
			}
		}
	}
	return out
}

func assignableUnder(have, want string, facts [][2]string) bool {
	if strings.Contains(have, selfTerm) || strings.Contains(want, selfTerm) {
		return false
	}
	eq := func(a, b string) bool {
		if a == b {
			return true
		}
		for _, g := range facts {
			if (g[0] == a && g[1] == b) || (g[0] == b && g[1] == a) {
				return true
			}
		}
		return false
	}
	switch {
	case eq(have, want):
		return true
	case eq(want, "go:interface{}"):
		return true // every value is assignable to interface{}
	case strings.HasPrefix(have, "dyn:") && strings.HasPrefix(want, "go:") && strings.HasPrefix(have, "dyn:"+want[3:]+"#"):
		return true // the dynamic type of an I value is assignable to I
	case have == "Map("+tKey(want)+","+tElem(want)+")":
		return true // the unnamed map type with T's key and element is assignable to T
	}
	return false
}

// assignableAt: a value of type `have` may be stored where type `want` is required, given what the dominating tests
// (or, for a block entered from several tests, each entering edge) establish.
func (tt *typeTerms) assignableAt(have, want string, b *ssa.BasicBlock) bool {
	if assignableUnder(have, want, tt.typeGuards(b)) {
		return true
	}
	if tt.ptrOfElem(have, want, b) {
		return true
	}
	if len(b.Preds) > 1 {
		for _, p := range b.Preds {
			okEdge := false
			for i, s := range p.Succs {
				if s == b && assignableUnder(have, want, tt.edgeFacts(p, i)) {
					okEdge = true
				}
			}
			if !okEdge {
				return false
			}
		}
		return true
	}
	return false
}

// ptrOfElem: have = Ptr(Elem(want)) where want is known to be a pointer kind in block b (switch case on want.Kind()).
func (tt *typeTerms) ptrOfElem(have, want string, b *ssa.BasicBlock) bool {
	if have != "Ptr("+tElem(want)+")" {
		return false
	}
	for d := b; d != nil && d.Idom() != nil; d = d.Idom() {
		id := d.Idom()
		iff, ok := id.Instrs[len(id.Instrs)-1].(*ssa.If)
		if !ok {
			continue
		}
		k, K := kindCmp(iff.Cond)
		if k == nil || K != 22 {
			continue
		}
		kc, ok := k.(*ssa.Call)
		if !ok || !kc.Call.IsInvoke() || tt.tyterm(kc.Call.Value) != want {
			continue
		}
		if edgeOnly(id, 0, d) {
			return true
		}
	}
	return false
}

// spilledValue: v loads a local that is stored exactly once in its function and never stored by the closures capturing it
// (a parameter or local spilled to memory because a closure refers to it); the load denotes the stored value.
func spilledValue(v ssa.Value) ssa.Value {
	u, ok := v.(*ssa.UnOp)
	if !ok || u.Op != token.MUL {
		return nil
	}
	al, ok := u.X.(*ssa.Alloc)
	if !ok {
		return nil
	}
	return allocSingleValue(al)
}

// allocSingleValue: the one value ever stored into local al (nil if it is stored more than once, stored by a closure that
// captures it, or its address escapes).
func allocSingleValue(al *ssa.Alloc) ssa.Value {
	var val ssa.Value
	n := 0
	for _, ref := range *al.Referrers() {
		switch x := ref.(type) {
		case *ssa.Store:
			if x.Addr == ssa.Value(al) {
				n++
				val = x.Val
			} else {
				return nil // the address itself is stored somewhere: aliased
			}
		case *ssa.MakeClosure:
			cfn := x.Fn.(*ssa.Function)
			for i, b := range x.Bindings {
				if b != ssa.Value(al) {
					continue
				}
				for _, r2 := range *cfn.FreeVars[i].Referrers() {
					if st, ok := r2.(*ssa.Store); ok && st.Addr == ssa.Value(cfn.FreeVars[i]) {
						return nil
					}
					if _, isLoad := r2.(*ssa.UnOp); !isLoad {
						if _, isDbg := r2.(*ssa.DebugRef); !isDbg {
							if _, isStore := r2.(*ssa.Store); !isStore {
								return nil // handed on by the closure
							}
						}
					}
				}
			}
		case *ssa.UnOp:
		default:
			if _, isDbg := ref.(*ssa.DebugRef); !isDbg {
				return nil // address escapes
			}
		}
	}
	if n == 1 {
		return val
	}
	return nil
}

// kindTermOf: v is the reflect.Kind of a type term (t.Kind() on a reflect.Type, or v.Kind() on a reflect.Value): returns that term.
func (tt *typeTerms) kindTermOf(v ssa.Value) string {
	c, ok := v.(*ssa.Call)
	if !ok {
		return ""
	}
	if c.Call.IsInvoke() && c.Call.Method.Name() == "Kind" && c.Call.Value.Type().String() == "reflect.Type" {
		return tt.tyterm(c.Call.Value)
	}
	if reflectMethod(c) == "Kind" {
		return tt.vtype(c.Call.Args[0])
	}
	return ""
}

// kindKnown: in block b the type denoted by term is known to have kind K, from dominating tests `kind(T) == K` and `kind(T) == kind(U)`.
func (tt *typeTerms) kindKnown(term string, K int64, b *ssa.BasicBlock) bool {
	consts := map[string]int64{}
	var eqs [][2]string
	for d := b; d != nil && d.Idom() != nil; d = d.Idom() {
		id := d.Idom()
		iff, ok := id.Instrs[len(id.Instrs)-1].(*ssa.If)
		if !ok {
			continue
		}
		bo, ok := iff.Cond.(*ssa.BinOp)
		if !ok || bo.Op != token.EQL || bo.X.Type().String() != "reflect.Kind" {
			continue
		}
		if !edgeOnly(id, 0, d) {
			continue
		}
		x := tt.kindTermOf(bo.X)
		if x == "" {
			continue
		}
		if c, ok := bo.Y.(*ssa.Const); ok && c.Value != nil {
			consts[x] = c.Int64()
		} else if y := tt.kindTermOf(bo.Y); y != "" {
			eqs = append(eqs, [2]string{x, y})
		}
	}
	for i := 0; i < 3; i++ {
		for _, e := range eqs {
			if k, ok := consts[e[0]]; ok {
				consts[e[1]] = k
			}
			if k, ok := consts[e[1]]; ok {
				consts[e[0]] = k
			}
		}
	}
	k, ok := consts[term]
	return ok && k == K
}

// condCalls: the calls with an error result whose success the type term of v relies on (conversions through a result-type summary).
func (tt *typeTerms) condCalls(v ssa.Value, seen map[ssa.Value]bool, out map[*ssa.Call]bool) {
	if v == nil || seen[v] {
		return
	}
	seen[v] = true
	if sv, _ := tt.resolveLoad(v); sv != nil {
		tt.condCalls(sv, seen, out)
		return
	}
	if sv := spilledValue(v); sv != nil {
		tt.condCalls(sv, seen, out)
		return
	}
	switch x := v.(type) {
	case *ssa.Phi:
		for _, e := range x.Edges {
			tt.condCalls(e, seen, out)
		}
	case *ssa.Extract:
		if c, ok := x.Tuple.(*ssa.Call); ok {
			callee := staticCallee(c)
			_, a := tt.resTypeParam[callee]
			_, b := tt.resLikeParam[callee]
			if callee != nil && (a || b) && isErrorType(callee.Signature.Results().At(callee.Signature.Results().Len()-1).Type()) {
				out[c] = true
			}
		}
	case *ssa.Call:
		switch reflectMethod(x) {
		case "Elem", "Index", "Slice", "Slice3", "Field", "FieldByIndex", "Addr", "MapIndex":
			tt.condCalls(x.Call.Args[0], seen, out)
		}
		if o := calleeObj(x); o != nil && o.Pkg() != nil && o.Pkg().Path() == "reflect" && (o.Name() == "Append" || o.Name() == "AppendSlice" || o.Name() == "Indirect") {
			tt.condCalls(x.Call.Args[0], seen, out)
		}
	}
}

// succeeded: block b is only reached when call c returned a nil error (its error result is tested and b lies on the nil side).
func (tt *typeTerms) succeeded(c *ssa.Call, b *ssa.BasicBlock) bool {
	var errEx ssa.Value
	n := c.Call.Signature().Results().Len()
	for _, ref := range *c.Referrers() {
		if ex, ok := ref.(*ssa.Extract); ok && ex.Index == n-1 {
			errEx = ex
		}
	}
	if errEx == nil {
		return false
	}
	for d := b; d != nil && d.Idom() != nil; d = d.Idom() {
		id := d.Idom()
		iff, ok := id.Instrs[len(id.Instrs)-1].(*ssa.If)
		if !ok {
			continue
		}
		bo, ok := iff.Cond.(*ssa.BinOp)
		if !ok || !isNilConst(bo.Y) || !tt.sameErr(bo.X, errEx) {
			continue
		}
		edge := 1
		if bo.Op == token.EQL {
			edge = 0
		} else if bo.Op != token.NEQ {
			continue
		}
		other := 1 - edge
		_ = other
		if edgeOnly(id, edge, d) {
			return true
		}
	}
	return false
}

// unchecked: the first conversion the type of v relies on whose error is not tested before block b ("" if none).
func (tt *typeTerms) unchecked(v ssa.Value, b *ssa.BasicBlock) string {
	calls := map[*ssa.Call]bool{}
	tt.condCalls(v, map[ssa.Value]bool{}, calls)
	var bad []string
	for c := range calls {
		if !tt.succeeded(c, b) {
			bad = append(bad, staticCallee(c).Name()+" at line "+fmt.Sprint(tt.fn.Prog.Fset.Position(c.Pos()).Line))
		}
	}
	sort.Strings(bad)
	if len(bad) > 0 {
		return bad[0]
	}
	return ""
}

func tupleOf(v ssa.Value) ssa.Value {
	if ex, ok := v.(*ssa.Extract); ok {
		return ex.Tuple
	}
	return nil
}
