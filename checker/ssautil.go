package main

import (
	"go/token"
	"go/types"

	"golang.org/x/tools/go/ssa"
)

// staticCallee returns the statically known callee of a call instruction, or nil.
func staticCallee(c ssa.CallInstruction) *ssa.Function {
	return c.Common().StaticCallee()
}

// calleeObj returns the types.Func called (static function/method or interface method).
func calleeObj(c ssa.CallInstruction) *types.Func {
	cc := c.Common()
	if cc.IsInvoke() {
		return cc.Method
	}
	if f := cc.StaticCallee(); f != nil {
		if o, ok := f.Object().(*types.Func); ok {
			return o
		}
	}
	return nil
}

// isFuncNamed reports whether fn is the function/method pkgPath.(recv).name. recv "" for plain functions.
func isFuncNamed(fn *types.Func, pkgPath, recv, name string) bool {
	if fn == nil || fn.Name() != name || fn.Pkg() == nil || fn.Pkg().Path() != pkgPath {
		return false
	}
	sig := fn.Type().(*types.Signature)
	if recv == "" {
		return sig.Recv() == nil
	}
	if sig.Recv() == nil {
		return false
	}
	t := sig.Recv().Type()
	if p, ok := t.(*types.Pointer); ok {
		t = p.Elem()
	}
	if n, ok := t.(*types.Named); ok {
		return n.Obj().Name() == recv
	}
	return false
}

// instrPos gives the best position for an instruction.
func instrPos(in ssa.Instruction) token.Pos {
	if in.Pos().IsValid() {
		return in.Pos()
	}
	if v, ok := in.(ssa.Value); ok {
		for _, r := range *v.Referrers() {
			if r.Pos().IsValid() {
				return r.Pos()
			}
		}
	}
	// fall back to nearest positioned instruction in block
	b := in.Block()
	for _, i2 := range b.Instrs {
		if i2.Pos().IsValid() {
			return i2.Pos()
		}
	}
	return in.Parent().Pos()
}

// instrIndex returns the index of in within its block.
func instrIndex(in ssa.Instruction) int {
	for i, x := range in.Block().Instrs {
		if x == in {
			return i
		}
	}
	return -1
}

// instrDominates reports whether a is executed before b on every path to b.
func instrDominates(a, b ssa.Instruction) bool {
	if a.Block() == b.Block() {
		return instrIndex(a) < instrIndex(b)
	}
	return a.Block().Dominates(b.Block())
}

// backEdges returns the natural-loop back edges (latch -> header) of f.
func backEdges(f *ssa.Function) [][2]*ssa.BasicBlock {
	var out [][2]*ssa.BasicBlock
	for _, b := range f.Blocks {
		for _, s := range b.Succs {
			if s.Dominates(b) {
				out = append(out, [2]*ssa.BasicBlock{b, s})
			}
		}
	}
	return out
}

// loopBody returns the blocks of the natural loop of back edge latch->header.
func loopBody(latch, header *ssa.BasicBlock) map[*ssa.BasicBlock]bool {
	body := map[*ssa.BasicBlock]bool{header: true}
	var stack []*ssa.BasicBlock
	if !body[latch] {
		body[latch] = true
		stack = append(stack, latch)
	}
	for len(stack) > 0 {
		b := stack[len(stack)-1]
		stack = stack[:len(stack)-1]
		for _, p := range b.Preds {
			if !body[p] {
				body[p] = true
				stack = append(stack, p)
			}
		}
	}
	return body
}

// Loop is a natural loop (all back edges to one header merged).
type Loop struct {
	Header  *ssa.BasicBlock
	Latches []*ssa.BasicBlock
	Body    map[*ssa.BasicBlock]bool
}

func loopsOf(f *ssa.Function) []*Loop {
	byHeader := map[*ssa.BasicBlock]*Loop{}
	var order []*ssa.BasicBlock
	for _, e := range backEdges(f) {
		l := byHeader[e[1]]
		if l == nil {
			l = &Loop{Header: e[1], Body: map[*ssa.BasicBlock]bool{}}
			byHeader[e[1]] = l
			order = append(order, e[1])
		}
		l.Latches = append(l.Latches, e[0])
		for b := range loopBody(e[0], e[1]) {
			l.Body[b] = true
		}
	}
	var out []*Loop
	for _, h := range order {
		out = append(out, byHeader[h])
	}
	return out
}

// reachable computes blocks reachable from start without entering blocked blocks.
func reachable(start *ssa.BasicBlock, blocked func(*ssa.BasicBlock) bool) map[*ssa.BasicBlock]bool {
	seen := map[*ssa.BasicBlock]bool{}
	var stack []*ssa.BasicBlock
	if blocked == nil || !blocked(start) {
		seen[start] = true
		stack = append(stack, start)
	}
	for len(stack) > 0 {
		b := stack[len(stack)-1]
		stack = stack[:len(stack)-1]
		for _, s := range b.Succs {
			if seen[s] || (blocked != nil && blocked(s)) {
				continue
			}
			seen[s] = true
			stack = append(stack, s)
		}
	}
	return seen
}

// derefType strips one pointer.
func derefType(t types.Type) types.Type {
	if p, ok := t.Underlying().(*types.Pointer); ok {
		return p.Elem()
	}
	return t
}

// namedOf returns the *types.Named behind t (through one pointer), or nil.
func namedOf(t types.Type) *types.Named {
	if t == nil {
		return nil
	}
	if p, ok := t.(*types.Pointer); ok {
		t = p.Elem()
	}
	n, _ := t.(*types.Named)
	return n
}

// isNamed reports whether t (through one pointer) is the named type pkgPath.name.
func isNamed(t types.Type, pkgPath, name string) bool {
	n := namedOf(t)
	return n != nil && n.Obj().Name() == name && n.Obj().Pkg() != nil && n.Obj().Pkg().Path() == pkgPath
}

// fieldOf returns the struct field addressed by a FieldAddr/Field instruction.
func fieldOfAddr(fa *ssa.FieldAddr) *types.Var {
	st := derefType(fa.X.Type()).Underlying().(*types.Struct)
	return st.Field(fa.Field)
}

func fieldOfVal(fv *ssa.Field) *types.Var {
	st := fv.X.Type().Underlying().(*types.Struct)
	return st.Field(fv.Field)
}

// isNilConst reports whether v is the constant nil.
func isNilConst(v ssa.Value) bool {
	c, ok := v.(*ssa.Const)
	return ok && c.IsNil()
}

// unwrapChangeInterface strips MakeInterface/ChangeInterface/ChangeType conversions.
func stripConv(v ssa.Value) ssa.Value {
	for {
		switch x := v.(type) {
		case *ssa.MakeInterface:
			v = x.X
		case *ssa.ChangeInterface:
			v = x.X
		case *ssa.ChangeType:
			v = x.X
		default:
			return v
		}
	}
}

// edgeOnly: block d is reached only through the edge from `id` to its successor number i
// (the successor is d or dominates d, and is entered from `id` alone, back edges of its own loops aside).
func edgeOnly(id *ssa.BasicBlock, i int, d *ssa.BasicBlock) bool {
	succ := id.Succs[i]
	if succ != d && !succ.Dominates(d) {
		return false
	}
	for _, p := range succ.Preds {
		if p != id && !succ.Dominates(p) {
			return false
		}
	}
	// both edges of id may lead to the same block
	return id.Succs[1-i] != succ
}
