package main

import (
	"fmt"
	"go/token"
	"go/types"
	"sort"
	"strings"

	"golang.org/x/tools/go/ssa"
)

func init() { register("C13", "an environment is safe to share between goroutines", checkC13) }

// lock states
const (
	lkUnlocked = iota
	lkR
	lkW
)

type lockInfo struct {
	mode     int
	deferred bool            // an unlock of the matching mode is deferred
	acq      ssa.Instruction // acquiring instruction (identifies the critical section)
}

type lockState map[ssa.Value]lockInfo

func (s lockState) clone() lockState {
	o := lockState{}
	for k, v := range s {
		o[k] = v
	}
	return o
}

func (s lockState) equal(o lockState) bool {
	if len(s) != len(o) {
		return false
	}
	for k, v := range s {
		if o[k] != v {
			return false
		}
	}
	return true
}

// envModel locates the guarded state of package env by type, not by name.
type envModel struct {
	p        *Program
	sp       *ssa.Package
	envT     *types.Named
	mutexIdx int
	tables   map[int]string // field index -> name (map-typed fields)
	parentI  int
	extI     int
	// entryLock: for an unexported function of the package that is only ever called with the lock of an argument scope held
	// ("the caller holds the lock"), the lock state it starts in (computed from all its call sites)
	entryLock map[*ssa.Function]lockState
	entryDone bool
}

func buildEnvModel(p *Program) (*envModel, error) {
	sp := p.SSAPkg("env")
	if sp == nil {
		return nil, fmt.Errorf("package env not loaded")
	}
	tn, ok := sp.Pkg.Scope().Lookup("Env").(*types.TypeName)
	if !ok {
		return nil, fmt.Errorf("type env.Env not found")
	}
	m := &envModel{p: p, sp: sp, envT: tn.Type().(*types.Named), mutexIdx: -1, parentI: -1, extI: -1, tables: map[int]string{}}
	st, ok := m.envT.Underlying().(*types.Struct)
	if !ok {
		return nil, fmt.Errorf("env.Env is not a struct")
	}
	for i := 0; i < st.NumFields(); i++ {
		f := st.Field(i)
		switch {
		case isNamed(f.Type(), "sync", "RWMutex") || isNamed(f.Type(), "sync", "Mutex"):
			m.mutexIdx = i
		case isNamed(f.Type(), modPath+"/env", "Env"):
			m.parentI = i
		default:
			if _, ok := f.Type().Underlying().(*types.Map); ok {
				m.tables[i] = f.Name()
			} else if types.IsInterface(f.Type()) {
				m.extI = i
			}
		}
	}
	if m.mutexIdx < 0 || len(m.tables) < 2 || m.parentI < 0 {
		return nil, fmt.Errorf("env.Env: mutex/tables/parent fields not found (mutex=%d tables=%d parent=%d)", m.mutexIdx, len(m.tables), m.parentI)
	}
	return m, nil
}

func (m *envModel) isEnvPtr(t types.Type) bool {
	p, ok := t.(*types.Pointer)
	return ok && p.Elem() == types.Type(m.envT)
}

// mutexOp: call is Lock/RLock/Unlock/RUnlock on base.rwMutex → (base, op)
func (m *envModel) mutexOp(c *ssa.CallCommon) (ssa.Value, string) {
	callee := c.StaticCallee()
	if callee == nil || len(c.Args) == 0 {
		return nil, ""
	}
	o, _ := callee.Object().(*types.Func)
	if o == nil || o.Pkg() == nil || o.Pkg().Path() != "sync" {
		return nil, ""
	}
	switch o.Name() {
	case "Lock", "RLock", "Unlock", "RUnlock", "TryLock", "TryRLock":
	default:
		return nil, ""
	}
	fa, ok := c.Args[0].(*ssa.FieldAddr)
	if !ok || fa.Field != m.mutexIdx || !m.isEnvPtr(fa.X.Type()) {
		return nil, ""
	}
	return fa.X, o.Name()
}

// tableAccess describes one access to a guarded table.
type tableAccess struct {
	in    ssa.Instruction
	base  ssa.Value
	field int
	write bool
	what  string
}

// accessesOf enumerates every access to values/types in fn (field loads, stores, and every use of a loaded map).
func (m *envModel) accessesOf(fn *ssa.Function) []tableAccess {
	var out []tableAccess
	for _, b := range fn.Blocks {
		for _, in := range b.Instrs {
			fa, ok := in.(*ssa.FieldAddr)
			if !ok || !m.isEnvPtr(fa.X.Type()) {
				continue
			}
			if _, ok := m.tables[fa.Field]; !ok {
				continue
			}
			for _, ref := range *fa.Referrers() {
				switch x := ref.(type) {
				case *ssa.Store:
					if x.Addr == ssa.Value(fa) {
						out = append(out, tableAccess{x, fa.X, fa.Field, true, "store to field"})
					}
				case *ssa.UnOp:
					out = append(out, tableAccess{x, fa.X, fa.Field, false, "load of field"})
					out = append(out, m.mapUses(x, fa.X, fa.Field, map[ssa.Value]bool{})...)
				default:
					out = append(out, tableAccess{ref, fa.X, fa.Field, true, "address of field escapes"})
				}
			}
		}
	}
	return out
}

func (m *envModel) mapUses(mv ssa.Value, base ssa.Value, field int, seen map[ssa.Value]bool) []tableAccess {
	var out []tableAccess
	if seen[mv] {
		return out
	}
	seen[mv] = true
	for _, ref := range *mv.Referrers() {
		switch x := ref.(type) {
		case *ssa.Lookup:
			out = append(out, tableAccess{x, base, field, false, "lookup"})
		case *ssa.MapUpdate:
			if x.Map == mv {
				out = append(out, tableAccess{x, base, field, true, "map update"})
			}
		case *ssa.Range:
			out = append(out, tableAccess{x, base, field, false, "range"})
			for _, r2 := range *x.Referrers() {
				if nx, ok := r2.(*ssa.Next); ok {
					out = append(out, tableAccess{nx, base, field, false, "range step"})
				}
			}
		case *ssa.Call:
			if bi, ok := x.Call.Value.(*ssa.Builtin); ok {
				switch bi.Name() {
				case "len":
					out = append(out, tableAccess{x, base, field, false, "len"})
				case "delete":
					out = append(out, tableAccess{x, base, field, true, "delete"})
				default:
					out = append(out, tableAccess{x, base, field, true, "builtin " + bi.Name()})
				}
			} else {
				// a helper of the same package that only reads (or only reads and writes) the table it is handed works on the
				// table under the caller's lock: the call is one read (write) access. A helper that lets the table out - returns
				// it, stores it, passes it on to code outside the package - is reported as before.
				if what, write, ok := m.helperUse(x, mv, 0); ok {
					out = append(out, tableAccess{x, base, field, write, what})
				} else {
					out = append(out, tableAccess{x, base, field, true, "table passed to a call"})
				}
			}
		case *ssa.BinOp: // comparison with nil
			out = append(out, tableAccess{x, base, field, false, "nil test"})
		case *ssa.Phi:
			out = append(out, m.mapUses(x, base, field, seen)...)
		case *ssa.Store:
			out = append(out, tableAccess{x, base, field, true, "table stored elsewhere (aliasing)"})
		case *ssa.MakeInterface, *ssa.Return:
			out = append(out, tableAccess{ref, base, field, true, "table escapes"})
		}
	}
	return out
}

// helperUse summarises what a function of the analysed package does with the table passed to it as an argument.
// helperUseOfParam: what function callee does with its parameter i (a table): ok=false when the table can get out.
func (m *envModel) helperUseOfParam(callee *ssa.Function, i int) (what string, write bool, ok bool) {
	if callee == nil || len(callee.Blocks) == 0 || i >= len(callee.Params) {
		return "", false, false
	}
	fake := &ssa.Call{}
	fake.Call.Value = callee
	for j := range callee.Params {
		if j == i {
			fake.Call.Args = append(fake.Call.Args, callee.Params[i]) // stands for "the argument": compared by identity below
		} else {
			fake.Call.Args = append(fake.Call.Args, nil)
		}
	}
	return m.helperUseArgs(callee, fake.Call.Args, callee.Params[i], 0)
}

func (m *envModel) helperUse(c *ssa.Call, mv ssa.Value, depth int) (what string, write bool, ok bool) {
	callee := staticCallee(c)
	if callee == nil || len(callee.Blocks) == 0 || callee.Pkg != c.Parent().Pkg || depth > 2 {
		return "", false, false
	}
	return m.helperUseArgs(callee, c.Call.Args, mv, depth)
}

func (m *envModel) helperUseArgs(callee *ssa.Function, args []ssa.Value, mv ssa.Value, depth int) (what string, write bool, ok bool) {
	kinds := map[string]bool{}
	for i, a := range args {
		if a != mv || i >= len(callee.Params) {
			continue
		}
		var walk func(v ssa.Value, seen map[ssa.Value]bool) bool
		walk = func(v ssa.Value, seen map[ssa.Value]bool) bool {
			if seen[v] {
				return true
			}
			seen[v] = true
			if v.Referrers() == nil {
				return true
			}
			for _, ref := range *v.Referrers() {
				switch x := ref.(type) {
				case *ssa.DebugRef:
				case *ssa.Lookup:
					kinds["lookup"] = true
				case *ssa.MapUpdate:
					if x.Map != v {
						return false // the table stored as a value
					}
					kinds["map update"] = true
					write = true
				case *ssa.Range:
					kinds["range"] = true
				case *ssa.BinOp:
					kinds["nil test"] = true
				case *ssa.Phi:
					if !walk(x, seen) {
						return false
					}
				case *ssa.Call:
					if bi, isB := x.Call.Value.(*ssa.Builtin); isB {
						switch bi.Name() {
						case "len":
							kinds["len"] = true
						case "delete":
							kinds["delete"] = true
							write = true
						default:
							return false
						}
						continue
					}
					w2, wr2, ok2 := m.helperUse(x, v, depth+1)
					if !ok2 {
						return false
					}
					kinds[w2] = true
					write = write || wr2
				case *ssa.Return:
					if !knownNilIn(x.Block(), v) {
						return false // the table itself is handed back
					}
				default:
					return false // returned, stored, boxed, ...: the table gets out
				}
			}
			return true
		}
		if !walk(callee.Params[i], map[ssa.Value]bool{}) {
			return "", false, false
		}
	}
	var ks []string
	for k := range kinds {
		ks = append(ks, k)
	}
	sort.Strings(ks)
	return "used by helper " + callee.Name() + " (" + strings.Join(ks, ", ") + ")", write, true
}

// knownNilIn: block b is entered only through the nil side of a test `v == nil` (so v is nil throughout b).
func knownNilIn(b *ssa.BasicBlock, v ssa.Value) bool {
	if len(b.Preds) != 1 {
		return false
	}
	pr := b.Preds[0]
	iff, ok := pr.Instrs[len(pr.Instrs)-1].(*ssa.If)
	if !ok || pr.Succs[0] == pr.Succs[1] {
		return false
	}
	bo, ok := iff.Cond.(*ssa.BinOp)
	if !ok || bo.X != v || !isNilConst(bo.Y) {
		return false
	}
	return (bo.Op == token.EQL && pr.Succs[0] == b) || (bo.Op == token.NEQ && pr.Succs[1] == b)
}

// returnsFreshMap: every result the function returns is a map made in it (or nil).
func returnsFreshMap(fn *ssa.Function) bool { return returnsFreshMapAt(fn, 0, 0) }

// returnsFreshMapAt: result #k of every return of fn is a map made there, nil, or the fresh result of another function of
// the package.
func returnsFreshMapAt(fn *ssa.Function, k int, depth int) bool {
	if fn == nil || len(fn.Blocks) == 0 || depth > 3 {
		return false
	}
	n := 0
	var fresh func(v ssa.Value, seen map[ssa.Value]bool) bool
	fresh = func(v ssa.Value, seen map[ssa.Value]bool) bool {
		if seen[v] {
			return true
		}
		seen[v] = true
		switch x := v.(type) {
		case *ssa.MakeMap:
			return true
		case *ssa.Const:
			return x.Value == nil
		case *ssa.Phi:
			for _, e := range x.Edges {
				if !fresh(e, seen) {
					return false
				}
			}
			return true
		case *ssa.Call:
			if callee := staticCallee(x); callee != nil && callee.Pkg == fn.Pkg && callee != fn {
				return returnsFreshMapAt(callee, 0, depth+1)
			}
		case *ssa.Extract:
			if c, ok := x.Tuple.(*ssa.Call); ok {
				if callee := staticCallee(c); callee != nil && callee.Pkg == fn.Pkg && callee != fn {
					return returnsFreshMapAt(callee, x.Index, depth+1)
				}
			}
		case *ssa.UnOp:
			// a result spilled around the deferred calls: what was stored into the result variable
			if al, ok := x.X.(*ssa.Alloc); ok && x.Op == token.MUL {
				stores := 0
				for _, ref := range *al.Referrers() {
					if st, ok := ref.(*ssa.Store); ok && st.Addr == ssa.Value(al) {
						stores++
						if !fresh(st.Val, seen) {
							return false
						}
					}
				}
				return stores > 0
			}
		}
		return false
	}
	for _, b := range fn.Blocks {
		if ret, ok := b.Instrs[len(b.Instrs)-1].(*ssa.Return); ok {
			if b == fn.Recover {
				continue
			}
			if len(ret.Results) <= k {
				return false
			}
			if knownNilIn(b, ret.Results[k]) {
				n++
				continue
			}
			if !fresh(ret.Results[k], map[ssa.Value]bool{}) {
				return false
			}
			n++
		}
	}
	return n > 0
}

// isFresh reports whether v is an object allocated in this function (struct literal, new).
func isFresh(v ssa.Value) bool {
	_, ok := v.(*ssa.Alloc)
	return ok
}

// publishedBefore returns the instruction that hands the freshly allocated scope `base` to somebody else (stores the pointer,
// boxes it in an interface, passes it to a call other than its own mutex) and can run before `at`; nil when `at` still has
// the object to itself.
func (m *envModel) publishedBefore(base ssa.Value, at ssa.Instruction) ssa.Instruction {
	al, ok := base.(*ssa.Alloc)
	if !ok || al.Referrers() == nil {
		return nil
	}
	var best ssa.Instruction
	for _, u := range *al.Referrers() {
		esc := false
		switch x := u.(type) {
		case *ssa.Store:
			esc = x.Val == ssa.Value(al)
		case *ssa.MakeInterface, *ssa.ChangeType, *ssa.Convert:
			esc = true
		case ssa.CallInstruction:
			if b, _ := m.mutexOp(x.Common()); b != nil {
				continue
			}
			for _, a := range x.Common().Args {
				if a == ssa.Value(al) {
					esc = true
				}
			}
			if _, isGo := x.(*ssa.Go); isGo {
				esc = true
			}
		case *ssa.MakeClosure:
			esc = true
		}
		if !esc || u == at {
			continue
		}
		before := false
		if u.Block() == at.Block() {
			before = instrIndex(u) < instrIndex(at)
			if !before {
				// later in the same block: precedes only around a loop
				before = reachable(u.Block(), nil)[u.Block()] && blockInCycle(u.Block())
			}
		} else {
			before = reachable(u.Block(), nil)[at.Block()]
		}
		if before && (best == nil || instrPos(u) < instrPos(best)) {
			best = u
		}
	}
	return best
}

// blockInCycle reports whether b can reach itself.
func blockInCycle(b *ssa.BasicBlock) bool {
	for _, s := range b.Succs {
		if s == b || reachable(s, nil)[b] {
			return true
		}
	}
	return false
}

// lockset runs the forward dataflow and returns the state before every instruction.
// computeEntryLocks: an unexported function whose every use is a direct call from the package, each made while the caller
// holds the lock of the scope it passes (in one and the same mode), starts with that lock held; it does not own the lock, so
// returning with it is in order (recorded as deferred) and unlocking it is reported.
func (m *envModel) computeEntryLocks() {
	if m.entryDone {
		return
	}
	m.entryDone = true
	m.entryLock = map[*ssa.Function]lockState{}
	fns := SrcFuncs(m.sp)
	for iter := 0; iter < 4; iter++ {
		silent := NewReport("C13", "quick")
		states := map[*ssa.Function]map[ssa.Instruction]lockState{}
		for _, fn := range fns {
			states[fn] = m.lockset(fn, silent, "-")
		}
		next := map[*ssa.Function]lockState{}
		for _, callee := range fns {
			if callee.Object() == nil || callee.Object().Exported() || callee.Parent() != nil || len(callee.Blocks) == 0 {
				continue
			}
			// every reference to the function is a direct call
			onlyCalled, calls := true, 0
			entry := lockState{}
			first := true
			for _, caller := range fns {
				for _, b := range caller.Blocks {
					for _, in := range b.Instrs {
						c, isCall := in.(*ssa.Call)
						for _, op := range in.Operands(nil) {
							if *op == ssa.Value(callee) && !(isCall && c.Call.Value == ssa.Value(callee)) {
								onlyCalled = false
							}
						}
						if !isCall || staticCallee(c) != callee {
							continue
						}
						calls++
						st := states[caller][in]
						here := lockState{}
						for i, a := range c.Call.Args {
							if i < len(callee.Params) && m.isEnvPtr(a.Type()) {
								if li, ok := st[a]; ok && li.mode != lkUnlocked {
									here[callee.Params[i]] = lockInfo{mode: li.mode, deferred: true}
								}
							}
						}
						if first {
							entry, first = here, false
						} else {
							for k, v := range entry {
								if h, ok := here[k]; !ok || h.mode != v.mode {
									delete(entry, k)
								}
							}
						}
					}
				}
			}
			if onlyCalled && calls > 0 && len(entry) > 0 {
				next[callee] = entry
			}
		}
		same := len(next) == len(m.entryLock)
		for k, v := range next {
			if o, ok := m.entryLock[k]; !ok || !o.equal(v) {
				same = false
			}
		}
		m.entryLock = next
		if same {
			break
		}
	}
}

func (m *envModel) lockset(fn *ssa.Function, r *Report, rule string) map[ssa.Instruction]lockState {
	before := map[ssa.Instruction]lockState{}
	in := map[*ssa.BasicBlock]lockState{}
	if len(fn.Blocks) == 0 {
		return before
	}
	m.computeEntryLocks()
	in[fn.Blocks[0]] = lockState{}
	if e, ok := m.entryLock[fn]; ok {
		in[fn.Blocks[0]] = e.clone()
	}
	work := []*ssa.BasicBlock{fn.Blocks[0]}
	fname := funcName(fn)
	reported := map[string]bool{}
	fail := func(inst, site, msg string) {
		if !reported[inst] {
			reported[inst] = true
			r.Fail(rule, inst, site, msg)
		}
	}
	for len(work) > 0 {
		b := work[0]
		work = work[1:]
		st := in[b].clone()
		for _, ins := range b.Instrs {
			before[ins] = st.clone()
			var cc *ssa.CallCommon
			isDefer := false
			switch x := ins.(type) {
			case *ssa.Call:
				cc = &x.Call
			case *ssa.Defer:
				cc = &x.Call
				isDefer = true
			case *ssa.Go:
				cc = &x.Call
			case *ssa.Return:
				for base, li := range st {
					if li.mode != lkUnlocked && !li.deferred {
						fail(fname+"|return-holding-lock", m.p.Pos(instrPos(x)), "function returns while still holding the scope's lock (next operation on the scope deadlocks)")
					}
					_ = base
				}
			}
			if cc == nil {
				continue
			}
			base, op := m.mutexOp(cc)
			if base == nil {
				continue
			}
			site := m.p.Pos(instrPos(ins))
			cur := st[base]
			if isDefer {
				switch {
				case op == "RUnlock" && cur.mode == lkR, op == "Unlock" && cur.mode == lkW:
					cur.deferred = true
					st[base] = cur
				default:
					fail(fname+"|defer-"+op, site, "deferred "+op+" without holding the matching lock")
				}
				continue
			}
			switch op {
			case "Lock", "RLock":
				if cur.mode != lkUnlocked {
					fail(fname+"|relock", site, op+" while the same scope's lock is already held: self-deadlock")
				}
				mode := lkW
				if op == "RLock" {
					mode = lkR
				}
				st[base] = lockInfo{mode: mode, acq: ins}
			case "Unlock":
				if cur.mode != lkW || cur.deferred {
					fail(fname+"|unlock-unheld", site, "Unlock without holding the write lock")
				}
				delete(st, base)
			case "RUnlock":
				if cur.mode != lkR || cur.deferred {
					fail(fname+"|runlock-unheld", site, "RUnlock without holding the read lock")
				}
				delete(st, base)
			default:
				fail(fname+"|"+op, site, "unsupported mutex operation "+op)
			}
		}
		for _, s := range b.Succs {
			old, seen := in[s]
			if !seen {
				in[s] = st.clone()
				work = append(work, s)
				continue
			}
			if !old.equal(st) {
				// states must agree at joins, ignoring which instruction acquired
				agree := len(old) == len(st)
				for k, v := range st {
					if o, ok := old[k]; !ok || o.mode != v.mode || o.deferred != v.deferred {
						agree = false
					}
				}
				if !agree {
					fail(fname+"|join", m.p.Pos(instrPos(s.Instrs[0])), "lock state differs between the paths joining here")
				} else {
					// merge acquisition identity: different acquisitions → mark as mixed (nil acq)
					merged := old.clone()
					changed := false
					for k, v := range st {
						if merged[k].acq != v.acq && merged[k].acq != nil {
							li := merged[k]
							li.acq = nil
							merged[k] = li
							changed = true
						}
					}
					if changed {
						in[s] = merged
						work = append(work, s)
					}
				}
			}
		}
	}
	return before
}

func checkC13(p *Program, r *Report) {
	r.Explain("C13: lockset/typestate analysis of package env on SSA (closed world: all guarded fields are unexported). " +
		"R1 every access to the values/types tables of a scope that is not freshly allocated in the same function (field load, nil test, len, lookup, range and each range step, map update, delete, field store, any escape of the map) happens while that scope's RWMutex is held in a sufficient mode (read: RLock or Lock; write: Lock). " +
		"R2 Lock/Unlock pairing on every path: no return while holding, no unlock without holding, states agree at joins, deferred unlocks accounted. " +
		"R3 no call, while a scope's lock is held, of a method that acquires the lock of the same scope; nested acquisition only towards the parent chain. " +
		"R4 check-then-act: a table write that is control-dependent on a lookup of the same table happens in the lookup's critical section. " +
		"R5 a function that reads both tables of one scope (Copy, String) reads them inside one critical section.")
	r.Assume("sync.RWMutex is correct; the externalLookup field is not guarded (SetExternalLookup is not among the operations the property lists); linearizability across several scopes (SetValue/GetValue walking the chain) is a sequence of per-scope atomic steps and is not decided")
	r.Exhaustive = true
	m, err := buildEnvModel(p)
	if err != nil {
		r.Undecided("C13.R1", "model", "env", err.Error())
		return
	}
	fns := SrcFuncs(m.sp)
	locksNotCopied(p, r, fns, "C13.R6")
	// R7: what a table holds is replaced under the lock, never written in place: the lookups hand the stored reflect.Value out
	// and their callers read it (Interface, IsValid) after the lock is released, and Copy duplicates the handles
	r.Explain("R7 package env never writes the storage behind a stored value (no reflect.Value.Set*): the lookups return the stored handle and it is read after the lock is released, and a copy holds the same handles.")
	nSet := 0
	for _, fn := range fns {
		for _, b := range fn.Blocks {
			for _, in := range b.Instrs {
				if c, ok := in.(*ssa.Call); ok {
					if rm := reflectMethod(c); strings.HasPrefix(rm, "Set") {
						nSet++
						r.Fail("C13.R7", fmt.Sprintf("%s|in-place write #%d", funcName(fn), nSet), p.Pos(c.Pos()),
							"package env calls reflect.Value."+rm+": the storage behind a binding is written in place; readers that obtained the same handle under the lock read it after releasing it (Get, GetValue, the copy of a scope), so this write races with them and shows through every copy")
					}
				}
			}
		}
	}
	if nSet == 0 {
		r.OK("C13.R7", "bindings|replaced under the lock, never written in place", "env", "no reflect.Value.Set* call in package env")
	}
	// summaries: which methods lock their receiver (directly or through calls on the receiver)
	locksRecv := map[*ssa.Function]bool{}
	for changed := true; changed; {
		changed = false
		for _, fn := range fns {
			if locksRecv[fn] || len(fn.Params) == 0 || !m.isEnvPtr(fn.Params[0].Type()) {
				continue
			}
			recv := fn.Params[0]
			for _, b := range fn.Blocks {
				for _, in := range b.Instrs {
					c, ok := in.(ssa.CallInstruction)
					if !ok {
						continue
					}
					if base, op := m.mutexOp(c.Common()); base == ssa.Value(recv) && (op == "Lock" || op == "RLock") {
						locksRecv[fn] = true
						changed = true
					} else if callee := staticCallee(c); callee != nil && locksRecv[callee] && len(c.Common().Args) > 0 && c.Common().Args[0] == ssa.Value(recv) {
						locksRecv[fn] = true
						changed = true
					}
				}
			}
		}
	}
	nAcc, nFuncs, nLockOps := 0, 0, 0
	var funcsWithAccess []string
	// iterates: the tables of its first scope argument that a function of the package ranges over, itself or through helpers
	iterates := map[*ssa.Function]map[int]bool{}
	for changed := true; changed; {
		changed = false
		for _, g := range SrcFuncs(m.sp) {
			if len(g.Params) == 0 || !m.isEnvPtr(g.Params[0].Type()) {
				continue
			}
			add := func(f int) {
				if iterates[g] == nil {
					iterates[g] = map[int]bool{}
				}
				if !iterates[g][f] {
					iterates[g][f] = true
					changed = true
				}
			}
			for _, a := range m.accessesOf(g) {
				if a.base == ssa.Value(g.Params[0]) && !a.write && (a.what == "range" || a.what == "range step") {
					add(a.field)
				}
			}
			for _, b := range g.Blocks {
				for _, in := range b.Instrs {
					if c, ok := in.(*ssa.Call); ok && staticCallee(c) != nil && staticCallee(c) != g && len(c.Call.Args) > 0 && c.Call.Args[0] == ssa.Value(g.Params[0]) {
						for f := range iterates[staticCallee(c)] {
							add(f)
						}
					}
				}
			}
		}
	}

	for _, fn := range fns {
		accs := m.accessesOf(fn)
		hasLock := false
		for _, b := range fn.Blocks {
			for _, in := range b.Instrs {
				if c, ok := in.(ssa.CallInstruction); ok {
					if base, _ := m.mutexOp(c.Common()); base != nil {
						hasLock = true
						nLockOps++
					}
				}
			}
		}
		if len(accs) == 0 && !hasLock {
			continue
		}
		nFuncs++
		fname := funcName(fn)
		funcsWithAccess = append(funcsWithAccess, fname)
		before := m.lockset(fn, r, "C13.R2")
		r.OK("C13.R2", fname+"|pairing", p.Pos(fn.Pos()), "lock/unlock typestate computed on all paths")
		// R1
		sort.SliceStable(accs, func(i, j int) bool { return instrPos(accs[i].in) < instrPos(accs[j].in) })
		count := map[string]int{}
		for _, a := range accs {
			if isFresh(a.base) {
				if pub := m.publishedBefore(a.base, a.in); pub != nil && !strings.Contains(a.what, "escape") {
					nAcc++
					if st := before[a.in][a.base]; (a.write && st.mode != lkW) || (!a.write && st.mode == lkUnlocked) {
						r.Fail("C13.R1", fmt.Sprintf("%s|%s %s after the new scope was handed on", fname, a.what, m.tables[a.field]), p.Pos(instrPos(a.in)),
							fmt.Sprintf("the scope allocated here is handed to other code at %s and its %s table is accessed afterwards without its lock: from that point it is shared like any other scope", p.Pos(instrPos(pub)), m.tables[a.field]))
					}
				}
				continue
			}
			nAcc++
			tname := m.tables[a.field]
			key := fmt.Sprintf("%s|%s %s", fname, a.what, tname)
			count[key]++
			inst := key
			if count[key] > 1 {
				inst = fmt.Sprintf("%s #%d", key, count[key])
			}
			site := p.Pos(instrPos(a.in))
			st := before[a.in]
			li := st[a.base]
			need := "read"
			if a.write {
				need = "write"
			}
			switch {
			case strings.Contains(a.what, "escape") || strings.Contains(a.what, "aliasing") || strings.Contains(a.what, "passed to a call"):
				r.Fail("C13.R1", inst, site, a.what+": the table can then be used without the lock")
			case a.write && li.mode != lkW:
				r.Fail("C13.R1", inst, site, fmt.Sprintf("%s of %s needs the write lock of its scope but it is %s here", a.what, tname, lockName(li.mode)))
			case !a.write && li.mode == lkUnlocked:
				r.Fail("C13.R1", inst, site, fmt.Sprintf("%s of %s without holding the scope's lock (data race with concurrent define)", a.what, tname))
			default:
				r.OK("C13.R1", inst, site, need+" access under "+lockName(li.mode))
			}
		}
		// R3: calls while holding
		for _, b := range fn.Blocks {
			for _, in := range b.Instrs {
				c, ok := in.(*ssa.Call)
				if !ok {
					continue
				}
				callee := staticCallee(c)
				st := before[in]
				held := 0
				for _, li := range st {
					if li.mode != lkUnlocked {
						held++
					}
				}
				if held == 0 {
					continue
				}
				if callee != nil && locksRecv[callee] && len(c.Call.Args) > 0 {
					recv := c.Call.Args[0]
					if li, ok := st[recv]; ok && li.mode != lkUnlocked {
						r.Fail("C13.R3", fname+"|calls "+funcName(callee)+" on locked scope", p.Pos(c.Pos()), "calls a method that locks the scope whose lock is already held: self-deadlock")
						continue
					}
					// nested acquisition: receiver must be the parent of a held base
					okNest := false
					if u, ok := recv.(*ssa.UnOp); ok {
						if fa, ok := u.X.(*ssa.FieldAddr); ok && fa.Field == m.parentI {
							if li, ok := st[fa.X]; ok && li.mode != lkUnlocked {
								okNest = true
							}
						}
					}
					r.Check(okNest, "C13.R3", fname+"|nested "+funcName(callee), p.Pos(c.Pos()),
						"nested acquisition goes from a scope to its parent only (parent chain is acyclic: C12.R5)",
						"acquires another scope's lock while holding one, not along the parent chain: lock-order inversion possible")
				}
				if c.Call.IsInvoke() {
					r.Advise(fmt.Sprintf("%s: interface call %s while holding the scope's lock (%s); a host implementation calling back into the scope would deadlock", fname, c.Call.Method.Name(), p.Pos(c.Pos())))
				}
			}
		}
		// R4: check-then-act
		for _, a := range accs {
			mu, ok := a.in.(*ssa.MapUpdate)
			if !ok || isFresh(a.base) {
				continue
			}
			for _, a2 := range accs {
				lk, ok := a2.in.(*ssa.Lookup)
				if !ok || !lk.CommaOk || a2.base != a.base || a2.field != a.field {
					continue
				}
				if !controlledByLookup(lk, mu.Block()) {
					continue
				}
				l1, l2 := before[lk][a.base], before[mu][a.base]
				same := l1.acq != nil && l1.acq == l2.acq && l2.mode == lkW
				r.Check(same, "C13.R4", fname+"|check-then-act "+m.tables[a.field], p.Pos(mu.Pos()),
					"lookup and dependent update share one write-locked critical section",
					"the update depends on a lookup made in a different critical section: a concurrent delete/define between them is lost or resurrected")
			}
		}
		// R5: both tables read in one critical section
		readsByField := map[int][]ssa.Instruction{}
		var base0 ssa.Value
		for _, a := range accs {
			if isFresh(a.base) || a.write {
				continue
			}
			if a.what == "range" || a.what == "range step" {
				readsByField[a.field] = append(readsByField[a.field], a.in)
				base0 = a.base
			}
		}
		// a table iterated by a helper of the package that is handed the scope: inside the caller's critical section when the
		// caller holds the lock at the call, otherwise a critical section of the helper's own (identified by the call)
		helperSection := map[ssa.Instruction]bool{}
		if len(fn.Params) > 0 && m.isEnvPtr(fn.Params[0].Type()) {
			for _, b := range fn.Blocks {
				for _, in := range b.Instrs {
					c, ok := in.(*ssa.Call)
					if !ok || staticCallee(c) == nil || len(c.Call.Args) == 0 {
						continue
					}
					fields := iterates[staticCallee(c)]
					if len(fields) == 0 || staticCallee(c) == fn {
						continue
					}
					a0 := c.Call.Args[0]
					if base0 != nil && a0 != base0 {
						continue
					}
					if !m.isEnvPtr(a0.Type()) || isFresh(a0) {
						continue
					}
					base0 = a0
					for f := range fields {
						readsByField[f] = append(readsByField[f], in)
					}
					if before[in][a0].mode == lkUnlocked {
						helperSection[in] = true
					}
				}
			}
		}
		if len(readsByField) >= 2 {
			var acq ssa.Instruction
			same := true
			for _, ins := range readsByField {
				for _, in := range ins {
					li := before[in][base0]
					if helperSection[in] {
						li.acq = in
					}
					if li.acq == nil {
						same = false
					} else if acq == nil {
						acq = li.acq
					} else if acq != li.acq {
						same = false
					}
				}
			}
			r.Check(same, "C13.R5", fname+"|snapshot", p.Pos(fn.Pos()), "both tables are iterated inside one critical section",
				"values and types are read in different critical sections: the copy/listing is not a consistent snapshot")
		}
	}
	// R8: host code is not called while a scope's lock is held. The external lookup is the host's; one that reads the scope it
	// is attached to (alias resolution, memoising) takes the read lock again, and with a writer queued between the two
	// acquisitions the operation, the writer and the lookup block for ever.
	nHost := 0
	for _, fn := range fns {
		var before map[ssa.Instruction]lockState
		for _, b := range fn.Blocks {
			for _, in := range b.Instrs {
				c, ok := in.(*ssa.Call)
				if !ok || !c.Call.IsInvoke() {
					continue
				}
				x, f, ok := fieldLoad(c.Call.Value)
				if !ok || f != m.extI || !m.isEnvPtr(x.Type()) {
					continue
				}
				if before == nil {
					before = m.lockset(fn, NewReport("C13", r.Tier), "-")
				}
				nHost++
				held := ""
				for base, li := range before[in] {
					if li.mode != lkUnlocked {
						held = describeVal(base)
					}
				}
				r.Check(held == "", "C13.R8", fmt.Sprintf("%s|external lookup %s called with no scope lock held", funcName(fn), c.Call.Method.Name()), p.Pos(c.Pos()),
					"no lock of a scope is held at the call",
					"the host's external lookup is called while the lock of "+held+" is held: a lookup that reads that scope takes the read lock again, and a writer queued in between blocks it, itself and this operation for ever")
			}
		}
	}
	r.Floor("C13.R8", nHost, 3)
	r.Floor("C13.R1", nAcc, 30)
	r.Floor("C13.R2", nFuncs, 12)
	r.Note("functions_with_guarded_access", funcsWithAccess)
	r.Note("lock_operations", nLockOps)
	var lr []string
	for f := range locksRecv {
		lr = append(lr, funcName(f))
	}
	sort.Strings(lr)
	r.Note("methods_locking_their_receiver", lr)
}

func lockName(m int) string {
	switch m {
	case lkR:
		return "RLock"
	case lkW:
		return "Lock"
	}
	return "unlocked"
}

// controlledByLookup: block b is dominated by the true edge of an If on the ok result of lk.
func controlledByLookup(lk *ssa.Lookup, b *ssa.BasicBlock) bool {
	for _, ref := range *lk.Referrers() {
		ex, ok := ref.(*ssa.Extract)
		if !ok || ex.Index != 1 {
			continue
		}
		for _, r2 := range *ex.Referrers() {
			iff, ok := r2.(*ssa.If)
			if !ok {
				continue
			}
			t := iff.Block().Succs[0]
			if (t == b || t.Dominates(b)) && len(t.Preds) == 1 {
				return true
			}
		}
	}
	return false
}

// containsLock: a value of type t carries a sync.Mutex / sync.RWMutex by value.
func containsLock(t types.Type, depth int) bool {
	if depth > 6 {
		return false
	}
	if _, isPtr := t.Underlying().(*types.Pointer); isPtr {
		return false
	}
	if isNamed(t, "sync", "Mutex") || isNamed(t, "sync", "RWMutex") {
		return true
	}
	switch u := t.Underlying().(type) {
	case *types.Struct:
		for i := 0; i < u.NumFields(); i++ {
			if containsLock(u.Field(i).Type(), depth+1) {
				return true
			}
		}
	case *types.Array:
		return containsLock(u.Elem(), depth+1)
	}
	return false
}

// locksNotCopied (C13.R6, C01.R7): no value that carries a lock is copied (loaded as a whole, stored as a whole, passed or
// returned by value). A copy of a scope taken while another goroutine is inside one of its operations is born with that
// goroutine's lock state and nobody to release it: the first operation on the copy blocks for ever.
func locksNotCopied(p *Program, r *Report, fns []*ssa.Function, rule string) {
	n := 0
	for _, fn := range fns {
		k := 0
		for _, b := range fn.Blocks {
			for _, in := range b.Instrs {
				v, ok := in.(ssa.Value)
				if !ok {
					continue
				}
				if _, isAlloc := in.(*ssa.Alloc); isAlloc {
					continue
				}
				if u, ok := in.(*ssa.UnOp); ok {
					if _, local := u.X.(*ssa.Alloc); local {
						continue // a value built in place in this function (composite literal): its lock was never in use
					}
				}
				if !containsLock(v.Type(), 0) {
					continue
				}
				k++
				r.Fail(rule, fmt.Sprintf("%s|lock copied #%d", funcName(fn), k), p.Pos(instrPos(in)), "a value of type "+v.Type().String()+" that carries a lock is copied as a whole: the copy inherits the lock state of that instant (held by another goroutine, it is never released) and the two copies no longer exclude each other")
			}
		}
		for _, par := range fn.Params {
			if containsLock(par.Type(), 0) {
				k++
				r.Fail(rule, fmt.Sprintf("%s|lock copied #%d", funcName(fn), k), p.Pos(fn.Pos()), "parameter "+par.Name()+" carries a lock and is passed by value")
			}
		}
		n++
	}
	r.OK(rule, "lock-carrying values|never copied", "-", fmt.Sprintf("%d functions inspected: every value of a lock-carrying type is handled through its address", n))
}
