package main

import (
	"fmt"
	"go/token"
	"go/types"
	"strings"

	"golang.org/x/tools/go/ssa"
)

func init() {
	register("C09", "errors reach the nearest try; deferred calls run once, LIFO, on every exit", checkC09)
}

// lenOfDefersTest: cond is len(base.defers) > 0 (or != 0).
func (m *vmModel) isDefersNonEmptyTest(cond ssa.Value, base ssa.Value) bool {
	bo, ok := cond.(*ssa.BinOp)
	if !ok || (bo.Op != token.GTR && bo.Op != token.NEQ) || !isZeroConst(bo.Y) {
		return false
	}
	c, ok := bo.X.(*ssa.Call)
	if !ok {
		return false
	}
	bi, ok := c.Call.Value.(*ssa.Builtin)
	return ok && bi.Name() == "len" && m.cellLoad(c.Call.Args[0], base) == "defers"
}

func checkC09(p *Program, r *Report) {
	r.Explain("C09: R1 every invocation root (a function that allocates a per-run record and runs a body) passes the deferred-call runner on every path from the body to a return, guarded at most by 'there are deferred calls'. " +
		"R2 the runner takes the list out of the record before running it (a re-entrant deferred call cannot run them again), registration appends at the tail and the runner walks from the last index down to 0 by -1 calling the single-call helper on element i (LIFO, each once). " +
		"R3 the runner restores the result value it found, and replaces the saved error by a deferred call's error exactly when the saved one is nil or the return signal. " +
		"R5 try: the catch block is control-dependent on an error of the try block, the catch variable is bound to that error in the try's scope before the error is cleared, finally lies on every exit on which the error cell can be nil, and an uncaught error leaves the handler unchanged. " +
		"R7 throw always raises an error carrying the statement's position. R8 the run's error result is the error cell. " +
		"R6 nothing runs after a failure: the error cell is provably nil at every evaluation event (the analysis of C07.R3). " +
		"(Arguments captured at the defer statement: C07.R6.)")
	r.Assume("texts of error messages and the behaviour of a blocked deferred callee are not decided; try catching break/continue/return is the known finding recorded under C08.R2")
	m, err := buildVMModel(p)
	if err != nil {
		r.Undecided("C09.R1", "model", "vm", err.Error())
		return
	}
	ea := buildErrAnalysis(m)
	va := ea.va

	// the runner
	var runner *ssa.Function
	for _, fn := range m.funcsOnRecord() {
		if m.storesNilToDefers(fn) {
			if _, isParam := m.baseOf(fn).(*ssa.Parameter); isParam {
				runner = fn
			}
		}
	}
	if runner == nil {
		r.Undecided("C09.R2", "runner", "vm", "deferred-call runner (function clearing the defers cell) not found")
		return
	}

	// R6: nothing runs after a failure: at every evaluation event the error cell is provably nil (the analysis C07.R3 uses,
	// read here for what the property says about errors: a statement or operand that starts while an error is pending both runs
	// after the failing point and can overwrite the error, which then never reaches a try)
	{
		evs := va
		if evs == nil {
			evs = buildEvalAnalysis(m)
		}
		nEv := 0
		for _, fn := range m.funcsOnRecord() {
			cnt := map[string]int{}
			for _, e := range evs.events[fn] {
				opnd := strings.Join(e.operands, "|")
				key := fmt.Sprintf("%s|%s %s", funcName(fn), e.role, normIdx(opnd))
				cnt[key]++
				inst := key
				if cnt[key] > 1 {
					inst = fmt.Sprintf("%s #%d", key, cnt[key])
				}
				st := ea.before[fn][e.call]
				if st == nil {
					continue
				}
				nEv++
				okNil := st.cell&^eNil == 0
				if !okNil && strings.HasSuffix(opnd, ".(IdentExpr)") && e.role == "let" {
					continue // write-back to a plain identifier: cannot fail, evaluates nothing
				}
				r.Check(okNil, "C09.R6", inst, p.Pos(e.call.Pos()), "the error cell is nil when this evaluation starts",
					"this evaluation can start while the run already failed with "+ea.bitName(st.cell&^eNil)+": code runs after the failing point, and the pending error can be overwritten before any try sees it")
			}
		}
		r.Floor("C09.R6", nEv, 95)
	}
	// R1
	nRoots := 0
	for _, fn := range m.funcsOnRecord() {
		base := m.baseOf(fn)
		if _, isParam := base.(*ssa.Parameter); isParam {
			continue
		}
		if _, isFree := base.(*ssa.FreeVar); isFree {
			continue
		}
		var body *ssa.Call
		for _, b := range fn.Blocks {
			for _, in := range b.Instrs {
				if c, ok := in.(*ssa.Call); ok && body == nil {
					if callee := m.calleeOnBase(c, base); callee != nil && (va.mayWrite[callee] || m.evalRole(c, base) != "") {
						body = c
					}
				}
			}
		}
		if body == nil {
			continue
		}
		nRoots++
		fname := funcName(fn)
		site := p.Pos(body.Pos())
		// the exit sequence of an invocation may live in a helper of its own that the roots share (run the statement, run the
		// deferred calls, clear the return marker): when the root's body call is such a helper - a function on the record that
		// is not an evaluator and that contains the evaluator call - the helper is judged in the root's place; the root must
		// reach it, which it does: it is the first call on the record
		if callee := m.calleeOnBase(body, base); callee != nil && m.evalRole(body, base) == "" && len(callee.Blocks) > 0 && callee != runner {
			hb := m.baseOf(callee)
			var inner *ssa.Call
			callsRunner := false
			for _, b := range callee.Blocks {
				for _, in := range b.Instrs {
					if c, ok := in.(*ssa.Call); ok {
						if c2 := m.calleeOnBase(c, hb); c2 != nil && inner == nil && (va.mayWrite[c2] || m.evalRole(c, hb) != "") && c2 != runner {
							inner = c
						}
						if staticCallee(c) == runner {
							callsRunner = true
						}
					}
				}
			}
			if inner != nil && callsRunner {
				fn, base, body = callee, hb, inner
				fname = fname + " through " + funcName(callee)
			}
		}
		// the body must not run under a recover handler of the very function that runs the deferred calls after it: a Go panic
		// in the body jumps to that handler and the function returns without the deferred calls having run
		underOwnRecover := ""
		for _, b := range fn.Blocks {
			for _, in := range b.Instrs {
				d, ok := in.(*ssa.Defer)
				if !ok {
					continue
				}
				if t := deferTarget(d); t != nil && callsRecover(t) && (instrDominates(d, body) || reachable(d.Block(), nil)[body.Block()]) {
					underOwnRecover = p.Pos(d.Pos())
				}
			}
		}
		if underOwnRecover != "" {
			// only a defect when the runner is called in this same function after the body
			for _, b := range fn.Blocks {
				for _, in := range b.Instrs {
					if c, ok := in.(*ssa.Call); ok && staticCallee(c) == runner && len(c.Call.Args) > 0 && c.Call.Args[0] == base {
						r.Fail("C09.R1", fname+"|runs-defers after a panic", p.Pos(c.Pos()), "the body and the call of the deferred-call runner stand under one recover handler (installed at "+underOwnRecover+"): a Go panic raised in the body is recovered after the runner was skipped - the deferred calls of that invocation never run")
					}
				}
			}
		}
		var guard *ssa.BasicBlock
		for _, b := range fn.Blocks {
			if iff, ok := b.Instrs[len(b.Instrs)-1].(*ssa.If); ok && m.isDefersNonEmptyTest(iff.Cond, base) {
				guard = b
			}
		}
		if guard == nil {
			// unguarded call of the runner is fine too
			var rc *ssa.Call
			for _, b := range fn.Blocks {
				for _, in := range b.Instrs {
					if c, ok := in.(*ssa.Call); ok && staticCallee(c) == runner && len(c.Call.Args) > 0 && c.Call.Args[0] == base {
						rc = c
					}
				}
			}
			if rc == nil {
				r.Fail("C09.R1", fname+"|runs-defers", site, "this invocation never runs its deferred calls")
				continue
			}
			guard = rc.Block()
		} else {
			hasCall := false
			for _, in := range guard.Succs[0].Instrs {
				if c, ok := in.(*ssa.Call); ok && staticCallee(c) == runner && len(c.Call.Args) > 0 && c.Call.Args[0] == base {
					hasCall = true
				}
			}
			if !hasCall {
				r.Fail("C09.R1", fname+"|runs-defers", site, "the 'there are deferred calls' branch does not call the runner")
				continue
			}
		}
		bad := ""
		if !(body.Block() == guard || body.Block().Dominates(guard)) {
			bad = "deferred calls can be run before the body"
		}
		for b := range reachable(body.Block(), nil) {
			if ret, ok := b.Instrs[len(b.Instrs)-1].(*ssa.Return); ok && b != fn.Recover {
				if !(guard == b || guard.Dominates(b)) {
					bad = "the exit at " + p.Pos(instrPos(ret)) + " (" + exitKey(ret) + ") is reached without running the deferred calls"
				}
			}
		}
		r.Check(bad == "", "C09.R1", fname+"|runs-defers", site, "every exit after the body passes the deferred-call runner", bad)
	}
	r.Floor("C09.R1", nRoots, 2)

	// R2/R3 on the runner
	rname := funcName(runner)
	rbase := m.baseOf(runner)
	rsite := p.Pos(runner.Pos())
	loops := loopsOf(runner)
	if len(loops) != 1 {
		r.Undecided("C09.R2", rname+"|loop", rsite, fmt.Sprintf("expected one loop in the runner, found %d", len(loops)))
	} else {
		l := loops[0]
		// list taken out before the loop
		var local ssa.Value
		var clear *ssa.Store
		for _, b := range runner.Blocks {
			for _, in := range b.Instrs {
				if u, ok := in.(*ssa.UnOp); ok && m.cellAddr(u.X, rbase) == "defers" && local == nil {
					local = u
				}
				if st, ok := in.(*ssa.Store); ok && m.cellAddr(st.Addr, rbase) == "defers" && isNilConst(st.Val) {
					clear = st
				}
			}
		}
		okTaken := local != nil && clear != nil && !l.Body[clear.Block()] && clear.Block().Dominates(l.Header) && instrDominates(local.(ssa.Instruction), clear)
		r.Check(okTaken, "C09.R2", rname+"|list-taken-out", rsite, "the list is read into a local and the cell cleared before any deferred call runs", "the deferred calls stay registered while they run: a deferred call that re-enters the runner runs them again")
		// descending induction and call with element i of the local list
		var phi *ssa.Phi
		for _, in := range l.Header.Instrs {
			if ph, ok := in.(*ssa.Phi); ok && ph.Type().String() == "int" {
				phi = ph
			}
		}
		okLIFO, why := false, "loop has no integer induction variable"
		if phi == nil && local != nil {
			// the other spelling of last-in-first-out: pop the last element while the list is not empty
			lenMinus1 := func(v ssa.Value, of ssa.Value) bool {
				bo, ok := v.(*ssa.BinOp)
				if !ok || bo.Op != token.SUB {
					return false
				}
				c, ok := bo.Y.(*ssa.Const)
				if !ok || c.Int64() != 1 {
					return false
				}
				lc, ok := bo.X.(*ssa.Call)
				if !ok {
					return false
				}
				bi, ok := lc.Call.Value.(*ssa.Builtin)
				return ok && bi.Name() == "len" && lc.Call.Args[0] == of
			}
			for _, in := range l.Header.Instrs {
				sp, ok := in.(*ssa.Phi)
				if !ok || !types.Identical(sp.Type(), local.Type()) {
					continue
				}
				fromLocal, shrinks := false, false
				for _, e := range sp.Edges {
					if e == local {
						fromLocal = true
					} else if sl, ok := e.(*ssa.Slice); ok && sl.X == ssa.Value(sp) && sl.Low == nil && sl.High != nil && lenMinus1(sl.High, sp) {
						shrinks = true
					}
				}
				nonEmpty := false
				if iff, ok := l.Header.Instrs[len(l.Header.Instrs)-1].(*ssa.If); ok {
					if bo, ok := iff.Cond.(*ssa.BinOp); ok && (bo.Op == token.GTR || bo.Op == token.NEQ) && isZeroConst(bo.Y) {
						if lc, ok := bo.X.(*ssa.Call); ok {
							if bi, ok := lc.Call.Value.(*ssa.Builtin); ok && bi.Name() == "len" && lc.Call.Args[0] == ssa.Value(sp) {
								nonEmpty = true
							}
						}
					}
				}
				runsLast := false
				for b := range l.Body {
					for _, in2 := range b.Instrs {
						c, ok := in2.(*ssa.Call)
						if !ok || m.calleeOnBase(c, rbase) == nil || len(c.Call.Args) < 2 {
							continue
						}
						if u, ok := c.Call.Args[1].(*ssa.UnOp); ok {
							if ia, ok := u.X.(*ssa.IndexAddr); ok && ia.X == ssa.Value(sp) && lenMinus1(ia.Index, sp) {
								runsLast = true
							}
						}
					}
				}
				if fromLocal && shrinks && nonEmpty && runsLast {
					okLIFO = true
				} else {
					why = "the loop over the saved list neither walks an index down from len-1 nor pops its last element while it is not empty"
				}
			}
		}
		if phi != nil {
			initOK, stepOK := false, false
			for _, e := range phi.Edges {
				if bo, ok := e.(*ssa.BinOp); ok {
					if bo.Op == token.SUB && bo.X == ssa.Value(phi) {
						if c, ok := bo.Y.(*ssa.Const); ok && c.Int64() == 1 {
							stepOK = true
						}
					} else if bo.Op == token.SUB {
						if c, ok := bo.Y.(*ssa.Const); ok && c.Int64() == 1 {
							if lc, ok := bo.X.(*ssa.Call); ok {
								if bi, ok := lc.Call.Value.(*ssa.Builtin); ok && bi.Name() == "len" && lc.Call.Args[0] == local {
									initOK = true
								}
							}
						}
					}
				}
			}
			condOK := false
			if iff, ok := l.Header.Instrs[len(l.Header.Instrs)-1].(*ssa.If); ok {
				if bo, ok := iff.Cond.(*ssa.BinOp); ok && bo.Op == token.GEQ && bo.X == ssa.Value(phi) && isZeroConst(bo.Y) {
					condOK = true
				}
			}
			callOK := false
			for b := range l.Body {
				for _, in := range b.Instrs {
					c, ok := in.(*ssa.Call)
					if !ok || m.calleeOnBase(c, rbase) == nil || len(c.Call.Args) < 2 {
						continue
					}
					if u, ok := c.Call.Args[1].(*ssa.UnOp); ok {
						if ia, ok := u.X.(*ssa.IndexAddr); ok && ia.X == local && ia.Index == ssa.Value(phi) {
							callOK = true
						}
					}
				}
			}
			switch {
			case !initOK:
				why = "the walk does not start at the last registered call"
			case !stepOK:
				why = "the walk does not step down by one"
			case !condOK:
				why = "the walk does not end at index 0"
			case !callOK:
				why = "the call run in the loop is not element i of the list taken out"
			default:
				okLIFO = true
			}
		}
		r.Check(okLIFO, "C09.R2", rname+"|LIFO-once", rsite, "walks i = len-1 … 0 by -1 and runs element i of the saved list", why)
	}
	// registration appends at the tail
	if h := m.handlers["stmt"]["DeferStmt"]; h != nil {
		hb := m.baseOf(h)
		okApp := false
		for _, b := range h.Blocks {
			for _, in := range b.Instrs {
				if st, ok := in.(*ssa.Store); ok && m.cellAddr(st.Addr, hb) == "defers" {
					if c, ok := st.Val.(*ssa.Call); ok {
						if bi, ok := c.Call.Value.(*ssa.Builtin); ok && bi.Name() == "append" && m.cellLoad(c.Call.Args[0], hb) == "defers" {
							okApp = true
						}
					}
				}
			}
		}
		r.Check(okApp, "C09.R2", funcName(h)+"|append-at-tail", p.Pos(h.Pos()), "registration appends to the record's list", "a deferred call is not appended at the tail of the record's list")
	} else {
		r.Undecided("C09.R2", "DeferStmt", "vm", "handler not found")
	}
	// R3: rv restored
	var rvEntry ssa.Value
	for _, in := range runner.Blocks[0].Instrs {
		if u, ok := in.(*ssa.UnOp); ok && m.cellAddr(u.X, rbase) == "rv" && rvEntry == nil {
			rvEntry = u
		}
		if c, ok := in.(*ssa.Call); ok && m.calleeOnBase(c, rbase) != nil {
			break
		}
	}
	for _, b := range runner.Blocks {
		ret, ok := b.Instrs[len(b.Instrs)-1].(*ssa.Return)
		if !ok {
			continue
		}
		// last store to rv in this block must be the entry value, and no call on the record after it
		var last *ssa.Store
		for _, in := range b.Instrs {
			if st, ok := in.(*ssa.Store); ok && m.cellAddr(st.Addr, rbase) == "rv" {
				last = st
			}
			if c, ok := in.(*ssa.Call); ok && m.calleeOnBase(c, rbase) != nil {
				last = nil
			}
		}
		r.Check(last != nil && rvEntry != nil && last.Val == rvEntry, "C09.R3", rname+"|result-restored", p.Pos(instrPos(ret)), "the result value found on entry is put back before returning", "deferred calls can alter the invocation's result value")
		_ = ret
	}
	checkDefersPrecedence(p, r, m, ea, runner, "C09.R3")

	// R5 try
	if h := m.handlers["stmt"]["TryStmt"]; h != nil {
		hb := m.baseOf(h)
		hname := funcName(h)
		var tryE, catchE, finE *evalEvent
		for _, e := range va.events[h] {
			for _, o := range e.operands {
				switch o {
				case "node.Try":
					tryE = e
				case "node.Catch":
					catchE = e
				case "node.Finally":
					finE = e
				}
			}
		}
		if tryE == nil || catchE == nil || finE == nil {
			r.Undecided("C09.R5", hname, p.Pos(h.Pos()), "try/catch/finally evaluation events not found")
		} else {
			// catch control-dependent on err != nil after try
			okDep := false
			for d := catchE.call.Block(); d != nil && d != tryE.call.Block(); d = d.Idom() {
				id := d.Idom()
				if id == nil {
					break
				}
				if iff, ok := id.Instrs[len(id.Instrs)-1].(*ssa.If); ok {
					if bo, ok := iff.Cond.(*ssa.BinOp); ok && bo.Op == token.NEQ && isNilConst(bo.Y) && m.cellLoad(bo.X, hb) == "err" && edgeOnly(id, 0, d) {
						if tryE.call.Block() == id || tryE.call.Block().Dominates(id) {
							okDep = true
						}
					}
				}
			}
			r.Check(okDep, "C09.R5", hname+"|catch-on-error", p.Pos(catchE.call.Pos()), "catch runs only when the try block left an error", "the catch block is not conditional on an error of the try block")
			// catch variable bound to the error before it is cleared
			okBind := false
			for _, b := range h.Blocks {
				for _, in := range b.Instrs {
					c, ok := in.(*ssa.Call)
					if !ok {
						continue
					}
					if o := calleeObj(c); o != nil && isFuncNamed(o, modPath+"/env", "Env", "DefineValue") && m.cellLoad(c.Call.Args[0], hb) == "env" && len(c.Call.Args) == 3 {
						if vc, ok := c.Call.Args[2].(*ssa.Call); ok {
							if vo := calleeObj(vc); vo != nil && isFuncNamed(vo, "reflect", "", "ValueOf") && m.cellLoad(stripConv(vc.Call.Args[0]), hb) == "err" {
								// before the catch event and before the clearing store
								if (c.Block() == catchE.call.Block() && instrIndex(c) < instrIndex(catchE.call)) ||
									(c.Block() != catchE.call.Block() && reachable(c.Block(), nil)[catchE.call.Block()] && !reachable(catchE.call.Block(), nil)[c.Block()]) {
									okBind = true
									for _, in2 := range b.Instrs {
										if st, ok := in2.(*ssa.Store); ok && m.cellAddr(st.Addr, hb) == "err" && instrIndex(st) < instrIndex(vc) {
											okBind = false
										}
									}
								}
							}
						}
					}
				}
			}
			r.Check(okBind, "C09.R5", hname+"|catch-variable", p.Pos(catchE.call.Pos()), "the catch variable is defined in the try's scope with the error, before the error is cleared", "the catch variable is not bound to the caught error")
			// finally on every exit where the error may be nil
			var guard *ssa.BasicBlock
			if len(finE.call.Block().Preds) == 1 {
				guard = finE.call.Block().Preds[0]
			}
			bad := ""
			avoid := func(b *ssa.BasicBlock) bool { return b == finE.call.Block() || b == guard }
			for b := range reachable(tryE.call.Block(), avoid) {
				if ret, ok := b.Instrs[len(b.Instrs)-1].(*ssa.Return); ok {
					if st := ea.before[h][ret]; st != nil && st.cell&eNil != 0 {
						bad = "the exit at " + p.Pos(instrPos(ret)) + " (" + exitKey(ret) + ") can be taken without an error and without running finally"
					}
				}
			}
			r.Check(bad == "", "C09.R5", hname+"|finally-on-success", p.Pos(finE.call.Pos()), "every exit on which the error cell can be nil passes the finally block (when there is one)", bad)
			// finally must be reachable after a successful try and after a successful catch
			r.Check(reachable(tryE.call.Block(), nil)[finE.call.Block()] && reachable(catchE.call.Block(), nil)[finE.call.Block()], "C09.R5", hname+"|finally-reachable", p.Pos(finE.call.Pos()), "finally follows both a successful try and a successful catch", "finally is not reachable from the try/catch block")
		}
	} else {
		r.Undecided("C09.R5", "TryStmt", "vm", "handler not found")
	}

	// R7 throw
	{
		fn := m.evalStmt
		base := m.baseOf(fn)
		fl := &errFlow{a: ea, fn: fn, base: base, ent: ea.entry[fn]}
		found := false
		for _, b := range fn.Blocks {
			for _, in := range b.Instrs {
				st, ok := in.(*ssa.Store)
				if !ok || m.cellAddr(st.Addr, base) != "err" || clauseKindOf(m, b) != "ThrowStmt" {
					continue
				}
				found = true
				pre := ea.before[fn][st]
				v := fl.abs(st.Val, pre, 0)
				r.Check(v&eNil == 0, "C09.R7", funcName(fn)+"|throw raises", p.Pos(instrPos(st)), "throw stores a non-nil error", "throw can store a nil error (nothing is raised and the next statements run)")
				r.Check(pre != nil && pre.cell&^eNil == 0, "C09.R7", funcName(fn)+"|throw after operand", p.Pos(instrPos(st)), "the thrown value was evaluated without error", "throw replaces an error raised while evaluating its operand")
				// position of the statement
				posOK := false
				for _, in2 := range b.Instrs {
					if c, ok := in2.(*ssa.Call); ok {
						if o := calleeObj(c); o != nil && o.Name() == "Position" {
							posOK = true
						}
						if callee := staticCallee(c); callee != nil && callee.Pkg == m.sp && len(c.Call.Args) == 2 {
							if strings.Contains(m.opPath(c.Call.Args[0], 0), "node") || m.nm.nodeKind(stripConv(c.Call.Args[0]).Type()) != "" {
								posOK = true
							}
						}
					}
				}
				r.Check(posOK, "C09.R7", funcName(fn)+"|throw position", p.Pos(instrPos(st)), "the error carries the throw statement's position", "the thrown error does not carry the statement's position")
			}
		}
		if !found {
			r.Undecided("C09.R7", "throw", "vm", "throw clause not found")
		}
	}

	// R8 the run's error result is the error cell
	for _, fn := range m.funcsOnRecord() {
		base := m.baseOf(fn)
		if _, isAlloc := base.(*ssa.Alloc); !isAlloc || fn.Parent() != nil || fn.Object() == nil || !fn.Object().Exported() {
			continue
		}
		for _, b := range fn.Blocks {
			ret, ok := b.Instrs[len(b.Instrs)-1].(*ssa.Return)
			if !ok || len(ret.Results) != 2 {
				continue
			}
			r.Check(m.cellLoad(ret.Results[1], base) == "err", "C09.R8", funcName(fn)+"|"+exitKey(ret), p.Pos(instrPos(ret)), "the host receives the error cell", "an uncaught error is not returned to the host")
		}
	}
}

// checkDefersPrecedence: in the deferred-call runner the saved error is replaced by a deferred call's error exactly
// when the saved one is nil or the return signal (so an interrupt or failure of a deferred call is not dropped
// after a plain return, and never hides the body's own failure).
func checkDefersPrecedence(p *Program, r *Report, m *vmModel, ea *errAnalysis, runner *ssa.Function, rule string) {
	rname := funcName(runner)
	rbase := m.baseOf(runner)
	bRet := ea.sentinel("ErrReturn")
	for _, b := range runner.Blocks {
		ret, ok := b.Instrs[len(b.Instrs)-1].(*ssa.Return)
		if !ok {
			continue
		}
		// error: stored value is the local error variable
		var lastErr *ssa.Store
		for _, in := range b.Instrs {
			if st, ok := in.(*ssa.Store); ok && m.cellAddr(st.Addr, rbase) == "err" {
				lastErr = st
			}
		}
		if lastErr == nil {
			r.Fail(rule, rname+"|error-restored", p.Pos(instrPos(ret)), "the saved error is not put back")
			continue
		}
		phi, ok := lastErr.Val.(*ssa.Phi)
		if !ok {
			r.Fail(rule, rname+"|error-precedence", p.Pos(instrPos(lastErr)), "the error put back is not the saved error updated by the deferred calls")
			continue
		}
		// find the loop phi of the saved error and the update edge(s)
		var upd []*ssa.BasicBlock
		var walk func(ph *ssa.Phi, seen map[*ssa.Phi]bool)
		saved := false
		walk = func(ph *ssa.Phi, seen map[*ssa.Phi]bool) {
			if seen[ph] {
				return
			}
			seen[ph] = true
			for i, e := range ph.Edges {
				switch x := e.(type) {
				case *ssa.Phi:
					walk(x, seen)
				case *ssa.UnOp:
					if m.cellAddr(x.X, rbase) == "err" {
						if x.Block() == runner.Blocks[0] {
							saved = true
						} else {
							upd = append(upd, ph.Block().Preds[i])
						}
					}
				}
			}
		}
		walk(phi, map[*ssa.Phi]bool{})
		if !saved || len(upd) == 0 {
			r.Fail(rule, rname+"|error-precedence", p.Pos(instrPos(lastErr)), "cannot find the saved error and its replacement by a deferred call's error")
			continue
		}
		for _, ub := range upd {
			st := ea.before[runner][ub.Instrs[0]]
			// the old value of the saved error when it is replaced
			var old errBits
			found := false
			if st != nil {
				for v, bits := range st.ref {
					if ph, ok := v.(*ssa.Phi); ok && isErrorType(ph.Type()) {
						old |= bits
						found = true
					}
				}
			}
			want := eNil | bRet
			switch {
			case !found:
				r.Fail(rule, rname+"|error-precedence", p.Pos(instrPos(ub.Instrs[0])), "a deferred call's error replaces the saved error unconditionally: it hides the body's own failure")
			case old == want:
				r.OK(rule, rname+"|error-precedence", p.Pos(instrPos(ub.Instrs[0])), "a deferred call's error surfaces exactly when the body ended normally or by return")
			case old&^want != 0:
				r.Fail(rule, rname+"|error-precedence", p.Pos(instrPos(ub.Instrs[0])), "a deferred call's error can replace "+ea.bitName(old&^want)+": it hides the body's own failure")
			default:
				r.Fail(rule, rname+"|error-precedence", p.Pos(instrPos(ub.Instrs[0])), "a deferred call's error is dropped when the body ended with "+ea.bitName(want&^old)+" although the body did not fail")
			}
		}
	}
}
