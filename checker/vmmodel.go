package main

import (
	"fmt"
	"go/token"
	"go/types"
	"sort"
	"strings"

	"golang.org/x/tools/go/ssa"
)

// vmModel is the part of E0/E2 that describes package vm: the per-run record and its cells,
// the evaluators (dispatch functions) and the handler of every node kind.
type vmModel struct {
	p    *Program
	sp   *ssa.Package
	nm   *NodeModel
	riT  *types.Named   // runInfoStruct
	cell map[int]string // field index -> cell name (rv, err, env, expr, stmt, operator, defers, ctx, options)
	idx  map[string]int

	evalExpr, evalLet, evalStmt, evalOp *ssa.Function
	handlers                            map[string]map[string]*ssa.Function // evaluator role -> node kind -> handler
	inline                              map[string]map[string]bool          // evaluator role -> node kinds handled inline
	sentinels                           []*ssa.Global                       // exported package-level error variables
	fns                                 []*ssa.Function
}

func buildVMModel(p *Program) (*vmModel, error) {
	sp := p.SSAPkg("vm")
	if sp == nil {
		return nil, fmt.Errorf("package vm not loaded")
	}
	m := &vmModel{p: p, sp: sp, cell: map[int]string{}, idx: map[string]int{}, handlers: map[string]map[string]*ssa.Function{}, inline: map[string]map[string]bool{}}
	g, err := BuildLALR(p)
	if err != nil {
		return nil, err
	}
	m.nm, err = BuildNodeModel(p, g)
	if err != nil {
		return nil, err
	}
	// the per-run record: the struct type of vm that has fields of type ast.Stmt, ast.Expr, reflect.Value and error
	for _, name := range sp.Pkg.Scope().Names() {
		tn, ok := sp.Pkg.Scope().Lookup(name).(*types.TypeName)
		if !ok {
			continue
		}
		st, ok := tn.Type().Underlying().(*types.Struct)
		if !ok {
			continue
		}
		roles := map[string]int{}
		for i := 0; i < st.NumFields(); i++ {
			ft := st.Field(i).Type()
			switch {
			case isNamed(ft, modPath+"/ast", "Stmt"):
				roles["stmt"] = i
			case isNamed(ft, modPath+"/ast", "Expr"):
				roles["expr"] = i
			case isNamed(ft, modPath+"/ast", "Operator"):
				roles["operator"] = i
			case isNamed(ft, "reflect", "Value"):
				roles["rv"] = i
			case types.Identical(ft, types.Universe.Lookup("error").Type()):
				roles["err"] = i
			case isNamed(ft, modPath+"/env", "Env"):
				roles["env"] = i
			case isNamed(ft, "context", "Context"):
				roles["ctx"] = i
			case isNamed(ft, modPath+"/vm", "Options"):
				roles["options"] = i
			default:
				if _, ok := ft.Underlying().(*types.Slice); ok {
					roles["defers"] = i
				}
			}
		}
		if len(roles) >= 8 {
			m.riT = tn.Type().(*types.Named)
			for r, i := range roles {
				m.cell[i] = r
				m.idx[r] = i
			}
		}
	}
	if m.riT == nil {
		return nil, fmt.Errorf("per-run record type of package vm not found")
	}
	for _, r := range []string{"rv", "err", "env", "expr", "stmt", "operator", "ctx", "options", "defers"} {
		if _, ok := m.idx[r]; !ok {
			return nil, fmt.Errorf("per-run record has no %s cell", r)
		}
	}
	m.fns = SrcFuncs(sp)
	// sentinels
	for _, name := range sp.Pkg.Scope().Names() {
		if v, ok := sp.Pkg.Scope().Lookup(name).(*types.Var); ok && v.Exported() && types.Identical(v.Type(), types.Universe.Lookup("error").Type()) {
			if g, ok := sp.Members[name].(*ssa.Global); ok {
				m.sentinels = append(m.sentinels, g)
			}
		}
	}
	sort.Slice(m.sentinels, func(i, j int) bool { return m.sentinels[i].Name() < m.sentinels[j].Name() })
	// evaluators: functions with a type switch over the value loaded from the stmt/expr/operator cell
	for _, fn := range m.fns {
		base := m.baseOf(fn)
		if base == nil {
			continue
		}
		kinds := map[string]*ssa.TypeAssert{}
		role := ""
		for _, b := range fn.Blocks {
			for _, in := range b.Instrs {
				ta, ok := in.(*ssa.TypeAssert)
				if !ok || !ta.CommaOk {
					continue
				}
				if x, f, ok := fieldLoad(ta.X); ok && x == base {
					if c := m.cell[f]; c == "stmt" || c == "expr" || c == "operator" {
						if k := m.nm.nodeKind(ta.AssertedType); k != "" {
							kinds[k] = ta
							role = c
						}
					}
				}
			}
		}
		if len(kinds) < 4 {
			continue
		}
		switch role {
		case "stmt":
			m.evalStmt = fn
			role = "stmt"
		case "operator":
			m.evalOp = fn
			role = "op"
		case "expr":
			if _, ok := kinds["LiteralExpr"]; ok {
				m.evalExpr = fn
				role = "expr"
			} else {
				m.evalLet = fn
				role = "let"
			}
		}
		m.handlers[role] = map[string]*ssa.Function{}
		m.inline[role] = map[string]bool{}
		for k, ta := range kinds {
			entry := clauseEntry(ta)
			nv := clauseValue(ta)
			var h *ssa.Function
			if entry != nil {
				// the handler is the callee receiving the narrowed node; clauses without such a call are inline
				for _, in := range entry.Instrs {
					if c, ok := in.(*ssa.Call); ok {
						if callee := staticCallee(c); callee != nil && callee.Pkg == sp {
							for _, a := range c.Call.Args {
								if nv != nil && a == nv {
									h = callee
								}
							}
							// handlers taking no node argument re-read the cell (funcExpr, callExpr, anonCallExpr)
							if h == nil && len(c.Call.Args) == 1 && c.Call.Args[0] == base && callee != fn && !m.isEvaluatorShape(callee) {
								h = callee
							}
						}
					}
				}
			}
			if h != nil {
				m.handlers[role][k] = h
			} else {
				m.inline[role][k] = true
			}
		}
	}
	if m.evalExpr == nil || m.evalLet == nil || m.evalStmt == nil || m.evalOp == nil {
		return nil, fmt.Errorf("evaluators not found (expr=%v let=%v stmt=%v op=%v)", m.evalExpr != nil, m.evalLet != nil, m.evalStmt != nil, m.evalOp != nil)
	}
	return m, nil
}

// isRI reports whether t is *runInfoStruct.
func (m *vmModel) isRI(t types.Type) bool {
	p, ok := t.(*types.Pointer)
	return ok && p.Elem() == types.Type(m.riT)
}

// baseOf returns the record a function works on: its *runInfoStruct receiver/parameter, or a local record allocation.
func (m *vmModel) baseOf(fn *ssa.Function) ssa.Value {
	for _, p := range fn.Params {
		if m.isRI(p.Type()) {
			return p
		}
	}
	for _, b := range fn.Blocks {
		for _, in := range b.Instrs {
			if al, ok := in.(*ssa.Alloc); ok && m.isRI(al.Type()) {
				return al
			}
		}
	}
	for _, fv := range fn.FreeVars {
		if m.isRI(fv.Type()) {
			return fv
		}
		// captured by reference: **runInfoStruct is not used in this code base
	}
	return nil
}

// cellAddr: addr is &base.<cell> → cell name.
func (m *vmModel) cellAddr(addr ssa.Value, base ssa.Value) string {
	fa, ok := addr.(*ssa.FieldAddr)
	if !ok || !sameBase(fa.X, base) {
		return ""
	}
	return m.cell[fa.Field]
}

// cellLoad: v is *(&base.<cell>) → cell name.
func (m *vmModel) cellLoad(v ssa.Value, base ssa.Value) string {
	u, ok := v.(*ssa.UnOp)
	if !ok {
		return ""
	}
	return m.cellAddr(u.X, base)
}

// evalRole classifies a call on base: "expr", "let", "stmt", "op" for evaluators, "" otherwise.
func (m *vmModel) evalRole(c ssa.CallInstruction, base ssa.Value) string {
	callee := staticCallee(c)
	if callee == nil || len(c.Common().Args) == 0 || !sameBase(c.Common().Args[0], base) {
		return ""
	}
	switch callee {
	case m.evalExpr:
		return "expr"
	case m.evalLet:
		return "let"
	case m.evalStmt:
		return "stmt"
	case m.evalOp:
		return "op"
	}
	return ""
}

// callsOnBase: c passes base as receiver/argument to a function of package vm.
func (m *vmModel) calleeOnBase(c ssa.CallInstruction, base ssa.Value) *ssa.Function {
	callee := staticCallee(c)
	if callee == nil || callee.Pkg != m.sp {
		return nil
	}
	for _, a := range c.Common().Args {
		if sameBase(a, base) {
			return callee
		}
	}
	return nil
}

// opPath renders where an operand value comes from, relative to the function's parameters.
func (m *vmModel) opPath(v ssa.Value, depth int) string {
	if depth > 12 {
		return "?"
	}
	switch x := v.(type) {
	case *ssa.Parameter:
		if m.nm.nodeKind(x.Type()) != "" {
			return "node"
		}
		return x.Name()
	case *ssa.FreeVar:
		if m.nm.nodeKind(x.Type()) != "" {
			return "node"
		}
		return x.Name()
	case *ssa.MakeInterface:
		return m.opPath(x.X, depth+1)
	case *ssa.ChangeInterface:
		return m.opPath(x.X, depth+1)
	case *ssa.TypeAssert:
		k := m.nm.nodeKind(x.AssertedType)
		inner := m.opPath(x.X, depth+1)
		if strings.HasPrefix(inner, "cell:") {
			return "node"
		}
		if k != "" {
			return inner + ".(" + k + ")"
		}
		return inner
	case *ssa.Extract:
		if ta, ok := x.Tuple.(*ssa.TypeAssert); ok && x.Index == 0 {
			return m.opPath(ta, depth+1)
		}
		if nx, ok := x.Tuple.(*ssa.Next); ok {
			return "next(" + nx.Name() + ")"
		}
		return "?"
	case *ssa.Alloc:
		if k := m.nm.nodeKind(x.Type()); k != "" {
			return "new:" + k
		}
		return "local"
	case *ssa.UnOp:
		switch a := x.X.(type) {
		case *ssa.FieldAddr:
			if m.isRI(a.X.Type()) {
				return "cell:" + m.cell[a.Field]
			}
			return m.opPath(a.X, depth+1) + "." + fieldOfAddr(a).Name()
		case *ssa.IndexAddr:
			return m.opPath(a.X, depth+1) + "[" + idxName(a.Index) + "]"
		case *ssa.Alloc:
			// a local variable spilled to memory (e.g. typed switch variable): find its single store
			var stored ssa.Value
			n := 0
			for _, ref := range *a.Referrers() {
				if st, ok := ref.(*ssa.Store); ok && st.Addr == ssa.Value(a) {
					stored = st.Val
					n++
				}
			}
			if n == 1 {
				return m.opPath(stored, depth+1)
			}
			return "local"
		}
	case *ssa.Phi:
		var parts []string
		seen := map[string]bool{}
		for _, e := range x.Edges {
			s := m.opPath(e, depth+1)
			if !seen[s] {
				seen[s] = true
				parts = append(parts, s)
			}
		}
		if len(parts) == 1 {
			return parts[0]
		}
		return "?"
	}
	return "?"
}

func idxName(v ssa.Value) string {
	if c, ok := v.(*ssa.Const); ok {
		return c.Value.ExactString()
	}
	return v.Name()
}

// fieldOfPath returns the node field an operand path designates ("node.Exprs[t3]" → "Exprs", indexed).
func fieldOfPath(path string) (field string, indexed bool, direct bool) {
	if !strings.HasPrefix(path, "node.") {
		return "", false, false
	}
	rest := strings.TrimPrefix(path, "node.")
	f := rest
	if i := strings.IndexAny(rest, ".[("); i >= 0 {
		f = rest[:i]
		tail := rest[i:]
		indexed = strings.HasPrefix(tail, "[")
		// direct if nothing follows the (optional) index
		if indexed {
			j := strings.Index(tail, "]")
			direct = j == len(tail)-1
		} else {
			direct = false
		}
		return f, indexed, direct
	}
	return f, false, true
}

// funcsOnRecord lists the functions of vm that work on a per-run record.
func (m *vmModel) funcsOnRecord() []*ssa.Function {
	var out []*ssa.Function
	for _, fn := range m.fns {
		if m.baseOf(fn) != nil {
			out = append(out, fn)
		}
	}
	return out
}

// isEvaluatorShape: fn dispatches on the stmt/expr/operator cell with a type switch (used before the evaluator fields are set).
func (m *vmModel) isEvaluatorShape(fn *ssa.Function) bool {
	base := m.baseOf(fn)
	if base == nil {
		return false
	}
	n := 0
	for _, b := range fn.Blocks {
		for _, in := range b.Instrs {
			if ta, ok := in.(*ssa.TypeAssert); ok && ta.CommaOk {
				if x, f, ok := fieldLoad(ta.X); ok && x == base {
					if c := m.cell[f]; c == "stmt" || c == "expr" || c == "operator" {
						n++
					}
				}
			}
		}
	}
	return n >= 4
}

// sameBase: v is the record value base, or a reload of it from the slot it was spilled to (a receiver captured by a closure,
// e.g. a deferred func literal, lives in memory and every use reloads it).
func sameBase(v, base ssa.Value) bool {
	if v == base {
		return true
	}
	u, ok := v.(*ssa.UnOp)
	if !ok || u.Op != token.MUL {
		return false
	}
	al, ok := u.X.(*ssa.Alloc)
	if !ok {
		return false
	}
	n := 0
	for _, ref := range *al.Referrers() {
		if st, ok := ref.(*ssa.Store); ok && st.Addr == ssa.Value(al) {
			n++
			if st.Val != base {
				return false
			}
		}
	}
	return n == 1
}
