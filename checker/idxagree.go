package main

import (
	"fmt"
	"go/token"
	"sort"
	"strings"

	"golang.org/x/tools/go/ssa"
)

// Index agreement (sibling cross-check inside one function): when a function copies elements from one indexed sequence into
// another — dst[e1] = g(src[e2]) at several places (the loop over all but the last element, the special case for the last
// one, the variadic and the non-variadic branch) — the distance e2-e1 is the same at every place. Two places that disagree
// cannot both be right: one of them reads a neighbour's element.

// canonVal renders a value structurally, so that two separately computed `len(x.F)` compare equal (go/ssa has no CSE).
func canonVal(v ssa.Value, d int) string {
	if d > 8 {
		return v.Name()
	}
	switch x := v.(type) {
	case *ssa.Const:
		return x.Value.String()
	case *ssa.Parameter, *ssa.FreeVar, *ssa.Global:
		return v.Name()
	case *ssa.UnOp:
		if x.Op == token.MUL {
			return "*" + canonVal(x.X, d+1)
		}
		return x.Op.String() + canonVal(x.X, d+1)
	case *ssa.FieldAddr:
		return canonVal(x.X, d+1) + "." + fieldOfAddr(x).Name()
	case *ssa.Field:
		return canonVal(x.X, d+1) + fmt.Sprintf(".#%d", x.Field)
	case *ssa.Call:
		if b, ok := x.Call.Value.(*ssa.Builtin); ok && (b.Name() == "len" || b.Name() == "cap") && len(x.Call.Args) == 1 {
			return b.Name() + "(" + canonVal(x.Call.Args[0], d+1) + ")"
		}
		if rm := reflectMethod(x); (rm == "Len" || rm == "NumIn" || rm == "NumOut" || rm == "NumField") && len(x.Call.Args) == 1 {
			return rm + "(" + canonVal(x.Call.Args[0], d+1) + ")"
		}
	case *ssa.Convert:
		return canonVal(x.X, d+1)
	case *ssa.ChangeType:
		return canonVal(x.X, d+1)
	case *ssa.Alloc:
		if sv := allocSingleValue(x); sv != nil {
			return canonVal(sv, d+1)
		}
	}
	return v.Name()
}

// linForm: v = base + k (base "" for a constant).
func linForm(v ssa.Value, d int) (string, int64, bool) {
	if d > 6 {
		return canonVal(v, 0), 0, true
	}
	switch x := v.(type) {
	case *ssa.Const:
		if x.Value != nil && x.Value.Kind().String() == "Int" {
			return "", x.Int64(), true
		}
	case *ssa.Convert:
		return linForm(x.X, d+1)
	case *ssa.BinOp:
		if x.Op == token.ADD || x.Op == token.SUB {
			bx, kx, ok1 := linForm(x.X, d+1)
			by, ky, ok2 := linForm(x.Y, d+1)
			if ok1 && ok2 {
				if by == "" {
					if x.Op == token.ADD {
						return bx, kx + ky, true
					}
					return bx, kx - ky, true
				}
				if bx == "" && x.Op == token.ADD {
					return by, kx + ky, true
				}
			}
			return canonVal(v, 0), 0, true
		}
	}
	return canonVal(v, 0), 0, true
}

type idxPair struct {
	st       *ssa.Store
	dst, src string
	label    string
	off      int64
}

// seqLabel names a sequence for a report without using SSA register names.
func seqLabel(v ssa.Value) string {
	switch x := v.(type) {
	case *ssa.MakeSlice:
		return "new " + x.Type().String()
	case *ssa.Alloc:
		return "local " + x.Type().String()
	case *ssa.Slice:
		return seqLabel(x.X)
	case *ssa.Call, *ssa.Phi, *ssa.Extract:
		return "a " + v.Type().String()
	}
	return canonVal(v, 0)
}

// elementSource finds the element load `src[e]` that the stored value is derived from by unary steps.
func elementSource(v ssa.Value, d int) *ssa.IndexAddr {
	if d > 8 {
		return nil
	}
	switch x := v.(type) {
	case *ssa.UnOp:
		if x.Op == token.MUL {
			if ia, ok := x.X.(*ssa.IndexAddr); ok {
				return ia
			}
		}
	case *ssa.TypeAssert:
		return elementSource(x.X, d+1)
	case *ssa.MakeInterface:
		return elementSource(x.X, d+1)
	case *ssa.ChangeType:
		return elementSource(x.X, d+1)
	case *ssa.ChangeInterface:
		return elementSource(x.X, d+1)
	case *ssa.Convert:
		return elementSource(x.X, d+1)
	case *ssa.Extract:
		return elementSource(x.Tuple, d+1)
	case *ssa.Call:
		// a method of the element, or a one-argument conversion of it
		if len(x.Call.Args) >= 1 && !x.Call.IsInvoke() {
			if reflectMethod(x) != "" || len(x.Call.Args) == 1 {
				return elementSource(x.Call.Args[0], d+1)
			}
		}
	case *ssa.Index:
		return nil
	}
	return nil
}

func indexPairs(fn *ssa.Function) []idxPair {
	var out []idxPair
	for _, b := range fn.Blocks {
		for _, in := range b.Instrs {
			st, ok := in.(*ssa.Store)
			if !ok {
				continue
			}
			da, ok := st.Addr.(*ssa.IndexAddr)
			if !ok {
				continue
			}
			sa := elementSource(st.Val, 0)
			if sa == nil {
				continue
			}
			dst, src := canonVal(da.X, 0), canonVal(sa.X, 0)
			if dst == src {
				continue
			}
			b1, k1, ok1 := linForm(da.Index, 0)
			b2, k2, ok2 := linForm(sa.Index, 0)
			if !ok1 || !ok2 || b1 != b2 {
				continue
			}
			out = append(out, idxPair{st, dst, src, seqLabel(da.X) + " <- " + seqLabel(sa.X), k2 - k1})
		}
	}
	return out
}

// indexOffsetsAgree checks the rule over fns and returns the number of element copies examined.
func indexOffsetsAgree(p *Program, r *Report, fns []*ssa.Function, rule string) int {
	n := 0
	seenInst := map[string]int{}
	for _, fn := range fns {
		groups := map[string][]idxPair{}
		for _, pr := range indexPairs(fn) {
			groups[pr.dst+" <- "+pr.src] = append(groups[pr.dst+" <- "+pr.src], pr)
		}
		var keys []string
		for k := range groups {
			keys = append(keys, k)
		}
		sort.Strings(keys)
		for _, k := range keys {
			g := groups[k]
			n += len(g)
			freq := map[int64]int{}
			for _, pr := range g {
				freq[pr.off]++
			}
			inst := fmt.Sprintf("%s|%s", funcName(fn), g[0].label)
			seenInst[inst]++
			if seenInst[inst] > 1 {
				inst = fmt.Sprintf("%s #%d", inst, seenInst[inst])
			}
			if len(freq) <= 1 {
				r.OK(rule, inst, p.Pos(instrPos(g[0].st)), fmt.Sprintf("%d element copies, source index = destination index %+d at each", len(g), g[0].off))
				continue
			}
			// majority offset; report the places that deviate (all of them on a tie)
			best, bestN, tie := int64(0), 0, false
			for o, c := range freq {
				if c > bestN {
					best, bestN, tie = o, c, false
				} else if c == bestN {
					tie = true
				}
			}
			var where []string
			for _, pr := range g {
				if tie || pr.off != best {
					where = append(where, fmt.Sprintf("%s (source = destination %+d)", p.Pos(instrPos(pr.st)), pr.off))
				}
			}
			sort.Strings(where)
			exp := fmt.Sprintf("%+d", best)
			if tie {
				exp = "undetermined"
			}
			r.Fail(rule, inst, strings.SplitN(where[0], " ", 2)[0],
				fmt.Sprintf("the places of this function that copy elements of one sequence into the other disagree on the distance between source and destination index (elsewhere %s): %s — one of them reads a neighbouring element", exp, strings.Join(where, "; ")))
		}
	}
	return n
}
