package main

import (
	"fmt"
	"go/constant"
	"go/token"
	"go/types"
	"sort"
	"strings"
	"unicode"

	"golang.org/x/tools/go/ssa"
)

// scanModel is E6: the scanner's cursor discipline.
type scanModel struct {
	p        *Program
	sp       *ssa.Package
	scanT    *types.Named
	srcI     int                   // field index of the rune slice
	offI     int                   // field index of the cursor
	step     map[*ssa.Function]int // +1 / -1 for the primitive cursor moves
	pure     map[*ssa.Function]bool
	peekLike map[*ssa.Function]bool // returns the rune at the cursor (or EOF)
	eofLike  map[*ssa.Function]bool // reports cursor at end
	methods  []*ssa.Function
	minW     map[*ssa.Function]int // minimal net advance on a non-error return (composite methods)
	eofConst int64
}

func buildScanModel(p *Program) (*scanModel, error) {
	sp := p.SSAPkg("parser")
	if sp == nil {
		return nil, fmt.Errorf("package parser not loaded")
	}
	tn, ok := sp.Pkg.Scope().Lookup("Scanner").(*types.TypeName)
	if !ok {
		return nil, fmt.Errorf("parser.Scanner not found")
	}
	m := &scanModel{p: p, sp: sp, scanT: tn.Type().(*types.Named), srcI: -1, offI: -1, step: map[*ssa.Function]int{}, pure: map[*ssa.Function]bool{},
		peekLike: map[*ssa.Function]bool{}, eofLike: map[*ssa.Function]bool{}, minW: map[*ssa.Function]int{}, eofConst: -1}
	st := m.scanT.Underlying().(*types.Struct)
	for i := 0; i < st.NumFields(); i++ {
		if sl, ok := st.Field(i).Type().Underlying().(*types.Slice); ok && types.Identical(sl.Elem(), types.Typ[types.Rune]) {
			m.srcI = i
		}
	}
	if m.srcI < 0 {
		return nil, fmt.Errorf("Scanner has no rune slice")
	}
	for _, fn := range SrcFuncs(sp) {
		if fn.Signature.Recv() != nil && namedOf(fn.Signature.Recv().Type()) == m.scanT && fn.Parent() == nil {
			m.methods = append(m.methods, fn)
		}
	}
	// the cursor: the int field used to index the rune slice
	for _, fn := range m.methods {
		for _, b := range fn.Blocks {
			for _, in := range b.Instrs {
				if ia, ok := in.(*ssa.IndexAddr); ok {
					if x, f, ok := fieldLoad(ia.X); ok && x == ssa.Value(fn.Params[0]) && f == m.srcI {
						if _, f2, ok := fieldLoad(ia.Index); ok {
							m.offI = f2
						}
					}
				}
			}
		}
	}
	if m.offI < 0 {
		return nil, fmt.Errorf("cursor field of Scanner not found")
	}
	if c, ok := sp.Pkg.Scope().Lookup("EOF").(*types.Const); ok {
		if v, ok := constant.Int64Val(c.Val()); ok {
			m.eofConst = v
		}
	}
	// classify primitives
	for _, fn := range m.methods {
		stores, calls := 0, 0
		delta := 0
		okDelta := true
		for _, b := range fn.Blocks {
			for _, in := range b.Instrs {
				switch x := in.(type) {
				case *ssa.Store:
					fa, ok := x.Addr.(*ssa.FieldAddr)
					if !ok || fa.X != ssa.Value(fn.Params[0]) {
						continue
					}
					stores++
					if fa.Field == m.offI {
						bo, ok := x.Val.(*ssa.BinOp)
						if !ok {
							okDelta = false
							continue
						}
						_, f, isLoad := fieldLoad(bo.X)
						c, isC := bo.Y.(*ssa.Const)
						if !isLoad || f != m.offI || !isC || c.Int64() != 1 {
							okDelta = false
							continue
						}
						if bo.Op == token.ADD {
							delta = 1
						} else if bo.Op == token.SUB {
							delta = -1
						} else {
							okDelta = false
						}
					}
				case *ssa.Call:
					if callee := staticCallee(x); callee != nil && len(x.Call.Args) > 0 && x.Call.Args[0] == ssa.Value(fn.Params[0]) {
						calls++
					}
				}
			}
		}
		switch {
		case delta != 0 && okDelta:
			m.step[fn] = delta
		case stores == 0:
			m.pure[fn] = true
		}
		_ = calls
	}
	// a method that calls a non-pure method on its receiver is not pure
	for changed := true; changed; {
		changed = false
		for _, fn := range m.methods {
			if !m.pure[fn] {
				continue
			}
			for _, b := range fn.Blocks {
				for _, in := range b.Instrs {
					if c, ok := in.(*ssa.Call); ok {
						if callee := staticCallee(c); callee != nil && callee.Signature.Recv() != nil && namedOf(callee.Signature.Recv().Type()) == m.scanT && !m.pure[callee] {
							m.pure[fn] = false
							changed = true
						}
					}
				}
			}
		}
	}
	for _, fn := range m.methods {
		if !m.pure[fn] {
			continue
		}
		res := fn.Signature.Results()
		if res.Len() == 1 && types.Identical(res.At(0).Type(), types.Typ[types.Rune]) {
			m.peekLike[fn] = true
		}
		if res.Len() == 1 && types.Identical(res.At(0).Type(), types.Typ[types.Bool]) && fn.Signature.Params().Len() == 0 {
			m.eofLike[fn] = true
		}
	}
	return m, nil
}

func (m *scanModel) recvCall(in ssa.Instruction) (*ssa.Call, *ssa.Function) {
	c, ok := in.(*ssa.Call)
	if !ok {
		return nil, nil
	}
	callee := staticCallee(c)
	if callee == nil || callee.Signature.Recv() == nil || namedOf(callee.Signature.Recv().Type()) != m.scanT {
		return nil, nil
	}
	return c, callee
}

// blockWeight: net cursor movement of the calls in b (composite callees count with their minimal success weight).
func (m *scanModel) blockWeight(b *ssa.BasicBlock) (w int, moves bool) {
	for _, in := range b.Instrs {
		_, callee := m.recvCall(in)
		if callee == nil || m.pure[callee] {
			continue
		}
		moves = true
		if d, ok := m.step[callee]; ok {
			w += d
		} else {
			w += m.minW[callee]
		}
	}
	return
}

// constEnv evaluates SSA values to constants in a "world" that fixes the rune at the cursor.
type constEnv struct {
	m        *scanModel
	predTrue map[*ssa.Function]bool // rune predicates known to hold for the character at the cursor
	cur      *int64                 // rune at the cursor (nil: unknown)
	atEOF    bool
	bind     map[ssa.Value]constant.Value
	depth    int
	visiting map[*ssa.Phi]bool // phis under evaluation (a loop phi reaches itself through its back edge)
}

func (e *constEnv) eval(v ssa.Value) (constant.Value, bool) {
	if e.depth > 40 {
		return nil, false
	}
	if c, ok := e.bind[v]; ok {
		return c, true
	}
	switch x := v.(type) {
	case *ssa.Const:
		if x.Value == nil {
			return nil, false
		}
		return x.Value, true
	case *ssa.UnOp:
		if x.Op == token.NOT {
			if c, ok := e.eval(x.X); ok && c.Kind() == constant.Bool {
				return constant.MakeBool(!constant.BoolVal(c)), true
			}
		}
		if x.Op == token.SUB {
			if c, ok := e.eval(x.X); ok {
				return constant.UnaryOp(token.SUB, c, 0), true
			}
		}
	case *ssa.BinOp:
		a, ok1 := e.eval(x.X)
		b, ok2 := e.eval(x.Y)
		if ok1 && ok2 {
			switch x.Op {
			case token.EQL, token.NEQ, token.LSS, token.LEQ, token.GTR, token.GEQ:
				return constant.MakeBool(constant.Compare(a, x.Op, b)), true
			case token.ADD, token.SUB, token.MUL:
				return constant.BinaryOp(a, x.Op, b), true
			}
		}
	case *ssa.Convert:
		return e.eval(x.X)
	case *ssa.ChangeType:
		return e.eval(x.X)
	case *ssa.Call:
		callee := staticCallee(x)
		if callee == nil {
			return nil, false
		}
		if callee.Signature.Recv() != nil && namedOf(callee.Signature.Recv().Type()) == e.m.scanT {
			if e.m.peekLike[callee] {
				if e.atEOF {
					return constant.MakeInt64(e.m.eofConst), true
				}
				if e.cur != nil && callee.Signature.Params().Len() == 0 {
					return constant.MakeInt64(*e.cur), true
				}
			}
			if e.m.eofLike[callee] {
				if e.atEOF {
					return constant.MakeBool(true), true
				}
				if e.cur != nil && *e.cur != e.m.eofConst {
					return constant.MakeBool(false), true
				}
			}
			return nil, false
		}
		// a predicate already known to hold for the character at the cursor
		if e.predTrue[callee] && len(x.Call.Args) == 1 {
			if pc, ok := x.Call.Args[0].(*ssa.Call); ok {
				if pcallee := staticCallee(pc); pcallee != nil && e.m.peekLike[pcallee] && pcallee.Signature.Params().Len() == 0 {
					return constant.MakeBool(true), true
				}
			}
		}
		// pure rune predicates of package parser / unicode
		var args []constant.Value
		for _, a := range x.Call.Args {
			c, ok := e.eval(a)
			if !ok {
				return nil, false
			}
			args = append(args, c)
		}
		if o := calleeObj(x); o != nil && o.Pkg() != nil && o.Pkg().Path() == "unicode" && len(args) == 1 {
			if r, ok := constant.Int64Val(args[0]); ok {
				switch o.Name() {
				case "IsLetter":
					return constant.MakeBool(unicode.IsLetter(rune(r))), true
				case "IsDigit":
					return constant.MakeBool(unicode.IsDigit(rune(r))), true
				case "IsSpace":
					return constant.MakeBool(unicode.IsSpace(rune(r))), true
				}
			}
			return nil, false
		}
		if callee.Pkg == e.m.sp && callee.Blocks != nil && callee.Signature.Recv() == nil {
			return e.interp(callee, args)
		}
	case *ssa.Phi:
		// short-circuit booleans: all known edges agree
		if e.visiting[x] {
			return nil, false
		}
		if e.visiting == nil {
			e.visiting = map[*ssa.Phi]bool{}
		}
		e.visiting[x] = true
		defer delete(e.visiting, x)
		var res constant.Value
		for _, ed := range x.Edges {
			c, ok := e.eval(ed)
			if !ok {
				return nil, false
			}
			if res == nil {
				res = c
			} else if !constant.Compare(res, token.EQL, c) {
				return nil, false
			}
		}
		return res, res != nil
	}
	return nil, false
}

// interp runs a small pure function on constant arguments.
func (e *constEnv) interp(fn *ssa.Function, args []constant.Value) (constant.Value, bool) {
	sub := &constEnv{m: e.m, cur: e.cur, atEOF: e.atEOF, bind: map[ssa.Value]constant.Value{}, depth: e.depth + 1}
	for i, p := range fn.Params {
		if i < len(args) {
			sub.bind[p] = args[i]
		}
	}
	b := fn.Blocks[0]
	var prev *ssa.BasicBlock
	for steps := 0; steps < 200; steps++ {
		for _, in := range b.Instrs {
			switch x := in.(type) {
			case *ssa.Phi:
				for i, pr := range b.Preds {
					if pr == prev {
						if c, ok := sub.eval(x.Edges[i]); ok {
							sub.bind[x] = c
						}
					}
				}
			case *ssa.Return:
				if len(x.Results) != 1 {
					return nil, false
				}
				return sub.eval(x.Results[0])
			case *ssa.If:
				c, ok := sub.eval(x.Cond)
				if !ok || c.Kind() != constant.Bool {
					return nil, false
				}
				prev = b
				if constant.BoolVal(c) {
					b = b.Succs[0]
				} else {
					b = b.Succs[1]
				}
			case *ssa.Jump:
				prev = b
				b = b.Succs[0]
			case ssa.Value:
				if c, ok := sub.eval(x); ok {
					sub.bind[x] = c
				}
			}
		}
	}
	return nil, false
}

// feasibleSuccs returns which successors of b are feasible in the given world.
func (e *constEnv) feasibleSuccs(b *ssa.BasicBlock) []bool {
	out := make([]bool, len(b.Succs))
	for i := range out {
		out[i] = true
	}
	iff, ok := b.Instrs[len(b.Instrs)-1].(*ssa.If)
	if !ok {
		return out
	}
	if c, ok := e.eval(iff.Cond); ok && c.Kind() == constant.Bool {
		if constant.BoolVal(c) {
			out[1] = false
		} else {
			out[0] = false
		}
	}
	return out
}

// errorAlwaysAtEOF: in the EOF world every return of fn that is reachable carries a non-nil error.
func (m *scanModel) errorAlwaysAtEOF(fn *ssa.Function) bool {
	res := fn.Signature.Results()
	if res.Len() == 0 || !isErrorType(res.At(res.Len()-1).Type()) {
		return false
	}
	env := &constEnv{m: m, atEOF: true, bind: map[ssa.Value]constant.Value{}}
	seen := map[*ssa.BasicBlock]bool{}
	work := []*ssa.BasicBlock{fn.Blocks[0]}
	seen[fn.Blocks[0]] = true
	all := true
	for len(work) > 0 {
		b := work[0]
		work = work[1:]
		if ret, ok := b.Instrs[len(b.Instrs)-1].(*ssa.Return); ok {
			if isNilConst(ret.Results[len(ret.Results)-1]) {
				all = false
			}
		}
		feas := env.feasibleSuccs(b)
		for i, s := range b.Succs {
			if feas[i] && !seen[s] {
				seen[s] = true
				work = append(work, s)
			}
		}
	}
	return all
}

// knownCharAt: block b lies in the clause of `ch == c` where ch is a peek of the cursor.
func (m *scanModel) knownCharAt(b *ssa.BasicBlock) (*int64, ssa.Value) {
	for d := b; d != nil; d = d.Idom() {
		id := d.Idom()
		if id == nil {
			return nil, nil
		}
		iff, ok := id.Instrs[len(id.Instrs)-1].(*ssa.If)
		if !ok {
			continue
		}
		bo, ok := iff.Cond.(*ssa.BinOp)
		if !ok || bo.Op != token.EQL {
			continue
		}
		c, ok := bo.Y.(*ssa.Const)
		if !ok || c.Value == nil {
			continue
		}
		call, ok := bo.X.(*ssa.Call)
		if !ok {
			continue
		}
		if callee := staticCallee(call); callee == nil || !m.peekLike[callee] || callee.Signature.Params().Len() != 0 {
			continue
		}
		if !edgeOnly(id, 0, d) {
			continue
		}
		v := c.Int64()
		return &v, call
	}
	return nil, nil
}

type pnode struct {
	b     *ssa.BasicBlock
	moved bool
}

// progressCheck: every cycle of fn has a positive net cursor advance. Cycles are searched in the product of the CFG with
// "has the cursor moved since the character of the enclosing `case c` was read"; while it has not, conditions on the
// character at the cursor are folded with c (which rules out e.g. skipping the first iteration of `for !isEOL(peek())` under case '#').
func (m *scanModel) progressCheck(fn *ssa.Function) (ok bool, cycle string) {
	type edge struct {
		to pnode
		w  int
	}
	adj := map[pnode][]edge{}
	var nodes []pnode
	seen := map[pnode]bool{}
	var visit func(n pnode)
	visit = func(n pnode) {
		if seen[n] {
			return
		}
		seen[n] = true
		nodes = append(nodes, n)
		w, moves := m.blockWeightAt(n)
		feas := make([]bool, len(n.b.Succs))
		for i := range feas {
			feas[i] = true
		}
		// fold the terminating condition when the cursor still sits on the known character
		if !n.moved && !moves {
			if ch, _ := m.knownCharAt(n.b); ch != nil {
				env := &constEnv{m: m, cur: ch, bind: map[ssa.Value]constant.Value{}}
				feas = env.feasibleSuccs(n.b)
			}
		} else if !n.moved && moves {
			// the block itself moves: conditions computed before the first moving call could be folded, but we stay conservative
		}
		for i, s := range n.b.Succs {
			if !feas[i] {
				continue
			}
			nm := n.moved || moves
			// after the block that reads the head character the cursor sits on that character
			// (unless the block moves again after the read)
			if m.readsHead(n.b) {
				nm = m.movesAfterHead(n.b)
			}
			to := pnode{s, nm}
			adj[n] = append(adj[n], edge{to, w})
			visit(to)
		}
	}
	start := pnode{fn.Blocks[0], true}
	visit(start)
	// detect a cycle of weight <= 0: Bellman-Ford on w*K-1
	K := len(nodes) + 2
	dist := map[pnode]int{}
	pred := map[pnode]pnode{}
	for _, n := range nodes {
		dist[n] = 0
	}
	var last pnode
	changedAt := false
	for i := 0; i <= len(nodes); i++ {
		changedAt = false
		for _, n := range nodes {
			for _, e := range adj[n] {
				nw := dist[n] + e.w*K - 1
				if nw < dist[e.to] {
					dist[e.to] = nw
					pred[e.to] = n
					last = e.to
					changedAt = true
				}
			}
		}
		if !changedAt {
			return true, ""
		}
	}
	// recover the cycle
	cur := last
	for i := 0; i < len(nodes); i++ {
		cur = pred[cur]
	}
	var blocks []string
	startN := cur
	for {
		blocks = append(blocks, fmt.Sprintf("%d(%s)", cur.b.Index, cur.b.Comment))
		cur = pred[cur]
		if cur == startN || len(blocks) > 30 {
			break
		}
	}
	sort.Strings(blocks)
	return false, strings.Join(blocks, " ")
}

// readsHead: block b contains the peek whose result is switched on (`ch := s.peek()` compared with character constants).
func (m *scanModel) readsHead(b *ssa.BasicBlock) bool {
	for _, in := range b.Instrs {
		c, callee := m.recvCall(in)
		if callee == nil || !m.peekLike[callee] || callee.Signature.Params().Len() != 0 {
			continue
		}
		n := 0
		for _, ref := range *c.Referrers() {
			if bo, ok := ref.(*ssa.BinOp); ok && bo.Op == token.EQL {
				if _, ok := bo.Y.(*ssa.Const); ok {
					n++
				}
			}
		}
		if n >= 3 {
			return true
		}
	}
	return false
}

// computeMinWeights: minimal net advance on success returns, by fixpoint over the call graph of composite methods.
func (m *scanModel) computeMinWeights() {
	for iter := 0; iter < 6; iter++ {
		for _, fn := range m.methods {
			if m.pure[fn] {
				continue
			}
			if _, ok := m.step[fn]; ok {
				continue
			}
			// shortest path entry -> success return, weights on blocks; cycles are non-negative (checked separately)
			dist := map[*ssa.BasicBlock]int{fn.Blocks[0]: 0}
			for i := 0; i < len(fn.Blocks)+1; i++ {
				for _, b := range fn.Blocks {
					d, ok := dist[b]
					if !ok {
						continue
					}
					w, _ := m.blockWeight(b)
					for _, s := range b.Succs {
						if old, ok := dist[s]; !ok || d+w < old {
							if ok && d+w < old-1000 {
								continue
							}
							dist[s] = d + w
						}
					}
				}
			}
			best := 1 << 30
			res := fn.Signature.Results()
			for _, b := range fn.Blocks {
				ret, ok := b.Instrs[len(b.Instrs)-1].(*ssa.Return)
				if !ok {
					continue
				}
				if res.Len() > 0 && isErrorType(res.At(res.Len()-1).Type()) && !isNilConst(ret.Results[len(ret.Results)-1]) {
					if _, isParamless := ret.Results[len(ret.Results)-1].(*ssa.Const); !isParamless {
						continue // error return
					}
				}
				if d, ok := dist[b]; ok {
					w, _ := m.blockWeight(b)
					if d+w < best {
						best = d + w
					}
				}
			}
			if best == 1<<30 {
				best = 0
			}
			if best < 0 {
				best = 0
			}
			m.minW[fn] = best
		}
	}
}

// movesAfterHead: a cursor-moving call follows the head peek inside block b.
func (m *scanModel) movesAfterHead(b *ssa.BasicBlock) bool {
	after := false
	for _, in := range b.Instrs {
		c, callee := m.recvCall(in)
		if callee == nil {
			continue
		}
		if m.peekLike[callee] && callee.Signature.Params().Len() == 0 {
			n := 0
			for _, ref := range *c.Referrers() {
				if bo, ok := ref.(*ssa.BinOp); ok && bo.Op == token.EQL {
					if _, ok := bo.Y.(*ssa.Const); ok {
						n++
					}
				}
			}
			if n >= 3 {
				after = false
				continue
			}
		}
		if !m.pure[callee] {
			after = true
		}
	}
	return after
}

// tokenAdvance: on every path through fn from the point where the head character is read, the cursor never goes back
// behind that point, and every non-error return has advanced it by at least one (so successive calls make progress).
func (m *scanModel) tokenAdvance(fn *ssa.Function) (ok bool, why string) {
	type edge struct {
		to pnode
		w  int
	}
	adj := map[pnode][]edge{}
	var nodes []pnode
	seen := map[pnode]bool{}
	var heads []pnode
	var visit func(n pnode)
	visit = func(n pnode) {
		if seen[n] {
			return
		}
		seen[n] = true
		nodes = append(nodes, n)
		w, moves := m.blockWeightAt(n)
		feas := make([]bool, len(n.b.Succs))
		for i := range feas {
			feas[i] = true
		}
		if !n.moved && !moves {
			if ch, _ := m.knownCharAt(n.b); ch != nil {
				env := &constEnv{m: m, cur: ch, bind: map[ssa.Value]constant.Value{}}
				feas = env.feasibleSuccs(n.b)
			}
		}
		if m.readsHead(n.b) {
			heads = append(heads, n)
			w = 0
			if m.movesAfterHead(n.b) {
				w = 1 // conservative: not expected
			}
		}
		for i, s := range n.b.Succs {
			if !feas[i] {
				continue
			}
			nm := n.moved || moves
			if m.readsHead(n.b) {
				nm = m.movesAfterHead(n.b)
			}
			to := pnode{s, nm}
			adj[n] = append(adj[n], edge{to, w})
			visit(to)
		}
	}
	visit(pnode{fn.Blocks[0], true})
	if len(heads) == 0 {
		return false, "no head character read found"
	}
	const inf = 1 << 30
	dist := map[pnode]int{}
	for _, n := range nodes {
		dist[n] = inf
	}
	for _, h := range heads {
		dist[h] = 0
	}
	for i := 0; i < len(nodes)+1; i++ {
		for _, n := range nodes {
			if dist[n] == inf {
				continue
			}
			for _, e := range adj[n] {
				// the loop back to the head (goto retry) starts a new token
				if m.readsHead(e.to.b) {
					continue
				}
				if d := dist[n] + e.w; d < dist[e.to] {
					dist[e.to] = d
				}
			}
		}
	}
	for _, n := range nodes {
		if dist[n] == inf {
			continue
		}
		if dist[n] < 0 {
			return false, fmt.Sprintf("the cursor can retreat behind the start of the current token (block %d %s)", n.b.Index, n.b.Comment)
		}
		if ret, ok := n.b.Instrs[len(n.b.Instrs)-1].(*ssa.Return); ok {
			w, _ := m.blockWeightAt(n)
			errRet := false
			if k := len(ret.Results); k > 0 && isErrorType(ret.Results[k-1].Type()) {
				if c, isC := ret.Results[k-1].(*ssa.Const); !isC || !c.IsNil() {
					// may be an error return: only definitely-nil error results must have advanced
					if _, isPhi := ret.Results[k-1].(*ssa.Phi); !isPhi {
						errRet = true
					}
				}
			}
			if !errRet && dist[n]+w < 1 {
				return false, fmt.Sprintf("a token can be returned without the cursor having advanced (return in block %d %s): the next call scans the same input again", n.b.Index, n.b.Comment)
			}
		}
	}
	return true, ""
}

// knownPredsAt: rune predicates P such that block b is dominated by the true edge of `P(ch)` for the head character ch.
func (m *scanModel) knownPredsAt(b *ssa.BasicBlock) map[*ssa.Function]bool {
	out := map[*ssa.Function]bool{}
	for d := b; d != nil; d = d.Idom() {
		id := d.Idom()
		if id == nil {
			break
		}
		iff, ok := id.Instrs[len(id.Instrs)-1].(*ssa.If)
		if !ok {
			continue
		}
		c, ok := iff.Cond.(*ssa.Call)
		if !ok || len(c.Call.Args) != 1 {
			continue
		}
		callee := staticCallee(c)
		if callee == nil || callee.Pkg != m.sp || callee.Signature.Recv() != nil {
			continue
		}
		pc, ok := c.Call.Args[0].(*ssa.Call)
		if !ok {
			continue
		}
		if pcallee := staticCallee(pc); pcallee == nil || !m.peekLike[pcallee] {
			continue
		}
		if edgeOnly(id, 0, d) {
			out[callee] = true
		}
	}
	return out
}

// minWeightUnder: minimal net advance of fn on success, entered with the cursor on a character for which env's facts hold.
func (m *scanModel) minWeightUnder(fn *ssa.Function, cur *int64, preds map[*ssa.Function]bool) int {
	type st struct {
		b     *ssa.BasicBlock
		moved bool
	}
	const inf = 1 << 30
	dist := map[st]int{{fn.Blocks[0], false}: 0}
	work := []st{{fn.Blocks[0], false}}
	best := inf
	for iter := 0; len(work) > 0 && iter < 5000; iter++ {
		n := work[0]
		work = work[1:]
		w, moves := m.blockWeight(n.b)
		feas := make([]bool, len(n.b.Succs))
		for i := range feas {
			feas[i] = true
		}
		if !n.moved && !moves {
			env := &constEnv{m: m, cur: cur, predTrue: preds, bind: map[ssa.Value]constant.Value{}}
			feas = env.feasibleSuccs(n.b)
		}
		if ret, ok := n.b.Instrs[len(n.b.Instrs)-1].(*ssa.Return); ok {
			k := len(ret.Results)
			if k == 0 || !isErrorType(ret.Results[k-1].Type()) || isNilConst(ret.Results[k-1]) {
				if d := dist[n] + w; d < best {
					best = d
				}
			}
		}
		for i, s := range n.b.Succs {
			if !feas[i] {
				continue
			}
			to := st{s, n.moved || moves}
			d := dist[n] + w
			if old, ok := dist[to]; !ok || d < old {
				dist[to] = d
				work = append(work, to)
			}
		}
	}
	if best == inf {
		return m.minW[fn]
	}
	return best
}

// blockWeightAt: like blockWeight, but a helper called while the cursor still sits on the head character is
// weighed with what is known about that character (e.g. scanIdentifier under `case isLetter(ch)` consumes at least one).
func (m *scanModel) blockWeightAt(n pnode) (int, bool) {
	w, moves := m.blockWeight(n.b)
	if n.moved || !moves {
		return w, moves
	}
	cur, _ := m.knownCharAt(n.b)
	preds := m.knownPredsAt(n.b)
	if cur == nil && len(preds) == 0 {
		return w, moves
	}
	// only the first moving call of the block sees the unmoved cursor
	for _, in := range n.b.Instrs {
		_, callee := m.recvCall(in)
		if callee == nil || m.pure[callee] {
			continue
		}
		if _, isStep := m.step[callee]; !isStep {
			w += m.minWeightUnder(callee, cur, preds) - m.minW[callee]
		}
		break
	}
	return w, moves
}
