package main

import "fmt"

func init() { register("C03", "parser builds the tree the source spells out", checkC03) }

func checkC03(p *Program, r *Report) {
	g, err := BuildLALR(p)
	if err != nil {
		r.Undecided("C03.R1", "tables", "parser/parser.go", err.Error())
		return
	}
	fmt.Println("states", g.NStates, "reach", len(g.Reach), "tokens", g.NTok, "rules", len(g.R1), "recovered", len(g.RHS), "ambig", len(g.Ambig))
	for r := 1; r < len(g.R1); r++ {
		fmt.Println(g.RuleString(r))
	}
}
