package main

import (
	"fmt"
	"go/ast"
	"go/constant"
	"go/token"
	"go/types"
	"sort"
	"strings"

	"golang.org/x/tools/go/ssa"
)

func init() {
	register("C03", "the parser builds the tree the source spells out", func(p *Program, r *Report) {
		checkC03(p, r)
		r.Explain("R5 writer/reader agreement on number literals: a marker character the scanner copies from the input into the literal's text (under a test that admits it) is one the literal conversion looks for; otherwise the scanner must normalise it.")
		c03NumberText(p, r)
		r.Explain("R6 each escape letter the string scanner singles out contributes exactly the control character Go assigns to it.")
		c03Escapes(p, r)
	})
}

// the operator ladder of the property statement, loosest to tightest ("?:" is keyed by its first token)
type opClass struct {
	level int
	right bool
}

var c03Ladder = map[string]opClass{
	"'?'": {0, true}, "NILCOALESCE": {0, true},
	"OROR": {1, false}, "ANDAND": {2, false},
	"EQEQ": {3, false}, "NEQ": {3, false}, "'<'": {3, false}, "LE": {3, false}, "'>'": {3, false}, "GE": {3, false},
	"'+'": {4, false}, "'-'": {4, false}, "'|'": {4, false},
	"'*'": {5, false}, "'/'": {5, false}, "'%'": {5, false}, "SHIFTLEFT": {5, false}, "SHIFTRIGHT": {5, false}, "'&'": {5, false},
	"IN": {6, false},
}
var c03Prefix = []string{"'-'", "'!'", "'^'", "'&'", "'*'"}
var c03Postfix = []string{"'('", "'['", "'.'"}

func actName(k int) string {
	switch k {
	case actShift:
		return "shift"
	case actReduce:
		return "reduce"
	case actAccept:
		return "accept"
	}
	return "error"
}

func checkC03(p *Program, r *Report) {
	r.Explain("C03: the three finite artefacts that determine the tree are decided exhaustively from the compiled parser (parser/parser.go) and the scanner. " +
		"R1 precedence/associativity: the grammar is recovered from the LALR tables alone; for every completed binary / prefix / ternary item, in every state reached after it from every state where it can start, the table's action on every operator lookahead is compared with the operator ladder of the statement (reduce when the completed operator binds tighter or equally and is left-associative, shift otherwise; postfix openers always shift). An LR parser's decision depends only on (state, lookahead), so the finite matrix covers expression trees of any depth in every statement position. " +
		"R2 actions: every expression symbol of a production's right-hand side is used as a child of the node built (none dropped, none used twice outside the documented op= / ++ shorthands), operand fields take distinct symbols, and all productions building one node kind agree on the order of its fields (the evaluator's order is tied to it by C07.R2). " +
		"R3 spelling: for every operator production the Operator string of the node equals the text the scanner attaches to the production's token, the scanner maps exactly one character sequence to each token, and the handler of the node kind built has a case for that string. " +
		"R4 numbers: toNumber returns the strconv result unmodified and propagates every strconv error; the NUMBER actions turn the error into a parse error. R5 scanner lookahead balance is decided with C15.R1's cursor analysis.")
	r.Assume("strconv implements Go's literal semantics; escape handling of strings is checked structurally only (C15)")
	r.Exhaustive = true
	g, err := BuildLALR(p)
	if err != nil {
		r.Undecided("C03.R1", "tables", "parser/parser.go", err.Error())
		return
	}
	if len(g.Ambig) > 0 {
		r.Undecided("C03.R1", "grammar", "parser/parser.go", "grammar recovery ambiguous: "+strings.Join(g.Ambig, "; "))
		return
	}
	r.Note("states", g.NStates)
	r.Note("rules_recovered", len(g.RHS))
	r.Floor("C03.R0", len(g.RHS), 180)
	nm, err := BuildNodeModel(p, g)
	if err != nil {
		r.Undecided("C03.R2", "model", "parser", err.Error())
		return
	}
	c03NoTruncation(p, r, g)
	c03StringLoops(p, r)
	r.Explain("R9 the quote character selects the kind of literal: \" and ' are scanned by the function that interprets backslash escapes, ` by one that does not.")
	c03QuoteKinds(p, r)
	// the expression nonterminal: X in the rule  _ -> X '+' X
	plus := g.TokByName("'+'")
	E := 0
	for rule, rhs := range g.RHS {
		_ = rule
		if len(rhs) == 3 && rhs[1] == plus && rhs[0] < 0 && rhs[0] == rhs[2] {
			E = rhs[0]
		}
	}
	if E == 0 {
		r.Undecided("C03.R1", "expr", "parser/parser.go", "expression nonterminal not found (no rule X '+' X)")
		return
	}
	tok := map[string]int{}
	for name := range c03Ladder {
		t := g.TokByName(name)
		if t == 0 {
			r.Undecided("C03.R1", "token "+name, "parser/parser.go", "operator token of the statement's ladder not found in the parser")
			return
		}
		tok[name] = t
	}
	for _, name := range append(append([]string{}, c03Prefix...), c03Postfix...) {
		if t := g.TokByName(name); t != 0 {
			tok[name] = t
		} else {
			r.Undecided("C03.R1", "token "+name, "parser/parser.go", "token not found in the parser")
			return
		}
	}
	var opNames []string
	for n := range c03Ladder {
		opNames = append(opNames, n)
	}
	sort.Strings(opNames)
	site := "parser/parser.go (tables)"
	nCells, nBinary := 0, 0
	expect := func(inst string, rule int, states map[int][]int, la string, want int, why string) {
		for s := range states {
			nCells++
			k, arg := g.Action(s, tok[la])
			if k == actReduce && want == actReduce && arg != rule {
				r.Fail("C03.R1", inst+" . "+la, site, fmt.Sprintf("in state %d the parser reduces by rule %d instead of rule %d on %s", s, arg, rule, la))
				return
			}
			if k != want {
				r.Fail("C03.R1", inst+" . "+la, site, fmt.Sprintf("in state %d the parser would %s on %s, the operator table requires %s (%s)", s, actName(k), la, actName(want), why))
				return
			}
		}
		r.OK("C03.R1", inst+" . "+la, site, fmt.Sprintf("%s in all %d states (%s)", actName(want), len(states), why))
	}
	var rules []int
	for rule := range g.RHS {
		rules = append(rules, rule)
	}
	sort.Ints(rules)
	for _, rule := range rules {
		rhs := g.RHS[rule]
		switch {
		case len(rhs) == 3 && rhs[0] == E && rhs[2] == E && rhs[1] > 0:
			name := g.TokName(rhs[1])
			c1, ok := c03Ladder[name]
			if !ok || name == "'?'" {
				continue
			}
			nBinary++
			states := g.AfterRule(rule)
			inst := "E " + name + " E"
			if len(states) == 0 {
				r.Undecided("C03.R1", inst, site, "no state reached after the production's right-hand side")
				continue
			}
			for _, la := range opNames {
				c2 := c03Ladder[la]
				want := actShift
				why := la + " binds tighter"
				if c1.level > c2.level {
					want, why = actReduce, name+" binds tighter than "+la
				} else if c1.level == c2.level {
					if c1.right {
						want, why = actShift, "same level, right-associative"
					} else {
						want, why = actReduce, "same level, left-associative"
					}
				}
				expect(inst, rule, states, la, want, why)
			}
			for _, la := range c03Postfix {
				expect(inst, rule, states, la, actShift, "postfix binds tightest")
			}
		case len(rhs) == 2 && rhs[1] == E && rhs[0] > 0:
			name := g.TokName(rhs[0])
			isPrefix := false
			for _, u := range c03Prefix {
				if u == name {
					isPrefix = true
				}
			}
			if !isPrefix {
				continue
			}
			nBinary++
			states := g.AfterRule(rule)
			inst := "prefix " + name + " E"
			for _, la := range opNames {
				expect(inst, rule, states, la, actReduce, "unary operators bind tighter than every binary operator")
			}
			for _, la := range c03Postfix {
				expect(inst, rule, states, la, actShift, "postfix binds tighter than unary")
			}
		case len(rhs) == 5 && rhs[0] == E && rhs[2] == E && rhs[4] == E && g.TokName(rhs[1]) == "'?'":
			nBinary++
			states := g.AfterRule(rule)
			inst := "E ? E : E"
			for _, la := range opNames {
				expect(inst, rule, states, la, actShift, "?: is the loosest operator and right-associative")
			}
			for _, la := range c03Postfix {
				expect(inst, rule, states, la, actShift, "postfix binds tightest")
			}
		}
	}
	r.Floor("C03.R1", nBinary, 25)
	r.Note("matrix_cells", nCells)

	c03Actions(p, r, g, nm, E)
	// the production and the evaluator must agree on which branch of ?: is which (shared with C07.R4)
	if m, err := buildVMModel(p); err == nil {
		c07ShortCircuitAs(p, r, m, buildEvalAnalysis(m), "C03.R2", true)
	}
	c03Spelling(p, r, g, nm, E)
	c03Numbers(p, r, g)
}

// exprSymbols: nonterminals that carry expression nodes or lists of them (kinds flow to category Expr/Operator).
func exprSymbol(nm *NodeModel, sym int) bool {
	if sym >= 0 {
		return false
	}
	prefix := fmt.Sprintf("nt:%d.", -sym)
	for loc, ks := range nm.Loc {
		if !strings.HasPrefix(loc, prefix) {
			continue
		}
		for k := range ks {
			if nm.Loc["cat:Expr"][k] || nm.Loc["cat:Operator"][k] {
				return true
			}
		}
	}
	return false
}

func c03Actions(p *Program, r *Report, g *LALR, nm *NodeModel, E int) {
	info := g.Info
	n := 0
	var rules []int
	for rule := range g.Clauses {
		rules = append(rules, rule)
	}
	sort.Ints(rules)
	for _, rule := range rules {
		cc := g.Clauses[rule]
		rhs := g.RHS[rule]
		if rule <= 0 || rule >= len(g.R1) {
			continue
		}
		// which $k are expression-valued
		var exprPos []int
		for i, s := range rhs {
			if exprSymbol(nm, s) {
				exprPos = append(exprPos, i+1)
			}
		}
		if len(exprPos) == 0 {
			continue
		}
		// uses of yyDollar[k] as a value that ends up in the tree (anything but the receiver of a .Position()/SetPosition call or a len()/nil test)
		used := map[int]int{}
		var walk func(n ast.Node, asValue bool)
		walk = func(nd ast.Node, asValue bool) {
			switch x := nd.(type) {
			case nil:
				return
			case *ast.SelectorExpr:
				if ix, ok := x.X.(*ast.IndexExpr); ok {
					if id, ok := ix.X.(*ast.Ident); ok && id.Name == "yyDollar" {
						if tv := info.Types[ix.Index]; tv.Value != nil {
							if k, ok := constant.Int64Val(tv.Value); ok && asValue {
								used[int(k)]++
							}
						}
						return
					}
				}
				walk(x.X, asValue)
			case *ast.CallExpr:
				if sel, ok := x.Fun.(*ast.SelectorExpr); ok && (sel.Sel.Name == "Position" || sel.Sel.Name == "SetPosition" || sel.Sel.Name == "Error") {
					walk(sel.X, false)
					for _, a := range x.Args {
						walk(a, false)
					}
					return
				}
				if id, ok := x.Fun.(*ast.Ident); ok && id.Name == "len" {
					return
				}
				walk(x.Fun, asValue)
				for _, a := range x.Args {
					walk(a, asValue)
				}
			case *ast.BinaryExpr:
				if x.Op == token.EQL || x.Op == token.NEQ || x.Op == token.LSS || x.Op == token.GTR || x.Op == token.LEQ || x.Op == token.GEQ || x.Op == token.LAND || x.Op == token.LOR {
					walk(x.X, false)
					walk(x.Y, false)
					return
				}
				walk(x.X, asValue)
				walk(x.Y, asValue)
			case *ast.IfStmt:
				walk(x.Init, asValue)
				walk(x.Cond, false)
				walk(x.Body, asValue)
				walk(x.Else, asValue)
			case *ast.TypeAssertExpr:
				walk(x.X, asValue)
			case *ast.AssignStmt:
				// `_, ok := $3[0].(*ast.ItemExpr)` is a test, not a use
				isTest := false
				if len(x.Lhs) == 2 {
					if id, ok := x.Lhs[0].(*ast.Ident); ok && id.Name == "_" {
						isTest = true
					}
				}
				for _, e := range x.Rhs {
					walk(e, asValue && !isTest)
				}
				for _, e := range x.Lhs {
					walk(e, false)
				}
			default:
				ast.Inspect(nd, func(c ast.Node) bool {
					if c == nd || c == nil {
						return true
					}
					walk(c, asValue)
					return false
				})
			}
		}
		// on every path through the action that builds a node (a branch that reports an error builds none): an action that keeps
		// an operand in one branch and drops it in the other loses that part of the source for some inputs
		usesOf := func(nd ast.Node) map[int]bool {
			saved := used
			used = map[int]int{}
			walk(nd, true)
			out := map[int]bool{}
			for k := range used {
				out[k] = true
			}
			used = saved
			return out
		}
		reportsError := func(nd ast.Node) bool {
			found := false
			ast.Inspect(nd, func(c ast.Node) bool {
				if call, ok := c.(*ast.CallExpr); ok {
					if sel, ok := call.Fun.(*ast.SelectorExpr); ok && sel.Sel.Name == "Error" {
						found = true
					}
				}
				return !found
			})
			return found
		}
		var must func(stmts []ast.Stmt) (map[int]bool, bool)
		must = func(stmts []ast.Stmt) (map[int]bool, bool) {
			set := map[int]bool{}
			for _, st := range stmts {
				if ifs, ok := st.(*ast.IfStmt); ok {
					if ifs.Init != nil {
						for k := range usesOf(ifs.Init) {
							set[k] = true
						}
					}
					a, ab1 := must(ifs.Body.List)
					var b map[int]bool
					ab2 := false
					switch e := ifs.Else.(type) {
					case nil:
						b = map[int]bool{}
					case *ast.BlockStmt:
						b, ab2 = must(e.List)
					default:
						b, ab2 = must([]ast.Stmt{e.(ast.Stmt)})
					}
					// `if $k != nil { … $k … }`: where the operand is absent there is nothing to keep
					if be, ok := ifs.Cond.(*ast.BinaryExpr); ok && (be.Op == token.NEQ || be.Op == token.EQL) {
						for _, side := range [][2]ast.Expr{{be.X, be.Y}, {be.Y, be.X}} {
							if id, ok := side[1].(*ast.Ident); ok && id.Name == "nil" {
								for k := range usesOf(&ast.ExprStmt{X: side[0]}) {
									if a[k] || b[k] {
										set[k] = true
									}
								}
							}
						}
					}
					switch {
					case ab1 && ab2:
						return set, true
					case ab1:
						for k := range b {
							set[k] = true
						}
					case ab2:
						for k := range a {
							set[k] = true
						}
					default:
						for k := range a {
							if b[k] {
								set[k] = true
							}
						}
					}
					continue
				}
				if blk, ok := st.(*ast.BlockStmt); ok {
					a, ab := must(blk.List)
					for k := range a {
						set[k] = true
					}
					if ab {
						return set, true
					}
					continue
				}
				for k := range usesOf(st) {
					set[k] = true
				}
				if reportsError(st) {
					return set, true
				}
			}
			return set, false
		}
		for _, st := range cc.Body {
			walk(st, true)
		}
		mustSet, aborts := must(cc.Body)
		n++
		inst := fmt.Sprintf("rule %s", g.RuleString(rule))
		site := p.Pos(cc.Pos())
		var dropped []string
		for _, k := range exprPos {
			if used[k] == 0 && !(len(cc.Body) == 0 && k == 1) && !defaultCopies(cc, k) {
				dropped = append(dropped, fmt.Sprintf("$%d", k))
			} else if used[k] > 0 && !aborts && !mustSet[k] {
				dropped = append(dropped, fmt.Sprintf("$%d (on one branch of the action)", k))
			}
		}
		r.Check(len(dropped) == 0, "C03.R2", inst+"|operands kept", site, "every expression symbol of the right-hand side becomes part of the node built", "expression symbol(s) "+strings.Join(dropped, ", ")+" of the production are not placed in the tree: that part of the source is lost")
	}
	r.Floor("C03.R2", n, 100)
	// distinct symbols per operand field; productions agree on field order
	byKind := map[string][]Producer{}
	for _, pr := range nm.Producers {
		byKind[pr.Kind] = append(byKind[pr.Kind], pr)
	}
	var kinds []string
	for k := range byKind {
		kinds = append(kinds, k)
	}
	sort.Strings(kinds)
	for _, k := range kinds {
		var exprFields []string
		for _, cf := range nm.Children[k] {
			if cf.Cat == "Expr" {
				exprFields = append(exprFields, cf.Name)
			}
		}
		if len(exprFields) < 2 {
			continue
		}
		for _, pr := range byKind[k] {
			seen := map[int]string{}
			for _, f := range exprFields {
				nn := pr.Fields[f]
				if nn == 0 {
					continue
				}
				if nn-1 < len(g.RHS[pr.Rule]) && listSymbol(nm, g.RHS[pr.Rule][nn-1]) {
					continue // elements of a list symbol ($1[0], $1[1]) are distinct operands
				}
				inst := fmt.Sprintf("%s|rule %d|distinct operands", k, pr.Rule)
				if other, dup := seen[nn]; dup {
					// the op= / ++ shorthands reuse $1 on purpose, but in different nodes; within one node it is a mistake
					r.Fail("C03.R2", inst, p.Pos(pr.Pos), fmt.Sprintf("fields %s and %s of %s are both fed by $%d", other, f, k, nn))
				}
				seen[nn] = f
			}
		}
		for i := 0; i < len(exprFields); i++ {
			for j := i + 1; j < len(exprFields); j++ {
				f, gname := exprFields[i], exprFields[j]
				_, ok := nm.Before(k, f, gname)
				together := false
				for _, pr := range byKind[k] {
					if pr.Fields[f] != 0 && pr.Fields[gname] != 0 {
						together = true
					}
				}
				if together {
					r.Check(ok, "C03.R2", fmt.Sprintf("%s|%s vs %s|productions agree", k, f, gname), "parser/parser.go", "all productions building this node feed the two fields in the same source order", fmt.Sprintf("productions building %s disagree on whether %s or %s comes first in the source: one of them swaps its operands", k, f, gname))
				}
			}
		}
	}
}

// defaultCopies: an empty action (or one that does not assign yyVAL) passes $1 through.
func defaultCopies(cc *ast.CaseClause, k int) bool {
	if k != 1 {
		return false
	}
	assigns := false
	ast.Inspect(cc, func(n ast.Node) bool {
		if as, ok := n.(*ast.AssignStmt); ok {
			for _, l := range as.Lhs {
				if se, ok := l.(*ast.SelectorExpr); ok {
					if id, ok := se.X.(*ast.Ident); ok && id.Name == "yyVAL" {
						assigns = true
					}
				}
			}
		}
		return true
	})
	return !assigns
}

// scannerTokens extracts from Scanner.Scan the relation character sequence -> (token, literal text) by a walk of its nested switches.
type scanTok struct {
	seq string
	tok string // constant name or 'c'
	lit string
	pos token.Pos
}

func scannerTokens(p *Program) ([]scanTok, error) {
	pk := p.Pkg("parser")
	var scan *ast.FuncDecl
	for _, f := range pk.Syntax {
		for _, d := range f.Decls {
			if fd, ok := d.(*ast.FuncDecl); ok && fd.Recv != nil && fd.Name.Name == "Scan" {
				scan = fd
			}
		}
	}
	if scan == nil {
		return nil, fmt.Errorf("Scanner.Scan not found")
	}
	info := pk.TypesInfo
	// the token code and the token text are the first two (named) results of Scan, whatever they are called
	resultObjs := map[types.Object]string{}
	if scan.Type.Results != nil {
		k := 0
		for _, f := range scan.Type.Results.List {
			for _, nm := range f.Names {
				if k == 0 {
					resultObjs[info.ObjectOf(nm)] = "tok"
				} else if k == 1 {
					resultObjs[info.ObjectOf(nm)] = "lit"
				}
				k++
			}
		}
	}
	resultRole := func(id *ast.Ident) string {
		if o := info.ObjectOf(id); o != nil {
			return resultObjs[o]
		}
		return ""
	}
	var out []scanTok
	charOf := func(e ast.Expr) (string, bool) {
		tv := info.Types[e]
		if tv.Value == nil {
			return "", false
		}
		if v, ok := constant.Int64Val(constant.ToInt(tv.Value)); ok && v > 0 {
			return string(rune(v)), true
		}
		return "", false
	}
	// flat: nested plain blocks are part of the statement list they stand in
	var flat func(body []ast.Stmt) []ast.Stmt
	flat = func(body []ast.Stmt) []ast.Stmt {
		var out []ast.Stmt
		for _, st := range body {
			if b, ok := st.(*ast.BlockStmt); ok {
				out = append(out, flat(b.List)...)
			} else {
				out = append(out, st)
			}
		}
		return out
	}
	// charTest: cond is `x == 'c'` / `'c' == x` (eq) or the != form (eq false), possibly parenthesised or negated
	var charTest func(e ast.Expr) (ch string, eq bool, ok bool)
	charTest = func(e ast.Expr) (string, bool, bool) {
		switch x := e.(type) {
		case *ast.ParenExpr:
			return charTest(x.X)
		case *ast.UnaryExpr:
			if x.Op == token.NOT {
				ch, eq, ok := charTest(x.X)
				return ch, !eq, ok
			}
		case *ast.BinaryExpr:
			if x.Op == token.EQL || x.Op == token.NEQ {
				if ch, ok := charOf(x.Y); ok {
					return ch, x.Op == token.EQL, true
				}
				if ch, ok := charOf(x.X); ok {
					return ch, x.Op == token.EQL, true
				}
			}
		}
		return "", false, false
	}
	var visit func(body []ast.Stmt, seq string)
	visit = func(body []ast.Stmt, seq string) {
		tokName, lit := "", ""
		var tpos token.Pos
		for _, st := range flat(body) {
			switch x := st.(type) {
			case *ast.AssignStmt:
				if len(x.Lhs) == 1 && len(x.Rhs) == 1 {
					if id, ok := x.Lhs[0].(*ast.Ident); ok {
						switch resultRole(id) {
						case "tok":
							if rid, ok := x.Rhs[0].(*ast.Ident); ok {
								tokName = rid.Name
								tpos = x.Pos()
							} else if c, ok := x.Rhs[0].(*ast.CallExpr); ok && len(c.Args) == 1 {
								tokName = "'" + seq[:1] + "'" // int(ch)
								if len(seq) != 1 {
									tokName = "int(ch)@" + seq
								}
								tpos = x.Pos()
							}
						case "lit":
							if tv := info.Types[x.Rhs[0]]; tv.Value != nil && tv.Value.Kind() == constant.String {
								lit = constant.StringVal(tv.Value)
							} else if c, ok := x.Rhs[0].(*ast.CallExpr); ok && len(c.Args) == 1 {
								lit = seq[:1] // string(ch)
							}
						}
					}
				}
			case *ast.SwitchStmt:
				for _, cs := range x.Body.List {
					cc := cs.(*ast.CaseClause)
					if len(cc.List) == 0 {
						visit(cc.Body, seq+"\x00") // default: one character that is not consumed (back)
						continue
					}
					for _, e := range cc.List {
						if x.Tag == nil { // switch { case s.peek() == '=': }
							if ch, eq, ok := charTest(e); ok && eq {
								visit(cc.Body, seq+ch)
							}
							continue
						}
						if ch, ok := charOf(e); ok {
							visit(cc.Body, seq+ch)
						}
					}
				}
			case *ast.IfStmt:
				// `if s.peek() == '.' {...} else {...}` and the `= <-` lookahead
				if ch, eq, ok := charTest(x.Cond); ok {
					var elseList []ast.Stmt
					hasElse := false
					if eb, ok := x.Else.(*ast.BlockStmt); ok {
						elseList, hasElse = eb.List, true
					} else if ei, ok := x.Else.(*ast.IfStmt); ok {
						elseList, hasElse = []ast.Stmt{ei}, true
					}
					if eq {
						visit(x.Body.List, seq+ch)
						if hasElse {
							visit(elseList, seq+"\x00")
						}
					} else {
						visit(x.Body.List, seq+"\x00")
						if hasElse {
							visit(elseList, seq+ch)
						}
					}
					continue
				}
				if be, ok := x.Cond.(*ast.BinaryExpr); ok && be.Op == token.LAND {
					var chs string
					okAll := true
					for _, side := range []ast.Expr{be.X, be.Y} {
						if b2, ok := side.(*ast.BinaryExpr); ok && b2.Op == token.EQL {
							if ch, ok := charOf(b2.Y); ok {
								chs += ch
								continue
							}
						}
						okAll = false
					}
					if okAll {
						visit(x.Body.List, seq+chs)
						if eb, ok := x.Else.(*ast.BlockStmt); ok {
							visit(eb.List, seq+"\x00")
						}
					}
				}
			}
		}
		if tokName != "" {
			out = append(out, scanTok{seq: strings.TrimRight(seq, "\x00"), tok: tokName, lit: lit, pos: tpos})
		}
	}
	// find the `switch ch` in the default clause of the outer tagless switch
	ast.Inspect(scan.Body, func(n ast.Node) bool {
		sw, ok := n.(*ast.SwitchStmt)
		if !ok {
			return true
		}
		if id, ok := sw.Tag.(*ast.Ident); ok && isRuneVar(info, id) {
			for _, cs := range sw.Body.List {
				cc := cs.(*ast.CaseClause)
				for _, e := range cc.List {
					if ch, ok := charOf(e); ok {
						visit(cc.Body, ch)
					}
				}
			}
			return false
		}
		return true
	})
	// charsOf: the characters of a condition that is a disjunction of tests of the current character
	var charsOf func(cond ast.Expr) []string
	if true {
		// the same dispatch written as an if / else-if chain on a copy of the current character:
		//   if c := ch; c == '=' || c == '!' { ... } else if c == '+' { ... } else { ... }
		charsOf = func(cond ast.Expr) []string {
			var chars []string
			okAll := true
			var split func(e ast.Expr)
			split = func(e ast.Expr) {
				switch x := e.(type) {
				case *ast.ParenExpr:
					split(x.X)
				case *ast.BinaryExpr:
					if x.Op == token.LOR {
						split(x.X)
						split(x.Y)
						return
					}
					if x.Op == token.EQL {
						if id, ok := x.X.(*ast.Ident); ok && isRuneVar(info, id) {
							if ch, ok := charOf(x.Y); ok {
								chars = append(chars, ch)
								return
							}
						}
						if id, ok := x.Y.(*ast.Ident); ok && isRuneVar(info, id) {
							if ch, ok := charOf(x.X); ok {
								chars = append(chars, ch)
								return
							}
						}
					}
					okAll = false
				default:
					okAll = false
				}
			}
			split(cond)
			if !okAll {
				return nil
			}
			return chars
		}
	}
	if len(out) < 30 {
		best := 0
		ast.Inspect(scan.Body, func(n ast.Node) bool {
			is, ok := n.(*ast.IfStmt)
			if !ok {
				return true
			}
			// length of the chain whose every condition is a disjunction of character tests
			k := 0
			for cur := is; cur != nil; {
				if charsOf(cur.Cond) == nil {
					break
				}
				k++
				next, _ := cur.Else.(*ast.IfStmt)
				cur = next
			}
			if k > best && k >= 10 {
				best = k
				out = nil
				for cur := is; cur != nil; {
					chars := charsOf(cur.Cond)
					if chars == nil {
						break
					}
					for _, ch := range chars {
						visit(cur.Body.List, ch)
					}
					next, _ := cur.Else.(*ast.IfStmt)
					cur = next
				}
				return false
			}
			return true
		})
	}
	if len(out) < 30 {
		// the same dispatch written as a tag-less switch: switch { case ch == '=' || ch == '!': ... case ch == '+': ... }
		best := 0
		ast.Inspect(scan.Body, func(n ast.Node) bool {
			sw, ok := n.(*ast.SwitchStmt)
			if !ok || sw.Tag != nil {
				return true
			}
			k := 0
			for _, cs := range sw.Body.List {
				cc := cs.(*ast.CaseClause)
				all := len(cc.List) > 0
				for _, e := range cc.List {
					if charsOf(e) == nil {
						all = false
					}
				}
				if all {
					k++
				}
			}
			if k > best && k >= 10 {
				best = k
				out = nil
				for _, cs := range sw.Body.List {
					cc := cs.(*ast.CaseClause)
					var chars []string
					all := len(cc.List) > 0
					for _, e := range cc.List {
						c := charsOf(e)
						if c == nil {
							all = false
						}
						chars = append(chars, c...)
					}
					if !all {
						continue
					}
					for _, ch := range chars {
						visit(cc.Body, ch)
					}
				}
				return false
			}
			return true
		})
	}
	if len(out) < 30 {
		return nil, fmt.Errorf("only %d token assignments found in Scanner.Scan", len(out))
	}
	return out, nil
}

func c03Spelling(p *Program, r *Report, g *LALR, nm *NodeModel, E int) {
	toks, err := scannerTokens(p)
	if err != nil {
		r.Undecided("C03.R3", "scanner", "parser/lexer.go", err.Error())
		return
	}
	// lit must equal the characters consumed; one sequence per token
	byTok := map[string][]scanTok{}
	for _, t := range toks {
		byTok[t.tok] = append(byTok[t.tok], t)
		if t.tok == "VARARG" {
			continue // "..." carries no literal text
		}
		want := strings.ReplaceAll(t.seq, "\x00", "")
		litNorm := strings.ReplaceAll(t.lit, " ", "")
		seqNorm := strings.ReplaceAll(want, " ", "")
		r.Check(litNorm == seqNorm, "C03.R3", "scanner|"+t.tok+"|"+want, p.Pos(t.pos), fmt.Sprintf("characters %q yield token %s with text %q", want, t.tok, t.lit), fmt.Sprintf("characters %q are scanned as token %s but the token text is %q", want, t.tok, t.lit))
	}
	var names []string
	for n := range byTok {
		names = append(names, n)
	}
	sort.Strings(names)
	for _, n := range names {
		if strings.HasPrefix(n, "'") || strings.HasPrefix(n, "int(ch)") {
			continue
		}
		seqs := map[string]bool{}
		for _, t := range byTok[n] {
			seqs[t.seq] = true
		}
		r.Check(len(seqs) == 1, "C03.R3", "scanner|one spelling|"+n, p.Pos(byTok[n][0].pos), "exactly one character sequence yields this token", fmt.Sprintf("token %s is produced for %d different character sequences", n, len(seqs)))
	}
	r.Floor("C03.R3", len(toks), 40)
	// operator productions: Operator string == token text; handler has the case
	m, merr := buildVMModel(p)
	litOf := func(tokName string) (string, bool) {
		if strings.HasPrefix(tokName, "'") && len(tokName) >= 3 {
			return strings.Trim(tokName, "'"), true
		}
		if ts, ok := byTok[tokName]; ok {
			return ts[0].lit, true
		}
		return "", false
	}
	opKinds := map[string]bool{"BinaryOperator": true, "ComparisonOperator": true, "AddOperator": true, "MultiplyOperator": true, "UnaryExpr": true}
	nOps := 0
	for _, pr := range nm.Producers {
		if !opKinds[pr.Kind] {
			continue
		}
		rhs := g.RHS[pr.Rule]
		// the operator token of the production: the first token of the right-hand side
		opTok := ""
		for _, s := range rhs {
			if s > 0 {
				opTok = g.TokName(s)
				break
			}
		}
		opStr, ok := producerOperator(g, pr)
		if !ok || opTok == "" {
			continue
		}
		nOps++
		inst := fmt.Sprintf("%s|rule %d|%s", pr.Kind, pr.Rule, opTok)
		lit, ok := litOf(opTok)
		if !ok {
			r.Fail("C03.R3", inst, p.Pos(pr.Pos), "token "+opTok+" is never produced by the scanner")
			continue
		}
		want := lit
		// shorthands: "+=" builds "+", "++" builds "+"
		if len(rhs) >= 2 && (strings.HasSuffix(lit, "=") && len(lit) == 2 && lit != "==" && lit != "!=" && lit != "<=" && lit != ">=") {
			want = lit[:1]
		} else if lit == "++" || lit == "--" {
			want = lit[:1]
		}
		r.Check(opStr == want, "C03.R3", inst, p.Pos(pr.Pos), fmt.Sprintf("token text %q builds Operator %q", lit, opStr), fmt.Sprintf("source operator %q builds a node with Operator %q", lit, opStr))
		// the evaluator of the node kind implements that operator
		if merr == nil {
			var h *ssa.Function
			if pr.Kind == "UnaryExpr" {
				h = m.handlers["expr"][pr.Kind]
			} else {
				h = m.handlers["op"][pr.Kind]
			}
			if h == nil {
				r.Fail("C03.R3", inst+"|handler", "vm", "no handler for "+pr.Kind)
				continue
			}
			has := false
			for _, b := range h.Blocks {
				for _, in := range b.Instrs {
					if bo, ok := in.(*ssa.BinOp); ok && bo.Op == token.EQL {
						if c, ok := bo.Y.(*ssa.Const); ok && c.Value != nil && c.Value.Kind() == constant.String && constant.StringVal(c.Value) == opStr {
							has = true
						}
					}
				}
			}
			r.Check(has, "C03.R3", inst+"|handler", p.Pos(h.Pos()), funcName(h)+" has a case for \""+opStr+"\"", fmt.Sprintf("the parser builds %s{Operator: %q} but %s has no case for it (runtime error 'unknown operator')", pr.Kind, opStr, funcName(h)))
		}
	}
	r.Floor("C03.R3b", nOps, 28)
}

// producerOperator finds the constant Operator string of the node literal of a producer.
func producerOperator(g *LALR, pr Producer) (string, bool) {
	cc := g.Clauses[pr.Rule]
	if cc == nil {
		return "", false
	}
	res, found := "", false
	ast.Inspect(cc, func(n ast.Node) bool {
		cl, ok := n.(*ast.CompositeLit)
		if !ok || cl.Pos() != pr.Pos {
			return true
		}
		for _, el := range cl.Elts {
			if kv, ok := el.(*ast.KeyValueExpr); ok {
				if key, ok := kv.Key.(*ast.Ident); ok && key.Name == "Operator" {
					if tv := g.Info.Types[kv.Value]; tv.Value != nil && tv.Value.Kind() == constant.String {
						res, found = constant.StringVal(tv.Value), true
					}
				}
			}
		}
		return false
	})
	return res, found
}

func c03Numbers(p *Program, r *Report, g *LALR) {
	sp := p.SSAPkg("parser")
	var toNum *ssa.Function
	// the function called with the NUMBER token's text in the literal actions: func(string) (reflect.Value, error)
	for _, fn := range SrcFuncs(sp) {
		sig := fn.Signature
		if fn.Parent() == nil && sig.Params().Len() == 1 && sig.Results().Len() == 2 && types.Identical(sig.Params().At(0).Type(), types.Typ[types.String]) &&
			isNamed(sig.Results().At(0).Type(), "reflect", "Value") && isErrorType(sig.Results().At(1).Type()) {
			toNum = fn
		}
	}
	if toNum == nil {
		r.Undecided("C03.R4", "toNumber", "parser/lexer.go", "number conversion function not found")
		return
	}
	site := p.Pos(toNum.Pos())
	nConv := 0
	for _, b := range toNum.Blocks {
		for _, in := range b.Instrs {
			c, ok := in.(*ssa.Call)
			if !ok {
				continue
			}
			o := calleeObj(c)
			if o == nil || o.Pkg() == nil || o.Pkg().Path() != "strconv" {
				continue
			}
			nConv++
			inst := fmt.Sprintf("toNumber|strconv.%s #%d", o.Name(), nConv)
			// error propagated
			okErr := false
			var val *ssa.Extract
			for _, ref := range *c.Referrers() {
				ex, ok := ref.(*ssa.Extract)
				if !ok {
					continue
				}
				if ex.Index == 0 {
					val = ex
				}
				if ex.Index == 1 {
					for _, r2 := range *ex.Referrers() {
						if bo, ok := r2.(*ssa.BinOp); ok && bo.Op == token.NEQ && isNilConst(bo.Y) {
							for _, r3 := range *bo.Referrers() {
								if iff, ok := r3.(*ssa.If); ok {
									t := iff.Block().Succs[0]
									if ret, ok := t.Instrs[len(t.Instrs)-1].(*ssa.Return); ok && len(ret.Results) == 2 && ret.Results[1] == ssa.Value(ex) {
										okErr = true
									}
								}
							}
						}
					}
				}
			}
			r.Check(okErr, "C03.R4", inst+"|error", p.Pos(c.Pos()), "a conversion error is returned", "the error of strconv."+o.Name()+" is not returned: an unrepresentable literal is accepted with a wrong value")
			// value returned unmodified
			okVal := false
			if val != nil {
				for _, ref := range *val.Referrers() {
					if mi, ok := ref.(*ssa.MakeInterface); ok {
						for _, r2 := range *mi.Referrers() {
							if vc, ok := r2.(*ssa.Call); ok {
								if vo := calleeObj(vc); vo != nil && isFuncNamed(vo, "reflect", "", "ValueOf") {
									for _, r3 := range *vc.Referrers() {
										if _, ok := r3.(*ssa.Return); ok {
											okVal = true
										}
									}
								}
							}
						}
					}
				}
			}
			r.Check(okVal, "C03.R4", inst+"|value", p.Pos(c.Pos()), "the literal's value is exactly what strconv returned", "the result of strconv."+o.Name()+" is altered before it becomes the literal's value (range or sign of the literal can be wrong)")
			// base and bit size
			if o.Name() == "ParseInt" && len(c.Call.Args) == 3 {
				base, _ := c.Call.Args[1].(*ssa.Const)
				bits, _ := c.Call.Args[2].(*ssa.Const)
				okB := base != nil && bits != nil && bits.Int64() == 64 && (base.Int64() == 10 || base.Int64() == 16 || base.Int64() == 2)
				r.Check(okB, "C03.R4", inst+"|base", p.Pos(c.Pos()), "parsed as a 64-bit integer in base 2, 10 or 16", "integer literals are not parsed as 64-bit base 2/10/16 numbers")
			}
			if o.Name() == "ParseFloat" && len(c.Call.Args) == 2 {
				bits, _ := c.Call.Args[1].(*ssa.Const)
				r.Check(bits != nil && bits.Int64() == 64, "C03.R4", inst+"|bits", p.Pos(c.Pos()), "parsed as float64", "float literals are not parsed as float64")
			}
		}
	}
	r.Floor("C03.R4", nConv, 5)
	// the value of a literal is parsed, never computed: no arithmetic on 64-bit numbers in the conversion function. A literal
	// whose magnitude is parsed and then negated cannot denote MinInt64 (-0x8000000000000000), and a scaled or shifted value
	// loses digits that strconv would have kept or refused
	{
		bad := ""
		for _, b := range toNum.Blocks {
			for _, in := range b.Instrs {
				var t types.Type
				switch x := in.(type) {
				case *ssa.UnOp:
					if x.Op == token.SUB {
						t = x.Type()
					}
				case *ssa.BinOp:
					switch x.Op {
					case token.ADD, token.SUB, token.MUL, token.QUO, token.SHL, token.SHR:
						t = x.Type()
					}
				}
				if t == nil {
					continue
				}
				if bt, ok := t.Underlying().(*types.Basic); ok && (bt.Kind() == types.Int64 || bt.Kind() == types.Float64 || bt.Kind() == types.Uint64) {
					bad = p.Pos(instrPos(in))
				}
			}
		}
		r.Check(bad == "", "C03.R4", funcName(toNum)+"|value parsed, not computed", p.Pos(toNum.Pos()), "no arithmetic on 64-bit numbers in the literal conversion",
			"the literal conversion computes on a parsed number at "+bad+" (negates, scales or shifts it): the literal's range is no longer that of int64 / float64 - a magnitude parsed first and negated afterwards cannot denote MinInt64")
	}
	_ = site
	// the literal actions report the error
	nAct := 0
	for rule, cc := range g.Clauses {
		callsToNum := false
		reports := false
		ast.Inspect(cc, func(n ast.Node) bool {
			if c, ok := n.(*ast.CallExpr); ok {
				if id, ok := c.Fun.(*ast.Ident); ok {
					if f, ok := g.Info.Uses[id].(*types.Func); ok && f == toNum.Object() {
						callsToNum = true
					}
				}
			}
			if ifs, ok := n.(*ast.IfStmt); ok {
				if be, ok := ifs.Cond.(*ast.BinaryExpr); ok && be.Op == token.NEQ {
					if id, ok := be.X.(*ast.Ident); ok && isErrorType(g.Info.TypeOf(id)) {
						ast.Inspect(ifs.Body, func(n2 ast.Node) bool {
							if c, ok := n2.(*ast.CallExpr); ok {
								if sel, ok := c.Fun.(*ast.SelectorExpr); ok && sel.Sel.Name == "Error" {
									reports = true
								}
							}
							return true
						})
					}
				}
			}
			return true
		})
		if callsToNum {
			nAct++
			r.Check(reports, "C03.R4", fmt.Sprintf("rule %d|reports", rule), p.Pos(cc.Pos()), "a number that cannot be represented is a parse error", "the error of the number conversion is ignored in the grammar action")
		}
	}
	r.Floor("C03.R4b", nAct, 2)
}

// listSymbol: the grammar symbol carries a list of expressions (its union field is a slice).
func listSymbol(nm *NodeModel, sym int) bool {
	if sym >= 0 {
		return false
	}
	prefix := fmt.Sprintf("nt:%d.", -sym)
	for loc := range nm.Loc {
		if strings.HasPrefix(loc, prefix) && strings.HasSuffix(loc, ".exprs") {
			return true
		}
	}
	return false
}

// c03NumberText (R5): writer/reader agreement on number literals. The scanner builds the literal's text, toNumber classifies it by
// the characters it contains. A character the scanner copies from the input under a test that admits an upper-case letter must be
// one toNumber's classification knows; otherwise the scanner has to normalise it (as it does for the exponent marker).
func c03NumberText(p *Program, r *Report) {
	sm, err := buildScanModel(p)
	if err != nil {
		r.Undecided("C03.R5", "scanner", "parser/lexer.go", err.Error())
		return
	}
	sp := p.SSAPkg("parser")
	var reader *ssa.Function
	for _, fn := range SrcFuncs(sp) {
		sg := fn.Signature
		if sg.Recv() == nil && sg.Params().Len() == 1 && sg.Results().Len() == 2 && isReflectValue(sg.Results().At(0).Type()) {
			if b, ok := sg.Params().At(0).Type().(*types.Basic); ok && b.Kind() == types.String {
				reader = fn
			}
		}
	}
	if reader == nil {
		r.Undecided("C03.R5", "toNumber", "parser/lexer.go", "literal conversion function not found")
		return
	}
	known := map[rune]bool{}
	for _, b := range reader.Blocks {
		for _, in := range b.Instrs {
			for _, op := range in.Operands(nil) {
				if c, ok := (*op).(*ssa.Const); ok && c.Value != nil && c.Value.Kind() == constant.String {
					for _, ch := range constant.StringVal(c.Value) {
						known[ch] = true
					}
				}
			}
		}
	}
	n := 0
	for _, fn := range SrcFuncs(sp) {
		// scanners of literal text: methods returning (string, error)
		sg := fn.Signature
		if sg.Recv() == nil || sg.Results().Len() != 2 || !isErrorType(sg.Results().At(1).Type()) {
			continue
		}
		if b, ok := sg.Results().At(0).Type().(*types.Basic); !ok || b.Kind() != types.String {
			continue
		}
		// only the number scanner: it tests the cursor against '.'
		testsDot := false
		for _, b := range fn.Blocks {
			for _, in := range b.Instrs {
				if bo, ok := in.(*ssa.BinOp); ok && bo.Op == token.EQL {
					if c, ok := bo.Y.(*ssa.Const); ok && c.Value != nil && c.Value.Kind() == constant.Int && c.Int64() == '.' {
						if pc, ok := bo.X.(*ssa.Call); ok && sm.peekLike[staticCallee(pc)] {
							testsDot = true
						}
					}
				}
			}
		}
		if !testsDot {
			continue
		}
		k := 0
		nSign := 0
		for _, b := range fn.Blocks {
			for _, in := range b.Instrs {
				c, _, els := builtinAppend(in)
				if c == nil || len(els) != 1 {
					continue
				}
				pc, ok := els[0].(*ssa.Call)
				if !ok || !sm.peekLike[staticCallee(pc)] {
					continue
				}
				// which characters can the cursor hold here: the constants of the tests that admit this block
				admitted := map[rune]bool{}
				var collect func(blk *ssa.BasicBlock, depth int)
				collect = func(blk *ssa.BasicBlock, depth int) {
					if depth > 3 {
						return
					}
					for _, pr := range blk.Preds {
						iff, ok := pr.Instrs[len(pr.Instrs)-1].(*ssa.If)
						if !ok {
							if len(pr.Succs) == 1 {
								collect(pr, depth+1)
							}
							continue
						}
						bo, ok := iff.Cond.(*ssa.BinOp)
						if !ok || bo.Op != token.EQL || pr.Succs[0] != blk {
							continue
						}
						if tc, ok := bo.X.(*ssa.Call); !ok || !sm.peekLike[staticCallee(tc)] {
							continue
						}
						if k, ok := bo.Y.(*ssa.Const); ok && k.Value != nil && k.Value.Kind() == constant.Int {
							admitted[rune(k.Int64())] = true
						}
					}
				}
				for d := b; d != nil; d = d.Idom() {
					// a class predicate on the cursor (isDigit(peek()), isHex(peek()) ...) as the nearest guard: a class, not a marker
					byPredicate := false
					for _, pr := range d.Preds {
						if iff, ok := pr.Instrs[len(pr.Instrs)-1].(*ssa.If); ok && pr.Succs[0] == d {
							if hc, ok := iff.Cond.(*ssa.Call); ok && len(hc.Call.Args) == 1 {
								if ac, ok := hc.Call.Args[0].(*ssa.Call); ok && sm.peekLike[staticCallee(ac)] {
									byPredicate = true
								}
							}
						}
					}
					if byPredicate {
						break
					}
					collect(d, 0)
					if len(admitted) > 0 {
						break
					}
				}
				if len(admitted) == 0 {
					continue // copied under a predicate (digits, hex digits): classes, not markers
				}
				// a sign is part of a number literal only directly behind the exponent marker: the block that copies a '+' or '-'
				// into the text is reached, in its turn of the loop, only through the block that put the exponent marker there.
				// A sign accepted on a flag that is still set later in the literal swallows the operator of `1e5-3`
				onlySigns := true
				for ch := range admitted {
					if ch != '+' && ch != '-' {
						onlySigns = false
					}
				}
				if onlySigns {
					behindMarker := false
					for _, b2 := range fn.Blocks {
						for _, in2 := range b2.Instrs {
							c2, _, els2 := builtinAppend(in2)
							if c2 == nil || len(els2) != 1 || c2 == c {
								continue
							}
							isMarker := false
							if kc, ok := els2[0].(*ssa.Const); ok && kc.Value != nil && kc.Value.Kind() == constant.Int && (kc.Int64() == 'e' || kc.Int64() == 'E') {
								isMarker = true
							}
							if isMarker && (b2 == b && instrIndex(c2) < instrIndex(c) || (b2 != b && b2.Dominates(b))) {
								// and not through the head of the scanning loop again
								inLoop := false
								for _, l := range loopsOf(fn) {
									if l.Body[b2] && l.Body[b] && l.Header != b && !(b2.Dominates(l.Header) && l.Header.Dominates(b) && l.Header != b2) {
										inLoop = true
									}
								}
								if inLoop || len(loopsOf(fn)) == 0 {
									behindMarker = true
								}
							}
						}
					}
					nSign++
					r.Check(behindMarker, "C03.R5", fmt.Sprintf("%s|sign copied only behind the exponent marker #%d", funcName(fn), nSign), p.Pos(c.Pos()),
						"the block that copies the sign is dominated by the block that wrote the exponent marker, in the same turn of the loop",
						"a '+' or '-' is copied into a number literal's text at a place that is not reached through the exponent marker of the same turn: a sign that follows a complete literal (the operator of `1e5-3`) is swallowed into the number")
				}
				n++
				k++
				bad := ""
				for ch := range admitted {
					if !known[ch] && (ch < '0' || ch > '9') && ch != '+' && ch != '-' {
						bad += string(ch)
					}
				}
				r.Check(bad == "", "C03.R5", fmt.Sprintf("%s|copied marker #%d", funcName(fn), k), p.Pos(c.Pos()), "every marker character copied into the literal text is one the literal conversion looks for",
					"the scanner copies the character(s) "+fmt.Sprintf("%q", bad)+" into a number literal's text as they are spelled, but the conversion recognises the literal's form only by "+fmt.Sprintf("%q", keysOfRunes(known))+": a literal spelled with them is misclassified (e.g. 1E3 taken for an integer and rejected)")
			}
		}
	}
	r.Note("C03.R5 copied marker sites", n)
}

func keysOfRunes(m map[rune]bool) string {
	var rs []rune
	for k := range m {
		rs = append(rs, k)
	}
	sort.Slice(rs, func(i, j int) bool { return rs[i] < rs[j] })
	return string(rs)
}

// c03Escapes (R6): escape sequences in quoted strings denote their Go meaning: after a backslash, each letter the scanner
// singles out (b f n r t ...) contributes exactly the one control character Go assigns to it, and nothing else.
func c03Escapes(p *Program, r *Report) {
	sm, err := buildScanModel(p)
	if err != nil {
		return
	}
	goEscape := map[rune]rune{'a': '\a', 'b': '\b', 'f': '\f', 'n': '\n', 'r': '\r', 't': '\t', 'v': '\v', '0': 0}
	sp := p.SSAPkg("parser")
	n := 0
	for _, fn := range SrcFuncs(sp) {
		// the quoted-string scanner: tests the cursor against a backslash
		var bs []*ssa.BasicBlock
		for _, b := range fn.Blocks {
			if iff, ok := b.Instrs[len(b.Instrs)-1].(*ssa.If); ok {
				if bo, ok := iff.Cond.(*ssa.BinOp); ok && bo.Op == token.EQL {
					if c, ok := bo.Y.(*ssa.Const); ok && c.Value != nil && c.Value.Kind() == constant.Int && c.Int64() == '\\' {
						if pc, ok := bo.X.(*ssa.Call); ok && sm.peekLike[staticCallee(pc)] {
							bs = append(bs, b.Succs[0])
						}
					}
				}
			}
		}
		for _, start := range bs {
			// the chain of tests on the character after the backslash
			for b := range reachable(start, func(x *ssa.BasicBlock) bool { return !start.Dominates(x) }) {
				iff, ok := b.Instrs[len(b.Instrs)-1].(*ssa.If)
				if !ok {
					continue
				}
				bo, ok := iff.Cond.(*ssa.BinOp)
				if !ok || bo.Op != token.EQL {
					continue
				}
				c, ok := bo.Y.(*ssa.Const)
				if !ok || c.Value == nil || c.Value.Kind() != constant.Int {
					continue
				}
				pc, ok := bo.X.(*ssa.Call)
				if !ok || !sm.peekLike[staticCallee(pc)] {
					continue
				}
				letter := rune(c.Int64())
				want, known := goEscape[letter]
				if !known {
					continue
				}
				// what is appended from the true edge until control leaves the escape handling (a back edge or a merge)
				var got []string
				for x := b.Succs[0]; x != nil; {
					for _, in := range x.Instrs {
						if ac, _, els := builtinAppend(in); ac != nil && len(els) == 1 {
							if k, ok := els[0].(*ssa.Const); ok && k.Value != nil {
								got = append(got, fmt.Sprintf("%q", rune(k.Int64())))
							} else {
								got = append(got, "the letter itself")
							}
						}
					}
					if len(x.Succs) != 1 || x.Succs[0].Dominates(x) {
						break
					}
					x = x.Succs[0]
				}
				n++
				wantS := fmt.Sprintf("%q", want)
				r.Check(len(got) == 1 && got[0] == wantS, "C03.R6", fmt.Sprintf("%s|escape \\%c", funcName(fn), letter), p.Pos(instrPos(iff)), "contributes "+wantS,
					fmt.Sprintf("the escape \\%c contributes %v to the string, Go's meaning is %s alone", letter, got, wantS))
			}
		}
	}
	r.Floor("C03.R6", n, 5)
}

// c03NoTruncation (R7): a grammar action that builds a node from single elements of a list symbol ($n[0], $n[1]) without the
// list itself does so only where the list is known to have exactly those elements (`len($n) == k`). Otherwise the further
// expressions written in the source are dropped from the tree without an error.
func c03NoTruncation(p *Program, r *Report, g *LALR) {
	type sym struct {
		n int
		f string
	}
	// dollarField: e is yyDollar[n].F
	dollarField := func(e ast.Expr) (sym, bool) {
		se, ok := e.(*ast.SelectorExpr)
		if !ok {
			return sym{}, false
		}
		ix, ok := se.X.(*ast.IndexExpr)
		if !ok {
			return sym{}, false
		}
		id, ok := ix.X.(*ast.Ident)
		if !ok || id.Name != "yyDollar" {
			return sym{}, false
		}
		bl, ok := ix.Index.(*ast.BasicLit)
		if !ok {
			return sym{}, false
		}
		n := 0
		fmt.Sscanf(bl.Value, "%d", &n)
		return sym{n, se.Sel.Name}, true
	}
	var rules []int
	for rule := range g.Clauses {
		rules = append(rules, rule)
	}
	sort.Ints(rules)
	nLits := 0
	for _, rule := range rules {
		cc := g.Clauses[rule]
		if cc == nil {
			continue
		}
		// locals defined from an element of a list symbol: item, ok := yyDollar[3].exprs[0].(*ast.ItemExpr)
		localElem := map[string][2]interface{}{}
		ast.Inspect(cc, func(n ast.Node) bool {
			as, ok := n.(*ast.AssignStmt)
			if !ok || as.Tok != token.DEFINE || len(as.Rhs) != 1 {
				return true
			}
			ast.Inspect(as.Rhs[0], func(m ast.Node) bool {
				ix, ok := m.(*ast.IndexExpr)
				if !ok {
					return true
				}
				if s, ok := dollarField(ix.X); ok {
					if bl, ok := ix.Index.(*ast.BasicLit); ok {
						c := 0
						fmt.Sscanf(bl.Value, "%d", &c)
						if id, ok := as.Lhs[0].(*ast.Ident); ok {
							localElem[id.Name] = [2]interface{}{s, c}
						}
					}
				}
				return true
			})
			return true
		})
		var visit func(list []ast.Stmt, conds []ast.Expr)
		checkLit := func(cl *ast.CompositeLit, conds []ast.Expr) {
			elem := map[sym]int{}   // list symbol -> highest constant index used
			whole := map[sym]bool{} // list symbol used as a whole
			var walk func(e ast.Node, underIndex bool)
			walk = func(e ast.Node, underIndex bool) {
				ast.Inspect(e, func(m ast.Node) bool {
					switch x := m.(type) {
					case *ast.IndexExpr:
						if s, ok := dollarField(x.X); ok {
							if bl, ok := x.Index.(*ast.BasicLit); ok {
								c := 0
								fmt.Sscanf(bl.Value, "%d", &c)
								if c+1 > elem[s] {
									elem[s] = c + 1
								}
								return false
							}
						}
					case *ast.SelectorExpr:
						if s, ok := dollarField(x); ok {
							whole[s] = true
							return false
						}
					case *ast.Ident:
						if le, ok := localElem[x.Name]; ok {
							s, c := le[0].(sym), le[1].(int)
							if c+1 > elem[s] {
								elem[s] = c + 1
							}
						}
					}
					return true
				})
			}
			walk(cl, false)
			for s, need := range elem {
				if whole[s] {
					continue
				}
				nLits++
				ok := false
				var conj func(e ast.Expr)
				conj = func(e ast.Expr) {
					switch x := e.(type) {
					case *ast.ParenExpr:
						conj(x.X)
					case *ast.BinaryExpr:
						if x.Op == token.LAND {
							conj(x.X)
							conj(x.Y)
							return
						}
						if x.Op == token.EQL {
							for _, pair := range [][2]ast.Expr{{x.X, x.Y}, {x.Y, x.X}} {
								if c, isCall := pair[0].(*ast.CallExpr); isCall && len(c.Args) == 1 {
									if id, isId := c.Fun.(*ast.Ident); isId && id.Name == "len" {
										if s2, ok2 := dollarField(c.Args[0]); ok2 && s2 == s {
											if bl, isLit := pair[1].(*ast.BasicLit); isLit && bl.Value == fmt.Sprint(need) {
												ok = true
											}
										}
									}
								}
							}
						}
					}
				}
				for _, c := range conds {
					conj(c)
				}
				r.Check(ok, "C03.R7", fmt.Sprintf("rule %s|%s built from $%d[0..%d] only where the list has exactly %d element(s)", g.RuleString(rule), types.ExprString(cl.Type), s.n, need-1, need), p.Pos(cl.Pos()),
					fmt.Sprintf("under len($%d) == %d", s.n, need),
					fmt.Sprintf("the node is built from the first %d element(s) of $%d without a test that the list has no more: further expressions written in the source are dropped from the tree (`a, b = m[0], 5` parses as `a, b = m[0]`)", need, s.n))
			}
		}
		visit = func(list []ast.Stmt, conds []ast.Expr) {
			for _, st := range list {
				switch x := st.(type) {
				case *ast.BlockStmt:
					visit(x.List, conds)
				case *ast.IfStmt:
					inner := append(append([]ast.Expr{}, conds...), x.Cond)
					visit(x.Body.List, inner)
					if x.Else != nil {
						visit([]ast.Stmt{x.Else}, conds)
					}
				default:
					ast.Inspect(st, func(m ast.Node) bool {
						if cl, ok := m.(*ast.CompositeLit); ok {
							if t := g.Info.TypeOf(cl); t != nil {
								if pt, ok := t.(*types.Named); ok && pt.Obj().Pkg() != nil && pt.Obj().Pkg().Name() == "ast" {
									checkLit(cl, conds)
									return false
								}
							}
						}
						return true
					})
				}
			}
		}
		visit(cc.Body, nil)
	}
	r.Floor("C03.R7", nLits, 2)
}

// c03StringLoops (R8): the scanner functions that build the text of a string literal character by character (a []rune grown by
// append in a loop and returned as a string) add exactly one character per turn of the loop: a turn that adds none drops a
// character of the literal, a turn that adds two duplicates one (an escape that falls through to the plain-character append).
func c03StringLoops(p *Program, r *Report) {
	sp := p.SSAPkg("parser")
	if sp == nil {
		return
	}
	n := 0
	for _, fn := range SrcFuncs(sp) {
		res := fn.Signature.Results()
		if res.Len() != 2 || len(fn.Blocks) == 0 {
			continue
		}
		if bt, ok := res.At(0).Type().(*types.Basic); !ok || bt.Kind() != types.String {
			continue
		}
		// the functions that scan a quoted literal are the ones that are told the closing quote
		quoted := false
		for _, par := range fn.Params {
			if bt, ok := par.Type().(*types.Basic); ok && bt.Kind() == types.Int32 {
				quoted = true
			}
		}
		if !quoted {
			continue
		}
		perFn := 0
		// accumulators: []rune phis that reach a string conversion which is returned
		acc := map[ssa.Value]bool{}
		for _, b := range fn.Blocks {
			ret, ok := b.Instrs[len(b.Instrs)-1].(*ssa.Return)
			if !ok || len(ret.Results) == 0 {
				continue
			}
			if cv, ok := ret.Results[0].(*ssa.Convert); ok {
				if _, isSlice := cv.X.Type().Underlying().(*types.Slice); isSlice {
					acc[cv.X] = true
				}
			}
		}
		for changed := true; changed; {
			changed = false
			for v := range acc {
				var ops []ssa.Value
				switch x := v.(type) {
				case *ssa.Phi:
					ops = x.Edges
				case *ssa.Call:
					if bi, ok := x.Call.Value.(*ssa.Builtin); ok && bi.Name() == "append" {
						ops = x.Call.Args[:1]
					}
				}
				for _, o := range ops {
					if !acc[o] {
						acc[o] = true
						changed = true
					}
				}
			}
		}
		hasAppend := false
		for v := range acc {
			if c, ok := v.(*ssa.Call); ok {
				if bi, ok := c.Call.Value.(*ssa.Builtin); ok && bi.Name() == "append" {
					hasAppend = true
				}
			}
		}
		if !hasAppend {
			n++
			r.Fail("C03.R8", funcName(fn)+"|one character per turn #1", p.Pos(fn.Pos()), "the text this function returns for a quoted literal is not grown by the characters it scans (no append reaches the returned string): the literal's content is dropped")
			continue
		}
		appends := func(b *ssa.BasicBlock) int {
			k := 0
			for _, in := range b.Instrs {
				if c, ok := in.(*ssa.Call); ok && acc[c] {
					if bi, ok := c.Call.Value.(*ssa.Builtin); ok && bi.Name() == "append" {
						k++
					}
				}
			}
			return k
		}
		for _, l := range loopsOf(fn) {
			// only loops that carry an accumulator
			carries := false
			for _, in := range l.Header.Instrs {
				if ph, ok := in.(*ssa.Phi); ok && acc[ph] {
					carries = true
				}
			}
			if !carries {
				continue
			}
			// min / max number of appends on a path from the header back to the header (inner cycles are not expected)
			type mm struct{ lo, hi int }
			memo := map[*ssa.BasicBlock]*mm{}
			onStack := map[*ssa.BasicBlock]bool{}
			cyclic := false
			var walk func(b *ssa.BasicBlock) *mm // appends from the start of b to the next arrival at the header
			walk = func(b *ssa.BasicBlock) *mm {
				if m, ok := memo[b]; ok {
					return m
				}
				if onStack[b] {
					cyclic = true
					return nil
				}
				onStack[b] = true
				var res *mm
				for _, s := range b.Succs {
					var sub *mm
					if s == l.Header {
						sub = &mm{0, 0}
					} else if l.Body[s] {
						sub = walk(s)
					}
					if sub == nil {
						continue
					}
					if res == nil {
						res = &mm{sub.lo, sub.hi}
					} else {
						if sub.lo < res.lo {
							res.lo = sub.lo
						}
						if sub.hi > res.hi {
							res.hi = sub.hi
						}
					}
				}
				onStack[b] = false
				if res != nil {
					k := appends(b)
					res.lo += k
					res.hi += k
				}
				memo[b] = res
				return res
			}
			m := walk(l.Header)
			n++
			perFn++
			inst := fmt.Sprintf("%s|one character per turn #%d", funcName(fn), perFn)
			switch {
			case cyclic || m == nil:
				r.Undecided("C03.R8", inst, p.Pos(fn.Pos()), "the loop has inner cycles: turns cannot be enumerated")
			default:
				r.Check(m.lo == 1 && m.hi == 1, "C03.R8", inst, p.Pos(fn.Pos()), "every way round the loop appends exactly one character",
					fmt.Sprintf("a turn of the loop can append %d..%d characters to the literal's text: the string denoted is not the one written (a character dropped, or an escape followed by a copy of its letter)", m.lo, m.hi))
			}
		}
	}
	r.Floor("C03.R8", n, 2)
}

// isRuneVar: id is a local variable of type rune (the scanner's current character, whatever it is called).
func isRuneVar(info *types.Info, id *ast.Ident) bool {
	v, ok := info.ObjectOf(id).(*types.Var)
	if !ok {
		return false
	}
	bt, ok := v.Type().Underlying().(*types.Basic)
	return ok && bt.Kind() == types.Int32
}

// c03QuoteKinds (R9): which scanning function a quote character selects. The language has two kinds of string literal: quoted
// ("..." and '...'), in which a backslash starts an escape, and raw (`...`), in which it does not. Table, from the language
// definition: '"' and '\'' -> the function that interprets backslashes (it compares the look-ahead with '\\'), '`' -> a
// function that does not. The functions are found by their shape (told the closing quote as a rune, return (string, error)).
func c03QuoteKinds(p *Program, r *Report) {
	sp := p.SSAPkg("parser")
	if sp == nil {
		return
	}
	want := map[int64]bool{'"': true, '\'': true, '`': false}
	interprets := func(fn *ssa.Function) bool {
		for _, b := range fn.Blocks {
			for _, in := range b.Instrs {
				if bo, ok := in.(*ssa.BinOp); ok && (bo.Op == token.EQL || bo.Op == token.NEQ) {
					if k, ok := bo.Y.(*ssa.Const); ok && k.Value != nil && k.Value.Kind().String() == "Int" && k.Int64() == '\\' {
						return true
					}
				}
			}
		}
		return false
	}
	n := 0
	for _, fn := range SrcFuncs(sp) {
		for _, b := range fn.Blocks {
			for _, in := range b.Instrs {
				c, ok := in.(*ssa.Call)
				if !ok {
					continue
				}
				callee := staticCallee(c)
				if callee == nil || callee.Pkg != sp || len(callee.Blocks) == 0 {
					continue
				}
				res := callee.Signature.Results()
				if res.Len() != 2 || !isErrorType(res.At(1).Type()) {
					continue
				}
				if bt, ok := res.At(0).Type().(*types.Basic); !ok || bt.Kind() != types.String {
					continue
				}
				var q *ssa.Const
				for i, a := range c.Call.Args {
					if k, ok := a.(*ssa.Const); ok && i < len(callee.Params) {
						if bt, ok := callee.Params[i].Type().(*types.Basic); ok && bt.Kind() == types.Int32 && k.Value != nil {
							q = k
						}
					}
				}
				if q == nil {
					continue
				}
				esc, known := want[q.Int64()]
				if !known {
					continue
				}
				n++
				got := interprets(callee)
				kind := map[bool]string{true: "quoted (backslash escapes)", false: "raw (no escapes)"}
				r.Check(got == esc, "C03.R9", fmt.Sprintf("%s|literal opened by %q", fn.Name(), rune(q.Int64())), p.Pos(c.Pos()),
					"scanned as "+kind[esc], fmt.Sprintf("a literal opened by %q is scanned by %s, which treats it as %s; the language makes it %s: the literal no longer denotes what is written", rune(q.Int64()), callee.Name(), kind[got], kind[esc]))
			}
		}
	}
	r.Floor("C03.R9", n, 3)
}
