package main

import "golang.org/x/tools/go/ssa"

// flow is a forward dataflow problem over the SSA blocks of one function.
type flow[S any] interface {
	Entry() S
	Copy(S) S
	Join(a, b S) (S, bool) // returns the join and whether it differs from a
	Instr(in ssa.Instruction, s S) S
	Edge(from *ssa.BasicBlock, succ int, s S) (S, bool) // state on the edge; false = edge infeasible
}

// runForward iterates to a fixpoint and returns the state before every instruction and at every block exit.
func runForward[S any](fn *ssa.Function, f flow[S]) (before map[ssa.Instruction]S, out map[*ssa.BasicBlock]S) {
	if len(fn.Blocks) == 0 {
		return map[ssa.Instruction]S{}, map[*ssa.BasicBlock]S{}
	}
	return runForwardFrom(fn, f, fn.Blocks[0])
}

// runForwardFrom starts the analysis at an arbitrary block with the entry state (used for per-clause summaries).
func runForwardFrom[S any](fn *ssa.Function, f flow[S], entry *ssa.BasicBlock) (before map[ssa.Instruction]S, out map[*ssa.BasicBlock]S) {
	before = map[ssa.Instruction]S{}
	out = map[*ssa.BasicBlock]S{}
	in := map[*ssa.BasicBlock]S{}
	has := map[*ssa.BasicBlock]bool{}
	in[entry] = f.Entry()
	has[entry] = true
	work := []*ssa.BasicBlock{entry}
	queued := map[*ssa.BasicBlock]bool{entry: true}
	iter := 0
	for len(work) > 0 && iter < 20000 {
		iter++
		b := work[0]
		work = work[1:]
		queued[b] = false
		s := f.Copy(in[b])
		for _, ins := range b.Instrs {
			before[ins] = f.Copy(s)
			s = f.Instr(ins, s)
		}
		out[b] = s
		for i, succ := range b.Succs {
			es, ok := f.Edge(b, i, f.Copy(s))
			if !ok {
				continue
			}
			if !has[succ] {
				in[succ] = es
				has[succ] = true
				if !queued[succ] {
					work = append(work, succ)
					queued[succ] = true
				}
				continue
			}
			j, changed := f.Join(in[succ], es)
			if changed {
				in[succ] = j
				if !queued[succ] {
					work = append(work, succ)
					queued[succ] = true
				}
			}
		}
	}
	return
}
