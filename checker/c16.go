package main

import (
	"fmt"
	"go/token"
	"go/types"
	"strings"

	"golang.org/x/tools/go/ssa"
)

func init() {
	register("C16", "script channels and goroutines deliver every message once, in order", func(p *Program, r *Report) { checkC16(p, r); c16Extra(p, r) })
}

// selectSite describes one reflect.Select call of package vm.
type selectSite struct {
	call   *ssa.Call
	fn     *ssa.Function
	dir    int64     // Dir of case 1: 2 = receive, 1 = send
	ch     ssa.Value // Chan of case 1
	send   ssa.Value // Send of case 1
	okUses []*ssa.If
}

func (m *vmModel) selectSites() []*selectSite {
	var out []*selectSite
	for _, fn := range m.fns {
		for _, b := range fn.Blocks {
			for _, in := range b.Instrs {
				c, ok := in.(*ssa.Call)
				if !ok {
					continue
				}
				o := calleeObj(c)
				if o == nil || !isFuncNamed(o, "reflect", "", "Select") {
					continue
				}
				s := &selectSite{call: c, fn: fn, dir: -1}
				// the case array
				var arr *ssa.Alloc
				a0 := c.Call.Args[0]
				if sl, ok := a0.(*ssa.Slice); ok {
					arr, _ = sl.X.(*ssa.Alloc)
				} else if u, ok := a0.(*ssa.UnOp); ok {
					if al, ok := u.X.(*ssa.Alloc); ok {
						for _, ref := range *al.Referrers() {
							if st, ok := ref.(*ssa.Store); ok && st.Addr == ssa.Value(al) {
								if sl, ok := st.Val.(*ssa.Slice); ok {
									arr, _ = sl.X.(*ssa.Alloc)
								}
							}
						}
					}
				}
				if arr != nil {
					for _, ref := range *arr.Referrers() {
						ia, ok := ref.(*ssa.IndexAddr)
						if !ok {
							continue
						}
						ic, ok := ia.Index.(*ssa.Const)
						if !ok || ic.Int64() != 1 {
							continue
						}
						for _, r2 := range *ia.Referrers() {
							fa, ok := r2.(*ssa.FieldAddr)
							if !ok {
								continue
							}
							for _, r3 := range *fa.Referrers() {
								st, ok := r3.(*ssa.Store)
								if !ok || st.Addr != ssa.Value(fa) {
									continue
								}
								switch fieldOfAddr(fa).Name() {
								case "Dir":
									if k, ok := st.Val.(*ssa.Const); ok {
										s.dir = k.Int64()
									}
								case "Chan":
									s.ch = st.Val
								case "Send":
									s.send = st.Val
								}
							}
						}
					}
				}
				out = append(out, s)
			}
		}
	}
	return out
}

// okIfs returns the If instructions that branch on the `ok` result (#2) of a receiving select, through spilled locals and phis.
func okIfs(c *ssa.Call) (ifs []*ssa.If, vals map[ssa.Value]bool) {
	vals = map[ssa.Value]bool{}
	var add func(v ssa.Value, depth int)
	add = func(v ssa.Value, depth int) {
		if vals[v] || depth > 6 {
			return
		}
		vals[v] = true
		for _, ref := range *v.Referrers() {
			switch x := ref.(type) {
			case *ssa.Store:
				if al, ok := x.Addr.(*ssa.Alloc); ok {
					for _, r2 := range *al.Referrers() {
						if u, ok := r2.(*ssa.UnOp); ok {
							add(u, depth+1)
						}
					}
				}
			case *ssa.Phi:
				add(x, depth+1)
			case *ssa.If:
				ifs = append(ifs, x)
			}
		}
	}
	for _, ref := range *c.Referrers() {
		if ex, ok := ref.(*ssa.Extract); ok && ex.Index == 2 {
			add(ex, 0)
		}
	}
	return
}

func checkC16(p *Program, r *Report) {
	r.Explain("C16: exactly-once FIFO delivery is a property of Go channels; the interpreter inherits it iff each script operation is one Go channel operation on the script's channel and its outcome is reported faithfully. " +
		"R1 each receive form (receive expression, receive statement, for-in over a channel) contains exactly one receiving reflect.Select whose second case is the operand channel and whose received value is what lands in rv; the send form contains exactly one sending select on the left operand whose Send value is the right operand converted to the channel's element type, with the conversion error checked first. " +
		"R2 closed channel: on the !ok edge of a receive no send, no loop body and no assignment of the value target is reachable; the ok target receives the false value there and the true value on the ok edge; the receive expression yields the nil value. " +
		"R4 a go call hands the already-built argument slice to the goroutine, and Call / CallSlice are chosen by the flag computed together with the arguments at every call site (also inside goroutine and deferred-call paths). " +
		"(R3 close/send errors are recovered panics: C01.R1/R3; evaluation before start: C07.R6; kind checks: C20.)")
	r.Assume("goroutine scheduling, FIFO order and buffering are properties of the Go runtime and are trusted")
	m, err := buildVMModel(p)
	if err != nil {
		r.Undecided("C16.R1", "model", "vm", err.Error())
		return
	}
	ea := buildErrAnalysis(m)
	va := ea.va
	sites := m.selectSites()
	r.Floor("C16.R1", len(sites), 4)
	perFn := map[*ssa.Function][]*selectSite{}
	for _, s := range sites {
		perFn[s.fn] = append(perFn[s.fn], s)
	}
	for fn, ss := range perFn {
		base := m.baseOf(fn)
		fname := funcName(fn)
		nRecv, nSend := 0, 0
		for i, s := range ss {
			inst := fmt.Sprintf("%s|select #%d", fname, i+1)
			site := p.Pos(s.call.Pos())
			switch s.dir {
			case 2: // receive
				nRecv++
				// the channel is a value derived from rv (the operand), not something else
				r.Check(s.ch != nil && m.derivedFromRV(s.ch, base, 0), "C16.R1", inst+"|receives from operand", site, "case 1 receives from the operand channel", "the receive does not wait on the channel the script named")
				// received value goes to rv
				toRV := false
				for _, ref := range *s.call.Referrers() {
					if ex, ok := ref.(*ssa.Extract); ok && ex.Index == 1 {
						for _, r2 := range *ex.Referrers() {
							if st, ok := r2.(*ssa.Store); ok && m.cellAddr(st.Addr, base) == "rv" {
								toRV = true
							}
						}
					}
				}
				r.Check(toRV, "C16.R1", inst+"|value to rv", site, "the received value becomes the result", "the value received from the channel is dropped or replaced")
				// R2: the !ok edge
				ifs, _ := okIfs(s.call)
				if len(ifs) == 0 {
					r.Fail("C16.R2", inst+"|closed tested", site, "the receive does not test whether the channel was closed")
					continue
				}
				for _, iff := range ifs {
					notOK := iff.Block().Succs[1]
					if u, ok := iff.Cond.(*ssa.UnOp); ok && u.Op == token.NOT {
						notOK = iff.Block().Succs[0]
					}
					reach := reachable(notOK, nil)
					bad := ""
					for _, s2 := range ss {
						if s2.dir == 1 && reach[s2.call.Block()] {
							bad = "after receiving from a closed channel a value is still sent on (a message nobody sent is delivered)"
						}
					}
					for _, e := range va.events[fn] {
						if !reach[e.call.Block()] {
							continue
						}
						if e.role == "stmt" {
							// body after close: only if it can be reached without going round through a new receive
							if reachable(notOK, func(b *ssa.BasicBlock) bool { return b == s.call.Block() })[e.call.Block()] {
								bad = "the loop body runs once more after the channel was closed"
							}
						}
						if e.role == "let" {
							for _, o := range e.operands {
								if !strings.Contains(o, "Ok") && !guardedByOk(e.call.Block(), s.call) {
									bad = "the value target " + o + " is assigned although the channel was closed"
								}
							}
						}
					}
					r.Check(bad == "", "C16.R2", inst+"|closed edge "+exitKeyBlock(iff.Block()), p.Pos(iff.Pos()), "on a closed channel nothing is sent, no body runs and the value target is untouched", bad)
				}
			case 1: // send
				nSend++
				okChan := s.ch != nil && m.derivedFromRV(s.ch, base, 0)
				r.Check(okChan, "C16.R1", inst+"|sends on operand", site, "case 1 sends on the left operand channel", "the send does not use the channel the script named")
				// Send = convert(x, Elem(Type(ch)))
				okConv, why := false, "the value is sent unconverted (a typed channel receives a value of another type: panic or wrong value)"
				if ex, ok := s.send.(*ssa.Extract); ok && ex.Index == 0 {
					if cc, ok := ex.Tuple.(*ssa.Call); ok && len(cc.Call.Args) == 2 {
						if isElemOfTypeOf(cc.Call.Args[1], s.ch) {
							// error tested before the select
							tested := false
							for _, ref := range *cc.Referrers() {
								if e2, ok := ref.(*ssa.Extract); ok && e2.Index == 1 {
									for _, r2 := range *e2.Referrers() {
										if st, ok := r2.(*ssa.Store); ok && m.cellAddr(st.Addr, base) == "err" {
											// the select must be dominated by the nil edge of a test of the err cell after that store
											if st2 := ea.before[fn][s.call]; st2 != nil && st2.cell&^eNil == 0 {
												tested = true
											}
										}
									}
								}
							}
							if tested {
								okConv = true
							} else {
								why = "the conversion error is not checked before the send"
							}
						} else {
							why = "the value is converted to a type other than the channel's element type"
						}
					}
				}
				r.Check(okConv, "C16.R1", inst+"|converted to element type", site, "Send = convert(value, Elem(TypeOf(channel))), error checked first", why)
			default:
				r.Fail("C16.R1", inst+"|case 1", site, "cannot determine the direction of the script's case of this select")
			}
		}
		// exactly one channel operation per script operation
		role := "receive"
		okCount := nRecv == 1 && nSend == 0
		if nSend > 0 {
			role = "send/forward"
			okCount = nSend == 1 && nRecv <= 1
		}
		r.Check(okCount, "C16.R1", fname+"|one operation", p.Pos(fn.Pos()), fmt.Sprintf("%s: %d receiving and %d sending select", role, nRecv, nSend), fmt.Sprintf("a single script channel operation performs %d receives and %d sends", nRecv, nSend))
	}
	// ok target gets true/false with the right polarity; receive expression yields nil on close
	for fn, ss := range perFn {
		base := m.baseOf(fn)
		for _, s := range ss {
			if s.dir != 2 {
				continue
			}
			ifs, _ := okIfs(s.call)
			for _, iff := range ifs {
				tSucc, fSucc := iff.Block().Succs[0], iff.Block().Succs[1]
				if u, ok := iff.Cond.(*ssa.UnOp); ok && u.Op == token.NOT {
					tSucc, fSucc = fSucc, tSucc
				}
				tG, fG := globalStoredToRV(m, tSucc, base), globalStoredToRV(m, fSucc, base)
				if tG == "" && fG == "" {
					continue
				}
				bad := ""
				if tG == "falseValue" || fG == "trueValue" {
					bad = "the ok flag is inverted"
				}
				if fG != "" && fG != "falseValue" && fG != "nilValue" {
					bad = "a closed channel yields " + fG
				}
				r.Check(bad == "", "C16.R2", funcName(fn)+"|closed result "+exitKeyBlock(iff.Block()), p.Pos(iff.Pos()), fmt.Sprintf("ok edge stores %q, closed edge stores %q", tG, fG), bad)
			}
		}
	}

	callFollowsFlag(p, r, m, "C16.R4")
}

// sliceFlagEdge: +1 when block b is on the true edge of the "use CallSlice" flag, -1 on the false edge, 0 when no such flag controls b.
func sliceFlagEdge(fn *ssa.Function, b *ssa.BasicBlock) int {
	isFlag := func(v ssa.Value) bool {
		switch x := v.(type) {
		case *ssa.Extract:
			if c, ok := x.Tuple.(*ssa.Call); ok && x.Index == 1 {
				if callee := staticCallee(c); callee != nil && callee.Signature.Results().Len() == 2 {
					if sl, ok := callee.Signature.Results().At(0).Type().Underlying().(*types.Slice); ok && isNamed(sl.Elem(), "reflect", "Value") {
						return true
					}
				}
			}
		case *ssa.UnOp:
			if fa, ok := x.X.(*ssa.FieldAddr); ok && types.Identical(fieldOfAddr(fa).Type(), types.Typ[types.Bool]) && strings.Contains(strings.ToLower(fieldOfAddr(fa).Name()), "slice") {
				return true
			}
			// spilled local
			if al, ok := x.X.(*ssa.Alloc); ok {
				for _, ref := range *al.Referrers() {
					if st, ok := ref.(*ssa.Store); ok && st.Addr == ssa.Value(al) {
						if ex, ok := st.Val.(*ssa.Extract); ok && ex.Index == 1 {
							if _, ok := ex.Tuple.(*ssa.Call); ok {
								return true
							}
						}
					}
				}
			}
		case *ssa.Field:
			return types.Identical(x.Type(), types.Typ[types.Bool])
		}
		return false
	}
	for d := b; d != nil; d = d.Idom() {
		id := d.Idom()
		if id == nil {
			return 0
		}
		iff, ok := id.Instrs[len(id.Instrs)-1].(*ssa.If)
		if !ok || !isFlag(iff.Cond) {
			continue
		}
		if edgeOnly(id, 0, d) {
			return 1
		}
		if edgeOnly(id, 1, d) {
			return -1
		}
	}
	return 0
}

// derivedFromRV: v is a value loaded from the rv cell (possibly unwrapped by Elem / kept in a local).
func (m *vmModel) derivedFromRV(v ssa.Value, base ssa.Value, depth int) bool {
	if depth > 8 {
		return false
	}
	switch x := v.(type) {
	case *ssa.UnOp:
		if m.cellAddr(x.X, base) == "rv" {
			return true
		}
		if al, ok := x.X.(*ssa.Alloc); ok {
			for _, ref := range *al.Referrers() {
				if st, ok := ref.(*ssa.Store); ok && st.Addr == ssa.Value(al) && m.derivedFromRV(st.Val, base, depth+1) {
					return true
				}
			}
		}
	case *ssa.Phi:
		for _, e := range x.Edges {
			if m.derivedFromRV(e, base, depth+1) {
				return true
			}
		}
	case *ssa.Call:
		if o := calleeObj(x); o != nil && isFuncNamed(o, "reflect", "Value", "Elem") {
			return m.derivedFromRV(x.Call.Args[0], base, depth+1)
		}
	case *ssa.Parameter:
		return isNamed(x.Type(), "reflect", "Value") // helper receiving the operand value
	}
	return false
}

// isElemOfTypeOf: t is ch.Type().Elem()
func isElemOfTypeOf(t ssa.Value, ch ssa.Value) bool {
	c, ok := t.(*ssa.Call)
	if !ok || !c.Call.IsInvoke() || c.Call.Method.Name() != "Elem" {
		return false
	}
	c2, ok := c.Call.Value.(*ssa.Call)
	if !ok {
		return false
	}
	o := calleeObj(c2)
	if o == nil || !isFuncNamed(o, "reflect", "Value", "Type") {
		return false
	}
	return sameValueThroughLocals(c2.Call.Args[0], ch)
}

func sameValueThroughLocals(a, b ssa.Value) bool {
	if a == b {
		return true
	}
	res := func(v ssa.Value) ssa.Value {
		if u, ok := v.(*ssa.UnOp); ok {
			if al, ok := u.X.(*ssa.Alloc); ok {
				var st1 ssa.Value
				n := 0
				for _, ref := range *al.Referrers() {
					if st, ok := ref.(*ssa.Store); ok && st.Addr == ssa.Value(al) {
						st1 = st.Val
						n++
					}
				}
				if n >= 1 {
					return st1
				}
			}
		}
		return v
	}
	return res(a) == res(b) || res(a) == b || a == res(b)
}

// guardedByOk: block b is dominated by the true edge of a test of the ok result of select c.
func guardedByOk(b *ssa.BasicBlock, c *ssa.Call) bool {
	ifs, _ := okIfs(c)
	for _, iff := range ifs {
		t := iff.Block().Succs[0]
		if u, ok := iff.Cond.(*ssa.UnOp); ok && u.Op == token.NOT {
			t = iff.Block().Succs[1]
		}
		if (t == b || t.Dominates(b)) && len(t.Preds) == 1 {
			return true
		}
	}
	return false
}

// globalStoredToRV: the first store to rv in block b stores a load of which package variable ("" if none).
func globalStoredToRV(m *vmModel, b *ssa.BasicBlock, base ssa.Value) string {
	for _, in := range b.Instrs {
		if st, ok := in.(*ssa.Store); ok && m.cellAddr(st.Addr, base) == "rv" {
			if u, ok := st.Val.(*ssa.UnOp); ok {
				if g, ok := u.X.(*ssa.Global); ok {
					return g.Name()
				}
			}
			return "a computed value"
		}
	}
	return ""
}

// argsComeWithFlag: the argument slice was produced together with a "use CallSlice" flag
// (first result of a function returning ([]reflect.Value, bool), or the args field of a struct that also has a bool flag).
func argsComeWithFlag(fn *ssa.Function, v ssa.Value, depth int) bool {
	if depth > 8 || fn == nil {
		return false
	}
	switch x := v.(type) {
	case *ssa.Extract:
		if c, ok := x.Tuple.(*ssa.Call); ok && x.Index == 0 {
			if callee := staticCallee(c); callee != nil && callee.Signature.Results().Len() == 2 && types.Identical(callee.Signature.Results().At(1).Type(), types.Typ[types.Bool]) {
				return true
			}
		}
	case *ssa.UnOp:
		switch a := x.X.(type) {
		case *ssa.Alloc:
			for _, ref := range *a.Referrers() {
				if st, ok := ref.(*ssa.Store); ok && st.Addr == ssa.Value(a) && argsComeWithFlag(fn, st.Val, depth+1) {
					return true
				}
			}
		case *ssa.FreeVar:
			if b := bindingOf(fn, a); b != nil {
				if al, ok := b.(*ssa.Alloc); ok {
					for _, ref := range *al.Referrers() {
						if st, ok := ref.(*ssa.Store); ok && st.Addr == ssa.Value(al) && argsComeWithFlag(fn.Parent(), st.Val, depth+1) {
							return true
						}
					}
				}
				return argsComeWithFlag(fn.Parent(), b, depth+1)
			}
		case *ssa.FieldAddr:
			st, ok := derefType(a.X.Type()).Underlying().(*types.Struct)
			if ok {
				for i := 0; i < st.NumFields(); i++ {
					if types.Identical(st.Field(i).Type(), types.Typ[types.Bool]) {
						return true
					}
				}
			}
		}
	case *ssa.Field:
		if st, ok := x.X.Type().Underlying().(*types.Struct); ok {
			for i := 0; i < st.NumFields(); i++ {
				if types.Identical(st.Field(i).Type(), types.Typ[types.Bool]) {
					return true
				}
			}
		}
	case *ssa.FreeVar:
		if b := bindingOf(fn, x); b != nil {
			return argsComeWithFlag(fn.Parent(), b, depth+1)
		}
	case *ssa.Phi:
		for _, e := range x.Edges {
			if argsComeWithFlag(fn, e, depth+1) {
				return true
			}
		}
	}
	return false
}

// callFollowsFlag (C16.R4, C11.R7): reflect's Call / CallSlice are chosen by the flag computed together with the argument list.
func callFollowsFlag(p *Program, r *Report, m *vmModel, rule string) {
	r.Explain("\"+rule+\" reflect's Call / CallSlice are chosen by the flag computed together with the argument list at every call site, goroutine and deferred paths included.")
	// R4: Call / CallSlice follow the flag
	nCalls := 0
	for _, fn := range m.fns {
		for _, b := range fn.Blocks {
			for _, in := range b.Instrs {
				c, ok := in.(*ssa.Call)
				if !ok {
					continue
				}
				o := calleeObj(c)
				if o == nil || o.Pkg() == nil || o.Pkg().Path() != "reflect" || (o.Name() != "Call" && o.Name() != "CallSlice") || o.Type().(*types.Signature).Recv() == nil {
					continue
				}
				// where is the decision made: here, or where the closure containing the call is created
				siteFn, siteBlock := fn, b
				if fn.Parent() != nil {
					for _, pb := range fn.Parent().Blocks {
						for _, pin := range pb.Instrs {
							if mc, ok := pin.(*ssa.MakeClosure); ok && mc.Fn == ssa.Value(fn) {
								siteFn, siteBlock = fn.Parent(), pb
							}
						}
					}
				}
				flagEdge := sliceFlagEdge(siteFn, siteBlock)
				if flagEdge == 0 {
					if len(c.Call.Args) == 2 && argsComeWithFlag(fn, c.Call.Args[1], 0) {
						nCalls++
						r.Fail(rule, fmt.Sprintf("%s|%s", funcName(fn), o.Name()), p.Pos(c.Pos()), "the argument list comes with a Call/CallSlice flag but this call is made without consulting it: a spread argument arrives as one list element (or the reverse)")
					}
					continue // argument lists built locally (adapters): no flag involved
				}
				nCalls++
				want := "Call"
				if flagEdge > 0 {
					want = "CallSlice"
				}
				r.Check(o.Name() == want, rule, fmt.Sprintf("%s|%s", funcName(fn), o.Name()), p.Pos(c.Pos()), "matches the flag computed with the arguments", "the argument list was built for "+want+" but "+o.Name()+" is used: a spread argument arrives as one list element (or the reverse)")
			}
		}
	}
	r.Floor(rule, nCalls, 6)
}
