package main

import (
	"fmt"
	"go/ast"
	"go/constant"
	"go/token"
	"go/types"
	"sort"
	"strings"

	"golang.org/x/tools/go/ssa"
)

func init() {
	register("C15", "parsing is total, position-accurate and compositional", func(p *Program, r *Report) {
		checkC15(p, r)
		c15Publish(p, r)
		if sm, err := buildScanModel(p); err == nil {
			r.Explain("R9 a token with a fixed spelling consumes exactly its spelling: the net cursor movement on every path that ends with that token text equals the length of the text.")
			c15ExactSpelling(p, r, sm)
			r.Explain("R10 positions are 1-based: Line = line+1, Column = (cursor - line head) + 1, and the line head becomes cursor+1 when a newline is passed.")
			c15PositionArithmetic(p, r, sm)
			r.Explain("R11 no successful path leaves the token code at its initial zero. R12 the range predicates of the scanner, evaluated for every ASCII character, are exactly the decimal / hex / binary digits, blanks or line ends.")
			c15TokenAssigned(p, r, sm)
			c15CharClasses(p, r)
		}
	})
}

func checkC15(p *Program, r *Report) {
	r.Explain("C15: R1 the scanner always makes progress and stops at the end of input: (a) every cycle of every Scanner method has a net cursor advance >= 1 (weights +1 for the advancing primitive, -1 for the retreating one, minimal success weights for helper methods; zero-weight cycles are searched in the product with 'cursor still on the character of the enclosing case', where conditions on that character are constant-folded); (b) with the cursor at the end (peek = EOF, the advancing primitive a no-op) every condition that depends on the current character is folded and no cycle remains reachable. " +
		"R2 the grammar recovered from the tables has no nonterminal that derives itself through unit and empty productions, so every sequence of reductions without a shift is finite; the parser runtime is compared, as a syntax tree, with what goyacc emits (thorough tier). " +
		"R3 no instruction on the parse path can panic: indices and slice bounds are dominated by a length test on the same expressions, type assertions and dereferences of semantic values are justified by the kinds and non-nil-ness every production assigns to that grammar symbol, yyDollar indices stay within the production's length, table indices were validated for every state x token. " +
		"R4 every parse works on freshly allocated scanner, lexer and parser objects and writes no package-level variable (with C14.R2). " +
		"R5 error values take their position from the scanner's position of the current token, captured after blanks are skipped and before the token is consumed. " +
		"R6 the statement-list productions build [stmt] and append the new statement to the list of the left part. " +
		"R7 identifiers consist of letters, digits and '_' only (witness for the module-name exception of C04).")
	r.Assume("line/column arithmetic for every input and the concatenation law are value-level: R4+R6 give them only informally")
	sm, err := buildScanModel(p)
	if err != nil {
		r.Undecided("C15.R1", "scanner", "parser/lexer.go", err.Error())
		return
	}
	sm.computeMinWeights()
	// R1a
	nCyc := 0
	var prims []string
	for _, fn := range sm.methods {
		fname := funcName(fn)
		if d, ok := sm.step[fn]; ok {
			prims = append(prims, fmt.Sprintf("%s:%+d", fname, d))
			continue
		}
		if sm.pure[fn] {
			continue
		}
		// methods that set the cursor arbitrarily must not be used by the scanner itself
		nCyc++
		ok, cyc := sm.progressCheck(fn)
		r.Check(ok, "C15.R1", fname+"|progress", p.Pos(fn.Pos()), fmt.Sprintf("every cycle advances the cursor (minimal success advance %d)", sm.minW[fn]), "a loop of the scanner can go round without consuming input: blocks "+cyc)
	}
	for _, fn := range sm.methods {
		if fn.Signature.Results().Len() == 4 {
			ok, why := sm.tokenAdvance(fn)
			r.Check(ok, "C15.R1", funcName(fn)+"|token-advance", p.Pos(fn.Pos()), "every token returned leaves the cursor after its first character, and the cursor never retreats behind the token's start", why)
		}
	}
	sort.Strings(prims)
	r.Note("cursor_primitives", prims)
	r.Floor("C15.R1", nCyc, 6)
	// arbitrary cursor writes
	for _, fn := range sm.methods {
		if _, ok := sm.step[fn]; ok || sm.pure[fn] {
			continue
		}
		for _, b := range fn.Blocks {
			for _, in := range b.Instrs {
				if st, ok := in.(*ssa.Store); ok {
					if fa, ok := st.Addr.(*ssa.FieldAddr); ok && fa.X == ssa.Value(fn.Params[0]) && fa.Field == sm.offI {
						// who calls it?
						used := false
						for _, f2 := range SrcFuncs(sm.sp) {
							for _, b2 := range f2.Blocks {
								for _, in2 := range b2.Instrs {
									if c, ok := in2.(ssa.CallInstruction); ok && staticCallee(c) == fn {
										used = true
									}
								}
							}
						}
						r.Check(!used, "C15.R1", funcName(fn)+"|cursor-set", p.Pos(instrPos(st)), "sets the cursor directly but is not used while scanning", "the cursor is set to an arbitrary value while scanning: progress cannot be established")
					}
				}
			}
		}
	}
	// R1b: EOF world
	for _, fn := range sm.methods {
		if sm.pure[fn] {
			continue
		}
		if _, ok := sm.step[fn]; ok {
			continue
		}
		env := &constEnv{m: sm, atEOF: true, bind: map[ssa.Value]constant.Value{}}
		// error results of helpers that always fail at EOF
		for _, b := range fn.Blocks {
			for _, in := range b.Instrs {
				if c, callee := sm.recvCall(in); callee != nil && !sm.pure[callee] && sm.errorAlwaysAtEOF(callee) {
					for _, ref := range *c.Referrers() {
						if ex, ok := ref.(*ssa.Extract); ok && isErrorType(ex.Type()) {
							for _, r2 := range *ex.Referrers() {
								if bo, ok := r2.(*ssa.BinOp); ok && isNilConst(bo.Y) {
									env.bind[bo] = constant.MakeBool(bo.Op == token.NEQ)
								}
							}
						}
					}
				}
			}
		}
		seen := map[*ssa.BasicBlock]bool{fn.Blocks[0]: true}
		succs := map[*ssa.BasicBlock][]*ssa.BasicBlock{}
		work := []*ssa.BasicBlock{fn.Blocks[0]}
		for len(work) > 0 {
			b := work[0]
			work = work[1:]
			feas := env.feasibleSuccs(b)
			for i, s := range b.Succs {
				if !feas[i] {
					continue
				}
				succs[b] = append(succs[b], s)
				if !seen[s] {
					seen[s] = true
					work = append(work, s)
				}
			}
		}
		// cycle detection
		color := map[*ssa.BasicBlock]int{}
		var cyc *ssa.BasicBlock
		var dfs func(b *ssa.BasicBlock)
		dfs = func(b *ssa.BasicBlock) {
			color[b] = 1
			for _, s := range succs[b] {
				if color[s] == 1 {
					cyc = s
				} else if color[s] == 0 {
					dfs(s)
				}
			}
			color[b] = 2
		}
		dfs(fn.Blocks[0])
		site := p.Pos(fn.Pos())
		if cyc != nil {
			site = p.Pos(instrPos(cyc.Instrs[0]))
		}
		r.Check(cyc == nil, "C15.R1", funcName(fn)+"|stops-at-EOF", site, "with the cursor at the end of input no loop can go round", "at the end of input this loop does not exit (unterminated construct hangs the scanner)")
	}

	c15Grammar(p, r)
	checkParsePath(p, r, "C15.R3")
	c15Fresh(p, r)
	c15Positions(p, r, sm)
	c15Lists(p, r)
	c15ActionResults(p, r)
	c15SourceAsGiven(p, r)
	c15ExitOnCurrent(p, r)
	c15ErrorsPropagate(p, r)
	c15CursorPrimitives(p, r)
	c15Identifiers(p, r, sm)
	r.Explain("R18 wherever a statement may begin after a terminator, every terminator token is acceptable again (the empty statement): two texts that parse still parse when joined by a newline, also when the second begins with a terminator. Decided by running the generated automaton from every such state.")
	c15TerminatorsCompose(p, r)
}

// c15Grammar: R2.
func c15Grammar(p *Program, r *Report) {
	g, err := BuildLALR(p)
	if err != nil {
		r.Undecided("C15.R2", "tables", "parser/parser.go", err.Error())
		return
	}
	nullable := map[int]bool{}
	for changed := true; changed; {
		changed = false
		for rule, rhs := range g.RHS {
			nt := g.R1[rule]
			if nullable[nt] {
				continue
			}
			all := true
			for _, s := range rhs {
				if s > 0 || !nullable[-s] {
					all = false
				}
			}
			if all {
				nullable[nt] = true
				changed = true
			}
		}
	}
	// A -> B when A => alpha B beta with alpha, beta nullable
	unit := map[int]map[int]bool{}
	for rule, rhs := range g.RHS {
		a := g.R1[rule]
		for i, s := range rhs {
			if s > 0 {
				continue
			}
			rest := true
			for j, t := range rhs {
				if j != i && (t > 0 || !nullable[-t]) {
					rest = false
				}
			}
			if rest {
				if unit[a] == nil {
					unit[a] = map[int]bool{}
				}
				unit[a][-s] = true
			}
		}
	}
	// cycle?
	var cyc []string
	color := map[int]int{}
	var dfs func(a int, path []int)
	dfs = func(a int, path []int) {
		color[a] = 1
		for b := range unit[a] {
			if color[b] == 1 && cyc == nil {
				for _, x := range append(path, a, b) {
					cyc = append(cyc, g.SymName(-x))
				}
			} else if color[b] == 0 {
				dfs(b, append(path, a))
			}
		}
		color[a] = 2
	}
	var nts []int
	for a := range unit {
		nts = append(nts, a)
	}
	sort.Ints(nts)
	for _, a := range nts {
		if color[a] == 0 {
			dfs(a, nil)
		}
	}
	r.Check(cyc == nil, "C15.R2", "grammar|no-unit-cycle", "parser/parser.go (tables)", fmt.Sprintf("%d nonterminals, %d nullable, unit/empty derivation graph is acyclic: every run of reductions between two shifts is finite", len(g.Pgo), len(nullable)), "a nonterminal derives itself without consuming input ("+strings.Join(cyc, " -> ")+"): the parser can reduce forever")
	r.Check(len(g.Reach) == g.NStates, "C15.R2", "grammar|states-reachable", "parser/parser.go (tables)", fmt.Sprintf("all %d states reachable, %d rules recovered unambiguously", g.NStates, len(g.RHS)), "the table decoder does not reach every state: tables and runtime disagree")
}

// c15Fresh: R4.
func c15Fresh(p *Program, r *Report) {
	sp := p.SSAPkg("parser")
	n := 0
	for _, name := range []string{"ParseSrc", "Parse"} {
		fn, _ := sp.Members[name].(*ssa.Function)
		if fn == nil {
			r.Fail("C15.R4", name, "parser", "entry point "+name+" not found")
			continue
		}
		// every pointer handed to the callee that does the work is an allocation of this call
		for _, b := range fn.Blocks {
			for _, in := range b.Instrs {
				c, ok := in.(*ssa.Call)
				if !ok {
					continue
				}
				callee := staticCallee(c)
				if callee == nil || callee.Pkg != sp {
					continue
				}
				for _, a := range c.Call.Args {
					a = stripConv(a)
					if _, isPtr := a.Type().Underlying().(*types.Pointer); !isPtr {
						continue
					}
					n++
					_, fresh := a.(*ssa.Alloc)
					_, param := a.(*ssa.Parameter)
					r.Check(fresh || param, "C15.R4", name+"|passes "+types.TypeString(a.Type(), func(*types.Package) string { return "" }), p.Pos(c.Pos()), "state handed to the parser is allocated by this call (or is the caller's own scanner)", "parser state outlives a single call: a later parse can see it")
				}
			}
		}
	}
	// yyParse builds a new parser object
	if fn, _ := sp.Members["yyParse"].(*ssa.Function); fn != nil {
		okNew := false
		for _, b := range fn.Blocks {
			for _, in := range b.Instrs {
				if c, ok := in.(*ssa.Call); ok {
					if callee := staticCallee(c); callee != nil && callee.Pkg == sp {
						for _, b2 := range callee.Blocks {
							for _, in2 := range b2.Instrs {
								if _, ok := in2.(*ssa.Alloc); ok {
									okNew = true
								}
							}
						}
					}
				}
			}
		}
		n++
		r.Check(okNew, "C15.R4", "yyParse|new-parser", p.Pos(fn.Pos()), "each parse runs on a newly allocated parser object", "the parser object is shared between calls")
	}
	r.Floor("C15.R4", n, 3)
}

// c15Positions: R5.
func c15Positions(p *Program, r *Report, sm *scanModel) {
	sp := p.SSAPkg("parser")
	// the scanning function: method returning (int, string, ast.Position, error)
	var scan *ssa.Function
	for _, fn := range sm.methods {
		if fn.Signature.Results().Len() == 4 {
			scan = fn
		}
	}
	if scan == nil {
		r.Undecided("C15.R5", "Scan", "parser/lexer.go", "scanning method not found")
		return
	}
	// pos captured after skipping blanks and before anything is consumed
	var posCall *ssa.Call
	for _, b := range scan.Blocks {
		for _, in := range b.Instrs {
			if c, callee := sm.recvCall(in); callee != nil && callee.Signature.Results().Len() == 1 && isNamed(callee.Signature.Results().At(0).Type(), modPath+"/ast", "Position") {
				posCall = c
			}
		}
	}
	if posCall == nil {
		r.Fail("C15.R5", "Scan|position-captured", p.Pos(scan.Pos()), "the scanner does not record the position of the token")
	} else {
		bad := ""
		skipBefore := false
		for _, in := range posCall.Block().Instrs {
			if in == ssa.Instruction(posCall) {
				break
			}
			if _, callee := sm.recvCall(in); callee != nil && !sm.pure[callee] {
				if _, isStep := sm.step[callee]; isStep {
					bad = "a character is consumed before the token position is taken"
				} else {
					skipBefore = true
				}
			}
		}
		for _, b := range scan.Blocks {
			for _, in := range b.Instrs {
				if _, callee := sm.recvCall(in); callee != nil && !sm.pure[callee] && in != ssa.Instruction(posCall) {
					if b == posCall.Block() && instrIndex(in) < instrIndex(posCall) {
						continue
					}
					if !instrDominates(posCall, in) {
						bad = "input can be consumed on a path that does not take the token position first"
					}
				}
			}
		}
		if !skipBefore && bad == "" {
			bad = "the position is taken before blanks are skipped: it points at the blank, not at the token"
		}
		r.Check(bad == "", "C15.R5", "Scan|position-captured", p.Pos(posCall.Pos()), "position taken after blanks are skipped and before the token is consumed", bad)
	}
	// *Error literals: Pos from the scan result / the lexer's last position
	n := 0
	for _, fn := range SrcFuncs(sp) {
		for _, b := range fn.Blocks {
			for _, in := range b.Instrs {
				al, ok := in.(*ssa.Alloc)
				if !ok || !isNamed(al.Type(), modPath+"/parser", "Error") {
					continue
				}
				n++
				okPos, src := false, "nothing"
				for _, ref := range *al.Referrers() {
					fa, ok := ref.(*ssa.FieldAddr)
					if !ok || fieldOfAddr(fa).Name() != "Pos" {
						continue
					}
					for _, r2 := range *fa.Referrers() {
						st, ok := r2.(*ssa.Store)
						if !ok {
							continue
						}
						switch v := st.Val.(type) {
						case *ssa.Extract:
							if c, ok := v.Tuple.(*ssa.Call); ok && staticCallee(c) == scan {
								okPos, src = true, "the position returned by the scanner for this token"
							}
						case *ssa.UnOp:
							if fa2, ok := v.X.(*ssa.FieldAddr); ok && isNamed(fa2.X.Type(), modPath+"/parser", "Lexer") {
								okPos, src = true, "the lexer's position of the last token"
							}
						}
					}
				}
				r.Check(okPos, "C15.R5", funcName(fn)+"|error-position", p.Pos(instrPos(al)), "error position is "+src, "a parse error does not carry the position of the offending token")
			}
		}
	}
	r.Floor("C15.R5", n, 2)
	// the lexer records the position of every token it hands to the parser
	for _, fn := range SrcFuncs(sp) {
		if fn.Signature.Recv() == nil || !isNamed(fn.Signature.Recv().Type(), modPath+"/parser", "Lexer") {
			continue
		}
		callsScan := false
		var posStores, tokStores []ssa.Instruction
		for _, b := range fn.Blocks {
			for _, in := range b.Instrs {
				if c, ok := in.(*ssa.Call); ok && staticCallee(c) == scan {
					callsScan = true
				}
				if st, ok := in.(*ssa.Store); ok {
					if fa, ok := st.Addr.(*ssa.FieldAddr); ok && isNamed(fa.X.Type(), modPath+"/parser", "Lexer") && isNamed(fieldOfAddr(fa).Type(), modPath+"/ast", "Position") {
						if ex, ok := st.Val.(*ssa.Extract); ok {
							if c, ok := ex.Tuple.(*ssa.Call); ok && staticCallee(c) == scan {
								posStores = append(posStores, st)
							}
						}
					}
					// the token handed to the parser (semantic value): lval.tok
					if fa, ok := st.Addr.(*ssa.FieldAddr); ok && isNamed(fieldOfAddr(fa).Type(), modPath+"/ast", "Token") {
						if _, isPar := fa.X.(*ssa.Parameter); isPar {
							tokStores = append(tokStores, st)
						}
					}
				}
			}
		}
		if callsScan {
			// on every path to every return: an early exit (for instance on a scanner error) that skips them leaves the position of the previous token in place
			allPos, allTok := len(posStores) > 0, len(tokStores) > 0
			for _, b := range fn.Blocks {
				ret, ok := b.Instrs[len(b.Instrs)-1].(*ssa.Return)
				if !ok {
					continue
				}
				dp, dt := false, false
				for _, st := range posStores {
					if instrDominates(st, ret) {
						dp = true
					}
				}
				for _, st := range tokStores {
					if instrDominates(st, ret) {
						dt = true
					}
				}
				allPos, allTok = allPos && dp, allTok && dt
			}
			r.Check(allPos, "C15.R5", funcName(fn)+"|records-position", p.Pos(fn.Pos()), "the lexer remembers the scanner's position of each token, on every path", "the lexer can return a token without having recorded its position (some path skips the store): a syntax error reported for it carries the position of the previous token, or 0:0 for the first one")
			r.Check(allTok, "C15.R5", funcName(fn)+"|hands-token-over", p.Pos(fn.Pos()), "the token value given to the parser is set on every path", "the lexer can return a token code without setting the token value handed to the parser: the parser sees the previous token's text and position")
		}
	}
}

// c15Lists: R6.
func c15Lists(p *Program, r *Report) {
	g, err := BuildLALR(p)
	if err != nil {
		return
	}
	nm, err := BuildNodeModel(p, g)
	if err != nil {
		return
	}
	// the statement-list nonterminal: N with a rule N -> N X S (left recursive) whose action appends to a StmtsStmt
	n := 0
	for rule, rhs := range g.RHS {
		nt := g.R1[rule]
		cc := g.Clauses[rule]
		if cc == nil || len(rhs) == 0 {
			continue
		}
		buildsList := false
		ast.Inspect(cc, func(nd ast.Node) bool {
			if cl, ok := nd.(*ast.CompositeLit); ok {
				if t := g.Info.TypeOf(cl); t != nil && isNamed(t, modPath+"/ast", "StmtsStmt") {
					buildsList = true
				}
			}
			return true
		})
		if !buildsList {
			continue
		}
		last := len(rhs) // $last is the statement
		if rhs[0] == -nt {
			// recursive: append($1.Stmts, $last)
			n++
			okApp := false
			ast.Inspect(cc, func(nd ast.Node) bool {
				c, ok := nd.(*ast.CallExpr)
				if !ok {
					return true
				}
				if id, ok := c.Fun.(*ast.Ident); !ok || id.Name != "append" || len(c.Args) != 2 {
					return true
				}
				first := dollarsIn(g.Info, c.Args[0])
				if sel, ok := c.Args[0].(*ast.SelectorExpr); ok && len(first) == 0 {
					// stmts.Stmts where stmts := $1.(*ast.StmtsStmt)
					if id, ok := sel.X.(*ast.Ident); ok {
						first = dollarsOfLocal(g.Info, cc, id)
					}
				}
				second := dollarsIn(g.Info, c.Args[1])
				if len(first) == 1 && first[0] == 1 && len(second) == 1 && second[0] == last {
					okApp = true
					// the list appended to is the value of the rule: when the local can also hold a list made here (the left part
					// was empty), the action has to make that local its value ($$ = local); appending to a list nobody keeps
					// drops the statement and everything after it
					if sel, ok := c.Args[0].(*ast.SelectorExpr); ok {
						if id, ok := sel.X.(*ast.Ident); ok {
							obj := g.Info.ObjectOf(id)
							freshToo, kept := false, false
							ast.Inspect(cc, func(n2 ast.Node) bool {
								as, ok := n2.(*ast.AssignStmt)
								if !ok || len(as.Rhs) != 1 {
									return true
								}
								if l, ok := as.Lhs[0].(*ast.Ident); ok && g.Info.ObjectOf(l) == obj {
									if u, ok := as.Rhs[0].(*ast.UnaryExpr); ok {
										if _, isLit := u.X.(*ast.CompositeLit); isLit {
											freshToo = true
										}
									}
								}
								if lsel, ok := as.Lhs[0].(*ast.SelectorExpr); ok {
									if x, ok := lsel.X.(*ast.Ident); ok && x.Name == "yyVAL" {
										if rid, ok := as.Rhs[0].(*ast.Ident); ok && g.Info.ObjectOf(rid) == obj {
											kept = true
										}
									}
								}
								return true
							})
							if freshToo && !kept {
								okApp = false
							}
						}
					}
				}
				return true
			})
			r.Check(okApp, "C15.R6", fmt.Sprintf("rule %s|append", g.RuleString(rule)), p.Pos(cc.Pos()), "the new statement is appended after the statements of the left part", "the statement list production does not append its statement at the end of the list")
		} else {
			n++
			okOne := false
			ast.Inspect(cc, func(nd ast.Node) bool {
				cl, ok := nd.(*ast.CompositeLit)
				if !ok {
					return true
				}
				if sl, ok := g.Info.TypeOf(cl).Underlying().(*types.Slice); ok && isNamed(sl.Elem(), modPath+"/ast", "Stmt") && len(cl.Elts) == 1 {
					if d := dollarsIn(g.Info, cl.Elts[0]); len(d) == 1 && d[0] == last {
						okOne = true
					}
				}
				return true
			})
			r.Check(okOne, "C15.R6", fmt.Sprintf("rule %s|singleton", g.RuleString(rule)), p.Pos(cc.Pos()), "a list of exactly the statement just parsed", "the first statement of a list is not the statement just parsed")
		}
	}
	_ = nm
	r.Floor("C15.R6", n, 2)
}

func dollarsIn(info *types.Info, e ast.Expr) []int {
	var out []int
	ast.Inspect(e, func(n ast.Node) bool {
		if ix, ok := n.(*ast.IndexExpr); ok {
			if id, ok := ix.X.(*ast.Ident); ok && id.Name == "yyDollar" {
				if tv := info.Types[ix.Index]; tv.Value != nil {
					if k, ok := constant.Int64Val(tv.Value); ok {
						out = append(out, int(k))
					}
				}
			}
		}
		return true
	})
	return out
}

func dollarsOfLocal(info *types.Info, cc *ast.CaseClause, id *ast.Ident) []int {
	obj := info.ObjectOf(id)
	var out []int
	ast.Inspect(cc, func(n ast.Node) bool {
		// `stmts := $1.(*T)`, the comma-ok form `stmts, ok := $1.(*T)`, and a later `stmts = &T{}` for the case that $1 was nil:
		// the right-hand-side symbols the local can stand for
		if as, ok := n.(*ast.AssignStmt); ok && len(as.Lhs) >= 1 && len(as.Rhs) == 1 {
			if l, ok := as.Lhs[0].(*ast.Ident); ok && info.ObjectOf(l) == obj {
				for _, d := range dollarsIn(info, as.Rhs[0]) {
					dup := false
					for _, o := range out {
						if o == d {
							dup = true
						}
					}
					if !dup {
						out = append(out, d)
					}
				}
			}
		}
		return true
	})
	return out
}

// c15Identifiers: R7.
func c15Identifiers(p *Program, r *Report, sm *scanModel) {
	// the identifier scanner: the helper called under the first case of Scan's head switch (isLetter(ch))
	var ident *ssa.Function
	for _, fn := range sm.methods {
		if fn.Signature.Results().Len() == 2 && fn.Signature.Params().Len() == 0 {
			// appends peek() under a letter/digit test
			for _, b := range fn.Blocks {
				for _, in := range b.Instrs {
					if c, ok := in.(*ssa.Call); ok {
						if callee := staticCallee(c); callee != nil && callee.Pkg == sm.sp && callee.Signature.Recv() == nil && callee.Signature.Params().Len() == 1 {
							env := &constEnv{m: sm, bind: map[ssa.Value]constant.Value{}}
							if v, ok := env.interp(callee, []constant.Value{constant.MakeInt64('a')}); ok && v.Kind() == constant.Bool && constant.BoolVal(v) {
								if v2, ok := env.interp(callee, []constant.Value{constant.MakeInt64('1')}); ok && !constant.BoolVal(v2) && ident == nil && len(loopsOf(fn)) == 1 && !callsAny(fn, "errors", "New") {
									ident = fn
								}
							}
						}
					}
				}
			}
		}
	}
	if ident == nil {
		r.Undecided("C15.R7", "scanIdentifier", "parser/lexer.go", "identifier scanner not found")
		return
	}
	// every append of a character is guarded by predicates that reject '.'
	preds := map[*ssa.Function]bool{}
	for _, b := range ident.Blocks {
		for _, in := range b.Instrs {
			if c, ok := in.(*ssa.Call); ok {
				if callee := staticCallee(c); callee != nil && callee.Pkg == sm.sp && callee.Signature.Recv() == nil && callee.Signature.Params().Len() == 1 && callee.Signature.Results().Len() == 1 {
					preds[callee] = true
				}
			}
		}
	}
	bad := ""
	for f := range preds {
		env := &constEnv{m: sm, bind: map[ssa.Value]constant.Value{}}
		for _, ch := range []rune{'.', ' ', '-', '(', '"'} {
			v, ok := env.interp(f, []constant.Value{constant.MakeInt64(int64(ch))})
			if !ok || constant.BoolVal(v) {
				bad = fmt.Sprintf("%s accepts %q as part of an identifier", f.Name(), string(ch))
			}
		}
	}
	// in the world where the current character is '.', the append must be unreachable
	dot := int64('.')
	env := &constEnv{m: sm, cur: &dot, bind: map[ssa.Value]constant.Value{}}
	seen := map[*ssa.BasicBlock]bool{ident.Blocks[0]: true}
	work := []*ssa.BasicBlock{ident.Blocks[0]}
	for len(work) > 0 {
		b := work[0]
		work = work[1:]
		for _, in := range b.Instrs {
			if c, ok := in.(*ssa.Call); ok {
				if bi, ok := c.Call.Value.(*ssa.Builtin); ok && bi.Name() == "append" {
					bad = "a '.' at the cursor can be appended to an identifier"
				}
			}
		}
		feas := env.feasibleSuccs(b)
		for i, s := range b.Succs {
			if feas[i] && !seen[s] {
				seen[s] = true
				work = append(work, s)
			}
		}
	}
	r.Check(bad == "" && len(preds) >= 2, "C15.R7", funcName(ident)+"|identifier-characters", p.Pos(ident.Pos()), "identifier characters are accepted only by predicates that reject '.' and punctuation", bad)
}

func callsAny(fn *ssa.Function, pkg, name string) bool {
	for _, b := range fn.Blocks {
		for _, in := range b.Instrs {
			if c, ok := in.(*ssa.Call); ok {
				if o := calleeObj(c); o != nil && o.Pkg() != nil && o.Pkg().Path() == pkg && o.Name() == name {
					return true
				}
			}
		}
	}
	return false
}

// checkParsePath enumerates the may-panic instructions of the hand-written parse path (lexer.go) and of the grammar actions.
func checkParsePath(p *Program, r *Report, rule string) {
	parsePathLexer(p, r, rule)
	parsePathActions(p, r, rule)
}

// c15Publish (R8): the statement list Parse returns is the one the grammar built last: whenever an action gives the list
// nonterminal a (new) value, it also publishes that value in the lexer field Parse returns, on every path of the action.
func c15Publish(p *Program, r *Report) {
	sp := p.SSAPkg("parser")
	if sp == nil {
		return
	}
	// the field Parse returns
	var resF *types.Var
	for _, fn := range SrcFuncs(sp) {
		if fn.Name() != "Parse" || fn.Signature.Recv() != nil {
			continue
		}
		for _, b := range fn.Blocks {
			if ret, ok := b.Instrs[len(b.Instrs)-1].(*ssa.Return); ok && len(ret.Results) == 2 {
				if u, ok := ret.Results[0].(*ssa.UnOp); ok {
					if fa, ok := u.X.(*ssa.FieldAddr); ok && isNamed(derefType(fa.X.Type()), modPath+"/parser", "Lexer") {
						resF = fieldOfAddr(fa)
					}
				}
			}
		}
	}
	if resF == nil {
		r.Undecided("C15.R8", "Parse|result field", "parser/lexer.go", "the lexer field returned by Parse was not identified")
		return
	}
	var yy *ssa.Function
	for _, fn := range SrcFuncs(sp) {
		if fn.Name() == "Parse" && fn.Signature.Recv() != nil {
			yy = fn
		}
	}
	if yy == nil {
		r.Undecided("C15.R8", "yyParse", "parser/parser.go", "generated parser not found")
		return
	}
	// publisher helpers: a function of the package that stores one of its parameters into the result field
	// (`func setResult(yylex yyLexer, stmt ast.Stmt) { if l, ok := yylex.(*Lexer); ok { l.stmt = stmt } }`)
	publisher := map[*ssa.Function]int{}
	for _, fn := range SrcFuncs(sp) {
		if fn == yy || fn.Parent() != nil {
			continue
		}
		for _, b := range fn.Blocks {
			for _, in := range b.Instrs {
				st, ok := in.(*ssa.Store)
				if !ok {
					continue
				}
				fa, ok := st.Addr.(*ssa.FieldAddr)
				if !ok || fieldOfAddr(fa) != resF {
					continue
				}
				for i, prm := range fn.Params {
					if st.Val == ssa.Value(prm) {
						publisher[fn] = i
					}
				}
			}
		}
	}
	isPub := func(in ssa.Instruction) (*types.Var, bool) {
		if c, isCall := in.(*ssa.Call); isCall {
			if k, isP := publisher[staticCallee(c)]; isP && staticCallee(c) != nil && k < len(c.Call.Args) {
				if u, ok := c.Call.Args[k].(*ssa.UnOp); ok {
					if vfa, ok := u.X.(*ssa.FieldAddr); ok {
						return fieldOfAddr(vfa), true
					}
				}
				return nil, true
			}
			return nil, false
		}
		st, ok := in.(*ssa.Store)
		if !ok {
			return nil, false
		}
		fa, ok := st.Addr.(*ssa.FieldAddr)
		if !ok || fieldOfAddr(fa) != resF {
			return nil, false
		}
		if u, ok := st.Val.(*ssa.UnOp); ok {
			if vfa, ok := u.X.(*ssa.FieldAddr); ok {
				return fieldOfAddr(vfa), true
			}
		}
		return nil, true
	}
	var G *types.Var
	nPub := 0
	for _, b := range yy.Blocks {
		for _, in := range b.Instrs {
			if g, ok := isPub(in); ok {
				nPub++
				if g != nil {
					G = g
				}
			}
		}
	}
	if G == nil {
		r.Fail("C15.R8", "yyParse|publication", p.Pos(yy.Pos()), "no grammar action stores the statement list into the field Parse returns")
		return
	}
	n := 0
	for _, b := range yy.Blocks {
		for idx, in := range b.Instrs {
			st, ok := in.(*ssa.Store)
			if !ok {
				continue
			}
			fa, ok := st.Addr.(*ssa.FieldAddr)
			if !ok || fieldOfAddr(fa) != G || !isNamed(derefType(fa.X.Type()), modPath+"/parser", "yySymType") {
				continue
			}
			if _, isParam := fa.X.(*ssa.Parameter); isParam {
				continue
			}
			n++
			// every path from here to the end of the action publishes the new value
			published := func(blk *ssa.BasicBlock, from int) bool {
				for _, in2 := range blk.Instrs[from:] {
					if _, ok := isPub(in2); ok {
						return true
					}
				}
				return false
			}
			escape := ""
			if !published(b, idx+1) {
				seen := map[*ssa.BasicBlock]bool{}
				work := []*ssa.BasicBlock{}
				next := func(blk *ssa.BasicBlock) []*ssa.BasicBlock {
					// `if l, ok := yylex.(*Lexer); ok { ... }`: only a *Lexer can be published to
					if iff, ok := blk.Instrs[len(blk.Instrs)-1].(*ssa.If); ok {
						if ex, ok := iff.Cond.(*ssa.Extract); ok && ex.Index == 1 {
							if ta, ok := ex.Tuple.(*ssa.TypeAssert); ok && isNamed(derefType(ta.AssertedType), modPath+"/parser", "Lexer") {
								return blk.Succs[:1]
							}
						}
					}
					return blk.Succs
				}
				work = append(work, next(b)...)
				for len(work) > 0 && escape == "" {
					blk := work[len(work)-1]
					work = work[:len(work)-1]
					if seen[blk] {
						continue
					}
					seen[blk] = true
					if len(blk.Preds) > 20 {
						escape = "the end of the action"
						break
					}
					if published(blk, 0) {
						continue
					}
					work = append(work, next(blk)...)
				}
			}
			r.Check(escape == "", "C15.R8", fmt.Sprintf("yyParse|list value set #%d", n), p.Pos(instrPos(st)), "published to the field Parse returns on every path of the action",
				"an action gives the statement list a new value but a path reaches "+escape+" without storing it into the field Parse returns: Parse then returns a stale list (nil, or the list of an inner block)")
		}
	}
	r.Floor("C15.R8", n, 2)
	r.Note("C15.R8 publication stores", nPub)
}

// c15ExactSpelling (R9): a token with a fixed spelling consumes exactly that spelling: on every path of the scanning function that
// ends with the token text set to a constant string, the net movement of the cursor since the token's first character was looked
// at equals the length of that string (an unbalanced look-ahead swallows the character after the token, or returns it twice).
func c15ExactSpelling(p *Program, r *Report, sm *scanModel) {
	var scan *ssa.Function
	for _, fn := range sm.methods {
		if fn.Signature.Results().Len() == 4 {
			scan = fn
		}
	}
	if scan == nil {
		r.Undecided("C15.R9", "Scan", "parser/lexer.go", "scanning method not found")
		return
	}
	// the token text result: a phi at the join the returns load from; find phis of string type whose edges include constants
	var litPhi *ssa.Phi
	best := 0
	for _, b := range scan.Blocks {
		for _, in := range b.Instrs {
			ph, ok := in.(*ssa.Phi)
			if !ok {
				continue
			}
			if bt, ok := ph.Type().Underlying().(*types.Basic); !ok || bt.Kind() != types.String {
				continue
			}
			n := 0
			for _, e := range ph.Edges {
				if c, ok := e.(*ssa.Const); ok && c.Value != nil && constant.StringVal(c.Value) != "" {
					n++
				}
			}
			if n > best {
				best, litPhi = n, ph
			}
		}
	}
	if litPhi == nil || best < 10 {
		r.Undecided("C15.R9", "Scan|token text", p.Pos(scan.Pos()), "the merge of the fixed token spellings was not found")
		return
	}
	join := litPhi.Block()
	// head: the block where the first character of the token is read (the first cursor read that dominates the join)
	var head *ssa.BasicBlock
	for d := join; d != nil; d = d.Idom() {
		for _, in := range d.Instrs {
			if c, callee := sm.recvCall(in); c != nil && sm.peekLike[callee] {
				head = d
			}
		}
	}
	if head == nil {
		r.Undecided("C15.R9", "Scan|head", p.Pos(scan.Pos()), "the read of the token's first character was not found")
		return
	}
	// weights from the head: only primitive cursor moves count; a composite scanner call makes the path "variable"
	primW := func(b *ssa.BasicBlock) (int, bool) {
		w := 0
		for _, in := range b.Instrs {
			_, callee := sm.recvCall(in)
			if callee == nil || sm.pure[callee] {
				continue
			}
			d, ok := sm.step[callee]
			if !ok {
				return 0, false
			}
			w += d
		}
		return w, true
	}
	type wset map[int]bool
	acc := map[*ssa.BasicBlock]wset{}
	variable := map[*ssa.BasicBlock]bool{}
	acc[head] = wset{0: true} // moves inside the head block before the read are blank skipping: start counting after it
	order := []*ssa.BasicBlock{}
	for _, b := range scan.Blocks {
		if b != head && head.Dominates(b) {
			order = append(order, b)
		}
	}
	for iter := 0; iter < len(order)+2; iter++ {
		changed := false
		for _, b := range order {
			if b == join {
				continue
			}
			w, prim := primW(b)
			for _, pr := range b.Preds {
				if b.Dominates(pr) {
					continue // back edge
				}
				if variable[pr] || (!prim && acc[pr] != nil) {
					if !variable[b] && (variable[pr] || !prim) && (acc[pr] != nil || variable[pr]) {
						variable[b] = true
						changed = true
					}
					continue
				}
				for pw := range acc[pr] {
					if acc[b] == nil {
						acc[b] = wset{}
					}
					if !acc[b][pw+w] {
						acc[b][pw+w] = true
						changed = true
					}
				}
			}
		}
		if !changed {
			break
		}
	}
	// moves after the join on the way to the return
	tail, tailOK := 0, true
	for b := join; b != nil; {
		w, prim := primW(b)
		if !prim {
			tailOK = false
			break
		}
		tail += w
		if len(b.Succs) != 1 {
			break
		}
		b = b.Succs[0]
	}
	n, per1 := 0, 0
	for i, e := range litPhi.Edges {
		lit := ""
		if c, ok := e.(*ssa.Const); ok && c.Value != nil {
			lit = constant.StringVal(c.Value)
		} else if cv, ok := e.(*ssa.Convert); ok {
			// string(ch): the single character the token started with
			if bt, ok := cv.X.Type().Underlying().(*types.Basic); ok && bt.Kind() == types.Int32 {
				lit = "\x00"
			}
		}
		if lit == "" {
			continue
		}
		pr := join.Preds[i]
		if variable[pr] || acc[pr] == nil || !tailOK {
			continue
		}
		n++
		want := len([]rune(lit))
		var got []int
		bad := false
		for w := range acc[pr] {
			got = append(got, w+tail)
			if w+tail != want {
				bad = true
			}
		}
		sort.Ints(got)
		name := fmt.Sprintf("%q", lit)
		if lit == "\x00" {
			per1++
			name = fmt.Sprintf("single character #%d", per1)
			lit = "that character"
		}
		r.Check(!bad, "C15.R9", "Scan|token "+name, p.Pos(instrPos(pr.Instrs[len(pr.Instrs)-1])), fmt.Sprintf("consumes %d character(s)", want),
			fmt.Sprintf("the token %q is returned after the cursor moved by %v character(s): the character after it is swallowed (or it is scanned again)", lit, got))
	}
	r.Floor("C15.R9", n, 25)
}

// c15PositionArithmetic (R10): positions are 1-based and columns are counted from the line head. Three constants carry that:
// Position{Line: line+1, Column: offset-lineHead+1}, and, when the cursor passes a newline, lineHead = offset+1 and line = line+1.
// (A column that is off by one leaves "at most one past the end of that line".)
func c15PositionArithmetic(p *Program, r *Report, sm *scanModel) {
	st := sm.scanT.Underlying().(*types.Struct)
	fieldName := func(v ssa.Value) string {
		u, ok := v.(*ssa.UnOp)
		if !ok {
			return ""
		}
		fa, ok := u.X.(*ssa.FieldAddr)
		if !ok || namedOf(derefType(fa.X.Type())) != sm.scanT {
			return ""
		}
		return st.Field(fa.Field).Name()
	}
	// sym: renders loads of scanner fields and +/- constants
	var sym func(v ssa.Value, d int) string
	sym = func(v ssa.Value, d int) string {
		if d > 5 {
			return "?"
		}
		if f := fieldName(v); f != "" {
			return f
		}
		switch x := v.(type) {
		case *ssa.Const:
			if x.Value != nil {
				return x.Value.ExactString()
			}
		case *ssa.BinOp:
			if x.Op == token.ADD || x.Op == token.SUB {
				return "(" + sym(x.X, d+1) + x.Op.String() + sym(x.Y, d+1) + ")"
			}
		}
		return "?"
	}
	cursor := st.Field(sm.offI).Name()
	n := 0
	for _, fn := range sm.methods {
		for _, b := range fn.Blocks {
			for _, in := range b.Instrs {
				store, ok := in.(*ssa.Store)
				if !ok {
					continue
				}
				fa, ok := store.Addr.(*ssa.FieldAddr)
				if !ok {
					continue
				}
				// fields of a Position literal being built
				if isNamed(derefType(fa.X.Type()), modPath+"/ast", "Position") {
					fname := fieldOfAddr(fa).Name()
					got := sym(store.Val, 0)
					switch fname {
					case "Line":
						if strings.Contains(got, "?") {
							continue
						}
						n++
						r.Check(strings.HasSuffix(got, "+1)") && !strings.Contains(got, cursor), "C15.R10", funcName(fn)+"|Line", p.Pos(instrPos(store)), "Line = "+got, "the line of a position is "+got+", not the zero-based line count plus one")
					case "Column":
						if strings.Contains(got, "?") {
							continue
						}
						n++
						// (cursor - lineHead) + 1
						okCol := strings.HasPrefix(got, "(("+cursor+"-") && strings.HasSuffix(got, ")+1)")
						r.Check(okCol, "C15.R10", funcName(fn)+"|Column", p.Pos(instrPos(store)), "Column = "+got, "the column of a position is "+got+", not (cursor - line head) + 1")
					}
					continue
				}
				if namedOf(derefType(fa.X.Type())) != sm.scanT || fa.Field == sm.offI || fa.Field == sm.srcI {
					continue
				}
				// a scanner field assigned from the cursor: the line head
				got := sym(store.Val, 0)
				if strings.Contains(got, cursor) && !strings.Contains(got, "?") {
					n++
					r.Check(got == "("+cursor+"+1)", "C15.R10", funcName(fn)+"|line head", p.Pos(instrPos(store)), st.Field(fa.Field).Name()+" = "+got+" when a newline is passed", "the line head is set to "+got+" when the cursor passes a newline, not to the offset of the character after it: every column on the following line is off by the difference")
					// the line count moves with the line head: in the same block some other field f of the scanner becomes f+1
					counted := false
					for _, in2 := range b.Instrs {
						st2, ok := in2.(*ssa.Store)
						if !ok || st2 == store {
							continue
						}
						fa2, ok := st2.Addr.(*ssa.FieldAddr)
						if !ok || namedOf(derefType(fa2.X.Type())) != sm.scanT || fa2.Field == sm.offI || fa2.Field == fa.Field {
							continue
						}
						if sym(st2.Val, 0) == "("+st.Field(fa2.Field).Name()+"+1)" {
							counted = true
						}
					}
					// the bookkeeping concerns the character that is being left: the cursor has not been moved yet in this call (a
					// line that is counted on arriving at its newline puts the newline itself, and an error reported there, on the
					// following line)
					moved := ""
					for _, b2 := range fn.Blocks {
						for _, in2 := range b2.Instrs {
							st2, ok := in2.(*ssa.Store)
							if !ok {
								continue
							}
							if fa2, ok := st2.Addr.(*ssa.FieldAddr); ok && namedOf(derefType(fa2.X.Type())) == sm.scanT && fa2.Field == sm.offI && instrDominates(st2, store) {
								moved = p.Pos(instrPos(st2))
							}
						}
					}
					n++
					r.Check(moved == "", "C15.R10", funcName(fn)+"|line bookkeeping before the cursor moves", p.Pos(instrPos(store)), "the newline that is tested is the character being left",
						"the cursor is advanced (at "+moved+") before the newline test and the line bookkeeping: a line is counted on arriving at its newline, so the newline character itself, and whatever is reported at it, lies on the following line")
					n++
					r.Check(counted, "C15.R10", funcName(fn)+"|line count moves with the line head", p.Pos(instrPos(store)), "where the line head is set, the line count is incremented",
						"the line head is moved past a newline but no line counter is incremented there: every position after the first newline is reported on the first line, and the statements of a second text are not shifted by the first text's line count")
				}
			}
		}
	}
	r.Floor("C15.R10", n, 5)
}

// c15TokenAssigned (R11): every successful path of the scanning function gives the token a code: the code result never reaches
// the common exit still holding its initial zero (which the parser reads as end of input: the rest of the program vanishes).
func c15TokenAssigned(p *Program, r *Report, sm *scanModel) {
	var scan *ssa.Function
	for _, fn := range sm.methods {
		if fn.Signature.Results().Len() == 4 {
			scan = fn
		}
	}
	if scan == nil {
		return
	}
	// the token-code result of the returns: follow the merges down to the values that are assigned
	n, nChar := 0, 0
	seen := map[*ssa.Phi]bool{}
	var walk func(v ssa.Value, from *ssa.BasicBlock)
	walk = func(v ssa.Value, from *ssa.BasicBlock) {
		if ph, ok := v.(*ssa.Phi); ok {
			if seen[ph] {
				return
			}
			seen[ph] = true
			for i, e := range ph.Edges {
				walk(e, ph.Block().Preds[i])
			}
			return
		}
		n++
		c, isConst := v.(*ssa.Const)
		zero := isConst && c.Value != nil && c.Int64() == 0
		site := p.Pos(scan.Pos())
		if from != nil {
			site = p.Pos(instrPos(from.Instrs[len(from.Instrs)-1]))
		}
		r.Check(!zero, "C15.R11", fmt.Sprintf("Scan|token code #%d", n), site, "a token code is assigned", "a path reaches the end of the scanning function with the token code still zero: the parser takes it for the end of input and silently drops the rest of the program")
		// a character used as its own token code is one of the characters some case names: any other rune would be handed to
		// the parser as whatever token has that number (NUL is the end marker, U+E002.. are the named tokens)
		if cv, ok := v.(*ssa.Convert); ok {
			if bt, ok := cv.X.Type().Underlying().(*types.Basic); ok && bt.Kind() == types.Int32 {
				nChar++
				r.Check(underEquality(cv.Block(), cv.X, map[*ssa.BasicBlock]bool{}), "C15.R11", fmt.Sprintf("Scan|character as token code #%d is a listed character", nChar), p.Pos(instrPos(cv)),
					"reached only under an equality test of the character with a constant", "a character becomes its own token code on a successful path that no `case` naming characters leads to: an arbitrary rune is handed to the parser as the token with that number (a NUL byte is the end-of-input marker: the rest of the text is dropped without an error; U+E002… are IDENT, NUMBER, the keywords)")
			}
		}
	}
	for _, b := range scan.Blocks {
		ret, ok := b.Instrs[len(b.Instrs)-1].(*ssa.Return)
		if !ok {
			continue
		}
		// error returns hand back whatever was there: only returns whose error result can be nil count
		if len(ret.Results) == 4 {
			if _, isPhi := ret.Results[0].(*ssa.Phi); isPhi {
				walk(ret.Results[0], nil)
			}
		}
	}
	r.Floor("C15.R11", n, 20)
}

// c15CharClasses (R12): the character-class predicates of the scanner, evaluated for every ASCII character, are exactly one of the
// classes the language uses (decimal digits, hex digits, binary digits, blanks, line ends); a predicate that is one or two
// characters away from a class is an off-by-one in a range test.
func c15CharClasses(p *Program, r *Report) {
	sp := p.SSAPkg("parser")
	classes := map[string]func(ch int64) bool{
		"decimal digits": func(ch int64) bool { return ch >= '0' && ch <= '9' },
		"hex digits": func(ch int64) bool {
			return (ch >= '0' && ch <= '9') || (ch >= 'a' && ch <= 'f') || (ch >= 'A' && ch <= 'F')
		},
		"binary digits": func(ch int64) bool { return ch == '0' || ch == '1' },
		"blanks":        func(ch int64) bool { return ch == ' ' || ch == '\t' || ch == '\r' },
		"line ends":     func(ch int64) bool { return ch == '\n' || ch == -1 },
	}
	n := 0
	for _, fn := range SrcFuncs(sp) {
		sg := fn.Signature
		if sg.Recv() != nil || sg.Params().Len() != 1 || sg.Results().Len() != 1 || len(fn.Blocks) == 0 {
			continue
		}
		if bt, ok := sg.Params().At(0).Type().Underlying().(*types.Basic); !ok || bt.Kind() != types.Int32 {
			continue
		}
		if bt, ok := sg.Results().At(0).Type().Underlying().(*types.Basic); !ok || bt.Kind() != types.Bool {
			continue
		}
		accept := map[int64]bool{}
		pure := true
		for ch := int64(-1); ch < 128 && pure; ch++ {
			v, ok := evalPurePredicate(fn, ch)
			if !ok {
				pure = false
			}
			if v {
				accept[ch] = true
			}
		}
		if !pure {
			continue // calls other code (unicode tables): not a range predicate
		}
		n++
		best, bestDist := "", 1<<30
		for name, cl := range classes {
			d := 0
			for ch := int64(-1); ch < 128; ch++ {
				if cl(ch) != accept[ch] {
					d++
				}
			}
			if d < bestDist {
				best, bestDist = name, d
			}
		}
		switch {
		case bestDist == 0:
			r.OK("C15.R12", fn.Name()+"|character class", p.Pos(fn.Pos()), "accepts exactly the "+best)
		case bestDist <= 3:
			r.Fail("C15.R12", fn.Name()+"|character class", p.Pos(fn.Pos()), fmt.Sprintf("the predicate differs from the %s in %d character(s): a range test is off by one", best, bestDist))
		default:
			r.OK("C15.R12", fn.Name()+"|character class", p.Pos(fn.Pos()), "a class of its own")
		}
	}
	r.Floor("C15.R12", n, 4)
}

// evalPurePredicate interprets a call-free function of one rune parameter (comparisons with constants, short-circuit phis).
func evalPurePredicate(fn *ssa.Function, ch int64) (bool, bool) {
	val := map[ssa.Value]constant.Value{fn.Params[0]: constant.MakeInt64(ch)}
	var prev *ssa.BasicBlock
	b := fn.Blocks[0]
	get := func(v ssa.Value) (constant.Value, bool) {
		if c, ok := v.(*ssa.Const); ok {
			if c.Value == nil {
				return nil, false
			}
			return c.Value, true
		}
		x, ok := val[v]
		return x, ok
	}
	for steps := 0; steps < 200; steps++ {
		for _, in := range b.Instrs {
			switch x := in.(type) {
			case *ssa.Phi:
				for i, pr := range b.Preds {
					if pr == prev {
						v, ok := get(x.Edges[i])
						if !ok {
							return false, false
						}
						val[x] = v
					}
				}
			case *ssa.BinOp:
				l, ok1 := get(x.X)
				rr, ok2 := get(x.Y)
				if !ok1 || !ok2 {
					return false, false
				}
				switch x.Op {
				case token.EQL, token.NEQ, token.LSS, token.LEQ, token.GTR, token.GEQ:
					val[x] = constant.MakeBool(constant.Compare(l, x.Op, rr))
				default:
					return false, false
				}
			case *ssa.UnOp:
				if x.Op != token.NOT {
					return false, false
				}
				v, ok := get(x.X)
				if !ok {
					return false, false
				}
				val[x] = constant.MakeBool(!constant.BoolVal(v))
			case *ssa.Convert, *ssa.ChangeType:
				var src ssa.Value
				if cv, ok := x.(*ssa.Convert); ok {
					src = cv.X
				} else {
					src = x.(*ssa.ChangeType).X
				}
				v, ok := get(src)
				if !ok {
					return false, false
				}
				val[x.(ssa.Value)] = v
			case *ssa.If:
				v, ok := get(x.Cond)
				if !ok {
					return false, false
				}
				prev = b
				if constant.BoolVal(v) {
					b = b.Succs[0]
				} else {
					b = b.Succs[1]
				}
			case *ssa.Jump:
				prev = b
				b = b.Succs[0]
			case *ssa.Return:
				v, ok := get(x.Results[0])
				if !ok {
					return false, false
				}
				return constant.BoolVal(v), true
			case *ssa.DebugRef:
			default:
				return false, false
			}
		}
	}
	return false, false
}

// c15ActionResults (R13): the semantic value of every grammar rule is defined by that rule: its action assigns $$ on every
// path, or the first right-hand-side symbol carries a value of the same kind (yacc's default $$ = $1). Otherwise the value is
// whatever an earlier reduction left in that slot of the parser's value stack, and the tree depends on what was parsed before.
func c15ActionResults(p *Program, r *Report) {
	r.Explain("R13 every grammar rule defines its own semantic value: $$ assigned on every path that does not fail the parse, or $1 defined (token, or symbol all of whose rules are defined), or the only unassigned case is the all-empty derivation, which a simulation of the LALR tables shows is never reduced.")
	g, err := BuildLALR(p)
	if err != nil {
		return
	}
	isSel := func(e ast.Expr, base string) (string, int, bool) { // yyVAL.F -> (F,0) ; yyDollar[n].F -> (F,n)
		se, ok := e.(*ast.SelectorExpr)
		if !ok {
			return "", 0, false
		}
		switch x := se.X.(type) {
		case *ast.Ident:
			if x.Name == "yyVAL" && base == "yyVAL" {
				return se.Sel.Name, 0, true
			}
		case *ast.IndexExpr:
			if id, ok := x.X.(*ast.Ident); ok && id.Name == "yyDollar" && base == "yyDollar" {
				if bl, ok := x.Index.(*ast.BasicLit); ok {
					n := 0
					fmt.Sscanf(bl.Value, "%d", &n)
					return se.Sel.Name, n, true
				}
			}
		}
		return "", 0, false
	}
	lhsField := map[int]string{} // nonterminal -> union field
	symField := map[int]string{} // symbol -> union field
	for rule, cc := range g.Clauses {
		if cc == nil || rule <= 0 || rule >= len(g.R1) {
			continue
		}
		rhs := g.RHS[rule]
		ast.Inspect(cc, func(n ast.Node) bool {
			e, ok := n.(ast.Expr)
			if !ok {
				return true
			}
			if f, _, ok := isSel(e, "yyVAL"); ok {
				lhsField[g.R1[rule]] = f
				symField[-g.R1[rule]] = f
			}
			if f, k, ok := isSel(e, "yyDollar"); ok && k >= 1 && k <= len(rhs) {
				symField[rhs[k-1]] = f
			}
			return true
		})
	}
	// isError: yylex.Error(...) — the parse fails, no tree is returned, so the rule's value does not matter on that path
	isError := func(st ast.Stmt) bool {
		es, ok := st.(*ast.ExprStmt)
		if !ok {
			return false
		}
		c, ok := es.X.(*ast.CallExpr)
		if !ok {
			return false
		}
		se, ok := c.Fun.(*ast.SelectorExpr)
		if !ok || se.Sel.Name != "Error" {
			return false
		}
		id, ok := se.X.(*ast.Ident)
		return ok && id.Name == "yylex"
	}
	var definitely func(list []ast.Stmt, f string) bool
	definitely = func(list []ast.Stmt, f string) bool {
		for _, st := range list {
			if isError(st) {
				return true
			}
			switch s := st.(type) {
			case *ast.AssignStmt:
				for _, l := range s.Lhs {
					if ff, _, ok := isSel(l, "yyVAL"); ok && ff == f {
						return true
					}
				}
			case *ast.BlockStmt:
				if definitely(s.List, f) {
					return true
				}
			case *ast.IfStmt:
				if s.Else != nil && definitely(s.Body.List, f) && definitely([]ast.Stmt{s.Else}, f) {
					return true
				}
			}
		}
		return false
	}
	assignsSomewhere := func(cc *ast.CaseClause, f string) bool {
		found := false
		if cc == nil {
			return false
		}
		ast.Inspect(cc, func(n ast.Node) bool {
			if as, ok := n.(*ast.AssignStmt); ok {
				for _, l := range as.Lhs {
					if ff, _, ok := isSel(l, "yyVAL"); ok && ff == f {
						found = true
					}
				}
			}
			return true
		})
		return found
	}
	definite := func(rule int, f string) bool {
		cc := g.Clauses[rule]
		return cc != nil && definitely(cc.Body, f)
	}
	var rules []int
	for rule := range g.RHS {
		if rule > 0 && rule < len(g.R1) {
			rules = append(rules, rule)
		}
	}
	sort.Ints(rules)
	// allEmptyFeasible: the tables can reduce rule with its first symbol derived by an empty rule and nothing shifted in between
	// (every right-hand-side symbol derived from nothing, at one and the same lookahead)
	allEmptyFeasible := func(rule int) bool {
		rhs := g.RHS[rule]
		if len(rhs) == 0 || rhs[0] >= 0 {
			return false
		}
		for s0 := 0; s0 < g.NStates; s0++ {
			if !g.Reach[s0] {
				continue
			}
			for t := 1; t <= g.NTok; t++ {
				k, e := g.Action(s0, t)
				if k != actReduce || len(g.RHS[e]) != 0 || -g.R1[e] != rhs[0] {
					continue
				}
				stack := []int{s0, g.Goto(s0, g.R1[e])}
				for step := 0; step < 64; step++ {
					k, a := g.Action(stack[len(stack)-1], t)
					if k != actReduce {
						break
					}
					n := len(g.RHS[a])
					if len(stack)-n < 1 {
						break
					}
					if a == rule && len(stack)-n == 1 {
						return true
					}
					stack = stack[:len(stack)-n]
					stack = append(stack, g.Goto(stack[len(stack)-1], g.R1[a]))
				}
			}
		}
		return false
	}
	// defined[rule]: greatest fixpoint of "assigns $$ on every path, or $1 is a token (all other fields zero) or a symbol all of
	// whose rules are defined, or the only unassigned case is an all-empty derivation the tables never choose"
	guardedOK := map[int]bool{}
	for _, rule := range rules {
		f := lhsField[g.R1[rule]]
		if f != "" && !definite(rule, f) && assignsSomewhere(g.Clauses[rule], f) && !allEmptyFeasible(rule) {
			guardedOK[rule] = true
		}
	}
	type rf struct {
		rule int
		f    string
	}
	undefinedRF := map[rf]bool{}
	fields := map[string]bool{}
	for _, f := range lhsField {
		fields[f] = true
	}
	// every field some action reads from a right-hand-side symbol
	type use struct {
		rule, n int
		f       string
		pos     token.Pos
	}
	var uses []use
	for _, rule := range rules {
		cc := g.Clauses[rule]
		if cc == nil {
			continue
		}
		ast.Inspect(cc, func(nd ast.Node) bool {
			if e, ok := nd.(ast.Expr); ok {
				if f, k, ok := isSel(e, "yyDollar"); ok && k >= 1 && k <= len(g.RHS[rule]) {
					fields[f] = true
					uses = append(uses, use{rule, k, f, e.Pos()})
				}
			}
			return true
		})
	}
	symDefined := func(sym int, f string) bool {
		if sym > 0 {
			return true
		}
		for _, r2 := range rules {
			if g.R1[r2] == -sym && undefinedRF[rf{r2, f}] {
				return false
			}
		}
		return true
	}
	for changed := true; changed; {
		changed = false
		for _, rule := range rules {
			for f := range fields {
				if undefinedRF[rf{rule, f}] {
					continue
				}
				rhs := g.RHS[rule]
				ok := definite(rule, f) || (lhsField[g.R1[rule]] == f && guardedOK[rule]) || (len(rhs) > 0 && symDefined(rhs[0], f))
				if !ok {
					undefinedRF[rf{rule, f}] = true
					changed = true
				}
			}
		}
	}
	// a value read from a right-hand-side symbol is defined: the symbol is a token, or every rule of the symbol defines that field
	nUse := 0
	seenUse := map[string]bool{}
	for _, u := range uses {
		sym := g.RHS[u.rule][u.n-1]
		key := fmt.Sprintf("%d|%d|%s", u.rule, u.n, u.f)
		if seenUse[key] {
			continue
		}
		seenUse[key] = true
		nUse++
		if symDefined(sym, u.f) {
			continue
		}
		r.Fail("C15.R13", fmt.Sprintf("rule %s|$%d.%s read", g.RuleString(u.rule), u.n, u.f), p.Pos(u.pos),
			fmt.Sprintf("the action reads $%d.%s, but symbol %s can derive nothing through a rule that sets no value: what is read is whatever an earlier reduction left in that slot of the value stack (a position taken from it belongs to a token of some earlier text)", u.n, u.f, g.SymName(sym)))
	}
	r.Note("C15.R13 uses of right-hand-side values checked", nUse)
	n := 0
	for _, rule := range rules {
		f := lhsField[g.R1[rule]]
		if f == "" {
			continue
		}
		how := ""
		switch {
		case definite(rule, f):
			how = "the action assigns $$ on every path that does not fail the parse"
		case !undefinedRF[rf{rule, f}] && guardedOK[rule]:
			how = "assigned except when every right-hand-side symbol derives nothing, which the tables never choose for this rule"
		case !undefinedRF[rf{rule, f}]:
			how = "$$ defaults to $1, whose value is defined"
		}
		n++
		pos := "parser/parser.go (tables)"
		if cc := g.Clauses[rule]; cc != nil {
			pos = p.Pos(cc.Pos())
		}
		r.Check(how != "", "C15.R13", "rule "+g.RuleString(rule)+"|result defined", pos, how,
			"the rule's action can leave its result unset while $1 comes from an empty rule that sets nothing: the result is whatever an earlier reduction left in that slot of the value stack, so the tree of a text depends on what was parsed before it (an empty block inherits the statements of a previous block)")
	}
	r.Floor("C15.R13", n, 150)
}

// c15SourceAsGiven (R14): ParseSrc scans exactly the text it was given: the scanner's character buffer is the conversion of the
// parameter itself. Positions are counted on that buffer, so any text added (a final newline, a BOM stripped, a prefix) moves
// or invents positions: an error at the end of the input is then reported on a line the input does not have.
func c15SourceAsGiven(p *Program, r *Report) {
	sp := p.SSAPkg("parser")
	if sp == nil {
		return
	}
	fn, _ := sp.Members["ParseSrc"].(*ssa.Function)
	if fn == nil || len(fn.Params) != 1 {
		r.Undecided("C15.R14", "ParseSrc|source as given", "parser", "ParseSrc(src string) not found")
		return
	}
	n := 0
	for _, b := range fn.Blocks {
		for _, in := range b.Instrs {
			cv, ok := in.(*ssa.Convert)
			if !ok {
				continue
			}
			if _, isSlice := cv.Type().Underlying().(*types.Slice); !isSlice {
				continue
			}
			n++
			r.Check(cv.X == ssa.Value(fn.Params[0]), "C15.R14", fmt.Sprintf("ParseSrc|scanned text #%d is the parameter itself", n), p.Pos(cv.Pos()), "[]rune of the parameter, unmodified",
				"the text handed to the scanner is not the parameter itself (something was added, removed or replaced first): positions are counted on the altered text, so an error can be reported on a line or column the caller's input does not have")
		}
	}
	r.Floor("C15.R14", n, 1)
}

// c15ExitOnCurrent (R15): a scanner loop that advances the cursor and stops on a character (end of line, a quote) decides on
// the character under the cursor when it leaves: between the peek whose value the exit test examines and the test, the cursor is
// not moved. A loop that reads a character, advances, and then tests what it read has consumed the character it stops on: a
// line comment then swallows the newline that terminates the statement before it.
func c15ExitOnCurrent(p *Program, r *Report) {
	sm, err := buildScanModel(p)
	if err != nil {
		return
	}
	n := 0
	for _, fn := range sm.methods {
		perFn := 0
		for _, l := range loopsOf(fn) {
			advances := false
			for b := range l.Body {
				for _, in := range b.Instrs {
					if c, ok := in.(*ssa.Call); ok && sm.step[staticCallee(c)] > 0 {
						advances = true
					}
				}
			}
			if !advances {
				continue
			}
			for _, b := range fn.Blocks {
				if !l.Body[b] {
					continue
				}
				iff, ok := b.Instrs[len(b.Instrs)-1].(*ssa.If)
				if !ok || (l.Body[b.Succs[0]] && l.Body[b.Succs[1]]) {
					continue
				}
				// the peeks the condition depends on
				var peeks []*ssa.Call
				seen := map[ssa.Value]bool{}
				var walk func(v ssa.Value, d int)
				walk = func(v ssa.Value, d int) {
					if v == nil || seen[v] || d > 6 {
						return
					}
					seen[v] = true
					switch x := v.(type) {
					case *ssa.Call:
						if sm.peekLike[staticCallee(x)] {
							peeks = append(peeks, x)
							return
						}
						for _, a := range x.Call.Args {
							walk(a, d+1)
						}
					case *ssa.BinOp:
						walk(x.X, d+1)
						walk(x.Y, d+1)
					case *ssa.UnOp:
						walk(x.X, d+1)
					case *ssa.Phi:
						for _, e := range x.Edges {
							walk(e, d+1)
						}
					}
				}
				walk(iff.Cond, 0)
				if len(peeks) == 0 {
					continue
				}
				perFn++
				n++
				bad := ""
				for _, pk := range peeks {
					// a cursor move between the peek and the test
					if pk.Block() == b {
						for i := instrIndex(pk) + 1; i < len(b.Instrs); i++ {
							if c, ok := b.Instrs[i].(*ssa.Call); ok && sm.step[staticCallee(c)] != 0 {
								bad = "the cursor is moved at " + p.Pos(c.Pos()) + " between reading the character and testing it"
							}
						}
					}
				}
				r.Check(bad == "", "C15.R15", fmt.Sprintf("%s|loop exit #%d decides on the character under the cursor", funcName(fn), perFn), p.Pos(iff.Cond.Pos()), "no cursor move between the peek and the exit test",
					bad+": the loop leaves having consumed the character it stops on (a line comment swallows the newline that ends the statement before it, so two texts that parse alone do not parse when joined)")
			}
		}
	}
	r.Floor("C15.R15", n, 4)
}

// c15ErrorsPropagate (R16): in the hand-written part of package parser, a function that has an error result and tests the error
// of a call hands that very error on when it returns from the failing side. An error kept in a local of its own (a shadowed
// `err`) and a bare return give back "no error": an unterminated comment or string then ends the input silently and the
// source counts as parsed.
func c15ErrorsPropagate(p *Program, r *Report) {
	sp := p.SSAPkg("parser")
	if sp == nil {
		return
	}
	n := 0
	for _, fn := range SrcFuncs(sp) {
		if strings.HasSuffix(p.RealFile(fn.Pos()), "parser.go") {
			continue
		}
		res := fn.Signature.Results()
		errIdx := -1
		for i := 0; i < res.Len(); i++ {
			if isErrorType(res.At(i).Type()) {
				errIdx = i
			}
		}
		if errIdx < 0 {
			continue
		}
		k := 0
		for _, b := range fn.Blocks {
			iff, ok := b.Instrs[len(b.Instrs)-1].(*ssa.If)
			if !ok {
				continue
			}
			bo, ok := iff.Cond.(*ssa.BinOp)
			if !ok || !isNilConst(bo.Y) || (bo.Op != token.NEQ && bo.Op != token.EQL) {
				continue
			}
			ex, ok := bo.X.(*ssa.Extract)
			if !ok || !isErrorType(ex.Type()) {
				continue
			}
			if _, ok := ex.Tuple.(*ssa.Call); !ok {
				continue
			}
			failSucc := b.Succs[0]
			if bo.Op == token.EQL {
				failSucc = b.Succs[1]
			}
			k++
			n++
			var carries func(v ssa.Value, d int) bool
			carries = func(v ssa.Value, d int) bool {
				if d > 6 {
					return false
				}
				if v == ssa.Value(ex) {
					return true
				}
				switch x := v.(type) {
				case *ssa.Phi:
					for _, e := range x.Edges {
						if carries(e, d+1) {
							return true
						}
					}
				case *ssa.MakeInterface:
					return carries(x.X, d+1)
				case *ssa.ChangeInterface:
					return carries(x.X, d+1)
				case *ssa.Call:
					for _, a := range x.Call.Args {
						if carries(a, d+1) {
							return true
						}
					}
				case *ssa.Alloc:
					for _, ref := range *x.Referrers() {
						if st, ok := ref.(*ssa.Store); ok && carries(st.Val, d+1) {
							return true
						}
					}
				case *ssa.UnOp:
					return carries(x.X, d+1)
				case *ssa.Slice:
					return carries(x.X, d+1)
				case *ssa.IndexAddr:
					return carries(x.X, d+1)
				}
				return false
			}
			bad := ""
			// the first returns reached from the failing side
			seen := map[*ssa.BasicBlock]bool{}
			var visit func(x *ssa.BasicBlock)
			visit = func(x *ssa.BasicBlock) {
				if seen[x] {
					return
				}
				seen[x] = true
				if ret, ok := x.Instrs[len(x.Instrs)-1].(*ssa.Return); ok {
					if len(ret.Results) > errIdx && !carries(ret.Results[errIdx], 0) {
						// a different, non-nil error made here is fine too
						if c, ok := ret.Results[errIdx].(*ssa.Const); ok && c.IsNil() {
							bad = "the return at " + p.Pos(instrPos(ret)) + " gives back a nil error"
						} else if ph, ok := ret.Results[errIdx].(*ssa.Phi); ok {
							_ = ph
							bad = "the return at " + p.Pos(instrPos(ret)) + " gives back an error value that does not come from the failed call"
						}
					}
					return
				}
				for _, s2 := range x.Succs {
					visit(s2)
				}
			}
			visit(failSucc)
			r.Check(bad == "", "C15.R16", fmt.Sprintf("%s|failing call #%d: its error is what is returned", funcName(fn), k), p.Pos(ex.Tuple.(*ssa.Call).Pos()), "every return reached from the failing side carries that error",
				bad+": the failure of the call is lost (the error was kept in a local of its own), so the input is taken to have ended normally and a source with an unterminated construct counts as parsed")
		}
	}
	r.Floor("C15.R16", n, 4)
}

// c15CursorPrimitives (R17): the scanner's cursor is moved by its primitives only (the one-step forward and backward functions and
// the absolute setter): they are where the line count and the line head are kept in step with it. A scanning function that writes
// the cursor field itself steps over newlines uncounted, and every later position is off.
func c15CursorPrimitives(p *Program, r *Report) {
	sm, err := buildScanModel(p)
	if err != nil {
		return
	}
	n := 0
	for _, fn := range sm.methods {
		writes := 0
		for _, b := range fn.Blocks {
			for _, in := range b.Instrs {
				if st, ok := in.(*ssa.Store); ok {
					if fa, ok := st.Addr.(*ssa.FieldAddr); ok && fa.Field == sm.offI && namedOf(derefType(fa.X.Type())) == sm.scanT {
						writes++
					}
				}
			}
		}
		if writes == 0 {
			continue
		}
		n++
		// a primitive: no loop, no call of another cursor-moving method, at most a handful of blocks
		prim := len(loopsOf(fn)) == 0 && len(fn.Blocks) <= 6
		for _, b := range fn.Blocks {
			for _, in := range b.Instrs {
				if c, ok := in.(*ssa.Call); ok && sm.step[staticCallee(c)] != 0 {
					prim = false
				}
			}
		}
		r.Check(prim, "C15.R17", funcName(fn)+"|writes the cursor", p.Pos(fn.Pos()), "a cursor primitive (no loop, no other cursor move)",
			"a scanning function writes the cursor field itself instead of going through the one-step primitives: newlines it steps over are not counted and the line head is not moved, so positions after it (and of a text parsed after this one) are wrong")
	}
	r.Floor("C15.R17", n, 2)
}

// underEquality: block b is reached only through true edges of `ch == constant` tests (directly, or through blocks that are).
func underEquality(b *ssa.BasicBlock, ch ssa.Value, seen map[*ssa.BasicBlock]bool) bool {
	if seen[b] {
		return true // a cycle adds no new way in
	}
	seen[b] = true
	if len(b.Preds) == 0 {
		return false
	}
	for _, pr := range b.Preds {
		ok := false
		if iff, isIf := pr.Instrs[len(pr.Instrs)-1].(*ssa.If); isIf {
			if bo, isBo := iff.Cond.(*ssa.BinOp); isBo && bo.X == ch {
				if _, isK := bo.Y.(*ssa.Const); isK {
					if (bo.Op == token.EQL && pr.Succs[0] == b && pr.Succs[1] != b) || (bo.Op == token.NEQ && pr.Succs[1] == b && pr.Succs[0] != b) {
						ok = true
					}
				}
			}
		}
		if !ok && !underEquality(pr, ch, seen) {
			return false
		}
	}
	return true
}

// c15TerminatorsCompose (R18): two texts that parse, joined by a newline, parse to the two statement lists one after the other.
// The second text may begin with any statement terminator (a text that is only ";" parses, so does ";a"), and the join adds a
// terminator of its own: so wherever a statement may begin after a terminator — the states of the automaton reached by the
// statement list followed by a terminator — every terminator token must be acceptable again (through the empty statement).
// Decided on the generated tables: for each such state and each terminator token the automaton is run (default and
// look-ahead reductions included) until it shifts the token; an error action is reported.
func c15TerminatorsCompose(p *Program, r *Report) {
	g, err := BuildLALR(p)
	if err != nil {
		r.Undecided("C15.R18", "tables", "parser/parser.go", err.Error())
		return
	}
	// the recursive list rule A -> A B C with A the start symbol's list: the one whose A is reachable from rule 1's right-hand side
	listRule := -1
	for rule := 1; rule < len(g.R1); rule++ {
		rhs := g.RHS[rule]
		if len(rhs) == 3 && rhs[0] == -g.R1[rule] && rhs[1] < 0 && rhs[2] < 0 && rhs[1] != rhs[0] && rhs[2] != rhs[0] {
			// the separator derives only tokens (terminators): all rules below it have token-only or same-family right-hand sides
			if _, ok := terminatorTokens(g, -rhs[1]); ok {
				if listRule < 0 {
					listRule = rule
				}
			}
		}
	}
	if listRule < 0 {
		r.Undecided("C15.R18", "statement list rule", "parser/parser.go", "no rule of the form list -> list separator element with a token-only separator found")
		return
	}
	A, B := g.RHS[listRule][0], g.RHS[listRule][1]
	terms, _ := terminatorTokens(g, -B)
	var toks []int
	for t := range terms {
		toks = append(toks, t)
	}
	sort.Ints(toks)
	n := 0
	var starts []int
	for s := range g.Reach {
		starts = append(starts, s)
	}
	sort.Ints(starts)
	seen := map[[2]int]bool{}
	for _, p0 := range starts {
		s1, ok := g.Edges[p0][A]
		if !ok {
			continue
		}
		q, ok := g.Edges[s1][B]
		if !ok {
			continue
		}
		for _, t := range toks {
			if seen[[2]int{q, t}] {
				continue
			}
			seen[[2]int{q, t}] = true
			n++
			stack := []int{p0, s1, q}
			verdict := ""
			for step := 0; step < 50 && verdict == ""; step++ {
				kind, arg := g.Action(stack[len(stack)-1], t)
				switch kind {
				case actShift:
					verdict = "shift"
				case actReduce:
					k := len(g.RHS[arg])
					if k >= len(stack) {
						verdict = "shift" // reduces past the part of the stack that is modelled: the list was completed, not refused
						break
					}
					stack = stack[:len(stack)-k]
					stack = append(stack, g.Goto(stack[len(stack)-1], g.R1[arg]))
				case actAccept:
					verdict = "shift"
				default:
					verdict = "error"
				}
			}
			r.Check(verdict == "shift", "C15.R18", fmt.Sprintf("%s %s . %s", g.SymName(A), g.SymName(B), g.TokName(t)), "parser/parser.go (tables)",
				"after a statement list and a terminator another terminator is accepted (empty statement)",
				fmt.Sprintf("in state %d, reached after a statement list and a terminator, the terminator %s is a syntax error: a text ending in a newline followed by a text beginning with %s no longer parses although each does", q, g.TokName(t), g.TokName(t)))
		}
	}
	r.Floor("C15.R18", n, 2)
}

// terminatorTokens: the tokens nonterminal nt derives, when everything below nt consists of tokens and of nonterminals of the
// same kind (a separator such as `term: ';' newlines | newlines | ';'`).
func terminatorTokens(g *LALR, nt int) (map[int]bool, bool) {
	toks := map[int]bool{}
	seen := map[int]bool{}
	var visit func(x int) bool
	visit = func(x int) bool {
		if seen[x] {
			return true
		}
		seen[x] = true
		found := false
		for rule := 1; rule < len(g.R1); rule++ {
			if g.R1[rule] != x {
				continue
			}
			found = true
			if len(g.RHS[rule]) == 0 {
				return false // can be empty: not a separator
			}
			for _, s := range g.RHS[rule] {
				if s > 0 {
					toks[s] = true
				} else if !visit(-s) {
					return false
				}
			}
		}
		return found && len(seen) <= 4
	}
	ok := visit(nt)
	return toks, ok && len(toks) > 0 && len(toks) <= 3
}
