package main

// checkParsePath enumerates the may-panic instructions of packages parser and ast (placeholder until the E6 analyses land).
func checkParsePath(p *Program, r *Report, rule string) {}
